// Package sched is the exploration core of the /verif machinery: a choice-sequence recorder
// (Chooser), a stateless depth-first explorer with deviation bounding over it (Explore), and a
// cooperative thread scheduler (Sched) whose scheduling decisions are Chooser choices.
// It depends on the standard library only, so istio packages compiled against the sync shim can
// link it without import cycles.
package sched

import (
	"fmt"
)

// Point is one recorded choice point of an execution.
type Point struct {
	N      int   // number of alternatives
	Chosen int   // alternative taken
	Costs  []int // deviation cost of each alternative (Costs[0] is always 0)
	Label  string
}

// Chooser replays a prefix of choices and then takes alternative 0 everywhere.
type Chooser struct {
	Prefix []int
	Trace  []Point
	// Diverged is set when the prefix asked for an alternative that does not exist: the execution is
	// not the one recorded (nondeterminism that the harness does not own) and nothing it shows counts.
	Diverged string
}

func NewChooser(prefix []int) *Chooser { return &Chooser{Prefix: prefix} }

// Choose returns an index in [0,n). cost(i) is the deviation cost of alternative i (nil = 1 for i>0).
func (c *Chooser) Choose(n int, label string, cost func(i int) int) int {
	if n <= 0 {
		panic("sched: Choose with no alternatives")
	}
	costs := make([]int, n)
	for i := 1; i < n; i++ {
		if cost == nil {
			costs[i] = 1
		} else {
			costs[i] = cost(i)
		}
	}
	k := 0
	pos := len(c.Trace)
	if pos < len(c.Prefix) {
		k = c.Prefix[pos]
		if k >= n {
			if c.Diverged == "" {
				c.Diverged = fmt.Sprintf("choice %d (%s): prefix wants alternative %d of %d", pos, label, k, n)
			}
			k = 0
		}
	}
	c.Trace = append(c.Trace, Point{N: n, Chosen: k, Costs: costs, Label: label})
	return k
}

// Choices returns the choice vector of the execution so far.
func (c *Chooser) Choices() []int {
	out := make([]int, len(c.Trace))
	for i, p := range c.Trace {
		out[i] = p.Chosen
	}
	return out
}

// Cost returns the total deviation cost of the execution so far.
func (c *Chooser) Cost() int {
	t := 0
	for _, p := range c.Trace {
		t += p.Costs[p.Chosen]
	}
	return t
}

// ExploreOpts bounds and shards an exploration.
type ExploreOpts struct {
	Bound      int // maximal total deviation cost; <0 = unbounded
	Shard, Of  int // this worker explores subtrees i with i%Of == Shard (Of<=1: everything)
	ShardDepth int // number of non-default choices at which subtrees are dealt out (default 2)
	MaxExec    int64
	Deadline   func() bool // returns true when the exploration must stop
}

// ExploreStats is what an exploration covered.
type ExploreStats struct {
	Executions int64 // executions run by this worker that it owns (counted once across shards)
	Replayed   int64 // executions run only to reach owned subtrees
	Points     int64 // choice points passed in owned executions
	MaxDepth   int
	Capped     string // non-empty when a cap or deadline stopped the exploration
	Diverged   string
}

// Explore runs run(c) for every choice vector within the bound (depth first, fewest deviations
// first along each path). run reports whether exploration may continue below this execution
// (false prunes the subtree, used for state-key pruning); owned tells run whether this worker
// counts/checks the execution (executions above the sharding depth are run by every worker but
// owned by shard 0 only).
func Explore(o ExploreOpts, run func(c *Chooser, owned bool) bool) ExploreStats {
	if o.ShardDepth == 0 {
		o.ShardDepth = 2
	}
	var st ExploreStats
	subtree := 0
	var rec func(prefix []int, devs int, mine bool)
	rec = func(prefix []int, devs int, mine bool) {
		if st.Capped != "" || st.Diverged != "" {
			return
		}
		if o.Deadline != nil && o.Deadline() {
			st.Capped = "deadline"
			return
		}
		if o.MaxExec > 0 && st.Executions+st.Replayed >= o.MaxExec {
			st.Capped = "max executions"
			return
		}
		owned := mine
		if o.Of > 1 && devs < o.ShardDepth {
			owned = o.Shard == 0
		}
		c := NewChooser(prefix)
		cont := run(c, owned)
		if c.Diverged != "" {
			st.Diverged = c.Diverged
			return
		}
		if owned {
			st.Executions++
			st.Points += int64(len(c.Trace))
			if len(c.Trace) > st.MaxDepth {
				st.MaxDepth = len(c.Trace)
			}
		} else {
			st.Replayed++
		}
		if !cont {
			return
		}
		cost := 0
		for i := 0; i < len(c.Trace); i++ {
			p := c.Trace[i]
			if i >= len(prefix) {
				for alt := 1; alt < p.N; alt++ {
					if o.Bound >= 0 && cost+p.Costs[alt] > o.Bound {
						continue
					}
					np := make([]int, i+1)
					for j := 0; j < i; j++ {
						np[j] = c.Trace[j].Chosen
					}
					np[i] = alt
					childMine := mine
					if o.Of > 1 && devs+1 == o.ShardDepth {
						childMine = subtree%o.Of == o.Shard
						subtree++
						if !childMine {
							continue
						}
					}
					rec(np, devs+1, childMine)
				}
			}
			cost += p.Costs[p.Chosen]
		}
	}
	rec(nil, 0, o.Of <= 1)
	return st
}
