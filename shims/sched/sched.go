package sched

import (
	"fmt"
	"runtime"
	"sort"
	"strings"
	"sync"
	"sync/atomic"
	"testing/synctest"
)

// Sched is a cooperative scheduler for goroutines running inside one testing/synctest bubble.
// At most one managed thread runs at a time; every other managed thread is parked at a scheduling
// point (before a lock acquisition of the sync shim, or at an explicit Yield). After releasing a
// thread the scheduler calls synctest.Wait(), which returns exactly when every goroutine of the
// bubble is durably blocked: the released thread has then reached its next point, finished, or is
// blocked in the code under test (on a channel, timer or condition) - "blocked in code".
type Sched struct {
	ch      *Chooser
	mu      sync.Mutex // guards threads/byGoid against unmanaged goroutines registering concurrently
	threads []*Thread
	byGoid  map[uint64]*Thread
	root    uint64
	cur     int // id of the thread that ran last (-1: none)
	Log     []string
	// EnvSteps, when set, is consulted when no managed thread is enabled but some are blocked in
	// code: it may advance virtual time or deliver an environment event and report true.
	EnvStep func() bool
	// Deadlock is set when no thread is enabled, not all have finished and EnvStep made no progress.
	Deadlock string
	// MaxSteps bounds one execution (a livelock guard); 0 = 10000.
	MaxSteps int
	steps    int
	envSteps int
	// OnStep, when set, is called before each scheduling decision (all threads quiescent); returning
	// false stops the execution (state-key pruning).
	OnStep  func(s *Sched) bool
	Stopped bool
	trace   bool
}

type reqKind int

const (
	reqNone reqKind = iota
	reqStart
	reqYield
	reqLock
	reqRLock
)

const (
	stNew int32 = iota
	stParked
	stRunning
	stDone
)

// Thread is one managed goroutine.
type Thread struct {
	ID     int
	Name   string
	wake   chan struct{}
	state  atomic.Int32
	kind   reqKind
	lock   *LockState
	label  string
	Steps  int // scheduling points passed
	Auto   bool
	Result any
}

// LockState is the bookkeeping the sync shim keeps per mutex while a scheduler is active.
type LockState struct {
	Writer  bool
	Readers int
}

var active atomic.Pointer[Sched]

// Active returns the scheduler in force, or nil.
func Active() *Sched { return active.Load() }

// New installs a scheduler driven by c. Must be called inside a synctest bubble; Close removes it.
func New(c *Chooser) *Sched {
	s := &Sched{ch: c, byGoid: map[uint64]*Thread{}, root: runtime.VerifGoid(), cur: -1}
	active.Store(s)
	return s
}

func (s *Sched) Close() { active.CompareAndSwap(s, nil) }

// Managed reports whether the calling goroutine is scheduled by s (the root goroutine is not).
func (s *Sched) Managed() bool { return runtime.VerifGoid() != s.root }

// Go starts fn as a managed thread; it does not run until the scheduler picks it.
func (s *Sched) Go(name string, fn func() any) *Thread {
	t := &Thread{ID: len(s.threads), Name: name, wake: make(chan struct{})}
	s.threads = append(s.threads, t)
	ready := make(chan struct{})
	go func() {
		s.mu.Lock()
		s.byGoid[runtime.VerifGoid()] = t
		s.mu.Unlock()
		t.kind, t.label = reqStart, "start"
		t.state.Store(stParked)
		close(ready)
		<-t.wake
		t.Result = fn()
		t.state.Store(stDone)
	}()
	<-ready
	return t
}

// self returns the managed thread of the calling goroutine, registering an unknown goroutine
// (one spawned by the code under test) as a new thread.
func (s *Sched) self() *Thread {
	id := runtime.VerifGoid()
	s.mu.Lock()
	defer s.mu.Unlock()
	if t, ok := s.byGoid[id]; ok {
		return t
	}
	t := &Thread{ID: len(s.threads), Name: fmt.Sprintf("auto%d", len(s.threads)), wake: make(chan struct{}), Auto: true}
	s.threads = append(s.threads, t)
	s.byGoid[id] = t
	t.state.Store(stRunning)
	return t
}

func (s *Sched) park(kind reqKind, l *LockState, label string) {
	t := s.self()
	t.kind, t.lock, t.label = kind, l, label
	t.state.Store(stParked)
	<-t.wake
}

// Yield is an explicit scheduling point.
func (s *Sched) Yield(label string) { s.park(reqYield, nil, label) }

// Lock / RLock are called by the sync shim before an acquisition; on return the lock is held.
func (s *Sched) Lock(l *LockState, label string) {
	s.park(reqLock, l, label)
	if l.Writer || l.Readers > 0 {
		panic("sched: lock granted while held")
	}
	l.Writer = true
}

func (s *Sched) RLock(l *LockState, label string) {
	s.park(reqRLock, l, label)
	if l.Writer {
		panic("sched: rlock granted while write-held")
	}
	l.Readers++
}

func (s *Sched) Unlock(l *LockState) {
	if !l.Writer {
		panic("sync: unlock of unlocked mutex")
	}
	l.Writer = false
}

func (s *Sched) RUnlock(l *LockState) {
	if l.Readers <= 0 {
		panic("sync: RUnlock of unlocked RWMutex")
	}
	l.Readers--
}

func (t *Thread) enabled() bool {
	if t.state.Load() != stParked {
		return false
	}
	switch t.kind {
	case reqLock:
		return !t.lock.Writer && t.lock.Readers == 0
	case reqRLock:
		return !t.lock.Writer
	}
	return true
}

func (t *Thread) Done() bool { return t.state.Load() == stDone }

// Threads returns the managed threads (including auto-registered ones).
func (s *Sched) Threads() []*Thread { return s.threads }

// PCs is a canonical string of every thread's position, for state keys.
func (s *Sched) PCs() string {
	var b strings.Builder
	for _, t := range s.threads {
		fmt.Fprintf(&b, "%d:%d:%d:%s;", t.ID, t.state.Load(), t.Steps, t.label)
	}
	return b.String()
}

// Run schedules until every thread has finished, a deadlock is detected or the step cap is hit.
// It returns true when all managed threads finished.
func (s *Sched) Run() bool {
	max := s.MaxSteps
	if max == 0 {
		max = 10000
	}
	for {
		synctest.Wait()
		var en []*Thread
		allDone := true
		blocked := 0
		for _, t := range s.threads {
			switch {
			case t.state.Load() == stDone:
			case t.enabled():
				en = append(en, t)
				allDone = false
			case t.Auto && t.state.Load() == stRunning:
				// an adopted background goroutine (timer callback, watcher loop) that went back to waiting
				// for its next event: it never "finishes" and does not keep the execution alive
			default:
				allDone = false
				if t.state.Load() == stRunning {
					blocked++
				}
			}
		}
		if allDone {
			return true
		}
		if len(en) == 0 {
			s.envSteps++
			if blocked > 0 && s.EnvStep != nil && s.envSteps < 100000 && s.EnvStep() {
				continue
			}
			var w []string
			for _, t := range s.threads {
				if !t.Done() {
					w = append(w, fmt.Sprintf("%s@%s(state %d)", t.Name, t.label, t.state.Load()))
				}
			}
			s.Deadlock = "no enabled thread: " + strings.Join(w, ", ")
			return false
		}
		if s.OnStep != nil && !s.OnStep(s) {
			s.Stopped = true
			return false
		}
		s.steps++
		if s.steps > max {
			s.Deadlock = "step cap reached (livelock?)"
			return false
		}
		// canonical order: the thread that ran last first (if still enabled), then ascending ids
		sort.SliceStable(en, func(i, j int) bool {
			ci, cj := en[i].ID == s.cur, en[j].ID == s.cur
			if ci != cj {
				return ci
			}
			return en[i].ID < en[j].ID
		})
		curEnabled := len(en) > 0 && en[0].ID == s.cur
		k := 0
		if len(en) > 1 {
			k = s.ch.Choose(len(en), "sched", func(i int) int {
				if curEnabled {
					return 1 // switching away from a runnable thread is a preemption
				}
				return 0
			})
		}
		t := en[k]
		s.Log = append(s.Log, fmt.Sprintf("%s:%s", t.Name, t.label))
		s.cur = t.ID
		t.Steps++
		t.state.Store(stRunning)
		t.wake <- struct{}{}
	}
}

// Abandon releases every parked thread so the bubble can end after a stopped execution. The threads
// run to completion one after the other in id order (locks are granted in that order); a thread
// that cannot finish stays blocked and the caller must treat the execution as lost.
func (s *Sched) Abandon() {
	s.OnStep = nil
	s.ch = NewChooser(nil)
	s.Run()
}

// Choose lets a managed thread or the harness draw an environment answer from the execution's
// choice sequence (so that it is enumerated and replayed like scheduling decisions).
func (s *Sched) Choose(n int, label string, cost func(int) int) int {
	s.mu.Lock()
	defer s.mu.Unlock()
	return s.ch.Choose(n, label, cost)
}
