// Package vsync is a drop-in replacement for the parts of package sync that the istio files under
// interleaving exploration use. Files are compiled against it by an overlay import rewrite
// (`sync "istio.io/istio/pkg/verifshim/vsync"`); /repo is not modified.
//
// While no scheduler is installed (package initialisation, harness set-up on the root goroutine)
// the types behave exactly like their sync counterparts. While a sched.Sched is active, an
// acquisition by a managed goroutine is a scheduling point and the lock itself is bookkeeping: the
// scheduler runs one thread at a time and only grants a lock that is free.
package vsync

import (
	"sync"

	"istio.io/istio/pkg/verifshim/sched"
)

type (
	Once      = sync.Once
	WaitGroup = sync.WaitGroup
	Map       = sync.Map
	Pool      = sync.Pool
	Locker    = sync.Locker
)

type Mutex struct {
	real sync.Mutex
	st   sched.LockState
	Name string
}

func managed() *sched.Sched {
	s := sched.Active()
	if s == nil || !s.Managed() {
		return nil
	}
	return s
}

func (m *Mutex) Lock() {
	if s := managed(); s != nil {
		s.Lock(&m.st, "Lock")
		return
	}
	m.real.Lock()
}

func (m *Mutex) Unlock() {
	if s := managed(); s != nil {
		s.Unlock(&m.st)
		return
	}
	m.real.Unlock()
}

func (m *Mutex) TryLock() bool {
	if s := managed(); s != nil {
		if m.st.Writer {
			return false
		}
		s.Lock(&m.st, "TryLock")
		return true
	}
	return m.real.TryLock()
}

type RWMutex struct {
	real sync.RWMutex
	st   sched.LockState
}

func (m *RWMutex) Lock() {
	if s := managed(); s != nil {
		s.Lock(&m.st, "Lock")
		return
	}
	m.real.Lock()
}

func (m *RWMutex) Unlock() {
	if s := managed(); s != nil {
		s.Unlock(&m.st)
		return
	}
	m.real.Unlock()
}

func (m *RWMutex) RLock() {
	if s := managed(); s != nil {
		s.RLock(&m.st, "RLock")
		return
	}
	m.real.RLock()
}

func (m *RWMutex) RUnlock() {
	if s := managed(); s != nil {
		s.RUnlock(&m.st)
		return
	}
	m.real.RUnlock()
}

func (m *RWMutex) RLocker() sync.Locker { return (*rlocker)(m) }

type rlocker RWMutex

func (r *rlocker) Lock()   { (*RWMutex)(r).RLock() }
func (r *rlocker) Unlock() { (*RWMutex)(r).RUnlock() }
