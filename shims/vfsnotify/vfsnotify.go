// Package vfsnotify is a channel-only stand-in for github.com/fsnotify/fsnotify for code explored in a
// testing/synctest bubble (the real watcher's inotify reader sits in a syscall and is never durably
// blocked). File events are delivered by the harness through Inject.
package vfsnotify

import (
	"strings"
	"sync"
)

type Op uint32

const (
	Create Op = 1 << iota
	Write
	Remove
	Rename
	Chmod
)

func (o Op) Has(h Op) bool { return o&h != 0 }
func (o Op) String() string {
	var s []string
	for _, x := range []struct {
		op Op
		n  string
	}{{Create, "CREATE"}, {Write, "WRITE"}, {Remove, "REMOVE"}, {Rename, "RENAME"}, {Chmod, "CHMOD"}} {
		if o.Has(x.op) {
			s = append(s, x.n)
		}
	}
	return strings.Join(s, "|")
}

type Event struct {
	Name string
	Op   Op
}

func (e Event) Has(op Op) bool { return e.Op.Has(op) }
func (e Event) String() string { return e.Op.String() + " " + e.Name }

type Watcher struct {
	Events chan Event
	Errors chan error
	mu     sync.Mutex
	paths  map[string]bool
	closed bool
}

var (
	regMu    sync.Mutex
	watchers []*Watcher
)

func NewWatcher() (*Watcher, error) {
	w := &Watcher{Events: make(chan Event, 16), Errors: make(chan error, 1), paths: map[string]bool{}}
	regMu.Lock()
	watchers = append(watchers, w)
	regMu.Unlock()
	return w, nil
}

func (w *Watcher) Add(p string) error {
	w.mu.Lock()
	defer w.mu.Unlock()
	w.paths[p] = true
	return nil
}

func (w *Watcher) Remove(p string) error {
	w.mu.Lock()
	defer w.mu.Unlock()
	delete(w.paths, p)
	return nil
}

func (w *Watcher) WatchList() []string {
	w.mu.Lock()
	defer w.mu.Unlock()
	var out []string
	for p := range w.paths {
		out = append(out, p)
	}
	return out
}

func (w *Watcher) Close() error {
	w.mu.Lock()
	defer w.mu.Unlock()
	if !w.closed {
		w.closed = true
		close(w.Events)
		close(w.Errors)
	}
	return nil
}

// Last returns the most recently created watcher (harness access).
func Last() *Watcher {
	regMu.Lock()
	defer regMu.Unlock()
	if len(watchers) == 0 {
		return nil
	}
	return watchers[len(watchers)-1]
}

// Inject delivers an event as the kernel would.
func (w *Watcher) Inject(e Event) { w.Events <- e }
