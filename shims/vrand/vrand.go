// Package vrand stands in for math/rand/v2 in code whose random draws the harness decides.
package vrand

import "math/rand/v2"

// Float64Fn / IntNFn, when set, answer the draws; otherwise the real generator is used.
var (
	Float64Fn func() float64
	IntNFn    func(n int) int
)

func Float64() float64 {
	if Float64Fn != nil {
		return Float64Fn()
	}
	return rand.Float64()
}

func IntN(n int) int {
	if IntNFn != nil {
		return IntNFn(n)
	}
	return rand.IntN(n)
}
