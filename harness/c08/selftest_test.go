// C08: the reference models are checked against the worked examples of the two API documentations
// before every run (a failure here is an infrastructure error, not a violation).
package c08

import (
	"fmt"
	"testing"

	core "github.com/envoyproxy/go-control-plane/envoy/config/core/v3"
	rbacpb "github.com/envoyproxy/go-control-plane/envoy/config/rbac/v3"
	routepb "github.com/envoyproxy/go-control-plane/envoy/config/route/v3"
	uritemplate "github.com/envoyproxy/go-control-plane/envoy/extensions/path/match/uri_template/v3"
	matcherpb "github.com/envoyproxy/go-control-plane/envoy/type/matcher/v3"
	"google.golang.org/protobuf/types/known/anypb"
	"google.golang.org/protobuf/types/known/wrapperspb"

	authzpb "istio.io/api/security/v1beta1"
)

func selfTest() (msg string) {
	defer func() {
		if r := recover(); r != nil {
			msg = fmt.Sprint("panic: ", r)
		}
	}()
	fail := func(format string, a ...any) {
		if msg == "" {
			msg = fmt.Sprintf(format, a...)
		}
	}
	// --- "Any string field in the rule supports Exact, Prefix, Suffix and Presence match"
	for _, c := range []struct {
		pat, val string
		want     tv
	}{
		{"abc", "abc", T}, {"abc", "abcd", F}, {"abc*", "abc", T}, {"abc*", "abcd", T}, {"abc*", "ab", F},
		{"*abc", "abc", T}, {"*abc", "xabc", T}, {"*abc", "abcx", F}, {"*", "", F}, {"*", "x", T},
	} {
		if got := strMatch(c.pat, c.val); got != c.want {
			fail("strMatch(%q,%q)=%v want %v", c.pat, c.val, got, c.want)
		}
	}
	// --- path template examples of Operation.paths
	for _, c := range []struct {
		tmpl, path string
		want       tv
	}{
		{"/foo/{*}", "/foo/bar", T}, {"/foo/{*}", "/foo/bar/baz", F},
		{"/foo/{*}/bar/{**}", "/foo/buzz/bar/", T}, {"/foo/{*}/bar/{**}", "/foo/buzz/bar/baz", T},
		{"/foo/{**}/", "/foo/bar/", T}, {"/foo/{**}/", "/foo//", T}, {"/foo/{**}/", "/foo/bar", F},
		{"/foo/{*}", "/foo/", U}, {"/foo/{**}", "/foo", U}, {"/foo/{**}", "/fooo", F},
	} {
		got, ok := templateMatch(c.tmpl, c.path)
		if !ok || got != c.want {
			fail("templateMatch(%q,%q)=%v,%v want %v", c.tmpl, c.path, got, ok, c.want)
		}
	}
	if _, ok := templateMatch("/*/baz/{*}", "/x/baz/y"); ok {
		fail("template with * outside an operator must be invalid")
	}

	// --- the httpbin example of the AuthorizationPolicy documentation
	httpbin := polIn{NS: "foo", Name: "httpbin", Spec: &authzpb.AuthorizationPolicy{
		Action: authzpb.AuthorizationPolicy_ALLOW,
		Rules: []*authzpb.Rule{{
			From: []*authzpb.Rule_From{
				{Source: &authzpb.Source{Principals: []string{"cluster.local/ns/default/sa/sleep"}}},
				{Source: &authzpb.Source{Namespaces: []string{"test"}}},
			},
			To: []*authzpb.Rule_To{
				{Operation: &authzpb.Operation{Methods: []string{"GET"}, Paths: []string{"/info*"}}},
				{Operation: &authzpb.Operation{Methods: []string{"POST"}, Paths: []string{"/data"}}},
			},
			When: []*authzpb.Condition{{Key: "request.auth.claims[iss]", Values: []string{"https://accounts.google.com"}}},
		}},
	}}
	mesh := meshCfg{TrustDomain: "cluster.local"}
	req := func(peer, method, path, iss string) *request {
		r := baseRequest(true)
		r.Peer, r.Method, r.Path = peer, method, path
		r.JWT = nil
		if iss != "" {
			r.JWT = map[string]any{"iss": iss, "sub": "s"}
		}
		return r
	}
	for _, c := range []struct {
		r    *request
		want tv
	}{
		{req("cluster.local/ns/default/sa/sleep", "GET", "/info/x", "https://accounts.google.com"), T},
		{req("cluster.local/ns/test/sa/any", "POST", "/data", "https://accounts.google.com"), T},
		{req("cluster.local/ns/test/sa/any", "POST", "/info", "https://accounts.google.com"), F},
		{req("cluster.local/ns/other/sa/any", "GET", "/info", "https://accounts.google.com"), F},
		{req("cluster.local/ns/test/sa/any", "GET", "/info", ""), F},
		{req("", "GET", "/info", "https://accounts.google.com"), F},
	} {
		ev := &istioEval{mesh: mesh, req: c.r}
		if got := ev.verdict([]polIn{httpbin}); got != c.want || ev.degraded {
			fail("httpbin example: %s => %v want %v", c.r, got, c.want)
		}
	}
	// --- "It denies all the requests with POST method on port 8080 ... all TCP traffic on port 8080 would be denied"
	denyPost := polIn{NS: "foo", Name: "d", Spec: &authzpb.AuthorizationPolicy{
		Action: authzpb.AuthorizationPolicy_DENY,
		Rules:  []*authzpb.Rule{{To: []*authzpb.Rule_To{{Operation: &authzpb.Operation{Methods: []string{"POST"}, Ports: []string{"8080"}}}}}},
	}}
	for _, c := range []struct {
		http   bool
		method string
		port   uint32
		want   tv
	}{{true, "POST", 8080, F}, {true, "GET", 8080, T}, {true, "POST", 80, T}, {false, "", 8080, F}, {false, "", 80, T}} {
		r := baseRequest(c.http)
		r.Method, r.DstPort = c.method, c.port
		ev := &istioEval{mesh: mesh, req: r}
		if got := ev.verdict([]polIn{denyPost}); got != c.want {
			fail("deny POST 8080 example: %s => %v want %v", r, got, c.want)
		}
	}
	// --- allow-nothing, allow-all
	nothing := polIn{NS: "foo", Name: "n", Spec: &authzpb.AuthorizationPolicy{}}
	all := polIn{NS: "foo", Name: "a", Spec: &authzpb.AuthorizationPolicy{Rules: []*authzpb.Rule{{}}}}
	if (&istioEval{mesh: mesh, req: baseRequest(true)}).verdict([]polIn{nothing}) != F {
		fail("allow-nothing admits")
	}
	if (&istioEval{mesh: mesh, req: baseRequest(true)}).verdict([]polIn{nothing, all}) != T {
		fail("allow-all rejects")
	}
	if (&istioEval{mesh: mesh, req: baseRequest(true)}).verdict(nil) != T {
		fail("no policy rejects")
	}
	// --- trust domain aliases: td1, td2 identities are treated the same
	{
		p := polIn{NS: "foo", Name: "p", Spec: &authzpb.AuthorizationPolicy{Rules: []*authzpb.Rule{{From: []*authzpb.Rule_From{{Source: &authzpb.Source{
			Principals: []string{"td1/ns/foo/sa/bar"}}}}}}}}
		r := baseRequest(true)
		r.Peer = "td2/ns/foo/sa/bar"
		if (&istioEval{mesh: mesh1, req: r}).verdict([]polIn{p}) != T || (&istioEval{mesh: mesh0, req: r}).verdict([]polIn{p}) != F {
			fail("trust domain alias example")
		}
	}

	// --- the example of the Envoy RBAC documentation (service-admin / product-viewer)
	str := func(s string) *matcherpb.StringMatcher {
		return &matcherpb.StringMatcher{MatchPattern: &matcherpb.StringMatcher_Exact{Exact: s}}
	}
	auth := func(s string) *rbacpb.Principal {
		return &rbacpb.Principal{Identifier: &rbacpb.Principal_Authenticated_{Authenticated: &rbacpb.Principal_Authenticated{PrincipalName: str(s)}}}
	}
	example := &rbacpb.RBAC{Action: rbacpb.RBAC_ALLOW, Policies: map[string]*rbacpb.Policy{
		"service-admin": {
			Permissions: []*rbacpb.Permission{{Rule: &rbacpb.Permission_Any{Any: true}}},
			Principals:  []*rbacpb.Principal{auth("spiffe://cluster.local/ns/default/sa/admin"), auth("spiffe://cluster.local/ns/default/sa/superuser")},
		},
		"product-viewer": {
			Permissions: []*rbacpb.Permission{{Rule: &rbacpb.Permission_AndRules{AndRules: &rbacpb.Permission_Set{Rules: []*rbacpb.Permission{
				{Rule: &rbacpb.Permission_Header{Header: &routepb.HeaderMatcher{Name: ":method", HeaderMatchSpecifier: &routepb.HeaderMatcher_StringMatch{StringMatch: str("GET")}}}},
				{Rule: &rbacpb.Permission_UrlPath{UrlPath: &matcherpb.PathMatcher{Rule: &matcherpb.PathMatcher_Path{Path: &matcherpb.StringMatcher{
					MatchPattern: &matcherpb.StringMatcher_Prefix{Prefix: "/products"}}}}}},
				{Rule: &rbacpb.Permission_OrRules{OrRules: &rbacpb.Permission_Set{Rules: []*rbacpb.Permission{
					{Rule: &rbacpb.Permission_DestinationPort{DestinationPort: 80}}, {Rule: &rbacpb.Permission_DestinationPort{DestinationPort: 443}}}}}},
			}}}}},
			Principals: []*rbacpb.Principal{{Identifier: &rbacpb.Principal_Any{Any: true}}},
		},
	}}
	eng := compileRBAC(example)
	for _, c := range []struct {
		peer, method, path string
		port               uint32
		want               bool
	}{
		{"cluster.local/ns/default/sa/admin", "DELETE", "/x", 9000, true},
		{"cluster.local/ns/default/sa/other", "GET", "/products/1?x=y", 443, true},
		{"", "GET", "/products", 80, true},
		{"", "GET", "/products", 8080, false},
		{"", "POST", "/products", 80, false},
		{"", "GET", "/product", 80, false},
	} {
		r := baseRequest(true)
		r.Peer, r.Method, r.Path, r.DstPort = c.peer, c.method, c.path, c.port
		if got := eng.allowed(r); got != c.want {
			fail("envoy example: %s => %v want %v", r, got, c.want)
		}
	}
	deny := &rbacpb.RBAC{Action: rbacpb.RBAC_DENY, Policies: example.Policies}
	if r := baseRequest(true); compileRBAC(deny).allowed(r) != !eng.allowed(r) {
		fail("DENY must allow iff no policy matches")
	}
	// --- uri template operators
	tm := func(t string) matchFn {
		a, err := anypb.New(&uritemplate.UriTemplateMatchConfig{PathTemplate: t})
		if err != nil {
			panic(err)
		}
		return compileURITemplateExt(&core.TypedExtensionConfig{Name: "uri-template", TypedConfig: a})
	}
	for _, c := range []struct {
		tmpl, path string
		want       bool
	}{
		{"/foo/*", "/foo/bar", true}, {"/foo/*", "/foo/bar/baz", false}, {"/foo/*", "/foo/", false}, {"/foo/*", "/foo/bar?q=/x/y", true},
		{"/foo/**", "/foo/", true}, {"/foo/**", "/foo/a/b", true}, {"/foo/**", "/foo", false},
		{"/foo/*/bar/**", "/foo/buzz/bar/", true}, {"/foo/*/bar/**", "/foo/buzz/bar/baz", true}, {"/foo/*/bar/**", "/foo/buzz/bar", false},
		{"/foo/**/", "/foo/bar/", true}, {"/foo/**/", "/foo//", true}, {"/foo/**/", "/foo/bar", false},
	} {
		r := baseRequest(true)
		r.Path = c.path
		if got := tm(c.tmpl)(r); got != c.want {
			fail("uri template %q on %q = %v want %v", c.tmpl, c.path, got, c.want)
		}
	}
	// --- header matcher corner cases, cidr
	hm := compileHeader(&routepb.HeaderMatcher{Name: "X-Token", HeaderMatchSpecifier: &routepb.HeaderMatcher_PresentMatch{PresentMatch: true}})
	r := baseRequest(true)
	if !hm(r) {
		fail("present_match on a present header (names are case-insensitive)")
	}
	r.Headers = map[string]string{}
	if hm(r) {
		fail("present_match on a missing header")
	}
	if hm(baseRequest(false)) {
		fail("header matcher on a TCP connection")
	}
	in := compileCidr(&core.CidrRange{AddressPrefix: "10.1.2.3", PrefixLen: wrapperspb.UInt32(24)})
	if !in("10.1.2.200") || in("10.1.3.1") || in("2001:db8::1") {
		fail("cidr range")
	}
	// --- the interpreter refuses what it does not implement
	refused := func() (ok bool) {
		defer func() {
			_, ok = recover().(errUnimplemented)
		}()
		compilePermission(&rbacpb.Permission{Rule: &rbacpb.Permission_DestinationPortRange{}})
		return false
	}()
	if !refused {
		fail("unknown permission rule was not refused")
	}
	return msg
}

func TestC08Self(t *testing.T) {
	if msg := selfTest(); msg != "" {
		t.Fatal(msg)
	}
}
