// C08 part b: which policies reach a workload (namespace / root namespace, selector, targetRefs) is
// decided by model.AuthorizationPolicies.ListAuthorizationPolicies; the generated filters must decide
// as the policies that apply to the workload say.
package c08

import (
	"fmt"
	"strings"
	"testing"

	authzpb "istio.io/api/security/v1beta1"
	typepb "istio.io/api/type/v1beta1"
	"istio.io/istio/pilot/pkg/model"
	"istio.io/istio/pilot/pkg/security/authz/builder"
	"istio.io/istio/pilot/pkg/security/trustdomain"
	"istio.io/istio/pkg/config"
	"istio.io/istio/pkg/config/schema/gvk"
	"istio.io/istio/pkg/config/validation"
	"istio.io/istio/zz_verif/engine"
)

const (
	rootNS      = "istio-system"
	gatewayName = "gateway.networking.k8s.io/gateway-name"
)

type workload struct {
	Name    string            `json:"name"`
	NS      string            `json:"ns"`
	Labels  map[string]string `json:"labels"`
	Gateway string            `json:"gateway,omitempty"` // name of the Gateway API gateway this workload is an instance of
}

var workloads = []workload{
	{Name: "sidecar-foo", NS: "foo", Labels: map[string]string{"app": "httpbin", "version": "v1"}},
	{Name: "sidecar-bar", NS: "bar", Labels: map[string]string{"app": "httpbin"}},
	{Name: "gateway-foo", NS: "foo", Labels: map[string]string{"app": "httpbin", gatewayName: "gw"}, Gateway: "gw"},
}

// target is how a policy names its workloads.
type target struct {
	Name     string            `json:"name"`
	Selector map[string]string `json:"selector,omitempty"`
	HasSel   bool              `json:"has_selector,omitempty"`
	Refs     []string          `json:"target_refs,omitempty"` // Gateway names
	Legacy   bool              `json:"legacy_target_ref,omitempty"`
}

var targets = []target{
	{Name: "none"},
	{Name: "selector-match", HasSel: true, Selector: map[string]string{"app": "httpbin"}},
	{Name: "selector-two-labels", HasSel: true, Selector: map[string]string{"app": "httpbin", "version": "v1"}},
	{Name: "selector-other", HasSel: true, Selector: map[string]string{"app": "other"}},
	{Name: "targetRefs-gw", Refs: []string{"gw"}},
	{Name: "targetRefs-other", Refs: []string{"other"}},
	{Name: "targetRefs-other+gw", Refs: []string{"other", "gw"}},
	{Name: "targetRef-gw", Refs: []string{"gw"}, Legacy: true},
}

type placed struct {
	Body   string `json:"body"` // allow-path | deny-post | allow-nothing
	NS     string `json:"ns"`
	Target int    `json:"target"`
}

func (p placed) String() string { return p.Body + "@" + p.NS + "/" + targets[p.Target].Name }

func (p placed) spec() *authzpb.AuthorizationPolicy {
	s := &authzpb.AuthorizationPolicy{}
	switch p.Body {
	case "allow-path":
		s.Rules = []*authzpb.Rule{{To: []*authzpb.Rule_To{{Operation: &authzpb.Operation{Paths: []string{"/api/v1"}}}}}}
	case "deny-post":
		s.Action = authzpb.AuthorizationPolicy_DENY
		s.Rules = []*authzpb.Rule{{To: []*authzpb.Rule_To{{Operation: &authzpb.Operation{Methods: []string{"POST"}}}}}}
	case "allow-nothing":
	default:
		panic("c08: body " + p.Body)
	}
	t := targets[p.Target]
	if t.HasSel {
		s.Selector = &typepb.WorkloadSelector{MatchLabels: t.Selector}
	}
	for _, r := range t.Refs {
		ref := &typepb.PolicyTargetReference{Group: "gateway.networking.k8s.io", Kind: "Gateway", Name: r}
		if t.Legacy {
			s.TargetRef = ref
		} else {
			s.TargetRefs = append(s.TargetRefs, ref)
		}
	}
	return s
}

// applies: "metadata/namespace tells which namespace the policy applies. If set to root namespace, the
// policy applies to all namespaces in a mesh"; "the selector will match with workloads in the same
// namespace ... If the selector and the targetRef are not set, the selector will match all workloads";
// targetRefs: "kind: Gateway with group gateway.networking.k8s.io in the same namespace".
func applies(p placed, w workload) tv {
	t := targets[p.Target]
	if len(t.Refs) > 0 {
		if w.Gateway == "" || p.NS != w.NS {
			return F
		}
		return tvOf(contains(t.Refs, w.Gateway))
	}
	if p.NS != rootNS && p.NS != w.NS {
		return F
	}
	for k, v := range t.Selector {
		if w.Labels[k] != v {
			return F
		}
	}
	if w.Gateway != "" {
		// whether Gateway API gateways honour selector policies is a deployment switch
		return U
	}
	return T
}

type replayPlacement struct {
	Policies []placed `json:"policies"`
	Workload int      `json:"workload"`
	Req      request  `json:"request"`
}

type placementCase struct {
	ps  []placed
	wi  int
	all []polIn
	sel model.AuthorizationPoliciesResult
	b   *built
}

func newPlacementCase(ps []placed, wi int) *placementCase {
	w := workloads[wi]
	aps := &model.AuthorizationPolicies{NamespaceToPolicies: map[string][]model.AuthorizationPolicy{}, RootNamespace: rootNS}
	var all []polIn
	for i, p := range ps {
		name := fmt.Sprintf("p%d", i)
		spec := p.spec()
		aps.NamespaceToPolicies[p.NS] = append(aps.NamespaceToPolicies[p.NS], model.AuthorizationPolicy{Name: name, Namespace: p.NS, Spec: spec})
		all = append(all, polIn{NS: p.NS, Name: name, Spec: spec})
	}
	typ := model.SidecarProxy
	if w.Gateway != "" {
		typ = model.Router
	}
	proxy := &model.Proxy{Type: typ, ID: w.Name, ConfigNamespace: w.NS, Labels: w.Labels, Metadata: &model.NodeMetadata{Labels: w.Labels, Namespace: w.NS}}
	sel := aps.ListAuthorizationPolicies(model.PolicyMatcherForProxy(proxy).WithRootNamespace(rootNS))
	bld := builder.New(trustdomain.NewBundle("td1", nil), nil, sel, builder.Option{})
	b := &built{}
	if bld != nil {
		b.httpRaw, b.tcpRaw = bld.BuildHTTP(), bld.BuildTCP()
	}
	b.http, b.tcp = compileHTTPChain(b.httpRaw), compileTCPChain(b.tcpRaw)
	return &placementCase{ps: ps, wi: wi, all: all, sel: sel, b: b}
}

func (pc *placementCase) check(res *engine.Result, r *request, verbose func(string)) {
	ps, wi, all, sel, b := pc.ps, pc.wi, pc.all, pc.sel, pc.b
	w := workloads[wi]
	var got bool
	if r.HTTP {
		got = b.http.allowed(r)
	} else {
		got = b.tcp.allowed(r)
	}
	// the reference verdict over every reading of the open cells
	var verdicts [3]bool
	var open []int
	var fixed []polIn
	for i, p := range ps {
		switch applies(p, w) {
		case T:
			fixed = append(fixed, all[i])
		case U:
			open = append(open, i)
		}
	}
	degraded := false
	for mask := 0; mask < 1<<len(open); mask++ {
		set := append([]polIn(nil), fixed...)
		for bit, i := range open {
			if mask&(1<<bit) != 0 {
				set = append(set, all[i])
			}
		}
		ev := &istioEval{mesh: mesh0, req: r}
		verdicts[ev.verdict(set)] = true
		degraded = degraded || ev.degraded
	}
	res.Evaluations++
	var names []string
	for _, p := range ps {
		names = append(names, p.String())
	}
	chain := "TCP"
	if r.HTTP {
		chain = "HTTP"
	}
	g := map[bool]string{true: "admit", false: "reject"}[got]
	switch {
	case verdicts[U] || (verdicts[T] && verdicts[F]):
		res.Outcome(chain + ":policy=either,generated=" + g)
		return
	case verdicts[T]:
		res.Outcome(chain + ":policy=admit,generated=" + g)
	default:
		res.Outcome(chain + ":policy=reject,generated=" + g)
	}
	bad := got != verdicts[T]
	if degraded {
		bad = got && !verdicts[T]
	}
	if verbose != nil {
		verbose(fmt.Sprintf("%v on %s: %s => generated %s, selected deny=%d allow=%d", names, w.Name, r, g, len(sel.Deny), len(sel.Allow)))
	}
	if bad {
		dir := "more-permissive"
		if !got {
			dir = "less-permissive"
		}
		var shapes []string
		for _, p := range ps {
			where := "other-ns"
			if p.NS == rootNS {
				where = "root-ns"
			} else if p.NS == w.NS {
				where = "workload-ns"
			}
			shapes = append(shapes, p.Body+"@"+where+"/"+targets[p.Target].Name)
		}
		kindOf := "sidecar"
		if w.Gateway != "" {
			kindOf = "gateway"
		}
		res.Violate(fmt.Sprintf("placement:%s:%s:%s:%s", chain, dir, kindOf, strings.Join(shapes, "+")),
			fmt.Sprintf("policies %v, workload %s (ns %s, labels %v): request %s; the policies that apply say %s, the generated filters %s (ListAuthorizationPolicies selected deny=%d allow=%d)",
				names, w.Name, w.NS, w.Labels, r, map[bool]string{true: "ADMIT", false: "REJECT"}[verdicts[T]], strings.ToUpper(g), len(sel.Deny), len(sel.Allow)),
			replayPlacement{Policies: ps, Workload: wi, Req: *r})
	}
}

func TestC08Placement(t *testing.T) {
	env := engine.GetEnv()
	res := engine.NewResult("C08", "b-placement")
	res.Rule = "one or two policies (ALLOW on a path, DENY on a method, ALLOW nothing), each placed in {root, workload, other} namespace with {no target, 3 selectors, targetRefs to the gateway / " +
		"another gateway / both, legacy targetRef}; 3 workloads (sidecar in foo, sidecar in bar, Gateway API gateway in foo); requests = path x method core alphabets on HTTP plus the TCP connection; " +
		"non-trivial = (policies, workload) for which some request is admitted and another rejected"
	defer res.Write(t, env)
	quietLogs()
	defer func() {
		if r := recover(); r != nil {
			if e, ok := r.(errUnimplemented); ok {
				t.Fatalf("infrastructure: %v", e)
			}
			panic(r)
		}
	}()
	if env.Replay != "" {
		var rp replayPlacement
		if err := engine.ReadReplay(env.Replay, &rp); err != nil {
			t.Fatal(err)
		}
		newPlacementCase(rp.Policies, rp.Workload).check(res, &rp.Req, func(s string) { t.Log(s) })
		return
	}
	var all []placed
	for _, body := range []string{"allow-path", "deny-post", "allow-nothing"} {
		for _, ns := range []string{rootNS, "foo", "bar"} {
			for ti := range targets {
				p := placed{Body: body, NS: ns, Target: ti}
				if _, err := validation.ValidateAuthorizationPolicy(config.Config{
					Meta: config.Meta{GroupVersionKind: gvk.AuthorizationPolicy, Name: "p", Namespace: ns}, Spec: p.spec(),
				}); err != nil {
					t.Fatalf("placement policy %v rejected by validation: %v", p, err)
				}
				all = append(all, p)
			}
		}
	}
	res.Bounds["placed_policies"] = len(all)
	res.Bounds["workloads"] = len(workloads)
	al := alphabets(env.Thorough())
	var tch [nDims]bool
	tch[dPath], tch[dMethod] = true, true
	var sets [][]placed
	for i := range all {
		sets = append(sets, []placed{all[i]})
		for j := i + 1; j < len(all); j++ {
			sets = append(sets, []placed{all[i], all[j]})
		}
	}
	res.Bounds["policy_sets"] = len(sets)
	var ord int64
	for _, ps := range sets {
		for wi := range workloads {
			o := ord
			ord++
			if !env.Mine(o) {
				continue
			}
			if env.Expired() {
				res.Cap(fmt.Sprintf("deadline at case %d", o))
				return
			}
			res.States++
			before := map[string]int64{}
			for k, v := range res.Outcomes {
				before[k] = v
			}
			pc := newPlacementCase(ps, wi)
			for _, http := range []bool{true, false} {
				requestsFor(&al, tch, http, true, func(r *request, _ string) bool {
					pc.check(res, r, nil)
					return true
				})
			}
			admit, reject := false, false
			for k, v := range res.Outcomes {
				if v > before[k] {
					admit = admit || strings.Contains(k, "policy=admit")
					reject = reject || strings.Contains(k, "policy=reject")
				}
			}
			if admit && reject {
				res.NontrivialCase(fmt.Sprint(o))
			}
			if o%977 == 0 {
				var names []string
				for _, p := range ps {
					names = append(names, p.String())
				}
				res.Sample(map[string]any{"policies": names, "workload": workloads[wi].Name})
			}
		}
	}
	res.Bounds["cases_total"] = ord
}
