// C08: request record, three-valued logic and the request alphabets (literals of the policy grammar
// plus their near misses). Nothing in this file looks at istio's generator.
package c08

import (
	"sort"
	"strings"
)

// tv is a three-valued truth value. U ("either") marks a cell the documentation leaves open: the
// oracle accepts both answers there and compares only determinate verdicts.
type tv int8

const (
	F tv = iota
	T
	U
)

func (a tv) String() string { return [...]string{"F", "T", "U"}[a] }

func tvOf(b bool) tv {
	if b {
		return T
	}
	return F
}

func and3(a, b tv) tv {
	switch {
	case a == F || b == F:
		return F
	case a == T && b == T:
		return T
	}
	return U
}

func or3(a, b tv) tv {
	switch {
	case a == T || b == T:
		return T
	case a == F && b == F:
		return F
	}
	return U
}

func not3(a tv) tv {
	switch a {
	case T:
		return F
	case F:
		return T
	}
	return U
}

// either returns T/F when both readings agree and U otherwise.
func either(a, b bool) tv {
	if a == b {
		return tvOf(a)
	}
	return U
}

// request is one connection (TCP) or one HTTP request on a connection.
type request struct {
	HTTP bool `json:"http"`
	// Peer is the mTLS peer identity without the spiffe:// scheme ("" = plaintext connection).
	Peer string `json:"peer"`
	// SrcIP is the address of the directly connected peer, RemoteIP the original client address
	// (X-Forwarded-For / PROXY protocol), DstIP/DstPort the local address of the connection.
	SrcIP    string `json:"src_ip"`
	RemoteIP string `json:"remote_ip"`
	DstIP    string `json:"dst_ip"`
	DstPort  uint32 `json:"dst_port"`
	SNI      string `json:"sni"`
	// HTTP only. Path is the raw :path (may carry a query string). Headers holds the headers that
	// are present (lower-case names); a present header may have an empty value.
	Host    string            `json:"host,omitempty"`
	Method  string            `json:"method,omitempty"`
	Path    string            `json:"path,omitempty"`
	Headers map[string]string `json:"headers,omitempty"`
	// JWT is the verified token payload (nil = request carries no valid token). Values are
	// string | []any (of strings) | map[string]any.
	JWT map[string]any `json:"jwt,omitempty"`
}

func (r *request) String() string {
	var b strings.Builder
	if r.HTTP {
		b.WriteString("HTTP ")
	} else {
		b.WriteString("TCP ")
	}
	b.WriteString("peer=" + r.Peer + " src=" + r.SrcIP + " remote=" + r.RemoteIP + " dst=" + r.DstIP + ":" + utoa(r.DstPort) + " sni=" + r.SNI)
	if r.HTTP {
		b.WriteString(" host=" + r.Host + " " + r.Method + " " + r.Path)
		var hs []string
		for k, v := range r.Headers {
			hs = append(hs, k+"="+v)
		}
		sort.Strings(hs)
		b.WriteString(" hdr[" + strings.Join(hs, ",") + "]")
		if r.JWT == nil {
			b.WriteString(" jwt=none")
		} else {
			b.WriteString(" jwt=" + jwtString(r.JWT))
		}
	}
	return b.String()
}

func utoa(u uint32) string {
	if u == 0 {
		return "0"
	}
	var d []byte
	for u > 0 {
		d = append([]byte{byte('0' + u%10)}, d...)
		u /= 10
	}
	return string(d)
}

func jwtString(m map[string]any) string {
	var ks []string
	for k := range m {
		ks = append(ks, k)
	}
	sort.Strings(ks)
	var b strings.Builder
	b.WriteString("{")
	for i, k := range ks {
		if i > 0 {
			b.WriteString(",")
		}
		b.WriteString(k + ":")
		switch v := m[k].(type) {
		case string:
			b.WriteString(v)
		case []any:
			b.WriteString("[")
			for j, e := range v {
				if j > 0 {
					b.WriteString(" ")
				}
				if s, ok := e.(string); ok {
					b.WriteString(s)
				} else {
					b.WriteString("?")
				}
			}
			b.WriteString("]")
		case map[string]any:
			b.WriteString(jwtString(v))
		default:
			b.WriteString("?")
		}
	}
	b.WriteString("}")
	return b.String()
}

// ---- dimensions of the request space ------------------------------------------------------------

type dim int

const (
	dPeer dim = iota
	dSrcIP
	dRemoteIP
	dDstIP
	dDstPort
	dSNI
	dHost
	dMethod
	dPath
	dHeader
	dJWT
	nDims
)

var dimNames = [...]string{"peer", "srcIP", "remoteIP", "dstIP", "dstPort", "sni", "host", "method", "path", "header", "jwt"}

func (d dim) httpOnly() bool { return d >= dHost }

const headerName = "x-token"

func jwtBase() map[string]any {
	return map[string]any{
		"iss":    "https://iss.example.com",
		"sub":    "sub-1",
		"aud":    []any{"aud-a", "aud-b"},
		"azp":    "azp-1",
		"groups": []any{"g1", "g2"},
		"nested": map[string]any{"key": "v", "list": []any{"v", "w"}},
	}
}

func jwtWith(k string, v any) map[string]any {
	m := jwtBase()
	m[k] = v
	return m
}

// setter applies the i-th element of a dimension's alphabet to a request.
type alphabet struct {
	names []string
	set   []func(r *request)
	// core is the number of leading elements used by the combination levels (rule pairs, policy
	// pairs): the matching literal, its closest near misses and "absent".
	core int
}

func strAlphabet(core int, apply func(r *request, v string), vals ...string) alphabet {
	a := alphabet{core: core}
	for _, v := range vals {
		v := v
		a.names = append(a.names, v)
		a.set = append(a.set, func(r *request) { apply(r, v) })
	}
	return a
}

// The alphabets are built from the literals of the grammar in grammar_test.go: every literal, the
// literal with one character more / less at either end, the other letter case, the neighbouring
// port / address, the attribute being absent, and one unrelated value.
func alphabets(thorough bool) [nDims]alphabet {
	var a [nDims]alphabet
	peers := []string{
		"td1/ns/foo/sa/bar",           // the identity the literals are written for
		"",                            // plaintext
		"td1/ns/foox/sa/bar",          // namespace one char more
		"td1/ns/foo/sa/barx",          // service account one char more
		"td2/ns/foo/sa/bar",           // other trust domain (the alias in the alias configuration)
		"td1/ns/fo/sa/bar",            // namespace one char less
		"td1/ns/foo/sa/ba",            // service account one char less
		"td1/ns/xfoo/sa/bar",          // namespace with a char in front
		"td1/ns/foo/sa/xbar",          // service account with a char in front
		"td1x/ns/foo/sa/bar",          // trust domain one char more
		"xtd1/ns/foo/sa/bar",          // trust domain with a char in front
		"td/ns/foo/sa/bar",            // trust domain one char less
		"other/ns/default/sa/default", // unrelated (second literal of the two-valued lists)
		"cluster.local/ns/foo/sa/bar", // the default trust domain name
		"td1/ns/bar/sa/foo",           // namespace and service account swapped
		"foo/ns/bar/sa/foo",           // trust domain and service account named like the namespace literal
		"bar/ns/td1/sa/td1",           // namespace and service account named like the trust domain literal
	}
	if thorough {
		peers = append(peers,
			"td1/ns/Foo/sa/bar", // other letter case
			"td3/ns/foo/sa/bar", // a trust domain that is never an alias
			"td1/ns/sa/sa/bar",  // namespace named like a path keyword
			"td1/ns/ns/sa/foo",  // namespace "ns", service account named like the literal namespace
		)
	}
	a[dPeer] = strAlphabet(5, func(r *request, v string) { r.Peer = v }, peers...)
	ips := []string{"10.1.2.3", "10.1.2.4", "192.168.9.9", "10.1.3.3", "10.2.2.3", "2001:db8::1", "2001:db9::1", "10.1.2.2"}
	a[dSrcIP] = strAlphabet(3, func(r *request, v string) { r.SrcIP = v }, ips...)
	a[dRemoteIP] = strAlphabet(3, func(r *request, v string) { r.RemoteIP = v }, ips...)
	a[dDstIP] = strAlphabet(3, func(r *request, v string) { r.DstIP = v }, ips...)
	a[dDstPort] = alphabet{core: 3}
	for _, p := range []uint32{80, 81, 8080, 79, 808, 443, 8081, 0} {
		p := p
		a[dDstPort].names = append(a[dDstPort].names, utoa(p))
		a[dDstPort].set = append(a[dDstPort].set, func(r *request) { r.DstPort = p })
	}
	a[dSNI] = strAlphabet(3, func(r *request, v string) { r.SNI = v },
		"www.example.com", "", "www.example.comx", "xwww.example.com", "www.example.co", "ww.example.com", "WWW.example.com", "other.org")
	a[dHost] = strAlphabet(4, func(r *request, v string) { r.Host = v },
		"example.com", "example.comx", "EXAMPLE.com", "sub.example.com", "xexample.com", "example.co", "xample.com",
		"example.com:8080", "sub.Example.Com", "other.org", "other.org:80")
	a[dMethod] = strAlphabet(3, func(r *request, v string) { r.Method = v },
		"GET", "POST", "get", "GETX", "XGET", "GE", "ET", "PUT")
	a[dPath] = strAlphabet(4, func(r *request, v string) { r.Path = v },
		"/api/v1", "/api/v1x", "/foo/bar", "/api/v1?q=1", "/api/v", "/API/v1", "/xapi/v1", "x/api/v1", "/api/v1/", "/api/", "/api",
		"/other?p=/api/v1", "/", "/foo/bar/baz", "/foo/", "/foo", "/foo/x/bar/", "/foo/x/bar/y/z", "/foo/x/bar", "/foo/x/y/bar/z", "/fooo/bar", "/foo/bar?a=b")
	hdr := alphabet{core: 3}
	for _, v := range []string{"abc", "\x00absent", "abcd", "xabc", "ab", "bc", "ABC", "", "zzz"} {
		v := v
		name := v
		if v == "\x00absent" {
			name = "<absent>"
		} else if v == "" {
			name = "<empty>"
		}
		hdr.names = append(hdr.names, name)
		hdr.set = append(hdr.set, func(r *request) {
			r.Headers = map[string]string{}
			if v != "\x00absent" {
				r.Headers[headerName] = v
			}
		})
	}
	a[dHeader] = hdr
	jw := alphabet{core: 4}
	addJ := func(name string, m map[string]any) {
		jw.names = append(jw.names, name)
		jw.set = append(jw.set, func(r *request) { r.JWT = m })
	}
	addJ("base", jwtBase())
	addJ("none", nil)
	addJ("sub+1", jwtWith("sub", "sub-12"))
	addJ("iss+1", jwtWith("iss", "https://iss.example.comx"))
	addJ("sub-1", jwtWith("sub", "sub-"))
	addJ("xsub", jwtWith("sub", "xsub-1"))
	addJ("iss-1", jwtWith("iss", "https://iss.example.co"))
	addJ("xiss", jwtWith("iss", "xhttps://iss.example.com"))
	addJ("iss-other", jwtWith("iss", "https://iss.other.org"))
	addJ("iss-plain", jwtWith("iss", "issuer-a"))
	addJ("iss-with-path", jwtWith("iss", "https://iss.example.com/tenant-1"))
	addJ("aud-string", jwtWith("aud", "aud-a"))
	addJ("aud+1", jwtWith("aud", []any{"aud-ax", "aud-b"}))
	addJ("xaud", jwtWith("aud", []any{"xaud-a"}))
	addJ("aud-second", jwtWith("aud", []any{"aud-b", "aud-a"}))
	addJ("no-aud", func() map[string]any { m := jwtBase(); delete(m, "aud"); return m }())
	addJ("groups+1", jwtWith("groups", []any{"g12", "g2"}))
	addJ("xgroups", jwtWith("groups", []any{"xg1"}))
	addJ("groups-string", jwtWith("groups", "g1"))
	addJ("groups-empty", jwtWith("groups", []any{}))
	addJ("azp+1", jwtWith("azp", "azp-12"))
	addJ("nested+1", jwtWith("nested", map[string]any{"key": "vx", "list": []any{"w"}}))
	addJ("nested-string", jwtWith("nested", "v"))
	a[dJWT] = jw
	return a
}

func baseRequest(http bool) *request {
	r := &request{
		HTTP: http, Peer: "td1/ns/foo/sa/bar", SrcIP: "192.168.9.9", RemoteIP: "192.168.9.9", DstIP: "192.168.9.9", DstPort: 80,
		SNI: "www.example.com",
	}
	if http {
		r.Host, r.Method, r.Path = "example.com", "GET", "/api/v1"
		r.Headers = map[string]string{headerName: "abc"}
		r.JWT = jwtBase()
	}
	return r
}

// requestsFor enumerates the product of the alphabets of the touched dimensions (the other
// dimensions keep their base value). HTTP-only dimensions do not exist on a TCP connection.
func requestsFor(al *[nDims]alphabet, touched [nDims]bool, http bool, coreOnly bool, f func(r *request, label string) bool) {
	var ds []dim
	for d := dim(0); d < nDims; d++ {
		if touched[d] && (http || !d.httpOnly()) {
			ds = append(ds, d)
		}
	}
	idx := make([]int, len(ds))
	size := func(d dim) int {
		if coreOnly {
			return al[d].core
		}
		return len(al[d].set)
	}
	for {
		r := baseRequest(http)
		var lb []string
		for i, d := range ds {
			al[d].set[idx[i]](r)
			lb = append(lb, dimNames[d]+"="+al[d].names[idx[i]])
		}
		if !f(r, strings.Join(lb, " ")) {
			return
		}
		i := len(ds) - 1
		for ; i >= 0; i-- {
			idx[i]++
			if idx[i] < size(ds[i]) {
				break
			}
			idx[i] = 0
		}
		if i < 0 {
			return
		}
	}
}
