// C08 reference model R2-Envoy: an interpreter for the envoy rbac.v3 RBAC configuration carried by the
// HTTP filter envoy.filters.http.rbac and the network filter envoy.filters.network.rbac, written from
// the Envoy API documentation (proto comments of config/rbac/v3, type/matcher/v3, route HeaderMatcher,
// path/match/uri_template). The configuration is compiled into closures once per filter chain; the
// compile step refuses (panics with errUnimplemented) every message, oneof case or populated field
// it does not implement, and reports (errInvalid) configuration Envoy's validation would reject.
package c08

import (
	"fmt"
	"net/netip"
	"regexp"
	"strings"

	core "github.com/envoyproxy/go-control-plane/envoy/config/core/v3"
	listener "github.com/envoyproxy/go-control-plane/envoy/config/listener/v3"
	rbacpb "github.com/envoyproxy/go-control-plane/envoy/config/rbac/v3"
	routepb "github.com/envoyproxy/go-control-plane/envoy/config/route/v3"
	rbachttp "github.com/envoyproxy/go-control-plane/envoy/extensions/filters/http/rbac/v3"
	hcm "github.com/envoyproxy/go-control-plane/envoy/extensions/filters/network/http_connection_manager/v3"
	rbactcp "github.com/envoyproxy/go-control-plane/envoy/extensions/filters/network/rbac/v3"
	uritemplate "github.com/envoyproxy/go-control-plane/envoy/extensions/path/match/uri_template/v3"
	matcherpb "github.com/envoyproxy/go-control-plane/envoy/type/matcher/v3"
	"google.golang.org/protobuf/proto"
	"google.golang.org/protobuf/reflect/protoreflect"
	"google.golang.org/protobuf/types/known/anypb"
)

type errUnimplemented struct{ what string }

func (e errUnimplemented) Error() string { return "R2-Envoy does not implement " + e.what }

type errInvalid struct{ what string }

func (e errInvalid) Error() string { return "configuration Envoy would reject: " + e.what }

func unimplemented(format string, a ...any) { panic(errUnimplemented{fmt.Sprintf(format, a...)}) }
func invalid(format string, a ...any)       { panic(errInvalid{fmt.Sprintf(format, a...)}) }

// onlyFields panics when a populated field of m is not in the list of fields the interpreter handles.
func onlyFields(m proto.Message, handled ...string) {
	m.ProtoReflect().Range(func(fd protoreflect.FieldDescriptor, _ protoreflect.Value) bool {
		for _, h := range handled {
			if string(fd.Name()) == h {
				return true
			}
		}
		unimplemented("field %s of %s", fd.Name(), m.ProtoReflect().Descriptor().FullName())
		return false
	})
	if len(m.ProtoReflect().GetUnknown()) > 0 {
		unimplemented("unknown fields in %s", m.ProtoReflect().Descriptor().FullName())
	}
}

type matchFn func(r *request) bool

// rbacEngine is one compiled RBAC message.
type rbacEngine struct {
	action   rbacpb.RBAC_Action
	policies []matchFn
}

// allowed: "ALLOW: allows the request if and only if there is a policy that matches; DENY: allows
// the request if and only if there are no policies that match; LOG: allows all requests."
func (e *rbacEngine) allowed(r *request) bool {
	if e == nil {
		return true // a filter without `rules` does not enforce anything
	}
	matched := false
	for _, p := range e.policies {
		if p(r) {
			matched = true
			break
		}
	}
	switch e.action {
	case rbacpb.RBAC_ALLOW:
		return matched
	case rbacpb.RBAC_DENY:
		return !matched
	case rbacpb.RBAC_LOG:
		return true
	}
	panic("unreachable")
}

// filterChain is the compiled list of RBAC filters in order; a request passes iff every filter
// allows it.
type filterChain struct {
	engines []*rbacEngine
	actions []string
}

func (c *filterChain) allowed(r *request) bool {
	for _, e := range c.engines {
		if !e.allowed(r) {
			return false
		}
	}
	return true
}

const (
	httpRBACName = "envoy.filters.http.rbac"
	tcpRBACName  = "envoy.filters.network.rbac"
)

func compileHTTPChain(filters []*hcm.HttpFilter) *filterChain {
	c := &filterChain{}
	for _, f := range filters {
		onlyFields(f, "name", "typed_config")
		if f.GetName() != httpRBACName {
			unimplemented("HTTP filter %q", f.GetName())
		}
		cfg := &rbachttp.RBAC{}
		unpack(f.GetTypedConfig(), cfg)
		// shadow rules never change the decision
		onlyFields(cfg, "rules", "shadow_rules", "shadow_rules_stat_prefix", "rules_stat_prefix", "track_per_rule_stats")
		c.add(cfg.GetRules())
	}
	return c
}

func compileTCPChain(filters []*listener.Filter) *filterChain {
	c := &filterChain{}
	for _, f := range filters {
		onlyFields(f, "name", "typed_config")
		if f.GetName() != tcpRBACName {
			unimplemented("network filter %q", f.GetName())
		}
		cfg := &rbactcp.RBAC{}
		unpack(f.GetTypedConfig(), cfg)
		if cfg.GetStatPrefix() == "" {
			invalid("network rbac filter without stat_prefix")
		}
		onlyFields(cfg, "rules", "shadow_rules", "shadow_rules_stat_prefix", "stat_prefix", "enforcement_type", "delay_deny")
		c.add(cfg.GetRules())
	}
	return c
}

func unpack(a *anypb.Any, into proto.Message) {
	if a == nil {
		invalid("filter without typed_config")
	}
	want := "type.googleapis.com/" + string(into.ProtoReflect().Descriptor().FullName())
	if a.GetTypeUrl() != want {
		unimplemented("typed_config %q (expected %q)", a.GetTypeUrl(), want)
	}
	if err := proto.Unmarshal(a.GetValue(), into); err != nil {
		invalid("typed_config does not parse: %v", err)
	}
}

func (c *filterChain) add(r *rbacpb.RBAC) {
	if r == nil {
		c.engines = append(c.engines, nil)
		c.actions = append(c.actions, "none")
		return
	}
	c.engines = append(c.engines, compileRBAC(r))
	c.actions = append(c.actions, r.GetAction().String())
}

func compileRBAC(r *rbacpb.RBAC) *rbacEngine {
	onlyFields(r, "action", "policies")
	e := &rbacEngine{action: r.GetAction()}
	switch e.action {
	case rbacpb.RBAC_ALLOW, rbacpb.RBAC_DENY, rbacpb.RBAC_LOG:
	default:
		unimplemented("RBAC action %v", e.action)
	}
	for name, p := range r.GetPolicies() {
		if p == nil {
			invalid("policy %q is null", name)
		}
		e.policies = append(e.policies, compilePolicy(name, p))
	}
	return e
}

// "A policy matches if and only if at least one of its permissions match the action taking place AND
// at least one of its principals match the downstream."
func compilePolicy(name string, p *rbacpb.Policy) matchFn {
	onlyFields(p, "permissions", "principals")
	if len(p.GetPermissions()) == 0 || len(p.GetPrincipals()) == 0 {
		invalid("policy %q needs at least one permission and one principal", name)
	}
	var perms, prins []matchFn
	for _, x := range p.GetPermissions() {
		perms = append(perms, compilePermission(x))
	}
	for _, x := range p.GetPrincipals() {
		prins = append(prins, compilePrincipal(x))
	}
	return func(r *request) bool { return anyOf(perms, r) && anyOf(prins, r) }
}

func anyOf(fs []matchFn, r *request) bool {
	for _, f := range fs {
		if f(r) {
			return true
		}
	}
	return false
}

func allOf(fs []matchFn, r *request) bool {
	for _, f := range fs {
		if !f(r) {
			return false
		}
	}
	return true
}

func compilePermission(p *rbacpb.Permission) matchFn {
	if p == nil {
		invalid("null permission")
	}
	switch x := p.GetRule().(type) {
	case *rbacpb.Permission_AndRules:
		fs := compilePermissionSet(x.AndRules)
		return func(r *request) bool { return allOf(fs, r) }
	case *rbacpb.Permission_OrRules:
		fs := compilePermissionSet(x.OrRules)
		return func(r *request) bool { return anyOf(fs, r) }
	case *rbacpb.Permission_Any:
		if !x.Any {
			invalid("permission any: false")
		}
		return func(*request) bool { return true }
	case *rbacpb.Permission_Header:
		return compileHeader(x.Header)
	case *rbacpb.Permission_UrlPath:
		return compileURLPath(x.UrlPath)
	case *rbacpb.Permission_DestinationIp:
		in := compileCidr(x.DestinationIp)
		return func(r *request) bool { return in(r.DstIP) }
	case *rbacpb.Permission_DestinationPort:
		if x.DestinationPort > 65535 {
			invalid("destination_port %d", x.DestinationPort)
		}
		port := x.DestinationPort
		return func(r *request) bool { return r.DstPort == port }
	case *rbacpb.Permission_Metadata:
		return compileMetadata(x.Metadata)
	case *rbacpb.Permission_NotRule:
		f := compilePermission(x.NotRule)
		return func(r *request) bool { return !f(r) }
	case *rbacpb.Permission_RequestedServerName:
		m := compileString(x.RequestedServerName)
		return func(r *request) bool { return m(r.SNI) }
	case *rbacpb.Permission_UriTemplate:
		return compileURITemplateExt(x.UriTemplate)
	case nil:
		invalid("permission without rule")
	default:
		unimplemented("permission rule %T", x)
	}
	return nil
}

func compilePermissionSet(s *rbacpb.Permission_Set) []matchFn {
	if len(s.GetRules()) == 0 {
		invalid("permission set without rules")
	}
	var fs []matchFn
	for _, x := range s.GetRules() {
		fs = append(fs, compilePermission(x))
	}
	return fs
}

func compilePrincipal(p *rbacpb.Principal) matchFn {
	if p == nil {
		invalid("null principal")
	}
	switch x := p.GetIdentifier().(type) {
	case *rbacpb.Principal_AndIds:
		fs := compilePrincipalSet(x.AndIds)
		return func(r *request) bool { return allOf(fs, r) }
	case *rbacpb.Principal_OrIds:
		fs := compilePrincipalSet(x.OrIds)
		return func(r *request) bool { return anyOf(fs, r) }
	case *rbacpb.Principal_Any:
		if !x.Any {
			invalid("principal any: false")
		}
		return func(*request) bool { return true }
	case *rbacpb.Principal_Authenticated_:
		// "The name of the principal. If set, the URI SAN or DNS SAN in that order is used from the
		// certificate, otherwise the subject field is used. If unset, it applies to any user that is
		// authenticated." A plaintext connection has no authenticated peer.
		onlyFields(x.Authenticated, "principal_name")
		if x.Authenticated.GetPrincipalName() == nil {
			return func(r *request) bool { return r.Peer != "" }
		}
		m := compileString(x.Authenticated.GetPrincipalName())
		return func(r *request) bool { return r.Peer != "" && m("spiffe://"+r.Peer) }
	case *rbacpb.Principal_DirectRemoteIp:
		in := compileCidr(x.DirectRemoteIp)
		return func(r *request) bool { return in(r.SrcIP) }
	case *rbacpb.Principal_RemoteIp:
		in := compileCidr(x.RemoteIp)
		return func(r *request) bool { return in(r.RemoteIP) }
	case *rbacpb.Principal_Header:
		return compileHeader(x.Header)
	case *rbacpb.Principal_UrlPath:
		return compileURLPath(x.UrlPath)
	case *rbacpb.Principal_Metadata:
		return compileMetadata(x.Metadata)
	case *rbacpb.Principal_FilterState:
		return compileFilterState(x.FilterState)
	case *rbacpb.Principal_NotId:
		f := compilePrincipal(x.NotId)
		return func(r *request) bool { return !f(r) }
	case nil:
		invalid("principal without identifier")
	default:
		unimplemented("principal identifier %T", x)
	}
	return nil
}

func compilePrincipalSet(s *rbacpb.Principal_Set) []matchFn {
	if len(s.GetIds()) == 0 {
		invalid("principal set without ids")
	}
	var fs []matchFn
	for _, x := range s.GetIds() {
		fs = append(fs, compilePrincipal(x))
	}
	return fs
}

// peerPrincipalKey is the filter state object istio's peer metadata filter publishes for waypoints;
// the harness models it as carrying the same URI as the certificate would.
const peerPrincipalKey = "io.istio.peer_principal"

func compileFilterState(m *matcherpb.FilterStateMatcher) matchFn {
	onlyFields(m, "key", "string_match")
	if m.GetKey() != peerPrincipalKey {
		unimplemented("filter state key %q", m.GetKey())
	}
	sm, ok := m.GetMatcher().(*matcherpb.FilterStateMatcher_StringMatch)
	if !ok {
		unimplemented("filter state matcher %T", m.GetMatcher())
	}
	f := compileString(sm.StringMatch)
	// "Matches when the object is present and its string serialisation matches"
	return func(r *request) bool { return r.Peer != "" && f("spiffe://"+r.Peer) }
}

var regexCache = map[string]*regexp.Regexp{}

// safe_regex is a full match in RE2 syntax (Go's regexp implements the same syntax).
func fullRegex(re string) *regexp.Regexp {
	if c, ok := regexCache[re]; ok {
		return c
	}
	if re == "" {
		invalid("empty regex")
	}
	c, err := regexp.Compile(`^(?:` + re + `)$`)
	if err != nil {
		invalid("regex %q: %v", re, err)
	}
	regexCache[re] = c
	return c
}

func compileString(m *matcherpb.StringMatcher) func(string) bool {
	if m == nil {
		invalid("null string matcher")
	}
	onlyFields(m, "exact", "prefix", "suffix", "safe_regex", "contains", "ignore_case")
	ic := m.GetIgnoreCase()
	fold := func(s string) string {
		if ic {
			return strings.ToLower(s)
		}
		return s
	}
	switch x := m.GetMatchPattern().(type) {
	case *matcherpb.StringMatcher_Exact:
		want := fold(x.Exact)
		return func(s string) bool { return fold(s) == want }
	case *matcherpb.StringMatcher_Prefix:
		if x.Prefix == "" {
			invalid("string matcher with empty prefix")
		}
		want := fold(x.Prefix)
		return func(s string) bool { return strings.HasPrefix(fold(s), want) }
	case *matcherpb.StringMatcher_Suffix:
		if x.Suffix == "" {
			invalid("string matcher with empty suffix")
		}
		want := fold(x.Suffix)
		return func(s string) bool { return strings.HasSuffix(fold(s), want) }
	case *matcherpb.StringMatcher_Contains:
		if x.Contains == "" {
			invalid("string matcher with empty contains")
		}
		want := fold(x.Contains)
		return func(s string) bool { return strings.Contains(fold(s), want) }
	case *matcherpb.StringMatcher_SafeRegex:
		// "ignore_case has no effect for the safe_regex match"
		onlyFields(x.SafeRegex, "regex")
		re := fullRegex(x.SafeRegex.GetRegex())
		return re.MatchString
	case nil:
		invalid("string matcher without pattern")
	default:
		unimplemented("string matcher %T", x)
	}
	return nil
}

// header looks a request header up the way Envoy does (lower-case names, pseudo headers).
func header(r *request, name string) (string, bool) {
	if !r.HTTP {
		return "", false // the network filter sees no HTTP headers
	}
	switch name {
	case ":authority":
		return r.Host, true
	case ":method":
		return r.Method, true
	case ":path":
		return r.Path, true
	}
	v, ok := r.Headers[name]
	return v, ok
}

func compileHeader(h *routepb.HeaderMatcher) matchFn {
	if h == nil {
		invalid("null header matcher")
	}
	onlyFields(h, "name", "exact_match", "safe_regex_match", "present_match", "prefix_match", "suffix_match", "contains_match",
		"string_match", "invert_match", "treat_missing_header_as_empty")
	if h.GetName() == "" || strings.ContainsAny(h.GetName(), " \t\r\n\x00") {
		invalid("header matcher name %q", h.GetName())
	}
	name := strings.ToLower(h.GetName())
	invert, missingAsEmpty := h.GetInvertMatch(), h.GetTreatMissingHeaderAsEmpty()
	isPresent, presentWant := false, true
	var val func(string) bool
	nonEmpty := func(s, what string) string {
		if s == "" {
			invalid("header matcher with empty %s", what)
		}
		return s
	}
	switch x := h.GetHeaderMatchSpecifier().(type) {
	case nil:
		isPresent = true // "in the absence of any header match specifier, match will default to present_match"
	case *routepb.HeaderMatcher_PresentMatch:
		isPresent, presentWant = true, x.PresentMatch
	case *routepb.HeaderMatcher_StringMatch:
		val = compileString(x.StringMatch)
	case *routepb.HeaderMatcher_ExactMatch:
		want := x.ExactMatch
		val = func(s string) bool { return want == "" || s == want }
	case *routepb.HeaderMatcher_PrefixMatch:
		want := nonEmpty(x.PrefixMatch, "prefix_match")
		val = func(s string) bool { return strings.HasPrefix(s, want) }
	case *routepb.HeaderMatcher_SuffixMatch:
		want := nonEmpty(x.SuffixMatch, "suffix_match")
		val = func(s string) bool { return strings.HasSuffix(s, want) }
	case *routepb.HeaderMatcher_ContainsMatch:
		want := nonEmpty(x.ContainsMatch, "contains_match")
		val = func(s string) bool { return strings.Contains(s, want) }
	case *routepb.HeaderMatcher_SafeRegexMatch:
		onlyFields(x.SafeRegexMatch, "regex")
		val = fullRegex(x.SafeRegexMatch.GetRegex()).MatchString
	default:
		unimplemented("header match specifier %T", x)
	}
	return func(r *request) bool {
		v, ok := header(r, name)
		if !ok && !missingAsEmpty {
			// a missing header only satisfies a presence test for absence
			if invert {
				return isPresent && presentWant
			}
			return isPresent && !presentWant
		}
		var m bool
		if isPresent {
			m = presentWant
		} else {
			m = val(v)
		}
		return m != invert
	}
}

func stripQuery(p string) string {
	if i := strings.IndexAny(p, "?#"); i >= 0 {
		return p[:i]
	}
	return p
}

// url_path: "A URL path on the incoming HTTP request" matched "without the query and fragment string".
func compileURLPath(p *matcherpb.PathMatcher) matchFn {
	if p == nil {
		invalid("null path matcher")
	}
	onlyFields(p, "path")
	pm, ok := p.GetRule().(*matcherpb.PathMatcher_Path)
	if !ok {
		invalid("path matcher without rule")
	}
	m := compileString(pm.Path)
	return func(r *request) bool {
		path, ok := header(r, ":path")
		if !ok {
			return false
		}
		return m(stripQuery(path))
	}
}

const uriLiteral = `a-zA-Z0-9\-._~%!$&'()+,;:@=`

var uriLiteralRe = regexp.MustCompile(`^[` + uriLiteral + `]+$`)

// compileURITemplateExt implements the uri_template path matcher: the path is split at "/", "*"
// matches one non-empty run of path characters without "/", "**" any run including "/" (only as the
// last operator, optionally followed by a literal suffix), everything else is a literal; the path
// without query and fragment must match in full.
func compileURITemplateExt(ext *core.TypedExtensionConfig) matchFn {
	if ext == nil {
		invalid("null uri_template")
	}
	onlyFields(ext, "name", "typed_config")
	cfg := &uritemplate.UriTemplateMatchConfig{}
	unpack(ext.GetTypedConfig(), cfg)
	onlyFields(cfg, "path_template")
	t := cfg.GetPathTemplate()
	if !strings.HasPrefix(t, "/") {
		invalid("uri template %q does not start with /", t)
	}
	for _, c := range t {
		if c <= ' ' || c > '~' {
			invalid("uri template %q has a non-printable character", t)
		}
	}
	segs := strings.Split(t[1:], "/")
	var parts []string
	sawAny := false
	for i, s := range segs {
		last := i == len(segs)-1
		op, rest := "", s
		switch {
		case strings.HasPrefix(s, "**"):
			op, rest = "**", s[2:]
		case strings.HasPrefix(s, "*"):
			op, rest = "*", s[1:]
		case strings.HasPrefix(s, "{"):
			unimplemented("uri template variable in %q", t)
		}
		if op != "" && sawAny {
			invalid("uri template %q: operator after **", t)
		}
		if rest != "" {
			if !uriLiteralRe.MatchString(rest) {
				invalid("uri template %q: segment %q is not a valid literal", t, s)
			}
			if op != "" && !last {
				invalid("uri template %q: suffix %q not at end of path", t, rest)
			}
		}
		switch op {
		case "*":
			parts = append(parts, "["+uriLiteral+"]+"+regexp.QuoteMeta(rest))
		case "**":
			sawAny = true
			parts = append(parts, "["+uriLiteral+"/]*"+regexp.QuoteMeta(rest))
		default:
			parts = append(parts, regexp.QuoteMeta(rest))
		}
	}
	re := fullRegex("/" + strings.Join(parts, "/"))
	return func(r *request) bool {
		path, ok := header(r, ":path")
		if !ok {
			return false
		}
		return re.MatchString(stripQuery(path))
	}
}

func compileCidr(c *core.CidrRange) func(addr string) bool {
	if c == nil {
		invalid("null cidr")
	}
	onlyFields(c, "address_prefix", "prefix_len")
	a, err := netip.ParseAddr(c.GetAddressPrefix())
	if err != nil {
		invalid("cidr address %q", c.GetAddressPrefix())
	}
	bits := int(c.GetPrefixLen().GetValue()) // "defaults to 0 when unset"
	if bits > a.BitLen() {
		invalid("cidr prefix length %d for %s", bits, a)
	}
	p := netip.PrefixFrom(a, bits).Masked()
	return func(addr string) bool {
		x, err := netip.ParseAddr(addr)
		if err != nil {
			panic("c08: request address " + addr)
		}
		return p.Contains(x)
	}
}

// dynamicMetadata is the metadata other filters left on the request: the JWT authentication filter
// stores the verified payload under envoy.filters.http.jwt_authn / payload (istio configures
// payload_in_metadata: payload).
func dynamicMetadata(r *request, filter string) (map[string]any, bool) {
	if filter == "envoy.filters.http.jwt_authn" && r.HTTP && r.JWT != nil {
		return map[string]any{"payload": r.JWT}, true
	}
	return nil, false
}

func compileMetadata(m *matcherpb.MetadataMatcher) matchFn {
	if m == nil {
		invalid("null metadata matcher")
	}
	onlyFields(m, "filter", "path", "value", "invert")
	if m.GetFilter() == "" || len(m.GetPath()) == 0 || m.GetValue() == nil {
		invalid("metadata matcher needs filter, path and value")
	}
	var path []string
	for _, s := range m.GetPath() {
		k, ok := s.GetSegment().(*matcherpb.MetadataMatcher_PathSegment_Key)
		if !ok || k.Key == "" {
			invalid("metadata path segment without key")
		}
		path = append(path, k.Key)
	}
	filter, invert := m.GetFilter(), m.GetInvert()
	vm := compileValue(m.GetValue())
	return func(r *request) bool {
		var cur any
		set := false
		if md, ok := dynamicMetadata(r, filter); ok {
			cur, set = md, true
			for _, k := range path {
				mm, ok := cur.(map[string]any)
				if !ok {
					cur, set = nil, false
					break
				}
				cur, set = mm[k]
				if !set {
					break
				}
			}
		}
		return vm(cur, set) != invert
	}
}

// compileValue: a value matcher sees a protobuf Value (here: string | []any | map[string]any, or
// not set when the path does not exist).
func compileValue(v *matcherpb.ValueMatcher) func(val any, set bool) bool {
	if v == nil {
		invalid("null value matcher")
	}
	switch x := v.GetMatchPattern().(type) {
	case *matcherpb.ValueMatcher_StringMatch:
		m := compileString(x.StringMatch)
		return func(val any, set bool) bool {
			s, ok := val.(string)
			return set && ok && m(s)
		}
	case *matcherpb.ValueMatcher_PresentMatch:
		want := x.PresentMatch
		return func(_ any, set bool) bool { return set == want }
	case *matcherpb.ValueMatcher_ListMatch:
		one, ok := x.ListMatch.GetMatchPattern().(*matcherpb.ListMatcher_OneOf)
		if !ok {
			invalid("list matcher without one_of")
		}
		m := compileValue(one.OneOf)
		return func(val any, set bool) bool {
			l, ok := val.([]any)
			if !set || !ok {
				return false
			}
			for _, el := range l {
				if m(el, true) {
					return true
				}
			}
			return false
		}
	case *matcherpb.ValueMatcher_OrMatch:
		if len(x.OrMatch.GetValueMatchers()) < 2 {
			invalid("or_match needs at least two value matchers")
		}
		var ms []func(any, bool) bool
		for _, sub := range x.OrMatch.GetValueMatchers() {
			ms = append(ms, compileValue(sub))
		}
		return func(val any, set bool) bool {
			for _, m := range ms {
				if m(val, set) {
					return true
				}
			}
			return false
		}
	case nil:
		invalid("value matcher without pattern")
	default:
		unimplemented("value matcher %T", x)
	}
	return nil
}
