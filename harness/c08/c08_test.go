// C08: the Envoy RBAC filters istio generates for a set of AuthorizationPolicies decide every request
// the way the policy semantics say. Exhaustive enumeration of a policy grammar x request alphabets;
// the real builder (pilot/pkg/security/authz/builder) produces the filters, R2-Envoy
// (envoy_eval_test.go) evaluates them, R2-Istio (istio_eval_test.go) says what the policies mean.
package c08

import (
	"encoding/json"
	"fmt"
	"strings"
	"testing"

	listener "github.com/envoyproxy/go-control-plane/envoy/config/listener/v3"
	hcm "github.com/envoyproxy/go-control-plane/envoy/extensions/filters/network/http_connection_manager/v3"
	"google.golang.org/protobuf/encoding/protojson"

	"istio.io/istio/pilot/pkg/model"
	"istio.io/istio/pilot/pkg/security/authz/builder"
	"istio.io/istio/pilot/pkg/security/trustdomain"
	"istio.io/istio/pkg/config"
	"istio.io/istio/pkg/config/schema/gvk"
	"istio.io/istio/pkg/config/validation"
	istiolog "istio.io/istio/pkg/log"
	"istio.io/istio/zz_verif/engine"
)

// caseDef is one configuration: mesh trust domains, builder option and the policies that apply to
// the workload.
type caseDef struct {
	Mesh        meshCfg   `json:"mesh"`
	FilterState bool      `json:"use_filter_state,omitempty"`
	Pols        []polSpec `json:"policies"`
}

type replayC08 struct {
	Case caseDef `json:"case"`
	Req  request `json:"request"`
}

type built struct {
	pols    []polIn
	http    *filterChain
	tcp     *filterChain
	httpRaw []*hcm.HttpFilter
	tcpRaw  []*listener.Filter
	invalid string
}

func quietLogs() {
	for _, s := range istiolog.Scopes() {
		s.SetOutputLevel(istiolog.NoneLevel)
	}
}

// buildCase runs the real builder and compiles its output for the reference interpreter.
func buildCase(c caseDef) (b *built) {
	b = &built{}
	var res model.AuthorizationPoliciesResult
	for _, p := range c.Pols {
		spec := p.toProto()
		b.pols = append(b.pols, polIn{NS: p.NS, Name: p.Name, Spec: spec})
		ap := model.AuthorizationPolicy{Name: p.Name, Namespace: p.NS, Spec: spec}
		switch p.Action {
		case "DENY":
			res.Deny = append(res.Deny, ap)
		case "ALLOW":
			res.Allow = append(res.Allow, ap)
		}
	}
	bundle := trustdomain.NewBundle(c.Mesh.TrustDomain, c.Mesh.Aliases)
	bld := builder.New(bundle, nil, res, builder.Option{UseFilterState: c.FilterState})
	if bld != nil {
		b.httpRaw = bld.BuildHTTP()
		b.tcpRaw = bld.BuildTCP()
	}
	defer func() {
		if r := recover(); r != nil {
			if e, ok := r.(errInvalid); ok {
				b.invalid = e.Error()
				return
			}
			panic(r)
		}
	}()
	b.http = compileHTTPChain(b.httpRaw)
	b.tcp = compileTCPChain(b.tcpRaw)
	return b
}

func accepted(p polSpec, spec config.Spec) bool {
	_, err := validation.ValidateAuthorizationPolicy(config.Config{
		Meta: config.Meta{GroupVersionKind: gvk.AuthorizationPolicy, Name: p.Name, Namespace: p.NS},
		Spec: spec,
	})
	return err == nil
}

// judge compares the two verdicts for one request. It returns the direction of a disagreement
// ("" = none) and an outcome label.
func judge(b *built, mesh meshCfg, r *request) (dir string, outcome string, want tv, got bool) {
	ev := &istioEval{mesh: mesh, req: r}
	want = ev.verdict(b.pols)
	if r.HTTP {
		got = b.http.allowed(r)
	} else {
		got = b.tcp.allowed(r)
	}
	chain := "TCP"
	if r.HTTP {
		chain = "HTTP"
	}
	g := "deny"
	if got {
		g = "allow"
	}
	switch {
	case want == U:
		return "", chain + ":policy=either,generated=" + g, want, got
	case ev.degraded:
		// not expressible: the generated filter must not admit what the policy (ALLOW rule matching
		// nothing, DENY rule on its remaining conditions) rejects
		if got && want == F {
			dir = "more-permissive"
		}
		w := "deny"
		if want == T {
			w = "allow"
		}
		return dir, chain + ":inexpressible:policy=" + w + ",generated=" + g, want, got
	}
	w := "deny"
	if want == T {
		w = "allow"
	}
	if got != (want == T) {
		if got {
			dir = "more-permissive"
		} else {
			dir = "less-permissive"
		}
	}
	return dir, chain + ":policy=" + w + ",generated=" + g, want, got
}

// minimize removes policies, rules and conditions while the same request still shows a
// disagreement in the same direction, so that one root cause is reported under few keys.
func minimize(c caseDef, r *request, dir string) caseDef {
	still := func(x caseDef) bool {
		b := buildCase(x)
		if b.invalid != "" {
			return false
		}
		d, _, _, _ := judge(b, x.Mesh, r)
		return d == dir
	}
	for changed := true; changed; {
		changed = false
		for _, cand := range shrinks(c) {
			if still(cand) {
				c, changed = cand, true
				break
			}
		}
	}
	return c
}

func cloneCase(c caseDef) caseDef {
	var out caseDef
	raw, _ := json.Marshal(c)
	if err := json.Unmarshal(raw, &out); err != nil {
		panic(err)
	}
	return out
}

func shrinks(c caseDef) []caseDef {
	var out []caseDef
	if len(c.Mesh.Aliases) > 0 {
		x := cloneCase(c)
		x.Mesh.Aliases = nil
		out = append(out, x)
	}
	if len(c.Pols) > 1 {
		for i := range c.Pols {
			x := cloneCase(c)
			x.Pols = append(x.Pols[:i], x.Pols[i+1:]...)
			out = append(out, x)
		}
	}
	for pi, p := range c.Pols {
		if len(p.Rules) > 1 {
			for ri := range p.Rules {
				x := cloneCase(c)
				x.Pols[pi].Rules = append(x.Pols[pi].Rules[:ri], x.Pols[pi].Rules[ri+1:]...)
				out = append(out, x)
			}
		}
		for ri, r := range p.Rules {
			if len(r.all()) < 2 {
				continue
			}
			drop := func(f func(rs *ruleSpec)) {
				x := cloneCase(c)
				f(&x.Pols[pi].Rules[ri])
				out = append(out, x)
			}
			for gi, g := range r.From {
				for ai := range g {
					drop(func(rs *ruleSpec) {
						rs.From[gi] = append(rs.From[gi][:ai], rs.From[gi][ai+1:]...)
						if len(rs.From[gi]) == 0 {
							rs.From = append(rs.From[:gi], rs.From[gi+1:]...)
						}
					})
				}
			}
			for gi, g := range r.To {
				for ai := range g {
					drop(func(rs *ruleSpec) {
						rs.To[gi] = append(rs.To[gi][:ai], rs.To[gi][ai+1:]...)
						if len(rs.To[gi]) == 0 {
							rs.To = append(rs.To[:gi], rs.To[gi+1:]...)
						}
					})
				}
			}
			for ai := range r.When {
				drop(func(rs *ruleSpec) { rs.When = append(rs.When[:ai], rs.When[ai+1:]...) })
			}
		}
	}
	return out
}

func describe(c caseDef, b *built, r *request, want tv, got bool) string {
	var sb strings.Builder
	fmt.Fprintf(&sb, "mesh trustDomain=%s aliases=%v useFilterState=%v; policies:", c.Mesh.TrustDomain, c.Mesh.Aliases, c.FilterState)
	for _, p := range b.pols {
		j, _ := protojson.Marshal(p.Spec)
		fmt.Fprintf(&sb, " [%s/%s %s]", p.NS, p.Name, compact(string(j)))
	}
	w := map[tv]string{T: "ADMIT", F: "REJECT", U: "either"}[want]
	g := "REJECT"
	if got {
		g = "ADMIT"
	}
	fmt.Fprintf(&sb, "; request: %s; policy semantics say %s, generated filters %s; generated:", r, w, g)
	if r.HTTP {
		for _, f := range b.httpRaw {
			sb.WriteString(" " + compact(protojson.Format(f)))
		}
	} else {
		for _, f := range b.tcpRaw {
			sb.WriteString(" " + compact(protojson.Format(f)))
		}
	}
	s := sb.String()
	if len(s) > 6000 {
		s = s[:6000] + "..."
	}
	return s
}

func compact(s string) string { return strings.Join(strings.Fields(s), " ") }

type runner struct {
	t    *testing.T
	env  *engine.Env
	res  *engine.Result
	al   [nDims]alphabet
	ord  int64
	stop bool
}

// runCase checks one configuration against every request of its request space on both chains.
func (x *runner) runCase(level string, c caseDef, coreOnly bool) {
	if x.stop {
		return
	}
	ord := x.ord
	x.ord++
	if !x.env.Mine(ord) {
		return
	}
	if x.env.Expired() {
		x.res.Cap(fmt.Sprintf("deadline at case %d (level %s)", ord, level))
		x.stop = true
		return
	}
	tch, _, anyBad := touched(c.Pols)
	for i := range c.Pols {
		c.Pols[i].NS = "foo"
		c.Pols[i].Name = fmt.Sprintf("p%d", i)
	}
	if !anyBad {
		// only policies the validation webhook accepts are in the property's quantifier
		for _, p := range c.Pols {
			if !accepted(p, p.toProto()) {
				x.res.Count(level+".rejected_by_validation", 1)
				return
			}
		}
	}
	x.res.Count(level+".configurations", 1)
	x.res.States++
	b := buildCase(c)
	if b.invalid != "" {
		x.res.Violate("invalid-config:"+setShape(c.Pols), b.invalid+" for "+describe(c, b, baseRequest(true), U, false), replayC08{Case: c, Req: *baseRequest(true)})
		return
	}
	sawAllow, sawDeny := false, false
	reported := map[string]bool{}
	for _, http := range []bool{true, false} {
		requestsFor(&x.al, tch, http, coreOnly, func(r *request, label string) bool {
			x.res.Evaluations++
			dir, outcome, want, got := judge(b, c.Mesh, r)
			x.res.Outcome(outcome)
			if want == T {
				sawAllow = true
			} else if want == F {
				sawDeny = true
			}
			if dir != "" {
				// one minimised report per configuration, chain and direction; the other requests
				// that fail in the same way are counted
				x.res.Count("violating_evaluations", 1)
				if k := fmt.Sprint(http, dir); !reported[k] {
					reported[k] = true
					x.report(c, r, dir)
				}
			}
			if ord%4099 == 0 && len(x.res.Samples) < 6 && want != U {
				x.res.Sample(map[string]any{"level": level, "policies": setShape(c.Pols), "request": r.String(), "policy_verdict": want.String(), "generated_admits": got})
			}
			return true
		})
	}
	if sawAllow && sawDeny {
		x.res.NontrivialCase(fmt.Sprint(ord))
	} else if level == "single" && !anyBad {
		// honesty about the alphabets: single conditions whose request alphabet never changes the verdict
		x.res.Count("single.not_discriminated."+setShape(c.Pols), 1)
	}
}

func (x *runner) report(c caseDef, r *request, dir string) {
	m := minimize(cloneCase(c), r, dir)
	b := buildCase(m)
	_, _, want, got := judge(b, m.Mesh, r)
	chain := "TCP"
	if r.HTTP {
		chain = "HTTP"
	}
	mesh := ""
	if len(m.Mesh.Aliases) > 0 {
		mesh = ":aliases"
	}
	if m.FilterState {
		mesh += ":filter-state"
	}
	key := fmt.Sprintf("%s:%s%s:%s", chain, dir, mesh, setShape(m.Pols))
	if len(m.Pols) == 1 && len(m.Pols[0].Rules) == 1 && len(m.Pols[0].Rules[0].all()) == 1 && !isBad(m.Pols[0].Rules[0].all()[0]) &&
		(r.HTTP || !m.Pols[0].Rules[0].all()[0].def().dim.httpOnly()) {
		// one condition is enough to show it: the generated matcher for this literal form is wrong. Whether
		// that admits or rejects too much follows from action and polarity, and the HTTP and TCP chains
		// (and the filter-state variant) use the same matcher, so all of them share one key.
		a := m.Pols[0].Rules[0].all()[0]
		tooWide := (dir == "more-permissive") != (m.Pols[0].Action == "DENY") != a.Not
		how := "matches-too-little"
		if tooWide {
			how = "matches-too-much"
		}
		al := ""
		if len(m.Mesh.Aliases) > 0 {
			al = ":aliases"
		}
		key = fmt.Sprintf("matcher:%s:%s:%s%s", a.Field, a.Form, how, al)
	}
	x.res.Violate(key, describe(m, b, r, want, got), replayC08{Case: m, Req: *r})
}

var (
	mesh0 = meshCfg{TrustDomain: "td1"}
	mesh1 = meshCfg{TrustDomain: "td1", Aliases: []string{"td2"}}
)

func TestC08(t *testing.T) {
	env := engine.GetEnv()
	res := engine.NewResult("C08", "a-decision")
	res.Rule = "configuration = mesh trust domains x policy set from the grammar (every single condition; every pair of conditions in one rule, ANDed or as two list entries; " +
		"thorough: every triple of conditions ANDed in one rule; every pair of core rules in one policy; every DENY+ALLOW pair of core policies); checked on the HTTP and the TCP chain against every request of the product of the " +
		"alphabets (literals + near misses) of the request dimensions the policies mention; non-trivial = configuration for which the policy semantics admit some request and reject another"
	defer res.Write(t, env)
	quietLogs()
	if msg := selfTest(); msg != "" {
		t.Fatalf("reference model self test: %s", msg)
	}
	defer func() {
		if r := recover(); r != nil {
			if e, ok := r.(errUnimplemented); ok {
				t.Fatalf("infrastructure: %v", e)
			}
			panic(r)
		}
	}()

	if env.Replay != "" {
		var rp replayC08
		if err := engine.ReadReplay(env.Replay, &rp); err != nil {
			t.Fatal(err)
		}
		b := buildCase(rp.Case)
		if b.invalid != "" {
			res.Violate("invalid-config:"+setShape(rp.Case.Pols), b.invalid, rp)
			return
		}
		dir, outcome, want, got := judge(b, rp.Case.Mesh, &rp.Req)
		res.Evaluations++
		res.Outcome(outcome)
		t.Logf("%s", describe(rp.Case, b, &rp.Req, want, got))
		if dir != "" {
			x := &runner{t: t, env: env, res: res}
			x.report(rp.Case, &rp.Req, dir)
		}
		return
	}

	thorough := env.Thorough()
	x := &runner{t: t, env: env, res: res, al: alphabets(thorough)}
	if thorough {
		for d := range x.al {
			x.al[d].core = min(len(x.al[d].set), 2*x.al[d].core+1)
		}
	}
	for d := dim(0); d < nDims; d++ {
		res.Bounds["alphabet."+dimNames[d]] = x.al[d].names
		res.Bounds["alphabet_core."+dimNames[d]] = x.al[d].core
	}
	actions := []string{"ALLOW", "DENY"}

	// determinism: the same configuration built twice gives byte-identical filters
	{
		c := caseDef{Mesh: mesh1, Pols: []polSpec{{Action: "ALLOW", NS: "foo", Name: "p0", Rules: coreRules(false)[:8]}}}
		b1, b2 := buildCase(c), buildCase(c)
		if protojson.Format(b1.httpRaw[0]) != protojson.Format(b2.httpRaw[0]) || protojson.Format(b1.tcpRaw[0]) != protojson.Format(b2.tcpRaw[0]) {
			res.Infra = "the builder is not deterministic"
			return
		}
	}

	// level 1: every single condition
	singles := atomsFor(inQuick)
	if thorough {
		singles = atomsFor(0)
	}
	res.Bounds["single_conditions"] = len(singles)
	for _, a := range singles {
		for _, act := range actions {
			meshes := []meshCfg{mesh0}
			if a.def().dim == dPeer {
				meshes = append(meshes, mesh1)
			}
			for _, m := range meshes {
				x.runCase("single", caseDef{Mesh: m, Pols: []polSpec{{Action: act, Rules: []ruleSpec{ruleOf(a)}}}}, false)
				if a.def().dim == dPeer && (thorough || !a.Not) {
					x.runCase("single-filter-state", caseDef{Mesh: m, FilterState: true, Pols: []polSpec{{Action: act, Rules: []ruleSpec{ruleOf(a)}}}}, false)
				}
			}
		}
	}
	// the two rule-less shapes
	x.runCase("single", caseDef{Mesh: mesh0, Pols: []polSpec{{Action: "ALLOW"}}}, false)
	for _, act := range actions {
		x.runCase("single", caseDef{Mesh: mesh0, Pols: []polSpec{{Action: act, Rules: []ruleSpec{{}}}}}, false)
	}

	// level 2: every pair of conditions in one rule
	pairAtoms := atomsFor(inQuick)
	if thorough {
		pairAtoms = atomsFor(0)
	}
	res.Bounds["pair_conditions"] = len(pairAtoms)
	for i, a := range pairAtoms {
		for _, bb := range pairAtoms[i+1:] {
			for _, rule := range pairRules(a, bb) {
				for _, act := range actions {
					x.runCase("pair", caseDef{Mesh: mesh0, Pols: []polSpec{{Action: act, Rules: []ruleSpec{rule}}}}, false)
					// identities under a trust-domain alias: quick when both conditions are about the peer
					// identity (values + notValues of one field among them), thorough when either is
					if pa, pb := a.def().dim == dPeer, bb.def().dim == dPeer; (pa && pb) || (thorough && (pa || pb)) {
						x.runCase("pair-aliases", caseDef{Mesh: mesh1, Pols: []polSpec{{Action: act, Rules: []ruleSpec{rule}}}}, false)
					}
				}
			}
		}
	}

	// level 2b (thorough): every triple of pair-level conditions ANDed in one rule
	if thorough {
		tri := atomsFor(inPairs)
		res.Bounds["triple_conditions"] = len(tri)
		for i := range tri {
			for j := i + 1; j < len(tri); j++ {
				for k := j + 1; k < len(tri); k++ {
					for _, act := range actions {
						x.runCase("triple", caseDef{Mesh: mesh0, Pols: []polSpec{{Action: act, Rules: []ruleSpec{ruleOf(tri[i], tri[j], tri[k])}}}}, true)
					}
				}
			}
		}
	}

	// level 3: every pair of core rules in one policy
	rules := coreRules(thorough)
	res.Bounds["core_rules"] = len(rules)
	for i := range rules {
		for j := i; j < len(rules); j++ {
			for _, act := range actions {
				rs := []ruleSpec{rules[i]}
				if j != i {
					rs = append(rs, rules[j])
				}
				x.runCase("rule-pair", caseDef{Mesh: mesh0, Pols: []polSpec{{Action: act, Rules: rs}}}, true)
			}
		}
	}

	// level 4: every DENY+ALLOW pair of core policies (thorough: also ALLOW+ALLOW, DENY+DENY and the alias mesh)
	pols := corePolicies()
	res.Bounds["core_policies"] = len(pols)
	combos := [][2]string{{"DENY", "ALLOW"}}
	meshes := []meshCfg{mesh0}
	if thorough {
		combos = append(combos, [2]string{"ALLOW", "ALLOW"}, [2]string{"DENY", "DENY"})
		meshes = append(meshes, mesh1)
	}
	for _, cb := range combos {
		for i := range pols {
			for j := range pols {
				if cb[0] == cb[1] && j < i {
					continue
				}
				for _, m := range meshes {
					x.runCase("policy-pair", caseDef{Mesh: m, Pols: []polSpec{{Action: cb[0], Rules: pols[i]}, {Action: cb[1], Rules: pols[j]}}}, true)
				}
			}
		}
	}
	res.Bounds["configurations_total"] = x.ord
	res.Transitions = res.Evaluations
}
