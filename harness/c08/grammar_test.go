// C08: the policy grammar. Atoms (one field, values or notValues, one literal form) are combined into
// rules, policies and policy sets; everything is enumerated, nothing is drawn at random.
package c08

import (
	"fmt"
	"sort"
	"strings"

	authzpb "istio.io/api/security/v1beta1"
)

const (
	placeFrom = iota
	placeTo
	placeWhen
)

// atom is one condition: a field (or `when` key) with a list used as values or as notValues.
type atom struct {
	Field  string   `json:"field"` // API field name of Source / Operation, or "when:<key>"
	Not    bool     `json:"not,omitempty"`
	Values []string `json:"values"`
	Form   string   `json:"form"` // exact | prefix | suffix | presence | multi | template | ip | cidr | unparsable ...
}

func (a atom) shape() string {
	n := ""
	if a.Not {
		n = "!"
	}
	return n + a.Field + ":" + a.Form
}

type ruleSpec struct {
	From [][]atom `json:"from,omitempty"`
	To   [][]atom `json:"to,omitempty"`
	When []atom   `json:"when,omitempty"`
	// MergeWhen puts the `when` atoms of one key into a single condition (values and notValues
	// together) instead of one condition per atom.
	MergeWhen bool `json:"merge_when,omitempty"`
}

type polSpec struct {
	Action string     `json:"action"` // ALLOW | DENY
	NS     string     `json:"ns"`
	Name   string     `json:"name"`
	Rules  []ruleSpec `json:"rules"` // empty: a policy without rules
}

func (r ruleSpec) shape() string {
	var parts []string
	grp := func(tag string, gs [][]atom) {
		for _, g := range gs {
			var s []string
			for _, a := range g {
				s = append(s, a.shape())
			}
			sort.Strings(s)
			parts = append(parts, tag+"["+strings.Join(s, " ")+"]")
		}
	}
	grp("from", r.From)
	grp("to", r.To)
	var w []string
	for _, a := range r.When {
		w = append(w, a.shape())
	}
	sort.Strings(w)
	if len(w) > 0 {
		tag := "when["
		if r.MergeWhen {
			tag = "when-one-condition["
		}
		parts = append(parts, tag+strings.Join(w, " ")+"]")
	}
	return "{" + strings.Join(parts, " ") + "}"
}

func (p polSpec) shape() string {
	var rs []string
	for _, r := range p.Rules {
		rs = append(rs, r.shape())
	}
	sort.Strings(rs)
	return p.Action + "(" + strings.Join(rs, " | ") + ")"
}

func setShape(ps []polSpec) string {
	var s []string
	for _, p := range ps {
		s = append(s, p.shape())
	}
	sort.Strings(s)
	return strings.Join(s, " + ")
}

func (a atom) atoms() int { return 1 }

// toProto builds the API object istio and the reference evaluator both consume.
func (p polSpec) toProto() *authzpb.AuthorizationPolicy {
	out := &authzpb.AuthorizationPolicy{}
	switch p.Action {
	case "ALLOW":
		out.Action = authzpb.AuthorizationPolicy_ALLOW
	case "DENY":
		out.Action = authzpb.AuthorizationPolicy_DENY
	default:
		panic("c08: action " + p.Action)
	}
	for _, r := range p.Rules {
		pr := &authzpb.Rule{}
		for _, g := range r.From {
			s := &authzpb.Source{}
			for _, a := range g {
				addSource(s, a)
			}
			pr.From = append(pr.From, &authzpb.Rule_From{Source: s})
		}
		for _, g := range r.To {
			o := &authzpb.Operation{}
			for _, a := range g {
				addOperation(o, a)
			}
			pr.To = append(pr.To, &authzpb.Rule_To{Operation: o})
		}
		byKey := map[string]*authzpb.Condition{}
		for _, a := range r.When {
			key := strings.TrimPrefix(a.Field, "when:")
			c := byKey[key]
			if c != nil {
				if a.Not {
					c.NotValues = append(c.NotValues, a.Values...)
				} else {
					c.Values = append(c.Values, a.Values...)
				}
				continue
			}
			c = &authzpb.Condition{Key: key}
			if r.MergeWhen {
				byKey[key] = c
			}
			if a.Not {
				c.NotValues = append(c.NotValues, a.Values...)
			} else {
				c.Values = append(c.Values, a.Values...)
			}
			pr.When = append(pr.When, c)
		}
		out.Rules = append(out.Rules, pr)
	}
	return out
}

func addSource(s *authzpb.Source, a atom) {
	var pos, neg *[]string
	switch a.Field {
	case "principals":
		pos, neg = &s.Principals, &s.NotPrincipals
	case "requestPrincipals":
		pos, neg = &s.RequestPrincipals, &s.NotRequestPrincipals
	case "namespaces":
		pos, neg = &s.Namespaces, &s.NotNamespaces
	case "serviceAccounts":
		pos, neg = &s.ServiceAccounts, &s.NotServiceAccounts
	case "ipBlocks":
		pos, neg = &s.IpBlocks, &s.NotIpBlocks
	case "remoteIpBlocks":
		pos, neg = &s.RemoteIpBlocks, &s.NotRemoteIpBlocks
	case "trustDomains":
		pos, neg = &s.TrustDomains, &s.NotTrustDomains
	default:
		panic("c08: source field " + a.Field)
	}
	if a.Not {
		*neg = append(*neg, a.Values...)
	} else {
		*pos = append(*pos, a.Values...)
	}
}

func addOperation(o *authzpb.Operation, a atom) {
	var pos, neg *[]string
	switch a.Field {
	case "hosts":
		pos, neg = &o.Hosts, &o.NotHosts
	case "ports":
		pos, neg = &o.Ports, &o.NotPorts
	case "methods":
		pos, neg = &o.Methods, &o.NotMethods
	case "paths":
		pos, neg = &o.Paths, &o.NotPaths
	default:
		panic("c08: operation field " + a.Field)
	}
	if a.Not {
		*neg = append(*neg, a.Values...)
	} else {
		*pos = append(*pos, a.Values...)
	}
}

// ---- the literals ------------------------------------------------------------------------------

const (
	inQuick = 1 << iota // used by the single-condition level of the quick tier
	inPairs             // used by the condition-pair level of the quick tier
	bad                 // marked "unparsable": rejected by validation, kept for the fail-closed clause
)

type valDef struct {
	form  string
	vals  []string
	flags int
}

type fieldDef struct {
	name  string
	place int
	dim   dim
	vals  []valDef
}

func v(form string, flags int, vals ...string) valDef { return valDef{form, vals, flags} }

const (
	qp = inQuick | inPairs
	q  = inQuick
	th = 0
)

var fields = []fieldDef{
	{"principals", placeFrom, dPeer, []valDef{
		v("exact", qp, "td1/ns/foo/sa/bar"), v("prefix", qp, "td1/ns/foo/*"), v("suffix", qp, "*/ns/foo/sa/bar"), v("presence", qp, "*"),
		v("prefix-in-sa", q, "td1/ns/foo/sa/b*"), v("suffix-short", th, "*/sa/bar"), v("multi", q, "td1/ns/foo/sa/bar", "other/ns/default/sa/default"),
		v("exact-cluster-local", q, "cluster.local/ns/foo/sa/bar"), v("exact-alias", q, "td2/ns/foo/sa/bar"),
	}},
	{"when:source.principal", placeWhen, dPeer, []valDef{
		v("exact", qp, "td1/ns/foo/sa/bar"), v("prefix", q, "td1/ns/foo/*"), v("suffix", th, "*/ns/foo/sa/bar"), v("presence", q, "*"),
	}},
	{"namespaces", placeFrom, dPeer, []valDef{
		v("exact", qp, "foo"), v("prefix", qp, "fo*"), v("suffix", qp, "*oo"), v("presence", q, "*"), v("multi", q, "foo", "default"),
		v("exact-keyword", th, "sa"), v("prefix-keyword", th, "s*"),
	}},
	{"when:source.namespace", placeWhen, dPeer, []valDef{
		v("exact", qp, "foo"), v("prefix", q, "fo*"), v("suffix", q, "*oo"), v("presence", qp, "*"),
	}},
	{"serviceAccounts", placeFrom, dPeer, []valDef{
		v("ns/sa", qp, "foo/bar"), v("sa", qp, "bar"), v("multi", q, "foo/bar", "default/default"),
	}},
	{"when:source.serviceAccount", placeWhen, dPeer, []valDef{
		v("ns/sa", qp, "foo/bar"), v("sa", q, "bar"),
	}},
	{"trustDomains", placeFrom, dPeer, []valDef{
		v("exact", qp, "td1"), v("prefix", qp, "td*"), v("suffix", q, "*d1"), v("presence", q, "*"), v("multi", q, "td1", "other"), v("exact-alias", q, "td2"),
	}},
	{"when:source.trustDomain", placeWhen, dPeer, []valDef{
		v("exact", qp, "td1"), v("prefix", q, "t*"),
	}},
	{"ipBlocks", placeFrom, dSrcIP, []valDef{
		v("ip", qp, "10.1.2.3"), v("cidr", qp, "10.1.2.0/24"), v("cidr16", q, "10.1.0.0/16"), v("cidr-v6", q, "2001:db8::/32"),
		v("multi", q, "10.1.2.3", "2001:db8::1"), v("cidr-hostbits", th, "10.1.2.3/24"), v("cidr-all", th, "0.0.0.0/0"),
		v("unparsable", q|bad, "10.1.2.300"), v("unparsable+ip", q|bad, "10.1.2.300", "10.1.2.3"),
	}},
	{"when:source.ip", placeWhen, dSrcIP, []valDef{
		v("ip", qp, "10.1.2.3"), v("cidr", q, "10.1.2.0/24"), v("unparsable", q|bad, "10.1.2.0/33"),
	}},
	{"remoteIpBlocks", placeFrom, dRemoteIP, []valDef{
		v("ip", qp, "10.1.2.3"), v("cidr", qp, "10.1.2.0/24"), v("cidr-v6", q, "2001:db8::/32"), v("multi", th, "10.1.2.3", "2001:db8::1"),
		v("unparsable", q|bad, "1.2.3"),
	}},
	{"when:remote.ip", placeWhen, dRemoteIP, []valDef{
		v("ip", qp, "10.1.2.3"), v("cidr16", q, "10.1.0.0/16"),
	}},
	{"when:destination.ip", placeWhen, dDstIP, []valDef{
		v("ip", qp, "10.1.2.3"), v("cidr", qp, "10.1.2.0/24"), v("ip-v6", q, "2001:db8::1"), v("unparsable", q|bad, "a.b.c.d"),
	}},
	{"ports", placeTo, dDstPort, []valDef{
		v("exact", qp, "80"), v("exact-8080", qp, "8080"), v("multi", q, "80", "443"),
		v("unparsable", q|bad, "http"), v("unparsable+exact", q|bad, "65536", "80"),
	}},
	{"when:destination.port", placeWhen, dDstPort, []valDef{
		v("exact", qp, "80"), v("exact-8080", q, "8080"), v("unparsable", q|bad, "99999"),
	}},
	{"hosts", placeTo, dHost, []valDef{
		v("exact", qp, "example.com"), v("prefix", qp, "example.c*"), v("suffix", qp, "*.example.com"), v("presence", q, "*"),
		v("exact-mixed-case", q, "Example.COM"), v("suffix-nodot", th, "*example.com"), v("multi", q, "example.com", "other.org"),
	}},
	{"methods", placeTo, dMethod, []valDef{
		v("exact", qp, "GET"), v("prefix", q, "GE*"), v("suffix", q, "*ET"), v("presence", q, "*"), v("multi", qp, "GET", "POST"),
	}},
	{"paths", placeTo, dPath, []valDef{
		v("exact", qp, "/api/v1"), v("prefix", qp, "/api/*"), v("suffix", qp, "*/v1"), v("presence", q, "*"),
		v("template-one", qp, "/foo/{*}"), v("template-any", q, "/foo/{**}"), v("template-one-any", q, "/foo/{*}/bar/{**}"),
		v("multi", q, "/api/v1", "/foo/bar"),
	}},
	{"when:request.headers[x-token]", placeWhen, dHeader, []valDef{
		v("exact", qp, "abc"), v("prefix", qp, "ab*"), v("suffix", q, "*bc"), v("presence", qp, "*"), v("multi", q, "abc", "zzz"),
	}},
	{"when:request.headers[X-Token]", placeWhen, dHeader, []valDef{
		v("exact", q, "abc"),
	}},
	{"when:request.headersX[a]", placeWhen, dHeader, []valDef{
		v("unparsable-key", q|bad, "abc"),
	}},
	{"when:connection.sni", placeWhen, dSNI, []valDef{
		v("exact", qp, "www.example.com"), v("prefix", q, "www.*"), v("suffix", qp, "*.example.com"), v("presence", q, "*"),
	}},
	{"requestPrincipals", placeFrom, dJWT, []valDef{
		v("exact", qp, "https://iss.example.com/sub-1"), v("prefix-any-sub", qp, "https://iss.example.com/*"), v("prefix-in-sub", q, "https://iss.example.com/su*"),
		v("prefix-in-iss", q, "https://iss.exa*"), v("suffix-any-iss", qp, "*/sub-1"), v("suffix-in-sub", q, "*-1"), v("suffix-in-iss", q, "*.example.com/sub-1"),
		v("presence", q, "*"), v("exact-plain-iss", th, "issuer-a/sub-1"), v("prefix-plain-iss", q, "issuer-*"),
		v("multi", q, "https://iss.example.com/sub-1", "issuer-a/sub-1"),
	}},
	{"when:request.auth.principal", placeWhen, dJWT, []valDef{
		v("exact", qp, "https://iss.example.com/sub-1"), v("suffix-any-iss", q, "*/sub-1"),
	}},
	{"when:request.auth.claims[iss]", placeWhen, dJWT, []valDef{
		v("exact", qp, "https://iss.example.com"), v("prefix", q, "https://iss.*"), v("suffix", q, "*.example.com"), v("presence", q, "*"),
	}},
	{"when:request.auth.claims[groups]", placeWhen, dJWT, []valDef{
		v("exact", qp, "g1"), v("prefix", q, "g*"), v("suffix", q, "*1"), v("presence", q, "*"), v("multi", q, "g1", "zz"),
	}},
	{"when:request.auth.claims[nested][key]", placeWhen, dJWT, []valDef{
		v("exact", qp, "v"), v("presence", q, "*"),
	}},
	{"when:request.auth.claims[nested][list]", placeWhen, dJWT, []valDef{
		v("exact", q, "w"),
	}},
	{"when:request.auth.audiences", placeWhen, dJWT, []valDef{
		v("exact", qp, "aud-a"), v("prefix", q, "aud-*"), v("suffix", q, "*-a"), v("presence", q, "*"),
	}},
	{"when:request.auth.presenter", placeWhen, dJWT, []valDef{
		v("exact", qp, "azp-1"), v("prefix", q, "azp*"),
	}},
}

var fieldByName = func() map[string]*fieldDef {
	m := map[string]*fieldDef{}
	for i := range fields {
		m[fields[i].name] = &fields[i]
	}
	return m
}()

func (a atom) def() *fieldDef {
	d, ok := fieldByName[a.Field]
	if !ok {
		panic("c08: unknown field " + a.Field)
	}
	return d
}

// atomsFor lists the atoms of a level: mask selects the literals (0 = all of them).
func atomsFor(mask int) []atom {
	var out []atom
	for _, f := range fields {
		for _, vd := range f.vals {
			if mask != 0 && vd.flags&mask == 0 {
				continue
			}
			for _, not := range []bool{false, true} {
				out = append(out, atom{Field: f.name, Not: not, Values: vd.vals, Form: vd.form})
			}
		}
	}
	return out
}

func isBad(a atom) bool {
	for _, vd := range a.def().vals {
		if vd.form == a.Form {
			return vd.flags&bad != 0
		}
	}
	return false
}

// ruleOf places atoms into one rule; atoms of the same place share one source / operation.
func ruleOf(atoms ...atom) ruleSpec {
	var r ruleSpec
	var from, to []atom
	for _, a := range atoms {
		switch a.def().place {
		case placeFrom:
			from = append(from, a)
		case placeTo:
			to = append(to, a)
		default:
			r.When = append(r.When, a)
		}
	}
	if len(from) > 0 {
		r.From = [][]atom{from}
	}
	if len(to) > 0 {
		r.To = [][]atom{to}
	}
	return r
}

// pairRules lists the ways two conditions can sit in one rule: together (AND), or - when both are
// source fields or both operation fields - also as two list entries (OR).
func pairRules(a, b atom) []ruleSpec {
	out := []ruleSpec{ruleOf(a, b)}
	pa, pb := a.def().place, b.def().place
	if pa == pb && pa == placeFrom {
		out = append(out, ruleSpec{From: [][]atom{{a}, {b}}})
	}
	if pa == pb && pa == placeTo {
		out = append(out, ruleSpec{To: [][]atom{{a}, {b}}})
	}
	if pa == pb && pa == placeWhen && a.Field == b.Field && a.Not != b.Not {
		// one condition carrying values and notValues
		out = append(out, ruleSpec{When: []atom{a, b}, MergeWhen: true})
	}
	return out
}

func (r ruleSpec) all() []atom {
	var out []atom
	for _, g := range r.From {
		out = append(out, g...)
	}
	for _, g := range r.To {
		out = append(out, g...)
	}
	return append(out, r.When...)
}

func touched(ps []polSpec) (t [nDims]bool, peer bool, anyBad bool) {
	for _, p := range ps {
		for _, r := range p.Rules {
			for _, a := range r.all() {
				t[a.def().dim] = true
				if isBad(a) {
					anyBad = true
				}
			}
		}
	}
	return t, t[dPeer], anyBad
}

func pick(field, form string, not bool) atom {
	f := fieldByName[field]
	if f == nil {
		panic("c08: pick field " + field)
	}
	for _, vd := range f.vals {
		if vd.form == form {
			return atom{Field: field, Not: not, Values: vd.vals, Form: form}
		}
	}
	panic(fmt.Sprintf("c08: pick %s:%s", field, form))
}

// coreRules is the rule core of the rule-pair level: one positive rule per field, negated rules for
// the fields whose negation is generated differently, two-condition rules and the empty rule.
func coreRules(thorough bool) []ruleSpec {
	var out []ruleSpec
	for _, f := range fields {
		for _, vd := range f.vals {
			if vd.flags&inPairs != 0 {
				out = append(out, ruleOf(atom{Field: f.name, Values: vd.vals, Form: vd.form}))
				if !thorough {
					break
				}
				// thorough: every pair-level literal, and its negation, is a core rule
				out = append(out, ruleOf(atom{Field: f.name, Not: true, Values: vd.vals, Form: vd.form}))
			}
		}
	}
	for _, n := range [][2]string{{"principals", "exact"}, {"namespaces", "exact"}, {"ipBlocks", "cidr"}, {"ports", "exact"}, {"hosts", "suffix"},
		{"paths", "prefix"}, {"methods", "exact"}, {"when:request.headers[x-token]", "presence"}, {"requestPrincipals", "prefix-any-sub"},
		{"when:request.auth.claims[groups]", "exact"}} {
		out = append(out, ruleOf(pick(n[0], n[1], true)))
	}
	out = append(out,
		ruleOf(pick("principals", "exact", false), pick("paths", "exact", false)),
		ruleOf(pick("namespaces", "exact", false), pick("methods", "exact", true)),
		ruleOf(pick("ipBlocks", "ip", false), pick("ports", "exact", false)),
		ruleOf(pick("requestPrincipals", "exact", false), pick("hosts", "exact", false)),
		ruleOf(pick("paths", "template-one", false), pick("methods", "multi", false)),
		ruleOf(pick("ports", "exact-8080", false), pick("when:request.headers[x-token]", "exact", false)),
		ruleSpec{From: [][]atom{{pick("principals", "exact", false)}, {pick("namespaces", "prefix", false)}}},
		ruleSpec{To: [][]atom{{pick("paths", "exact", false)}, {pick("ports", "exact-8080", false)}}},
		// three conditions: `when` has to hold for every from / to entry
		ruleSpec{To: [][]atom{{pick("paths", "exact", false)}, {pick("ports", "exact-8080", false)}}, When: []atom{pick("when:destination.ip", "cidr", false)}},
		ruleSpec{From: [][]atom{{pick("principals", "exact", false)}, {pick("namespaces", "prefix", false)}}, When: []atom{pick("when:request.headers[x-token]", "exact", false)}},
		ruleSpec{From: [][]atom{{pick("ipBlocks", "cidr", false)}}, To: [][]atom{{pick("methods", "exact", false)}}, When: []atom{pick("when:destination.port", "exact", true)}},
		ruleSpec{}, // the empty rule matches everything
	)
	return out
}

// corePolicies is the policy core of the DENY+ALLOW level (rules only; the action is assigned by
// the level). Every policy touches at most two request dimensions.
func corePolicies() [][]ruleSpec {
	one := func(field, form string, not bool) []ruleSpec { return []ruleSpec{ruleOf(pick(field, form, not))} }
	return [][]ruleSpec{
		one("principals", "exact", false), one("principals", "prefix", true), one("namespaces", "exact", false), one("serviceAccounts", "sa", false),
		one("trustDomains", "exact", false), one("ipBlocks", "cidr", false), one("remoteIpBlocks", "ip", false), one("ports", "exact", false),
		one("ports", "exact-8080", true), one("hosts", "suffix", false), one("methods", "exact", false), one("paths", "prefix", false),
		one("paths", "template-one", false), one("paths", "exact", true), one("when:request.headers[x-token]", "exact", false),
		one("requestPrincipals", "prefix-any-sub", false), one("when:request.auth.claims[groups]", "exact", false), one("when:connection.sni", "exact", false),
		one("when:destination.ip", "cidr", false),
		{ruleOf(pick("paths", "exact", false)), ruleOf(pick("methods", "multi", false))},
		{ruleOf(pick("principals", "exact", false)), ruleOf(pick("namespaces", "prefix", false))},
		{ruleOf(pick("ports", "exact", false), pick("hosts", "exact", false)), ruleOf(pick("ports", "exact-8080", false))},
		{ruleOf(pick("namespaces", "exact", false), pick("paths", "prefix", false))},
		{{}}, // one empty rule: matches everything
		nil,  // no rules: matches nothing (valid for ALLOW only)
	}
}
