// C08 reference model R2-Istio: what an AuthorizationPolicy set decides for a request, written from the
// API documentation (istio.io/api security/v1beta1 authorization_policy.proto comments, the
// conditions reference and MeshConfig.trustDomainAliases), not from istio's generator.
//
//	policy set: a matching DENY policy rejects; otherwise no ALLOW policy => admit; otherwise admit iff
//	            some ALLOW policy matches.
//	policy:     matches iff some rule matches (no rules: never).
//	rule:       (from empty or some source matches) and (to empty or some operation matches) and
//	            every when condition matches.
//	source / operation: every populated field matches; field: (values empty or some value matches)
//	            and no notValue matches.
//	string values: exact, "p*" prefix, "*s" suffix, "*" = value not empty.
//
// Cells the documentation leaves open evaluate to U (both answers accepted).
package c08

import (
	"net/netip"
	"regexp"
	"strconv"
	"strings"

	authzpb "istio.io/api/security/v1beta1"
)

type meshCfg struct {
	TrustDomain string   `json:"trust_domain"`
	Aliases     []string `json:"aliases,omitempty"`
}

func (m meshCfg) all() []string { return append([]string{m.TrustDomain}, m.Aliases...) }

type polIn struct {
	NS   string
	Name string
	Spec *authzpb.AuthorizationPolicy
}

type istioEval struct {
	mesh meshCfg
	req  *request
	// degraded is set when the evaluation met a construct that cannot be expressed for this
	// connection (HTTP-only field on a TCP connection, unparsable value): the statement then only
	// requires "never more permissive", with the ALLOW rule matching nothing and the DENY rule
	// enforced on its remaining conditions. That reading is what verdict() computes.
	degraded bool
}

// verdict returns whether the request is admitted.
func (e *istioEval) verdict(pols []polIn) tv {
	deny := F
	allow := F
	nAllow := 0
	for _, p := range pols {
		switch p.Spec.GetAction() {
		case authzpb.AuthorizationPolicy_DENY:
			deny = or3(deny, e.policy(p, true))
		case authzpb.AuthorizationPolicy_ALLOW:
			nAllow++
			allow = or3(allow, e.policy(p, false))
		default:
			panic("c08: action out of scope: " + p.Spec.GetAction().String())
		}
	}
	if nAllow == 0 {
		allow = T
	}
	return and3(not3(deny), allow)
}

func (e *istioEval) policy(p polIn, deny bool) tv {
	m := F
	for _, r := range p.Spec.GetRules() {
		m = or3(m, e.rule(p.NS, r, deny))
	}
	return m
}

// cond is the evaluation of one field: its truth value and whether part of it was not expressible.
type cond struct {
	m   tv
	bad bool
}

func (e *istioEval) rule(polNS string, r *authzpb.Rule, deny bool) tv {
	bad := false
	acc := func(dst *tv, c cond) {
		if c.bad {
			bad = true
		}
		*dst = and3(*dst, c.m)
	}
	from := T
	if len(r.GetFrom()) > 0 {
		from = F
		for _, f := range r.GetFrom() {
			s := f.GetSource()
			m := T
			acc(&m, e.field(fPrincipal, "", polNS, s.GetPrincipals(), s.GetNotPrincipals(), deny))
			acc(&m, e.field(fRequestPrincipal, "", polNS, s.GetRequestPrincipals(), s.GetNotRequestPrincipals(), deny))
			acc(&m, e.field(fNamespace, "", polNS, s.GetNamespaces(), s.GetNotNamespaces(), deny))
			acc(&m, e.field(fServiceAccount, "", polNS, s.GetServiceAccounts(), s.GetNotServiceAccounts(), deny))
			acc(&m, e.field(fSrcIP, "", polNS, s.GetIpBlocks(), s.GetNotIpBlocks(), deny))
			acc(&m, e.field(fRemoteIP, "", polNS, s.GetRemoteIpBlocks(), s.GetNotRemoteIpBlocks(), deny))
			acc(&m, e.field(fTrustDomain, "", polNS, s.GetTrustDomains(), s.GetNotTrustDomains(), deny))
			from = or3(from, m)
		}
	}
	to := T
	if len(r.GetTo()) > 0 {
		to = F
		for _, t := range r.GetTo() {
			o := t.GetOperation()
			m := T
			acc(&m, e.field(fHost, "", polNS, o.GetHosts(), o.GetNotHosts(), deny))
			acc(&m, e.field(fPort, "", polNS, o.GetPorts(), o.GetNotPorts(), deny))
			acc(&m, e.field(fMethod, "", polNS, o.GetMethods(), o.GetNotMethods(), deny))
			acc(&m, e.field(fPath, "", polNS, o.GetPaths(), o.GetNotPaths(), deny))
			to = or3(to, m)
		}
	}
	when := T
	for _, c := range r.GetWhen() {
		k, arg, ok := whenKind(c.GetKey())
		if !ok {
			// a key that names no attribute cannot be expressed at all
			bad = true
			if deny {
				continue
			}
			when = F
			continue
		}
		acc(&when, e.field(k, arg, polNS, c.GetValues(), c.GetNotValues(), deny))
	}
	if bad {
		e.degraded = true
		if !deny {
			// "such an ALLOW rule matches nothing"
			return F
		}
	}
	return and3(from, and3(to, when))
}

type fkind int

const (
	fPrincipal fkind = iota
	fRequestPrincipal
	fNamespace
	fServiceAccount
	fTrustDomain
	fSrcIP
	fRemoteIP
	fDstIP
	fPort
	fHost
	fMethod
	fPath
	fHeader
	fSNI
	fClaim
	fAudiences
	fPresenter
)

func (k fkind) httpOnly() bool {
	switch k {
	case fRequestPrincipal, fHost, fMethod, fPath, fHeader, fClaim, fAudiences, fPresenter:
		return true
	}
	return false
}

var bracketRe = regexp.MustCompile(`^(\[[^\[\]]+\])+$`)

// whenKind maps a condition key of the conditions reference to an attribute.
func whenKind(key string) (fkind, string, bool) {
	switch key {
	case "source.ip":
		return fSrcIP, "", true
	case "remote.ip":
		return fRemoteIP, "", true
	case "source.namespace":
		return fNamespace, "", true
	case "source.serviceAccount":
		return fServiceAccount, "", true
	case "source.trustDomain":
		return fTrustDomain, "", true
	case "source.principal":
		return fPrincipal, "", true
	case "request.auth.principal":
		return fRequestPrincipal, "", true
	case "request.auth.audiences":
		return fAudiences, "", true
	case "request.auth.presenter":
		return fPresenter, "", true
	case "destination.ip":
		return fDstIP, "", true
	case "destination.port":
		return fPort, "", true
	case "connection.sni":
		return fSNI, "", true
	}
	if rest, ok := strings.CutPrefix(key, "request.headers"); ok && bracketRe.MatchString(rest) && strings.Count(rest, "[") == 1 {
		return fHeader, rest[1 : len(rest)-1], true
	}
	if rest, ok := strings.CutPrefix(key, "request.auth.claims"); ok && bracketRe.MatchString(rest) {
		return fClaim, rest, true
	}
	return 0, "", false
}

// field evaluates `values` / `notValues` of one attribute.
func (e *istioEval) field(k fkind, arg, polNS string, values, notValues []string, deny bool) cond {
	if len(values) == 0 && len(notValues) == 0 {
		return cond{m: T}
	}
	if !e.req.HTTP && k.httpOnly() {
		// "When this rule is applied to TCP traffic, the method field (as with all HTTP based
		// attributes) cannot be processed. For a DENY rule, missing attributes are treated as matches."
		return cond{m: T, bad: true}
	}
	bad := false
	pos := F
	nParsable := 0
	for _, v := range values {
		m, ok := e.value(k, arg, polNS, v)
		if !ok {
			bad = true
			continue
		}
		nParsable++
		pos = or3(pos, m)
	}
	if len(values) == 0 || (bad && nParsable == 0) {
		// no positive list, or (DENY) nothing of it is left: the condition is dropped
		pos = T
	}
	neg := F
	for _, v := range notValues {
		m, ok := e.value(k, arg, polNS, v)
		if !ok {
			bad = true
			continue
		}
		neg = or3(neg, m)
	}
	return cond{m: and3(pos, not3(neg)), bad: bad}
}

// strMatch implements the four documented string forms on an attribute value ("" = absent / empty).
func strMatch(pat, val string) tv {
	switch {
	case pat == "*":
		return tvOf(val != "")
	case strings.HasPrefix(pat, "*") && strings.HasSuffix(pat, "*"):
		return U // "*x*" is not one of the documented forms
	case strings.HasPrefix(pat, "*"):
		return tvOf(strings.HasSuffix(val, pat[1:]))
	case strings.HasSuffix(pat, "*"):
		return tvOf(strings.HasPrefix(val, pat[:len(pat)-1]))
	}
	return tvOf(val == pat)
}

type identity struct {
	td, ns, sa string
	ok         bool
}

// parseIdentity splits "<TRUST_DOMAIN>/ns/<NAMESPACE>/sa/<SERVICE_ACCOUNT>".
func parseIdentity(p string) identity {
	parts := strings.Split(p, "/")
	if len(parts) != 5 || parts[1] != "ns" || parts[3] != "sa" {
		return identity{}
	}
	return identity{td: parts[0], ns: parts[2], sa: parts[4], ok: true}
}

func parseIPBlock(v string) (netip.Prefix, bool) {
	if strings.Contains(v, "/") {
		p, err := netip.ParsePrefix(v)
		if err != nil {
			return netip.Prefix{}, false
		}
		return p.Masked(), true
	}
	a, err := netip.ParseAddr(v)
	if err != nil {
		return netip.Prefix{}, false
	}
	return netip.PrefixFrom(a, a.BitLen()), true
}

func ipIn(block netip.Prefix, addr string) tv {
	a, err := netip.ParseAddr(addr)
	if err != nil {
		return F
	}
	return tvOf(block.Contains(a))
}

// value evaluates one value of an attribute; ok=false means the value cannot be parsed for the
// attribute's type.
func (e *istioEval) value(k fkind, arg, polNS, v string) (m tv, ok bool) {
	r := e.req
	switch k {
	case fPrincipal:
		return e.principal(v), true
	case fNamespace:
		if r.Peer == "" {
			return strMatch(v, ""), true
		}
		id := parseIdentity(r.Peer)
		if !id.ok {
			return U, true
		}
		return strMatch(v, id.ns), true
	case fTrustDomain:
		if r.Peer == "" {
			return strMatch(v, ""), true
		}
		id := parseIdentity(r.Peer)
		if !id.ok {
			return U, true
		}
		// MeshConfig.trustDomainAliases: identities that differ only in a trust domain of the
		// alias set are "treated the same".
		lit := strMatch(v, id.td)
		if !contains(e.mesh.all(), id.td) {
			return lit, true
		}
		loose := F
		for _, t := range e.mesh.all() {
			loose = or3(loose, strMatch(v, t))
		}
		if lit == loose {
			return lit, true
		}
		if !strings.Contains(v, "*") {
			return loose, true
		}
		return U, true
	case fServiceAccount:
		// "<namespace>/<serviceaccount>", or "<serviceaccount>" in the policy's namespace. "No form of
		// wildcard is allowed": the value is compared literally.
		ns, sa, found := strings.Cut(v, "/")
		if !found {
			ns, sa = polNS, v
		}
		if r.Peer == "" {
			return F, true
		}
		id := parseIdentity(r.Peer)
		if !id.ok {
			return U, true
		}
		return tvOf(id.ns == ns && id.sa == sa), true
	case fSrcIP, fRemoteIP, fDstIP:
		blk, ok := parseIPBlock(v)
		if !ok {
			return F, false
		}
		addr := map[fkind]string{fSrcIP: r.SrcIP, fRemoteIP: r.RemoteIP, fDstIP: r.DstIP}[k]
		return ipIn(blk, addr), true
	case fPort:
		p, err := strconv.ParseUint(v, 10, 32)
		if err != nil || p > 65535 {
			return F, false
		}
		return tvOf(uint32(p) == r.DstPort), true
	case fHost:
		// "The match is case-insensitive." Whether a port in the Host header takes part is not
		// stated: both readings are accepted.
		pat, host := strings.ToLower(v), strings.ToLower(r.Host)
		a := strMatch(pat, host)
		if i := strings.LastIndex(host, ":"); i >= 0 {
			b := strMatch(pat, host[:i])
			if a != b {
				return U, true
			}
		}
		return a, true
	case fMethod:
		return strMatch(v, r.Method), true
	case fPath:
		path := r.Path
		if i := strings.IndexAny(path, "?#"); i >= 0 {
			path = path[:i]
		}
		if strings.Contains(v, "{*}") || strings.Contains(v, "{**}") {
			return templateMatch(v, path)
		}
		return strMatch(v, path), true
	case fHeader:
		val, present := r.Headers[strings.ToLower(arg)]
		if present && val == "" && v == "*" {
			return U, true // header present with an empty value: "value is not empty" can be read both ways
		}
		return strMatch(v, val), true
	case fSNI:
		return strMatch(v, r.SNI), true
	case fRequestPrincipal:
		// "<ISS>/<SUB>"
		if r.JWT == nil {
			return strMatch(v, ""), true
		}
		iss, ok1 := r.JWT["iss"].(string)
		sub, ok2 := r.JWT["sub"].(string)
		if !ok1 || !ok2 {
			return U, true
		}
		return strMatch(v, iss+"/"+sub), true
	case fAudiences:
		return claimMatch(v, r.JWT, []string{"aud"}), true
	case fPresenter:
		return claimMatch(v, r.JWT, []string{"azp"}), true
	case fClaim:
		var path []string
		for _, seg := range strings.Split(strings.Trim(arg, "[]"), "][") {
			path = append(path, seg)
		}
		return claimMatch(v, r.JWT, path), true
	}
	panic("c08: unknown field kind")
}

// claimMatch: "Only support claim of type string or list of string"; a list matches when one of its
// elements matches.
func claimMatch(pat string, jwt map[string]any, path []string) tv {
	if jwt == nil {
		return strMatch(pat, "")
	}
	var cur any = jwt
	for _, seg := range path {
		m, ok := cur.(map[string]any)
		if !ok {
			return F
		}
		cur, ok = m[seg]
		if !ok {
			return strMatch(pat, "")
		}
	}
	switch c := cur.(type) {
	case string:
		return strMatch(pat, c)
	case []any:
		m := F
		for _, el := range c {
			s, ok := el.(string)
			if !ok {
				return U
			}
			m = or3(m, strMatch(pat, s))
		}
		return m
	}
	return U // other claim types are not supported by the documentation
}

// principal matches a `principals` value against the peer identity, honouring trust domain aliases.
func (e *istioEval) principal(v string) tv {
	peer := e.req.Peer
	lit := strMatch(v, peer)
	if peer == "" {
		return lit
	}
	id := parseIdentity(peer)
	if !id.ok {
		return lit
	}
	tds := e.mesh.all()
	peerInMesh := contains(tds, id.td)
	// the trust domain named by the value, when the value has the full five-part shape
	vparts := strings.Split(v, "/")
	vTD := ""
	if len(vparts) == 5 && !strings.Contains(vparts[0], "*") {
		vTD = vparts[0]
	}
	rest := ""
	if vTD != "" {
		rest = v[len(vTD):]
	}
	switch {
	case vTD != "" && contains(tds, vTD):
		// "td1/ns/foo/sa/x, td2/ns/foo/sa/x ... will be treated the same in the Istio mesh"
		if !peerInMesh {
			return lit
		}
		m := F
		for _, t := range tds {
			m = or3(m, strMatch(t+rest, peer))
		}
		return m
	case vTD == "cluster.local":
		// "cluster.local" in a policy is a pointer to the mesh's own trust domain and its aliases
		// (istio.io, trust domain migration: policies written with cluster.local keep working when the
		// mesh's trust domain is something else); a peer whose trust domain literally is cluster.local
		// while the mesh's is not is a foreign identity and does not match
		ptr := F
		for _, t := range tds {
			ptr = or3(ptr, strMatch(t+rest, peer))
		}
		return ptr
	default:
		if !peerInMesh || len(tds) == 1 {
			return lit
		}
		// value without a definite trust domain (wildcard or partial form) and a peer from an
		// aliased trust domain: "treated the same" may or may not reach such values
		loose := F
		for _, t := range tds {
			loose = or3(loose, strMatch(v, t+"/ns/"+id.ns+"/sa/"+id.sa))
		}
		if loose == lit {
			return lit
		}
		return U
	}
}

func contains(l []string, s string) bool {
	for _, x := range l {
		if x == s {
			return true
		}
	}
	return false
}

// templateMatch implements the documented path template operators: "{*} matches a single glob that
// cannot extend beyond a path segment", "{**} matches zero or more globs"; every other segment is a
// literal. Undocumented corners (an empty segment under {*}, whether "/a/{**}" covers "/a") are U.
var templateCache = map[string]*[4]*regexp.Regexp{}

func templateMatch(tmpl, path string) (tv, bool) {
	if c, ok := templateCache[tmpl]; ok {
		if c == nil {
			return F, false
		}
		strict := c[0].MatchString(path)
		for _, re := range c[1:] {
			if re.MatchString(path) != strict {
				return U, true
			}
		}
		return tvOf(strict), true
	}
	segs := strings.Split(tmpl, "/")
	build := func(oneEmpty, anyAbsorbsSlash bool) *regexp.Regexp {
		var b strings.Builder
		b.WriteString("^")
		for i, s := range segs {
			sep := ""
			if i > 0 {
				sep = "/"
			}
			switch s {
			case "{*}":
				if oneEmpty {
					b.WriteString(sep + "[^/]*")
				} else {
					b.WriteString(sep + "[^/]+")
				}
			case "{**}":
				if anyAbsorbsSlash && i > 0 {
					b.WriteString("(/.*)?")
				} else {
					b.WriteString(sep + ".*")
				}
			default:
				b.WriteString(sep + regexp.QuoteMeta(s))
			}
		}
		b.WriteString("$")
		return regexp.MustCompile(b.String())
	}
	for _, s := range segs {
		if s != "{*}" && s != "{**}" && strings.ContainsAny(s, "{}*") {
			templateCache[tmpl] = nil
			return F, false // "must not contain *, { or } outside of a supported operator"
		}
	}
	templateCache[tmpl] = &[4]*regexp.Regexp{build(false, false), build(true, false), build(false, true), build(true, true)}
	return templateMatch(tmpl, path)
}
