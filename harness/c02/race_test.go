package c02

import (
	"sync"
	"testing"

	"istio.io/istio/zz_verif/engine"
)

// TestC02Race: free-running pass over the push queue for what the sequential BFS of part b cannot
// show - unsynchronised accesses. Producers enqueue the shared requests for two connections while a
// consumer dequeues, reads what it was handed and marks it done; the binary is built with -race and a
// race report is the violation. Every assignment of the 6 request shapes to (producer, connection)
// pairs of length <= 2 per producer is run, repeatedly.
func TestC02Race(t *testing.T) {
	env := engine.GetEnv()
	res := engine.NewResult("C02", "f-pushqueue-race-pass")
	res.Rule = "2 producers x every sequence of <= 2 Enqueue calls each over 2 connections x 6 shared requests, 1 consumer (Dequeue, read the request, MarkDone), ShutDown after the producers; run free under -race, repeated; a race report is a violation; non-trivial = run in which a request was merged (a connection enqueued twice)"
	defer res.Write(t, env)
	reps := 5
	if env.Thorough() {
		reps = 40
	}
	res.Bounds["repetitions"] = reps
	type call struct{ con, req int }
	var calls []call
	for c := 0; c < 2; c++ {
		for r := range qReqSpecs {
			calls = append(calls, call{c, r})
		}
	}
	var progs [][]call
	for _, a := range calls {
		progs = append(progs, []call{a})
		for _, b := range calls {
			progs = append(progs, []call{a, b})
		}
	}
	var ord int64
	for i, p1 := range progs {
		for j, p2 := range progs {
			// producers are symmetric; the thorough tier takes every unordered pair, quick a spread
			if j < i || (!env.Thorough() && (i+j)%7 != 0) {
				continue
			}
			ord++
			if !env.Mine(ord) {
				continue
			}
			if env.Expired() {
				res.Cap("deadline")
				return
			}
			merged := false
			for r := 0; r < reps; r++ {
				w := newQWorld(2)
				var wg sync.WaitGroup
				for _, prog := range [][]call{p1, p2} {
					wg.Add(1)
					go func() {
						defer wg.Done()
						for _, c := range prog {
							w.q.Enqueue(w.cons[c.con], w.reqs[c.req])
						}
					}()
				}
				done := make(chan int)
				go func() {
					n := 0
					for {
						con, req, shut := w.q.Dequeue()
						if shut {
							break
						}
						_ = snap(req)
						w.q.MarkDone(con)
						n++
					}
					done <- n
				}()
				wg.Wait()
				w.q.ShutDown()
				if n := <-done; n < len(p1)+len(p2) {
					merged = true
				}
				for k, rq := range w.reqs {
					if snap(rq) != w.before[k] {
						res.Violate("queue:shared-request-modified", "a request shared between connections was modified by the queue", map[string]any{"p1": p1, "p2": p2})
					}
				}
				res.Evaluations++
			}
			res.States++
			res.Transitions += int64(reps * (len(p1) + len(p2)))
			if merged {
				res.NontrivialCase(string(rune(i)) + "/" + string(rune(j)))
			}
			res.Outcome(map[bool]string{true: "merged", false: "unmerged"}[merged])
		}
	}
	res.Traces = res.Evaluations
	res.Sample(map[string]any{"producers": [][]call{progs[1], progs[14]}})
}
