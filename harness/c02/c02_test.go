// C02: no config update is lost or weakened between the notification and each proxy's push.
// Four harnesses over the real debounce loop, PushQueue, doSendPushes and Merge/CopyMerge.
package c02

import (
	"context"
	"fmt"
	"reflect"
	"sort"
	"strings"
	"testing"
	"testing/synctest"
	"time"

	discovery "github.com/envoyproxy/go-control-plane/envoy/service/discovery/v3"
	uatomic "go.uber.org/atomic"
	"google.golang.org/grpc"

	"istio.io/istio/pilot/pkg/model"
	"istio.io/istio/pilot/pkg/xds"
	"istio.io/istio/pkg/config/schema/kind"
	"istio.io/istio/pkg/util/sets"
	"istio.io/istio/pkg/verifshim/sched"
	"istio.io/istio/zz_verif/engine"
)

// ---------------------------------------------------------------------------------------------
// shared helpers

func keys(r *model.PushRequest) string {
	if r == nil {
		return "<nil req>"
	}
	if r.ConfigsUpdated == nil {
		return "nil"
	}
	var s []string
	for k := range r.ConfigsUpdated {
		s = append(s, k.Kind.String()+"/"+k.Name)
	}
	sort.Strings(s)
	return "{" + strings.Join(s, ",") + "}"
}

func reasonStr(r model.ReasonStats) string {
	var s []string
	for k, v := range r {
		s = append(s, fmt.Sprintf("%s=%d", k, v))
	}
	sort.Strings(s)
	return strings.Join(s, ",")
}

func snap(r *model.PushRequest) string {
	if r == nil {
		return "<nil>"
	}
	var addrs []string
	for a := range r.AddressesUpdated {
		addrs = append(addrs, a)
	}
	sort.Strings(addrs)
	return fmt.Sprintf("keys=%s forced=%v push=%p start=%d reason=[%s] addrs=%v", keys(r), r.Forced, r.Push, r.Start.UnixNano(), reasonStr(r.Reason), addrs)
}

type fakeStream struct {
	grpc.ServerStream
	ctx context.Context
}

func (f *fakeStream) Context() context.Context                 { return f.ctx }
func (f *fakeStream) Send(*discovery.DiscoveryResponse) error   { return nil }
func (f *fakeStream) Recv() (*discovery.DiscoveryRequest, error) { <-f.ctx.Done(); return nil, f.ctx.Err() }

func ck(k kind.Kind, name string) model.ConfigKey {
	return model.ConfigKey{Kind: k, Name: name, Namespace: "ns"}
}

// ---------------------------------------------------------------------------------------------
// (d) Merge / CopyMerge algebra

type reqSpec struct {
	Keys   int  `json:"keys"`   // 0 nil, 1 empty, 2 {A}, 3 {B}
	Forced bool `json:"forced"`
	Push   int  `json:"push"`   // 0 nil, 1 p1, 2 p2
	Reason int  `json:"reason"` // 0 nil, 1 {x}
	Addr   int  `json:"addr"`   // 0 nil, 1 {a1}
	Start  int  `json:"start"`
}

var pushCtxs = []*model.PushContext{nil, model.NewPushContext(), model.NewPushContext()}

func (s reqSpec) build() *model.PushRequest {
	r := &model.PushRequest{Forced: s.Forced, Push: pushCtxs[s.Push], Start: time.Unix(int64(100+s.Start), 0)}
	switch s.Keys {
	case 1:
		r.ConfigsUpdated = sets.New[model.ConfigKey]()
	case 2:
		r.ConfigsUpdated = sets.New(ck(kind.ServiceEntry, "A"))
	case 3:
		r.ConfigsUpdated = sets.New(ck(kind.VirtualService, "B"))
	}
	if s.Reason == 1 {
		r.Reason = model.NewReasonStats(model.ConfigUpdate)
	}
	if s.Addr == 1 {
		r.AddressesUpdated = sets.New("a1")
	}
	return r
}

// expected observable merge of a list (oldest first), from the property text: union of keys,
// OR of forced, newest snapshot, oldest start, reasons added up.
type obs struct {
	keys   map[string]bool
	forced bool
	push   int
	start  int
	reason int
	addrs  bool
}

func expectMerge(specs []reqSpec) obs {
	o := obs{keys: map[string]bool{}, start: specs[0].Start}
	for _, s := range specs {
		if s.Keys == 2 {
			o.keys["A"] = true
		}
		if s.Keys == 3 {
			o.keys["B"] = true
		}
		o.forced = o.forced || s.Forced
		if s.Push != 0 {
			o.push = s.Push
		}
		o.reason += s.Reason
		o.addrs = o.addrs || s.Addr == 1
	}
	return o
}

func observe(r *model.PushRequest) obs {
	o := obs{keys: map[string]bool{}}
	for k := range r.ConfigsUpdated {
		o.keys[k.Name] = true
	}
	o.forced = r.Forced
	for i, p := range pushCtxs {
		if p == r.Push {
			o.push = i
		}
	}
	o.start = int(r.Start.Unix() - 100)
	for _, v := range r.Reason {
		o.reason += v
	}
	o.addrs = r.AddressesUpdated.Contains("a1")
	return o
}

func TestC02d(t *testing.T) {
	env := engine.GetEnv()
	res := engine.NewResult("C02", "d-merge-algebra")
	res.Rule = "all ordered pairs and triples over the request universe (keys x forced x snapshot x reason x addresses) through Merge and CopyMerge; non-trivial = tuple whose members differ in at least one field"
	defer res.Write(t, env)
	var uni []reqSpec
	for k := 0; k < 4; k++ {
		for f := 0; f < 2; f++ {
			for p := 0; p < 3; p++ {
				for r := 0; r < 2; r++ {
					for a := 0; a < 2; a++ {
						uni = append(uni, reqSpec{Keys: k, Forced: f == 1, Push: p, Reason: r, Addr: a})
					}
				}
			}
		}
	}
	res.Bounds["universe"] = len(uni)
	check := func(specs []reqSpec, copyMerge bool) {
		for i := range specs {
			specs[i].Start = i
		}
		if copyMerge {
			// contract of the per-proxy queue: every enqueued request carries a snapshot
			for _, s := range specs {
				if s.Push == 0 {
					return
				}
			}
		}
		res.Evaluations++
		in := make([]*model.PushRequest, len(specs))
		before := make([]string, len(specs))
		for i, s := range specs {
			in[i] = s.build()
			before[i] = snap(in[i])
		}
		name := "Merge"
		var got *model.PushRequest
		func() {
			defer func() {
				if r := recover(); r != nil {
					res.Violate(name+":panic", fmt.Sprintf("%s%v panics: %v", name, specs, r), map[string]any{"specs": specs, "copy": copyMerge})
				}
			}()
			got = in[0]
			for _, r := range in[1:] {
				if copyMerge {
					name = "CopyMerge"
					got = got.CopyMerge(r)
				} else {
					got = got.Merge(r)
				}
			}
		}()
		if got == nil {
			return
		}
		want, have := expectMerge(specs), observe(got)
		if !reflect.DeepEqual(want, have) {
			field := "?"
			switch {
			case !reflect.DeepEqual(want.keys, have.keys):
				field = "keys"
			case want.forced != have.forced:
				field = "forced"
			case want.push != have.push:
				field = "snapshot"
			case want.start != have.start:
				field = "start"
			case want.reason != have.reason:
				field = "reason"
			case want.addrs != have.addrs:
				field = "addresses"
			}
			res.Violate(name+":"+field, fmt.Sprintf("%s of %+v gives %+v, want %+v", name, specs, have, want), map[string]any{"specs": specs, "copy": copyMerge})
		}
		if copyMerge {
			for i := range in {
				if snap(in[i]) != before[i] {
					res.Violate("CopyMerge:mutates-input", fmt.Sprintf("CopyMerge of %+v changed input %d: %s -> %s", specs, i, before[i], snap(in[i])), map[string]any{"specs": specs, "copy": true})
				}
			}
		}
		// (Merge's contract forfeits both inputs - "both inputs should not be used after completion" - so
		// nothing is demanded of them; the non-interference clause of the property concerns the per-proxy
		// queue, which uses CopyMerge.)
		res.Outcome(fmt.Sprintf("%v/%v/%d/%v", len(have.keys), have.forced, have.push, have.addrs))
		distinct := false
		for i := 1; i < len(specs); i++ {
			a, b := specs[0], specs[i]
			a.Start, b.Start = 0, 0
			if a != b {
				distinct = true
			}
		}
		if distinct {
			res.NontrivialCase(fmt.Sprint(specs, copyMerge))
		}
	}
	if env.Replay != "" {
		var rp struct {
			Specs []reqSpec `json:"specs"`
			Copy  bool      `json:"copy"`
		}
		if err := engine.ReadReplay(env.Replay, &rp); err != nil {
			t.Fatal(err)
		}
		check(rp.Specs, rp.Copy)
		return
	}
	n := len(uni)
	var ord int64
	for a := 0; a < n; a++ {
		for b := 0; b < n; b++ {
			ord++
			if !env.Mine(ord) {
				continue
			}
			for _, cm := range []bool{false, true} {
				check([]reqSpec{uni[a], uni[b]}, cm)
				for c := 0; c < n; c++ {
					if !env.Thorough() && c%3 != (a+b)%3 { // quick: a third of the triples (deterministic)
						continue
					}
					check([]reqSpec{uni[a], uni[b], uni[c]}, cm)
				}
			}
		}
	}
	if !env.Thorough() {
		res.Bounds["triples"] = "one third (c mod 3 == (a+b) mod 3); pairs complete"
	}
	res.Sample(map[string]any{"specs": []reqSpec{uni[5], uni[40]}, "merged": fmt.Sprintf("%+v", expectMerge([]reqSpec{uni[5], uni[40]}))})
}

// ---------------------------------------------------------------------------------------------
// (b) PushQueue: explicit-state BFS over operation sequences

type qop struct {
	Kind string `json:"kind"` // enq, deq, done, shutdown
	Con  int    `json:"con"`
	Req  int    `json:"req"`
}

func (o qop) String() string {
	switch o.Kind {
	case "enq":
		return fmt.Sprintf("enq(c%d,r%d)", o.Con, o.Req)
	case "done":
		return fmt.Sprintf("done(c%d)", o.Con)
	}
	return o.Kind
}

// the queue's request alphabet; requests are shared between connections, as StartPush does
var qReqSpecs = []reqSpec{
	{Keys: 2, Push: 1},
	{Keys: 3, Push: 2, Forced: true},
	{Keys: 0, Push: 1, Reason: 1},
	{Keys: 2, Push: 2, Addr: 1},
	{Keys: 0, Push: 1, Forced: true},            // ProxyUpdate: forced, no keys
	{Keys: 1, Push: 2, Forced: true, Reason: 1}, // AdsPushAll of a global push: forced, empty key set
}

type ghostAcc struct {
	any   bool
	specs []reqSpec
}

type qworld struct {
	q       *xds.PushQueue
	cons    []*xds.Connection
	reqs    []*model.PushRequest
	before  []string
	acc     []ghostAcc // per connection: everything enqueued since it was last returned
	inproc  []bool
	queued  []int // model queue order
	shut    bool
	enqSeq  int
	history []qop
}

func newQWorld(ncon int) *qworld {
	w := &qworld{q: xds.NewPushQueue()}
	for i := 0; i < ncon; i++ {
		w.cons = append(w.cons, xds.VerifNewConnection("peer", &fakeStream{ctx: context.Background()}, fmt.Sprintf("c%d", i)))
	}
	for i, s := range qReqSpecs {
		s.Start = i
		r := s.build()
		w.reqs = append(w.reqs, r)
		w.before = append(w.before, snap(r))
	}
	w.acc = make([]ghostAcc, ncon)
	w.inproc = make([]bool, ncon)
	return w
}

func (w *qworld) conIdx(c *xds.Connection) int {
	for i, x := range w.cons {
		if x == c {
			return i
		}
	}
	return -1
}

func (w *qworld) enabled() []qop {
	var out []qop
	for c := range w.cons {
		for r := range w.reqs {
			out = append(out, qop{"enq", c, r})
		}
	}
	if len(w.queued) > 0 {
		out = append(out, qop{Kind: "deq"})
	}
	for c := range w.cons {
		if w.inproc[c] {
			out = append(out, qop{Kind: "done", Con: c})
		}
	}
	if !w.shut {
		out = append(out, qop{Kind: "shutdown"})
	} else if len(w.queued) == 0 {
		out = append(out, qop{Kind: "deq"}) // must report shutdown, not block
	}
	return out
}

// apply performs op on the real queue and the ghost model, returning a violation (key, desc) or "".
func (w *qworld) apply(o qop) (string, string) {
	w.history = append(w.history, o)
	switch o.Kind {
	case "enq":
		w.q.Enqueue(w.cons[o.Con], w.reqs[o.Req])
		if !w.shut {
			s := qReqSpecs[o.Req]
			s.Start = o.Req
			w.acc[o.Con].specs = append(w.acc[o.Con].specs, s)
			w.acc[o.Con].any = true
			if !w.inproc[o.Con] {
				found := false
				for _, x := range w.queued {
					if x == o.Con {
						found = true
					}
				}
				if !found {
					w.queued = append(w.queued, o.Con)
				}
			}
		}
	case "deq":
		con, req, shutdown := w.q.Dequeue()
		if len(w.queued) == 0 {
			if !shutdown {
				return "queue:dequeue-after-shutdown", "Dequeue on an empty shut-down queue returned an item"
			}
			return "", ""
		}
		if shutdown {
			return "queue:lost-pending", fmt.Sprintf("Dequeue reports shutdown while %v are still queued", w.queued)
		}
		ci := w.conIdx(con)
		if ci != w.queued[0] {
			return "queue:order", fmt.Sprintf("Dequeue returned c%d, model expects c%d (FIFO by first enqueue)", ci, w.queued[0])
		}
		w.queued = w.queued[1:]
		if w.inproc[ci] {
			return "queue:two-in-flight", fmt.Sprintf("c%d returned while its previous push is not marked done", ci)
		}
		want := expectMerge(w.acc[ci].specs)
		if req == nil {
			return "queue:nil-request", "Dequeue returned a nil request"
		}
		have := observe(req)
		if !reflect.DeepEqual(want, have) {
			return "queue:merge", fmt.Sprintf("c%d is told %+v but was enqueued %+v (expected %+v)", ci, have, w.acc[ci].specs, want)
		}
		w.acc[ci] = ghostAcc{}
		w.inproc[ci] = true
	case "done":
		w.q.MarkDone(w.cons[o.Con])
		w.inproc[o.Con] = false
		if w.acc[o.Con].any {
			w.queued = append(w.queued, o.Con)
		}
	case "shutdown":
		w.q.ShutDown()
		w.shut = true
	}
	// non-mutation / non-interference: the shared input requests are never altered
	for i, r := range w.reqs {
		if snap(r) != w.before[i] {
			return "queue:mutates-shared-request", fmt.Sprintf("after %v shared request r%d changed: %s -> %s", o, i, w.before[i], snap(r))
		}
	}
	// structural agreement between the real bookkeeping and the model
	queue, pending, processing, _ := xds.VerifQueueState(w.q)
	var qs []int
	for _, c := range queue {
		qs = append(qs, w.conIdx(c))
	}
	if fmt.Sprint(qs) != fmt.Sprint(w.queued) {
		return "queue:order", fmt.Sprintf("queue is %v, model %v", qs, w.queued)
	}
	for ci, c := range w.cons {
		_, inp := processing[c]
		if inp != w.inproc[ci] {
			return "queue:processing", fmt.Sprintf("c%d processing=%v, model %v", ci, inp, w.inproc[ci])
		}
		var held *model.PushRequest
		if inp {
			held = processing[c]
		} else {
			held = pending[c]
		}
		if w.acc[ci].any != (held != nil) {
			return "queue:lost-request", fmt.Sprintf("c%d: model has pending input %+v, queue holds %s", ci, w.acc[ci].specs, snap(held))
		}
		if held != nil {
			if want, have := expectMerge(w.acc[ci].specs), observe(held); !reflect.DeepEqual(want, have) {
				return "queue:merge", fmt.Sprintf("c%d holds %+v but was enqueued %+v (expected %+v)", ci, have, w.acc[ci].specs, want)
			}
		}
	}
	return "", ""
}

// canon is the canonical state: every field that determines the futures of queue and model.
func (w *qworld) canon() string {
	var b strings.Builder
	fmt.Fprintf(&b, "q=%v shut=%v|", w.queued, w.shut)
	for ci := range w.cons {
		o := expectMerge(append([]reqSpec{{}}, w.acc[ci].specs...))
		var ks []string
		for k := range o.keys {
			ks = append(ks, k)
		}
		sort.Strings(ks)
		first := -1
		if len(w.acc[ci].specs) > 0 {
			first = w.acc[ci].specs[0].Start
		}
		// the merged request is determined by (key set incl. nil-ness, forced, snapshot, first start, reason count, addrs)
		nilKeys := true
		for _, s := range w.acc[ci].specs {
			if s.Keys != 0 {
				nilKeys = false
			}
		}
		rc := o.reason
		if rc > 3 {
			rc = 3 // reason counts only add up; futures do not depend on the exact count beyond the alphabet's reach
		}
		fmt.Fprintf(&b, "c%d:in=%v any=%v keys=%v nil=%v f=%v p=%d s=%d r=%d a=%v|", ci, w.inproc[ci], w.acc[ci].any, ks, nilKeys, o.forced, o.push, first, rc, o.addrs)
	}
	return b.String()
}

func replayQ(ncon int, hist []qop) (*qworld, string, string) {
	w := newQWorld(ncon)
	for _, o := range hist {
		if k, d := w.apply(o); k != "" {
			return w, k, d
		}
	}
	return w, "", ""
}

func TestC02b(t *testing.T) {
	env := engine.GetEnv()
	res := engine.NewResult("C02", "b-pushqueue")
	res.Rule = "explicit-state BFS: state = op history replayed on a fresh real PushQueue; ops Enqueue(c,r)/Dequeue/MarkDone(c)/ShutDown over 2 connections x 6 shared requests; dedup on canonical (queue order, per-connection ghost accumulation, processing, shutdown); non-trivial = state in which some connection has a merged (>=2 inputs) request"
	defer res.Write(t, env)
	if env.Replay != "" {
		var rp struct {
			Ops []qop `json:"ops"`
		}
		if err := engine.ReadReplay(env.Replay, &rp); err != nil {
			t.Fatal(err)
		}
		if _, k, d := replayQ(2, rp.Ops); k != "" {
			res.Violate(k, d, rp)
		}
		return
	}
	if env.Shard != 0 {
		return // BFS with a global visited set is not sharded
	}
	depth := 7
	if env.Thorough() {
		depth = 10
	}
	res.Bounds["depth"] = depth
	seen := map[string]bool{}
	w0 := newQWorld(2)
	seen[w0.canon()] = true
	frontier := [][]qop{nil}
	res.States = 1
	reachedFix := false
	for d := 0; d < depth && len(frontier) > 0; d++ {
		var next [][]qop
		for _, hist := range frontier {
			if env.Expired() {
				res.Cap("deadline")
				return
			}
			w, _, _ := replayQ(2, hist)
			for _, o := range w.enabled() {
				h2 := append(append([]qop(nil), hist...), o)
				w2, k, desc := replayQ(2, h2)
				res.Transitions++
				res.Evaluations++
				if k != "" {
					res.Violate(k, desc+" after "+fmt.Sprint(h2), map[string]any{"ops": h2})
					continue
				}
				c := w2.canon()
				res.Outcome(fmt.Sprintf("queued=%d", len(w2.queued)))
				if !seen[c] {
					seen[c] = true
					res.States++
					next = append(next, h2)
					for ci := range w2.cons {
						if len(w2.acc[ci].specs) >= 2 {
							res.NontrivialCase(c)
						}
					}
					if res.States%50 == 1 {
						res.Sample(map[string]any{"history": fmt.Sprint(h2), "state": c})
					}
				}
			}
		}
		frontier = next
		if len(frontier) == 0 {
			reachedFix = true
		}
	}
	res.Traces = res.Transitions
	res.Bounds["fixpoint_reached"] = reachedFix
	if !reachedFix {
		res.Bounds["note"] = "depth bound reached before the state space closed; all states up to the depth were expanded"
	}
	blockingDequeue(t, res)
}

// blockingDequeue explores real goroutines blocked in Dequeue: no lost wake-up, ShutDown releases all.
func blockingDequeue(t *testing.T, res *engine.Result) {
	// producers' op orders: every sequence of length <=3 over {enq c0, enq c1, shutdown}
	for n := 1; n <= 3; n++ {
		engine.Sequences(3, n, func(_ int64, seq []int) bool {
			seq = engine.CopyInts(seq)
			fail := engine.Bubble(t, func() {
				w := newQWorld(2)
				type got struct {
					con      int
					shutdown bool
				}
				results := make(chan got, 8)
				for i := 0; i < 2; i++ {
					go func() {
						c, _, sd := w.q.Dequeue()
						results <- got{w.conIdx(c), sd}
					}()
				}
				synctest.Wait()
				expectItems, shut := 0, false
				enq := map[int]bool{}
				for _, s := range seq {
					switch s {
					case 0, 1:
						if !shut && !enq[s] {
							expectItems++
							enq[s] = true
						}
						w.q.Enqueue(w.cons[s], w.reqs[0])
					case 2:
						w.q.ShutDown()
						shut = true
					}
					synctest.Wait()
				}
				res.Evaluations++
				n := len(results)
				want := expectItems
				if shut {
					want = 2
				}
				if want > 2 {
					want = 2
				}
				if n != want {
					res.Violate("queue:lost-wakeup", fmt.Sprintf("2 consumers blocked in Dequeue, producer ops %v: %d returned, want %d", seq, n, want), map[string]any{"seq": seq})
				}
				w.q.ShutDown() // release the rest so the bubble can end
				synctest.Wait()
			})
			if fail != "" {
				res.Violate("queue:blocked-forever", fmt.Sprintf("ops %v: %s", seq, fail), map[string]any{"seq": seq})
			}
			return true
		})
	}
}

// ---------------------------------------------------------------------------------------------
// (a) debouncer: every event sequence up to a length over arrivals / time steps / push completion

const (
	debAfter = 100 * time.Millisecond
	debMax   = 250 * time.Millisecond
)

type arrival struct {
	idx    int
	kindOf int
	at     int // event index
}

type pushCall struct {
	startEv  int
	keys     map[string]bool
	forced   bool
	push     *model.PushContext
	reasons  int
	snapshot string
	bypass   bool
}

// arrival kinds: 0 endpoint-only keyed, 1 service keyed, 2 forced without keys, 3 keyed with snapshot
func mkArrival(i, k int) *model.PushRequest {
	name := fmt.Sprintf("n%d", i)
	switch k {
	case 0:
		return &model.PushRequest{ConfigsUpdated: sets.New(ck(kind.Endpoints, name)), Reason: model.NewReasonStats(model.EndpointUpdate)}
	case 1:
		return &model.PushRequest{ConfigsUpdated: sets.New(ck(kind.ServiceEntry, name)), Reason: model.NewReasonStats(model.ConfigUpdate)}
	case 2:
		return &model.PushRequest{Forced: true, Reason: model.NewReasonStats(model.GlobalUpdate)}
	default:
		return &model.PushRequest{ConfigsUpdated: sets.New(ck(kind.VirtualService, name)), Push: model.NewPushContext()}
	}
}

const (
	evArrive0 = iota
	evArrive1
	evArrive2
	evArrive3
	evSleepHalf
	evSleepAfter
	evRelease
	nDebEvents
)

var debEvNames = []string{"arrive(eds)", "arrive(svc)", "arrive(forced)", "arrive(vs+snap)", "sleep(after/2)", "sleep(after)", "release-push"}

func runDebounce(t *testing.T, seq []int, edsDebounce bool) (vio [][2]string, outcome string) {
	fail := engine.Bubble(t, func() {
		ch := make(chan *model.PushRequest, 10)
		stop := make(chan struct{})
		var counter uatomic.Int64
		var calls []*pushCall
		var arrivals []arrival
		inflight, maxInflight, inflightDebounced := 0, 0, 0
		release := make(chan struct{})
		evIdx := 0
		lastPushByArrival := map[*model.PushContext]int{}
		pushFn := func(req *model.PushRequest) {
			pc := &pushCall{startEv: evIdx, keys: map[string]bool{}, forced: req.Forced, push: req.Push, snapshot: snap(req)}
			for k := range req.ConfigsUpdated {
				pc.keys[k.Name] = true
			}
			for _, v := range req.Reason {
				pc.reasons += v
			}
			pc.bypass = !edsDebounce && model.OnlyHasConfigsOfKind(req.ConfigsUpdated, kind.Endpoints)
			calls = append(calls, pc)
			inflight++
			if !pc.bypass {
				inflightDebounced++
				if inflightDebounced > 1 {
					vio = append(vio, [2]string{"debounce:two-pushes-in-flight", "a second debounced push started while one was running"})
				}
			}
			if inflight > maxInflight {
				maxInflight = inflight
			}
			<-release
			if s := snap(req); s != pc.snapshot {
				vio = append(vio, [2]string{"debounce:request-mutated-in-flight", fmt.Sprintf("request changed while being pushed: %s -> %s", pc.snapshot, s)})
			}
			inflight--
			if !pc.bypass {
				inflightDebounced--
			}
		}
		go xds.VerifDebounce(ch, stop, debAfter, debMax, edsDebounce, pushFn, &counter)
		synctest.Wait()
		for _, ev := range seq {
			evIdx++
			switch {
			case ev <= evArrive3:
				r := mkArrival(len(arrivals), ev)
				if r.Push != nil {
					lastPushByArrival[r.Push] = len(arrivals)
				}
				arrivals = append(arrivals, arrival{len(arrivals), ev, evIdx})
				ch <- r
			case ev == evSleepHalf:
				time.Sleep(debAfter / 2)
			case ev == evSleepAfter:
				time.Sleep(debAfter)
			case ev == evRelease:
				if inflight > 0 {
					release <- struct{}{}
				}
			}
			synctest.Wait()
		}
		// drain: let time pass and release pushes until nothing is pending (horizon: 20 rounds)
		for i := 0; i < 20; i++ {
			evIdx++
			for inflight > 0 {
				release <- struct{}{}
				synctest.Wait()
			}
			time.Sleep(debMax)
			synctest.Wait()
		}
		for inflight > 0 {
			release <- struct{}{}
			synctest.Wait()
		}
		close(stop)
		synctest.Wait()
		// ghost accounting
		totalReasons := 0
		for _, c := range calls {
			totalReasons += c.reasons
		}
		for _, a := range arrivals {
			name := fmt.Sprintf("n%d", a.idx)
			var in []*pushCall
			for _, c := range calls {
				if c.keys[name] {
					in = append(in, c)
				}
			}
			switch a.kindOf {
			case 2: // no key: accounted through reasons and forced below
			default:
				if len(in) == 0 {
					vio = append(vio, [2]string{"debounce:lost-notification", fmt.Sprintf("arrival %d (%s) is in no push", a.idx, debEvNames[a.kindOf])})
				} else if len(in) > 1 {
					vio = append(vio, [2]string{"debounce:pushed-twice", fmt.Sprintf("arrival %d (%s) is in %d pushes", a.idx, debEvNames[a.kindOf], len(in))})
				} else if in[0].startEv < a.at {
					vio = append(vio, [2]string{"debounce:push-before-arrival", fmt.Sprintf("arrival %d at event %d is covered by a push started at event %d", a.idx, a.at, in[0].startEv)})
				}
			}
		}
		// forced arrivals: some forced call must start at or after each of them
		for _, a := range arrivals {
			if a.kindOf != 2 {
				continue
			}
			ok := false
			for _, c := range calls {
				if c.forced && c.startEv >= a.at {
					ok = true
				}
			}
			if !ok {
				vio = append(vio, [2]string{"debounce:forced-lost", fmt.Sprintf("forced arrival %d at event %d: no forced push starts afterwards", a.idx, a.at)})
			}
		}
		// newest snapshot: a call that merged snapshot-carrying arrivals carries the newest of them
		for _, c := range calls {
			newest := -1
			for _, a := range arrivals {
				if a.kindOf == 3 && c.keys[fmt.Sprintf("n%d", a.idx)] && a.idx > newest {
					newest = a.idx
				}
			}
			if newest >= 0 {
				if c.push == nil || lastPushByArrival[c.push] != newest {
					vio = append(vio, [2]string{"debounce:stale-snapshot", fmt.Sprintf("push carries snapshot of arrival %d, newest merged is %d", lastPushByArrival[c.push], newest)})
				}
			}
		}
		if totalReasons != len(arrivals) {
			vio = append(vio, [2]string{"debounce:reason-count", fmt.Sprintf("%d arrivals but pushes account for %d", len(arrivals), totalReasons)})
		}
		if int(counter.Load()) != len(arrivals) {
			vio = append(vio, [2]string{"debounce:committed-counter", fmt.Sprintf("%d arrivals but committed counter is %d", len(arrivals), counter.Load())})
		}
		outcome = fmt.Sprintf("arrivals=%d calls=%d maxInflight=%d", len(arrivals), len(calls), maxInflight)
	})
	if fail != "" {
		vio = append(vio, [2]string{"debounce:hang", fail})
	}
	return vio, outcome
}

func TestC02a(t *testing.T) {
	env := engine.GetEnv()
	res := engine.NewResult("C02", "a-debouncer")
	res.Rule = "every event sequence up to the length bound over {4 arrival kinds, sleep DebounceAfter/2, sleep DebounceAfter, release the running push} x enableEDSDebounce in {true,false}, on the real debounce loop under a virtual clock, then drained; non-trivial = sequence in which >=2 arrivals were merged into one push or an arrival came while a push was running"
	defer res.Write(t, env)
	type rp struct {
		Seq []int `json:"seq"`
		Eds bool  `json:"eds_debounce"`
	}
	one := func(seq []int, eds bool) {
		vio, out := runDebounce(t, seq, eds)
		res.Evaluations++
		res.Traces++
		res.Transitions += int64(len(seq))
		res.Outcome(out)
		var names []string
		for _, e := range seq {
			names = append(names, debEvNames[e])
		}
		for _, v := range vio {
			res.Violate(v[0]+fmt.Sprintf(":eds-debounce=%v", eds), v[1]+" in "+strings.Join(names, " "), rp{engine.CopyInts(seq), eds})
		}
		var a, c int
		fmt.Sscanf(out, "arrivals=%d calls=%d", &a, &c)
		if a >= 2 && c < a {
			res.NontrivialCase(fmt.Sprint(seq, eds))
		}
	}
	if env.Replay != "" {
		var r rp
		if err := engine.ReadReplay(env.Replay, &r); err != nil {
			t.Fatal(err)
		}
		one(r.Seq, r.Eds)
		return
	}
	maxLen := 6
	if env.Thorough() {
		maxLen = 8
	}
	res.Bounds["max_len"] = maxLen
	// determinism probe
	v1, o1 := runDebounce(t, []int{1, 4, 0, 5, 2, 6}, true)
	v2, o2 := runDebounce(t, []int{1, 4, 0, 5, 2, 6}, true)
	if o1 != o2 || fmt.Sprint(v1) != fmt.Sprint(v2) {
		res.Infra = "debouncer execution is not deterministic"
		return
	}
	var ord int64
	for n := 1; n <= maxLen; n++ {
		engine.Sequences(nDebEvents, n, func(_ int64, seq []int) bool {
			ord++
			if !env.Mine(ord) {
				return true
			}
			if env.Expired() {
				res.Cap(fmt.Sprintf("deadline in length %d", n))
				return false
			}
			for _, eds := range []bool{true, false} {
				one(seq, eds)
			}
			if ord%50021 == 0 {
				res.Sample(map[string]any{"events": fmt.Sprint(seq)})
			}
			return true
		})
	}
	res.States = res.Evaluations
	res.Sample(map[string]any{"events": "arrive(svc) sleep(after/2) arrive(eds) sleep(after) arrive(forced) release-push", "eds_debounce": true})
}

// ---------------------------------------------------------------------------------------------
// (c) doSendPushes + client life-cycle: all event orders

type cClient struct {
	con    *xds.Connection
	cancel context.CancelFunc
	held   []any // accepted, not yet done
	dead   bool
	got    map[string]bool
	sent   map[string]bool // keys enqueued while alive... (model)
	sentAt []string
}

func runSend(t *testing.T, c *sched.Chooser, nclients, sem, depth int) (vio [][2]string, outcome string, trace []string) {
	fail := engine.Bubble(t, func() {
		q := xds.NewPushQueue()
		stop := make(chan struct{})
		semaphore := make(chan struct{}, sem)
		var cl []*cClient
		for i := 0; i < nclients; i++ {
			ctx, cancel := context.WithCancel(context.Background())
			cl = append(cl, &cClient{con: xds.VerifNewConnection("p", &fakeStream{ctx: ctx}, fmt.Sprintf("c%d", i)), cancel: cancel, got: map[string]bool{}, sent: map[string]bool{}})
		}
		go xds.VerifDoSendPushes(stop, semaphore, q)
		synctest.Wait()
		stopped := false
		nEnq := 0
		accept := func(x *cClient) bool {
			select {
			case ev := <-x.con.PushCh():
				if len(x.held) > 0 {
					vio = append(vio, [2]string{"send:two-in-flight", "a client was handed a second push while the first is not done"})
				}
				for k := range xds.VerifEventRequest(ev).ConfigsUpdated {
					x.got[k.Name] = true
				}
				x.held = append(x.held, ev)
				return true
			default:
				return false
			}
		}
		for step := 0; step < depth; step++ {
			type action struct {
				name string
				do   func()
			}
			var acts []action
			// "nothing more happens" is alternative 0 so that shorter sequences are prefixes
			acts = append(acts, action{"end", nil})
			for i, x := range cl {
				i, x := i, x
				if !stopped {
					acts = append(acts, action{fmt.Sprintf("enq(c%d)", i), func() {
						nEnq++
						name := fmt.Sprintf("k%d", nEnq)
						if !x.dead {
							x.sent[name] = true
						}
						q.Enqueue(x.con, &model.PushRequest{ConfigsUpdated: sets.New(ck(kind.ServiceEntry, name)), Push: pushCtxs[1], Start: time.Now()})
					}})
				}
				if !x.dead {
					acts = append(acts, action{fmt.Sprintf("accept(c%d)", i), func() { accept(x) }})
				}
				if len(x.held) > 0 {
					acts = append(acts, action{fmt.Sprintf("done(c%d)", i), func() {
						xds.VerifEventDone(x.held[0])
						x.held = x.held[1:]
					}})
				}
				if !x.dead {
					acts = append(acts, action{fmt.Sprintf("cancel(c%d)", i), func() { x.dead = true; x.cancel() }})
				}
			}
			if !stopped {
				acts = append(acts, action{"stop", func() { stopped = true; close(stop); q.ShutDown() }})
			}
			k := c.Choose(len(acts), "event", func(int) int { return 0 })
			if acts[k].do == nil {
				break
			}
			trace = append(trace, acts[k].name)
			acts[k].do()
			synctest.Wait()
			// invariant at every quiescent point: in-flight pushes never exceed the semaphore
			_, _, processing, _ := xds.VerifQueueState(q)
			if len(processing) > sem {
				vio = append(vio, [2]string{"send:semaphore-exceeded", fmt.Sprintf("%d pushes in flight with a limit of %d", len(processing), sem)})
			}
		}
		// drain: live clients accept and finish everything; dead clients' held events finish (the
		// stream loop always calls done after a push attempt)
		for round := 0; round < 50; round++ {
			progress := false
			for _, x := range cl {
				for len(x.held) > 0 {
					xds.VerifEventDone(x.held[0])
					x.held = x.held[1:]
					progress = true
					synctest.Wait()
				}
				if !x.dead && accept(x) {
					progress = true
					synctest.Wait()
				}
			}
			if !progress {
				break
			}
		}
		synctest.Wait()
		queue, pending, processing, _ := xds.VerifQueueState(q)
		if !stopped {
			for i, x := range cl {
				if x.dead {
					continue
				}
				for k := range x.sent {
					if !x.got[k] {
						vio = append(vio, [2]string{"send:update-not-delivered", fmt.Sprintf("live client c%d never received %s although every other client finished", i, k)})
					}
				}
			}
			if len(processing) != 0 {
				vio = append(vio, [2]string{"send:processing-leak", fmt.Sprintf("%d connections still marked in flight at quiescence", len(processing))})
			}
			for _, x := range cl {
				if x.dead {
					if _, ok := pending[x.con]; ok {
						vio = append(vio, [2]string{"send:dead-client-holds-queue", "a closed client still has a pending entry at quiescence"})
					}
				}
			}
			if len(queue) != 0 {
				vio = append(vio, [2]string{"send:queue-stuck", fmt.Sprintf("%d connections still queued at quiescence", len(queue))})
			}
			if len(semaphore) > 1 {
				vio = append(vio, [2]string{"send:semaphore-leak", fmt.Sprintf("%d semaphore slots held at quiescence (the dispatcher itself holds at most one)", len(semaphore))})
			}
		}
		delivered := 0
		for _, x := range cl {
			delivered += len(x.got)
		}
		outcome = fmt.Sprintf("enq=%d delivered=%d stopped=%v dead=%d", nEnq, delivered, stopped, func() int {
			n := 0
			for _, x := range cl {
				if x.dead {
					n++
				}
			}
			return n
		}())
		if !stopped {
			close(stop)
			q.ShutDown()
		}
		for _, x := range cl {
			x.cancel()
		}
		synctest.Wait()
	})
	if fail != "" {
		vio = append(vio, [2]string{"send:goroutine-stuck", fail})
	}
	return vio, outcome, trace
}

func TestC02c(t *testing.T) {
	env := engine.GetEnv()
	res := engine.NewResult("C02", "c-dispatch-lifecycle")
	res.Rule = "every order of {enqueue for c, c accepts its event, c finishes its push, c's stream is cancelled, server stops} up to the depth bound, for 2 clients with push concurrency 1 and 2 (thorough: also 3 clients), on the real doSendPushes + PushQueue; non-trivial = execution in which a client was cancelled or the server stopped while something was queued or in flight"
	defer res.Write(t, env)
	type rp struct {
		Clients int   `json:"clients"`
		Sem     int   `json:"sem"`
		Depth   int   `json:"depth"`
		Choices []int `json:"choices"`
	}
	if env.Replay != "" {
		var r rp
		if err := engine.ReadReplay(env.Replay, &r); err != nil {
			t.Fatal(err)
		}
		vio, out, tr := runSend(t, sched.NewChooser(r.Choices), r.Clients, r.Sem, r.Depth)
		t.Logf("trace %v outcome %s", tr, out)
		for _, v := range vio {
			res.Violate(v[0], v[1], r)
		}
		return
	}
	type cfg struct{ clients, sem, depth int }
	cfgs := []cfg{{2, 1, 6}, {2, 2, 6}}
	if env.Thorough() {
		cfgs = []cfg{{2, 1, 8}, {2, 2, 8}, {3, 1, 6}, {3, 2, 6}}
	}
	res.Bounds["configs(clients,sem,depth)"] = fmt.Sprint(cfgs)
	for _, cf := range cfgs {
		st := sched.Explore(sched.ExploreOpts{Bound: -1, Shard: env.Shard, Of: env.Of, ShardDepth: 2, Deadline: env.Expired}, func(c *sched.Chooser, owned bool) bool {
			vio, out, tr := runSend(t, c, cf.clients, cf.sem, cf.depth)
			if !owned {
				return true
			}
			res.Outcome(out)
			for _, v := range vio {
				res.Violate(v[0], v[1]+" after "+fmt.Sprint(tr), rp{cf.clients, cf.sem, cf.depth, c.Choices()})
			}
			s := strings.Join(tr, " ")
			if (strings.Contains(s, "cancel") || strings.Contains(s, "stop")) && strings.Contains(s, "enq") {
				res.NontrivialCase(s)
			}
			if len(tr) == cf.depth && res.Evaluations%20011 == 0 {
				res.Sample(map[string]any{"events": s, "outcome": out})
			}
			res.Evaluations++
			return true
		})
		if st.Diverged != "" {
			res.Infra = "replay divergence: " + st.Diverged
			return
		}
		if st.Capped != "" {
			res.Cap(st.Capped)
		}
		res.States += st.Executions
		res.Traces += st.Executions
		res.Transitions += st.Points
	}
	res.Sample(map[string]any{"events": "enq(c0) enq(c1) accept(c0) cancel(c1) done(c0)", "clients": 2, "sem": 1})
}
