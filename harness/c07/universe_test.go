// C07: the universe. A "world" is plain data (services, Sidecars, VirtualServices, DestinationRules,
// mesh settings); it is what the reference oracle reads and what is translated, object by object,
// into istio's own types for the real code. Nothing here looks at istio's visibility logic.
package c07

import (
	"fmt"
	"sort"
	"strings"
	"time"

	meshconfig "istio.io/api/mesh/v1alpha1"
	networking "istio.io/api/networking/v1alpha3"
	"istio.io/istio/pilot/pkg/model"
	"istio.io/istio/pilot/pkg/serviceregistry/provider"
	"istio.io/istio/pkg/config"
	"istio.io/istio/pkg/config/host"
	"istio.io/istio/pkg/config/mesh"
	"istio.io/istio/pkg/config/protocol"
	"istio.io/istio/pkg/config/schema/collections"
	"istio.io/istio/pkg/config/schema/gvk"
	"istio.io/istio/pkg/config/visibility"
	"istio.io/istio/pkg/util/sets"
)

const (
	rootNS = "istio-system"
	ns1    = "ns1"
	ns2    = "ns2"
	ns3    = "ns3"

	baseTS = int64(1700000000)

	hostA       = "a.ns1.svc.cluster.local"
	hostAlias   = "alias.ns2.svc.cluster.local"
	hostShared  = "shared.example.com"
	hostFront   = "front.example.com"
	hostHidden  = "hidden.example.com"
	hostHidden2 = "hidden2.example.com"
	hostWild    = "*.wild.example.com"
)

type portT struct {
	Name   string `json:"name"`
	Number int    `json:"number"`
	Proto  string `json:"proto"` // HTTP | TCP
}

// svcT is one service instance (hostname, namespace). Instances of a colliding hostname differ in a
// port, in the VIP and in the endpoint address, so that the generated output shows which was used.
type svcT struct {
	ID       string   `json:"id"`   // short stable id used in keys: K, S1, S2, F, W, H, H2, AL
	Kind     string   `json:"kind"` // k8s | se
	Name     string   `json:"name"`
	NS       string   `json:"ns"`
	Host     string   `json:"host"`
	ExportTo []string `json:"exportTo"` // nil = unset
	Ports    []portT  `json:"ports"`
	VIP      string   `json:"vip,omitempty"`
	Endpoint string   `json:"endpoint,omitempty"`
	Res      string   `json:"resolution"`         // static | none | alias
	AliasFor string   `json:"aliasFor,omitempty"` // ExternalName target
	TS       int64    `json:"ts"`
	Group    int      `json:"group"` // 1 or 2: which exportTo dimension applies
}

type egressT struct {
	Port  *portT   `json:"port,omitempty"`
	Hosts []string `json:"hosts"`
}

type sidecarT struct {
	Name     string            `json:"name"`
	NS       string            `json:"ns"`
	Selector map[string]string `json:"selector,omitempty"`
	Egress   []egressT         `json:"egress"`
	TS       int64             `json:"ts"`
}

type destT struct {
	Host string `json:"host"`
	Port int    `json:"port"`
}

type vsT struct {
	Name     string   `json:"name"`
	NS       string   `json:"ns"`
	Hosts    []string `json:"hosts"`
	Dests    []destT  `json:"dests"`
	ExportTo []string `json:"exportTo"`
	Gateways []string `json:"gateways,omitempty"` // empty = mesh (sidecars)
	TS       int64    `json:"ts"`
	// Delegate: the rule additionally delegates the URI prefix /api to this delegate VirtualService
	// (another object, with its own namespace and exportTo); its destinations become routes of this
	// rule iff the delegate is exported to this rule's namespace.
	Delegate *delegateT `json:"delegate,omitempty"`
}

type delegateT struct {
	Name     string   `json:"name"`
	NS       string   `json:"ns"`
	ExportTo []string `json:"exportTo"`
	Dests    []destT  `json:"dests"`
}

// mesh reports whether the rule is bound to the sidecars (no gateways field, or "mesh" in it).
func (v *vsT) mesh() bool { return len(v.Gateways) == 0 || contains(v.Gateways, "mesh") }

// gwT is a Gateway resource with one HTTP server on port 80.
type gwT struct {
	Name     string            `json:"name"`
	NS       string            `json:"ns"`
	Selector map[string]string `json:"selector"`
	Hosts    []string          `json:"hosts"` // server hosts, "namespace/dnsName" or "dnsName"
	TS       int64             `json:"ts"`
}

type drT struct {
	Name     string   `json:"name"`
	NS       string   `json:"ns"`
	Host     string   `json:"host"`
	ExportTo []string `json:"exportTo"`
	Marker   int      `json:"marker"` // connectionPool.tcp.maxConnections; also names the subset m<marker>
	TS       int64    `json:"ts"`
}

type meshT struct {
	Name       string   `json:"name"`
	SvcDefault []string `json:"defaultServiceExportTo"`         // nil = unset
	VSDefault  []string `json:"defaultVirtualServiceExportTo"`  // nil = unset
	DRDefault  []string `json:"defaultDestinationRuleExportTo"` // nil = unset
	SEVDefault string   `json:"serviceEntryVisibilityDefault"`  // "" = message absent; NONE | NAMESPACE | PUBLIC
	SEVApply   bool     `json:"serviceEntryVisibilityApplyToSidecars"`
}

type world struct {
	Mesh     meshT      `json:"mesh"`
	Services []svcT     `json:"services"`
	Sidecars []sidecarT `json:"sidecars,omitempty"`
	VS       []vsT      `json:"virtualServices,omitempty"`
	DR       []drT      `json:"destinationRules,omitempty"`
	Gateways []gwT      `json:"gateways,omitempty"`
	// PickFirst: features.SidecarPickBestServiceNamespace switched off (the documented legacy
	// tie-break "first namespace alphabetically").
	PickFirst bool `json:"pickFirstVisibleNamespace,omitempty"`
}

type proxyT struct {
	Name   string            `json:"name"`
	Type   string            `json:"type"` // sidecar | router
	NS     string            `json:"ns"`
	Labels map[string]string `json:"labels,omitempty"`
	IP     string            `json:"ip"`
}

var proxies = []proxyT{
	{Name: "sc-ns1", Type: "sidecar", NS: ns1, Labels: map[string]string{"app": "p"}, IP: "10.9.1.1"},
	{Name: "sc-ns2", Type: "sidecar", NS: ns2, Labels: map[string]string{"app": "p"}, IP: "10.9.2.1"},
	{Name: "gw-ns1", Type: "router", NS: ns1, Labels: map[string]string{"app": "gw"}, IP: "10.9.1.2"},
}

// ---------------------------------------------------------------- value tables

// exportTo values of services (DESIGN section 4 C07): unset, ".", "*", "~", [ns2], [ns1,ns2];
// thorough adds [ns1] and [".", ns2].
var exportToValues = [][]string{nil, {"."}, {"*"}, {"~"}, {ns2}, {ns1, ns2}, {ns1}, {".", ns3}}

const exportToQuick = 6

func etName(e []string) string {
	if e == nil {
		return "unset"
	}
	return "[" + strings.Join(e, ",") + "]"
}

var meshForms = []meshT{
	{Name: "defaults"},
	{Name: "svc=.", SvcDefault: []string{"."}},
	{Name: "svc=~", SvcDefault: []string{"~"}},
	{Name: "vs=.,dr=.", VSDefault: []string{"."}, DRDefault: []string{"."}},
	// thorough
	{Name: "svc=.,vs=.,dr=.", SvcDefault: []string{"."}, VSDefault: []string{"."}, DRDefault: []string{"."}},
	{Name: "svc=[ns2]", SvcDefault: []string{ns2}},
	{Name: "sev=NAMESPACE/sidecars", SEVDefault: "NAMESPACE", SEVApply: true},
	{Name: "sev=NONE/sidecars", SEVDefault: "NONE", SEVApply: true},
	{Name: "sev=NONE/ambient-only", SEVDefault: "NONE", SEVApply: false},
	{Name: "sev=NAMESPACE/sidecars,svc=.", SvcDefault: []string{"."}, SEVDefault: "NAMESPACE", SEVApply: true},
}

const meshQuick = 4

// baseServices returns the fixed services of the universe with exportTo e1 on group 1 and e2 on
// group 2.
func baseServices(e1, e2 []string) []svcT {
	http80 := portT{"http", 80, "HTTP"}
	out := []svcT{
		{ID: "K", Kind: "k8s", Name: "a", NS: ns1, Host: hostA, Group: 1, Res: "static", VIP: "10.10.1.1", Endpoint: "10.1.1.1",
			Ports: []portT{http80, {"tcp", 9001, "TCP"}}, TS: baseTS + 1},
		{ID: "S1", Kind: "se", Name: "shared", NS: ns1, Host: hostShared, Group: 1, Res: "static", VIP: "240.1.0.1", Endpoint: "10.0.1.1",
			Ports: []portT{http80, {"http-x", 8001, "HTTP"}}, TS: baseTS + 2},
		{ID: "F", Kind: "se", Name: "front", NS: ns1, Host: hostFront, Group: 1, Res: "static", VIP: "240.1.0.2", Endpoint: "10.0.1.2",
			Ports: []portT{http80}, TS: baseTS + 3},
		{ID: "W", Kind: "se", Name: "wild", NS: ns2, Host: hostWild, Group: 1, Res: "none",
			Ports: []portT{http80, {"tcp", 9003, "TCP"}}, TS: baseTS + 4},
		{ID: "S2", Kind: "se", Name: "shared", NS: ns2, Host: hostShared, Group: 2, Res: "static", VIP: "240.2.0.1", Endpoint: "10.0.2.1",
			Ports: []portT{http80, {"http-y", 8002, "HTTP"}}, TS: baseTS + 5},
		{ID: "H", Kind: "se", Name: "hidden", NS: ns1, Host: hostHidden, Group: 2, Res: "static", VIP: "240.1.0.4", Endpoint: "10.0.1.4",
			Ports: []portT{http80, {"tcp", 9004, "TCP"}}, TS: baseTS + 6},
		{ID: "H2", Kind: "se", Name: "hidden2", NS: ns2, Host: hostHidden2, Group: 2, Res: "static", VIP: "240.2.0.5", Endpoint: "10.0.2.5",
			Ports: []portT{http80}, TS: baseTS + 7},
		{ID: "AL", Kind: "k8s", Name: "alias", NS: ns2, Host: hostAlias, Group: 2, Res: "alias", AliasFor: hostA,
			Ports: []portT{http80}, TS: baseTS + 8},
	}
	for i := range out {
		if out[i].Group == 1 {
			out[i].ExportTo = e1
		} else {
			out[i].ExportTo = e2
		}
	}
	return out
}

// sidecarForm is a named way of giving (or not giving) Sidecar resources to the proxies'
// namespaces. Unless stated otherwise the same spec is created in ns1 and in ns2 ("." then means
// the respective namespace).
type sidecarForm struct {
	Name string
	// Build returns the Sidecar objects.
	Build func() []sidecarT
}

func both(name string, egress ...egressT) []sidecarT {
	return []sidecarT{
		{Name: name, NS: ns1, Egress: egress, TS: baseTS + 100},
		{Name: name, NS: ns2, Egress: egress, TS: baseTS + 100},
	}
}

func hosts(h ...string) egressT { return egressT{Hosts: h} }

var sidecarForms = []sidecarForm{
	{"none", func() []sidecarT { return nil }},
	{"root[./*]", func() []sidecarT {
		return []sidecarT{{Name: "default", NS: rootNS, Egress: []egressT{hosts("./*")}, TS: baseTS + 100}}
	}},
	{"[*/*]", func() []sidecarT { return both("sc", hosts("*/*")) }},
	{"[./*]", func() []sidecarT { return both("sc", hosts("./*")) }},
	{"[ns2/*]", func() []sidecarT { return both("sc", hosts("ns2/*")) }},
	{"[*/shared,*/front]", func() []sidecarT { return both("sc", hosts("*/"+hostShared, "*/"+hostFront)) }},
	{"[ns1/shared,ns1/front]", func() []sidecarT { return both("sc", hosts("ns1/"+hostShared, "ns1/"+hostFront)) }},
	{"[./front]", func() []sidecarT { return both("sc", hosts("./"+hostFront)) }},
	{"[ns2/shared,ns1/front]", func() []sidecarT { return both("sc", hosts("ns2/"+hostShared, "ns1/"+hostFront)) }},
	{"[*/*,~ns2/shared]", func() []sidecarT { return both("sc", hosts("*/*", "~ns2/"+hostShared)) }},
	{"[*/*,~*/*.example.com]", func() []sidecarT { return both("sc", hosts("*/*", "~*/*.example.com")) }},
	{"80:[*/shared]+[./front]", func() []sidecarT {
		return both("sc", egressT{Port: &portT{"http", 80, "HTTP"}, Hosts: []string{"*/" + hostShared}}, hosts("./"+hostFront))
	}},
	{"selector-match[./*]>[*/*]", func() []sidecarT {
		var out []sidecarT
		for _, ns := range []string{ns1, ns2} {
			out = append(out,
				sidecarT{Name: "sel", NS: ns, Selector: map[string]string{"app": "p"}, Egress: []egressT{hosts("./*")}, TS: baseTS + 101},
				sidecarT{Name: "all", NS: ns, Egress: []egressT{hosts("*/*")}, TS: baseTS + 100})
		}
		return out
	}},
	{"selector-nomatch[ns2/*]>[./*]", func() []sidecarT {
		var out []sidecarT
		for _, ns := range []string{ns1, ns2} {
			out = append(out,
				sidecarT{Name: "sel", NS: ns, Selector: map[string]string{"app": "other"}, Egress: []egressT{hosts("ns2/*")}, TS: baseTS + 100},
				sidecarT{Name: "all", NS: ns, Egress: []egressT{hosts("./*")}, TS: baseTS + 101})
		}
		return out
	}},
	// thorough
	{"[*/*.example.com]", func() []sidecarT { return both("sc", hosts("*/*.example.com")) }},
	{"[ns2/*.wild.example.com,./front]", func() []sidecarT { return both("sc", hosts("ns2/*.wild.example.com", "./"+hostFront)) }},
	{"[*/foo.wild.example.com]", func() []sidecarT { return both("sc", hosts("*/foo.wild.example.com")) }},
	{"[~/*]", func() []sidecarT { return both("sc", hosts("~/*")) }},
	{"[./*,~./front]", func() []sidecarT { return both("sc", hosts("./*", "~./"+hostFront)) }},
	{"[ns1/*,ns2/*,~ns1/shared]", func() []sidecarT { return both("sc", hosts("ns1/*", "ns2/*", "~ns1/"+hostShared)) }},
	{"[./front,~ns1/hidden]", func() []sidecarT { return both("sc", hosts("./"+hostFront, "~ns1/"+hostHidden)) }},
	{"selector-nomatch[ns2/*]+root[./*]", func() []sidecarT {
		return []sidecarT{
			{Name: "sel", NS: ns1, Selector: map[string]string{"app": "other"}, Egress: []egressT{hosts("ns2/*")}, TS: baseTS + 100},
			{Name: "sel", NS: ns2, Selector: map[string]string{"app": "other"}, Egress: []egressT{hosts("ns2/*")}, TS: baseTS + 100},
			{Name: "default", NS: rootNS, Egress: []egressT{hosts("./*")}, TS: baseTS + 100},
		}
	}},
	{"ns1-only[./front]+root[*/shared]", func() []sidecarT {
		return []sidecarT{
			{Name: "sc", NS: ns1, Egress: []egressT{hosts("./" + hostFront)}, TS: baseTS + 100},
			{Name: "default", NS: rootNS, Egress: []egressT{hosts("*/" + hostShared)}, TS: baseTS + 100},
		}
	}},
	{"9004:[*/hidden]+[*/front]", func() []sidecarT {
		return both("sc", egressT{Port: &portT{"tcp", 9004, "TCP"}, Hosts: []string{"*/" + hostHidden}}, hosts("*/"+hostFront))
	}},
}

const sidecarQuick = 14

// VirtualService forms: absent, or front-vs in a namespace with an exportTo. The rule routes
// front.example.com to hidden (ns1), hidden2 (ns2) and shared (both namespaces).
type vsForm struct {
	Name     string
	Present  bool
	NS       string
	ExportTo []string
}

var vsForms = []vsForm{
	{Name: "absent"},
	{"ns1/unset", true, ns1, nil},
	{"ns1/.", true, ns1, []string{"."}},
	{"ns1/[ns2]", true, ns1, []string{ns2}},
	{"ns2/unset", true, ns2, nil},
	{"ns2/.", true, ns2, []string{"."}},
	{"ns2/[ns2]", true, ns2, []string{ns2}},
	// thorough
	{"ns1/*", true, ns1, []string{"*"}},
	{"ns1/[ns1]", true, ns1, []string{ns1}},
	{"ns2/[ns1]", true, ns2, []string{ns1}},
	{"ns2/[ns1,ns2]", true, ns2, []string{ns1, ns2}},
	{"root/unset", true, rootNS, nil},
	{"root/.", true, rootNS, []string{"."}},
}

const vsQuick = 7

func (f vsForm) build() []vsT {
	if !f.Present {
		return nil
	}
	return []vsT{{
		Name: "front-vs", NS: f.NS, Hosts: []string{hostFront}, ExportTo: f.ExportTo, TS: baseTS + 200,
		Dests: []destT{{hostHidden, 80}, {hostHidden2, 80}, {hostShared, 80}},
	}}
}

// ---------------------------------------------------------------- translation into istio objects

func ts(sec int64) time.Time { return time.Unix(sec, 0).UTC() }

func protoOf(p string) protocol.Instance {
	if p == "HTTP" {
		return protocol.HTTP
	}
	return protocol.TCP
}

func (s svcT) k8sService() *model.Service {
	svc := &model.Service{
		Hostname:       host.Name(s.Host),
		DefaultAddress: s.VIP,
		CreationTime:   ts(s.TS),
		Resolution:     model.ClientSideLB,
		Attributes: model.ServiceAttributes{
			Name: s.Name, Namespace: s.NS, ServiceRegistry: provider.Kubernetes,
			K8sAttributes: model.K8sAttributes{ObjectName: s.Name},
		},
	}
	if s.ExportTo != nil {
		svc.Attributes.ExportTo = sets.New[visibility.Instance]()
		for _, e := range s.ExportTo {
			svc.Attributes.ExportTo.Insert(visibility.Instance(e))
		}
	}
	for _, p := range s.Ports {
		svc.Ports = append(svc.Ports, &model.Port{Name: p.Name, Port: p.Number, Protocol: protoOf(p.Proto)})
	}
	if s.Res == "alias" {
		svc.Resolution = model.Alias
		svc.DefaultAddress = "0.0.0.0"
		svc.Attributes.K8sAttributes.ExternalName = s.AliasFor
	}
	return svc
}

func (s svcT) k8sInstances(svc *model.Service) []*model.ServiceInstance {
	if s.Endpoint == "" {
		return nil
	}
	var out []*model.ServiceInstance
	for _, p := range svc.Ports {
		out = append(out, &model.ServiceInstance{
			Service: svc, ServicePort: p,
			Endpoint: &model.IstioEndpoint{
				Addresses: []string{s.Endpoint}, EndpointPort: uint32(p.Port + 10000), ServicePortName: p.Name,
				Namespace: s.NS, HostName: "", Labels: map[string]string{"app": s.Name},
			},
		})
	}
	return out
}

func (s svcT) serviceEntry() config.Config {
	se := &networking.ServiceEntry{
		Hosts:    []string{s.Host},
		Location: networking.ServiceEntry_MESH_INTERNAL,
		ExportTo: s.ExportTo,
	}
	if s.VIP != "" {
		se.Addresses = []string{s.VIP}
	}
	for _, p := range s.Ports {
		se.Ports = append(se.Ports, &networking.ServicePort{Name: p.Name, Number: uint32(p.Number), Protocol: p.Proto})
	}
	switch s.Res {
	case "static":
		se.Resolution = networking.ServiceEntry_STATIC
		se.Endpoints = []*networking.WorkloadEntry{{Address: s.Endpoint, Labels: map[string]string{"app": s.Name}}}
	case "none":
		se.Resolution = networking.ServiceEntry_NONE
	}
	return config.Config{
		Meta: config.Meta{GroupVersionKind: gvk.ServiceEntry, Name: s.Name, Namespace: s.NS, CreationTimestamp: ts(s.TS)},
		Spec: se,
	}
}

func (s sidecarT) config() config.Config {
	sc := &networking.Sidecar{}
	if s.Selector != nil {
		sc.WorkloadSelector = &networking.WorkloadSelector{Labels: s.Selector}
	}
	for _, e := range s.Egress {
		l := &networking.IstioEgressListener{Hosts: e.Hosts}
		if e.Port != nil {
			l.Port = &networking.SidecarPort{Number: uint32(e.Port.Number), Protocol: e.Port.Proto, Name: e.Port.Name}
		}
		sc.Egress = append(sc.Egress, l)
	}
	return config.Config{
		Meta: config.Meta{GroupVersionKind: gvk.Sidecar, Name: s.Name, Namespace: s.NS, CreationTimestamp: ts(s.TS)},
		Spec: sc,
	}
}

func (v vsT) config() config.Config {
	r := &networking.HTTPRoute{Name: "r"}
	w := []int32{50, 25, 25, 0, 0}
	if len(v.Dests) == 1 {
		w = []int32{100}
	}
	for i, d := range v.Dests {
		r.Route = append(r.Route, &networking.HTTPRouteDestination{
			Destination: &networking.Destination{Host: d.Host, Port: &networking.PortSelector{Number: uint32(d.Port)}},
			Weight:      w[i],
		})
	}
	routes := []*networking.HTTPRoute{r}
	if v.Delegate != nil {
		routes = []*networking.HTTPRoute{{
			Name:     "d",
			Match:    []*networking.HTTPMatchRequest{{Uri: &networking.StringMatch{MatchType: &networking.StringMatch_Prefix{Prefix: "/api"}}}},
			Delegate: &networking.Delegate{Name: v.Delegate.Name, Namespace: v.Delegate.NS},
		}, r}
	}
	return config.Config{
		Meta: config.Meta{GroupVersionKind: gvk.VirtualService, Name: v.Name, Namespace: v.NS, CreationTimestamp: ts(v.TS)},
		Spec: &networking.VirtualService{Hosts: v.Hosts, ExportTo: v.ExportTo, Gateways: v.Gateways, Http: routes},
	}
}

// delegateConfig is the delegate VirtualService object (no hosts, no gateways).
func (v vsT) delegateConfig() config.Config {
	d := v.Delegate
	r := &networking.HTTPRoute{Name: "dr"}
	for i, dst := range d.Dests {
		w := int32(0)
		if i == 0 {
			w = 100
		}
		r.Route = append(r.Route, &networking.HTTPRouteDestination{
			Destination: &networking.Destination{Host: dst.Host, Port: &networking.PortSelector{Number: uint32(dst.Port)}}, Weight: w,
		})
	}
	return config.Config{
		Meta: config.Meta{GroupVersionKind: gvk.VirtualService, Name: d.Name, Namespace: d.NS, CreationTimestamp: ts(v.TS + 1)},
		Spec: &networking.VirtualService{ExportTo: d.ExportTo, Http: []*networking.HTTPRoute{r}},
	}
}

func (g gwT) config() config.Config {
	return config.Config{
		Meta: config.Meta{GroupVersionKind: gvk.Gateway, Name: g.Name, Namespace: g.NS, CreationTimestamp: ts(g.TS)},
		Spec: &networking.Gateway{
			Selector: g.Selector,
			Servers: []*networking.Server{{
				Port:  &networking.Port{Number: 80, Protocol: "HTTP", Name: "http"},
				Hosts: g.Hosts,
			}},
		},
	}
}

func (d drT) config() config.Config {
	return config.Config{
		Meta: config.Meta{GroupVersionKind: gvk.DestinationRule, Name: d.Name, Namespace: d.NS, CreationTimestamp: ts(d.TS)},
		Spec: &networking.DestinationRule{
			Host:     d.Host,
			ExportTo: d.ExportTo,
			TrafficPolicy: &networking.TrafficPolicy{
				ConnectionPool: &networking.ConnectionPoolSettings{Tcp: &networking.ConnectionPoolSettings_TCPSettings{MaxConnections: int32(d.Marker)}},
			},
			Subsets: []*networking.Subset{{Name: fmt.Sprintf("m%d", d.Marker), Labels: map[string]string{"app": "shared"}}},
		},
	}
}

func (m meshT) config() *meshconfig.MeshConfig {
	mc := mesh.DefaultMeshConfig()
	mc.RootNamespace = rootNS
	if m.SvcDefault != nil {
		mc.DefaultServiceExportTo = m.SvcDefault
	}
	if m.VSDefault != nil {
		mc.DefaultVirtualServiceExportTo = m.VSDefault
	}
	if m.DRDefault != nil {
		mc.DefaultDestinationRuleExportTo = m.DRDefault
	}
	if m.SEVDefault != "" {
		mc.ServiceEntryVisibility = &meshconfig.ServiceEntryVisibility{
			DefaultVisibility: meshconfig.ServiceEntryVisibility_Visibility(meshconfig.ServiceEntryVisibility_Visibility_value[m.SEVDefault]),
			ApplyToSidecars:   m.SEVApply,
		}
	}
	return mc
}

// configs returns every config-store object of the world, each checked by istio's own validation
// (only inputs the API accepts are explored).
func (w *world) configs() ([]config.Config, error) {
	var out []config.Config
	for _, s := range w.Services {
		if s.Kind == "se" {
			out = append(out, s.serviceEntry())
		}
	}
	for _, s := range w.Sidecars {
		out = append(out, s.config())
	}
	for _, v := range w.VS {
		out = append(out, v.config())
		if v.Delegate != nil {
			out = append(out, v.delegateConfig())
		}
	}
	for _, d := range w.DR {
		out = append(out, d.config())
	}
	for _, g := range w.Gateways {
		out = append(out, g.config())
	}
	for _, c := range out {
		sch, ok := collections.Pilot.FindByGroupVersionKind(c.GroupVersionKind)
		if !ok {
			return nil, fmt.Errorf("no schema for %v", c.GroupVersionKind)
		}
		if _, err := sch.ValidateConfig(c); err != nil {
			return nil, fmt.Errorf("%s %s/%s rejected by validation: %v", c.GroupVersionKind.Kind, c.Namespace, c.Name, err)
		}
	}
	return out, nil
}

func (w *world) k8s() ([]*model.Service, []*model.ServiceInstance) {
	var svcs []*model.Service
	var insts []*model.ServiceInstance
	for _, s := range w.Services {
		if s.Kind != "k8s" {
			continue
		}
		svc := s.k8sService()
		svcs = append(svcs, svc)
		insts = append(insts, s.k8sInstances(svc)...)
	}
	return svcs, insts
}

// hostnames returns the distinct hostnames of the concrete (non-alias) services of the world, sorted.
func (w *world) hostnames() []string {
	seen := map[string]bool{}
	var out []string
	for _, s := range w.Services {
		if s.Res != "alias" && !seen[s.Host] {
			seen[s.Host] = true
			out = append(out, s.Host)
		}
	}
	sort.Strings(out)
	return out
}
