// C07 part b: rules. Which DestinationRule shapes the clusters of shared.example.com for each proxy:
// up to two rules (distinct namespaces, distinct markers) x their exportTo x mesh default x which
// instance of the colliding hostname the proxy uses x Sidecar form. A rule not exported to the
// proxy's namespace must leave the bytes identical to the world without it; the rule that applies is
// the one A.1 names (proxy namespace, then service namespace, then root namespace; exported only).
package c07

import (
	"fmt"
	"testing"

	"istio.io/istio/zz_verif/engine"
)

var drNamespaces = []string{ns1, ns2, rootNS, ns3}

// exportTo values of rules (no "~": validation rejects it for DestinationRules)
var drExportTo = [][]string{nil, {"."}, {ns2}, {ns1}, {"*"}, {ns1, ns2}, {ns3}}

const drExportToQuick = 4

type drForm struct {
	Present  bool
	NS       string
	ExportTo []string
}

func (f drForm) name() string {
	if !f.Present {
		return "absent"
	}
	return f.NS + "/" + etName(f.ExportTo)
}

func drForms(namespaces []string, nET int) []drForm {
	out := []drForm{{}}
	for _, ns := range namespaces {
		for _, e := range drExportTo[:nET] {
			if contains(e, ns) && contains(e, ".") {
				continue
			}
			out = append(out, drForm{true, ns, e})
		}
	}
	return out
}

// tables are tier-independent (a replay names indexes into them)
var (
	dr1Forms = drForms(drNamespaces, len(drExportTo))
	dr2Forms = drForms(drNamespaces[:3], len(drExportTo))
)

func etIndex(e []string) int {
	for i, x := range drExportTo {
		if etName(x) == etName(e) {
			return i
		}
	}
	return -1
}

func sameNS(a, b drForm) bool { return a.Present && b.Present && a.NS == b.NS }

// inQuickPair: quick covers dr-one exportTo in {unset, ., [ns2], [ns1]} x dr-two in {unset, ., [ns2]}
// for rules in different namespaces, and {unset, ., [ns2], [ns1], *} x {the same five, [ns3]} for two
// rules in one namespace (there the explicit "*" matters: consolidation compares exportTo sets).
func inQuickPair(a, b drForm) bool {
	ia, ib := 0, 0
	if a.Present {
		ia = etIndex(a.ExportTo)
	}
	if b.Present {
		ib = etIndex(b.ExportTo)
	}
	if sameNS(a, b) {
		// [ns3] (index 6): a list that names neither proxy namespace nor, usually, the rules' own
		return ia < 5 && ib <= 6
	}
	return ia < drExportToQuick && ib < 3
}

// mesh settings of part b
var meshFormsB = []meshT{
	{Name: "defaults"},
	{Name: "vs=.,dr=.", VSDefault: []string{"."}, DRDefault: []string{"."}},
	// thorough: the documentation gives default*ExportTo "the same syntax as defaultServiceExportTo"
	{Name: "dr=*", DRDefault: []string{"*"}},
}

const meshBQuick = 2

// which instance of shared.example.com the proxies see: (group 1, group 2) exportTo
var exportPairsB = [][2][]string{
	{nil, nil},     // both public: each sidecar uses its own namespace's instance
	{{ns2}, nil},   // ns1's instance hidden from ns1: the ns1 proxies use the ns2 instance
	{nil, {ns1}},   // ns2's instance hidden from ns2: the ns2 proxy uses the ns1 instance
	{{"."}, {"."}}, // thorough: both private
	{{ns2}, {ns1}}, // thorough: swapped
}

const exportPairsBQuick = 3

var sidecarFormsB = []string{"none", "[*/shared,*/front]", "[ns2/shared,ns1/front]", "[./front]", "[*/*]", "root[./*]"}

const sidecarBQuick = 4

func sidecarFormByName(n string) sidecarForm {
	for _, f := range sidecarForms {
		if f.Name == n {
			return f
		}
	}
	panic("no sidecar form " + n)
}

// order 1: dr-two is the older of the two rules (only enumerated for two rules in one namespace)
func worldB(mesh, pair, sc, d1, d2, order int) *world {
	w := &world{Mesh: meshFormsB[mesh], Services: baseServices(exportPairsB[pair][0], exportPairsB[pair][1])}
	w.Sidecars = sidecarFormByName(sidecarFormsB[sc]).Build()
	w.VS = vsForms[1].build() // ns1/unset: shared.example.com is also a VirtualService destination
	if f := dr1Forms[d1]; f.Present {
		w.DR = append(w.DR, drT{Name: "dr-one", NS: f.NS, Host: hostShared, ExportTo: f.ExportTo, Marker: 71, TS: baseTS + 300})
	}
	if f := dr2Forms[d2]; f.Present {
		w.DR = append(w.DR, drT{Name: "dr-two", NS: f.NS, Host: hostShared, ExportTo: f.ExportTo, Marker: 72, TS: baseTS + 301 - int64(2*order)})
	}
	return w
}

func descB(mesh, pair, sc, d1, d2, order int) string {
	age := ""
	if sameNS(dr1Forms[d1], dr2Forms[d2]) {
		age = " (dr-one older)"
		if order == 1 {
			age = " (dr-two older)"
		}
	}
	return age2(fmt.Sprintf("mesh{%s} shared/ns1.exportTo=%s shared/ns2.exportTo=%s sidecar=%s virtualservice=ns1/unset dr-one(71)=%s dr-two(72)=%s", meshFormsB[mesh].Name,
		etName(exportPairsB[pair][0]), etName(exportPairsB[pair][1]), sidecarFormsB[sc], dr1Forms[d1].name(), dr2Forms[d2].name()), age)
}

func age2(s, age string) string { return s + age }

// ordersB: two rules for one host in one namespace are consolidated by creation order, so both age
// orders are enumerated; for rules in different namespaces the age plays no role.
func ordersB(d1, d2 int) []int {
	if sameNS(dr1Forms[d1], dr2Forms[d2]) {
		return []int{0, 1}
	}
	return []int{0}
}

func TestC07b(t *testing.T) {
	env := engine.GetEnv()
	res := engine.NewResult("C07", "b-rules")
	res.Rule = "full product mesh default x which instance of shared.example.com each proxy sees x Sidecar form x DestinationRule dr-one (namespace x exportTo, or absent) x dr-two (namespace x exportTo, or absent; for two rules in one namespace both age orders), both for host shared.example.com with distinct markers (maxConnections 71/72, subset m71/m72); fresh environment per world; per proxy the marker found on every delivered cluster (and subset clusters) against R5's rule selection, and the bytes against the sibling world without each rule that is not exported to the proxy. non-trivial = at least one rule is exported to the proxy and at least one is not, or two exported rules compete (distinct by proxy and the per-rule exported/lookup position vector)"
	defer res.Write(t, env)

	if env.Replay != "" {
		var rp replayT
		if err := engine.ReadReplay(env.Replay, &rp); err != nil {
			t.Fatal(err)
		}
		replay(t, res, rp)
		return
	}
	nMesh, nPair, nSC := meshBQuick, exportPairsBQuick, sidecarBQuick
	if env.Thorough() {
		nMesh, nPair, nSC = len(meshFormsB), len(exportPairsB), len(sidecarFormsB)
	}
	dims := []int{nMesh, nPair, nSC}
	res.Bounds["dims(mesh,exportPair,sidecar)"] = dims
	var worlds int64
	engine.Product(dims, func(famOrd int64, idx []int) bool {
		// a family = all (dr-one, dr-two) pairs of one (mesh, pair, sidecar); dealt to shards by dr-one
		// so that every shard has work; siblings needed for the byte comparison are recomputed per shard
		for d1 := range dr1Forms {
			if !env.Thorough() && !inQuickPair(dr1Forms[d1], drForm{Present: true, NS: dr1Forms[d1].NS}) {
				continue
			}
			if !env.Mine(famOrd*int64(len(dr1Forms)) + int64(d1)) {
				continue
			}
			if env.Expired() {
				res.Cap(fmt.Sprintf("deadline at family %d dr-one %d", famOrd, d1))
				return false
			}
			// observations without dr-one, per dr-two form (computed lazily)
			withoutOne := map[int][]*proxyObs{}
			var onlyOne []*proxyObs
			for d2 := range dr2Forms {
				if !env.Thorough() && !inQuickPair(dr1Forms[d1], dr2Forms[d2]) {
					continue
				}
				for _, order := range ordersB(d1, d2) {
					w := worldB(idx[0], idx[1], idx[2], d1, d2, order)
					rp := replayT{Part: "b", Mesh: idx[0], E1: idx[1], Sidecar: idx[2], DR1: d1, DR2: d2, Flag: order, Desc: descB(idx[0], idx[1], idx[2], d1, d2, order)}
					obs, err := observeWorld(w, proxies)
					if err != nil {
						t.Fatalf("%s: %v", rp.Desc, err)
					}
					res.Evaluations++
					worlds++
					if d2 == 0 {
						onlyOne = obs
					}
					evaluate(t, res, w, obs, rp, nil, "")
					if res.Infra != "" {
						return false
					}
					nontrivialB(res, w)
					// byte comparison with the siblings
					for i, p := range proxies {
						r := rp
						r.Proxy, r.World = p.Name, w
						for k := range w.DR {
							d := &w.DR[k]
							if w.drExported(d, p.NS) {
								continue
							}
							var sib []*proxyObs
							if d.Name == "dr-one" {
								if withoutOne[d2] == nil {
									so, err := observeWorld(worldB(idx[0], idx[1], idx[2], 0, d2, 0), proxies)
									if err != nil {
										t.Fatal(err)
									}
									withoutOne[d2] = so
									res.Count("sibling_worlds", 1)
								}
								sib = withoutOne[d2]
							} else {
								if onlyOne == nil {
									so, err := observeWorld(worldB(idx[0], idx[1], idx[2], d1, 0, 0), proxies)
									if err != nil {
										t.Fatal(err)
									}
									onlyOne = so
									res.Count("sibling_worlds", 1)
								}
								sib = onlyOne
							}
							if sib[i].Digest != obs[i].Digest {
								res.Violate(fmt.Sprintf("rule-leak:destinationrule-bytes|proxy=%s|dr-ns=%s", p.Type, drRel(p, d.NS)),
									fmt.Sprintf("%s :: %s (namespace %s): DestinationRule %s/%s (exportTo %s) is not exported to %s, yet the generated bytes differ from the same world without it",
										rp.Desc, p.Name, p.NS, d.NS, d.Name, etName(d.ExportTo), p.NS), r)
							}
							res.Count("byte_comparisons", 1)
						}
					}
					if worlds%211 == 1 {
						again, err := observeWorld(w, proxies)
						if err != nil {
							t.Fatal(err)
						}
						for i := range obs {
							if again[i].Digest != obs[i].Digest {
								res.Infra = fmt.Sprintf("nondeterministic output for %s / %s", rp.Desc, proxies[i].Name)
								return false
							}
						}
						res.Count("determinism_rechecks", 1)
					}
					if worlds%397 == 3 {
						res.Sample(map[string]any{"case": rp.Desc, "proxy": proxies[1].Name, "clusters": obs[1].Clusters})
					}
				}
			}
		}
		return true
	})
	res.Bounds["dr_one_forms"] = len(dr1Forms)
	res.Bounds["dr_two_forms"] = len(dr2Forms)
}

// nontrivialB: per proxy, the vector (per rule: exported? position of its namespace in the lookup
// order of some allowed instance) must contain both an exported and an unexported rule, or two
// exported ones.
func nontrivialB(res *engine.Result, w *world) {
	for _, p := range proxies {
		exp, unexp := 0, 0
		sig := p.Name
		for k := range w.DR {
			d := &w.DR[k]
			if w.drExported(d, p.NS) {
				exp++
				sig += "|E:" + drRel(p, d.NS)
			} else {
				unexp++
				sig += "|U:" + drRel(p, d.NS)
			}
		}
		if (exp > 0 && unexp > 0) || exp > 1 {
			v := w.judge(p)
			sig += "|" + v.Scope + "|" + fmt.Sprint(v.Hosts[hostShared].Allowed)
			res.NontrivialCase(sig)
		}
	}
}

func replayB(t *testing.T, res *engine.Result, rp replayT) {
	w := worldB(rp.Mesh, rp.E1, rp.Sidecar, rp.DR1, rp.DR2, rp.Flag)
	rp.Desc = descB(rp.Mesh, rp.E1, rp.Sidecar, rp.DR1, rp.DR2, rp.Flag)
	obs, err := observeWorld(w, proxies)
	if err != nil {
		t.Fatal(err)
	}
	res.Evaluations++
	evaluate(t, res, w, obs, rp, nil, "")
	for i, p := range proxies {
		for k := range w.DR {
			d := &w.DR[k]
			if w.drExported(d, p.NS) {
				continue
			}
			d1, d2 := rp.DR1, rp.DR2
			if d.Name == "dr-one" {
				d1 = 0
			} else {
				d2 = 0
			}
			sib, err := observeWorld(worldB(rp.Mesh, rp.E1, rp.Sidecar, d1, d2, 0), proxies)
			if err != nil {
				t.Fatal(err)
			}
			if sib[i].Digest != obs[i].Digest {
				res.Violate(fmt.Sprintf("rule-leak:destinationrule-bytes|proxy=%s|dr-ns=%s", p.Type, drRel(p, d.NS)),
					fmt.Sprintf("%s :: %s: bytes differ from the world without %s/%s", rp.Desc, p.Name, d.NS, d.Name), rp)
			}
		}
	}
	logCase(t, w, obs, rp)
}
