// C07 part e: the export setting of one service changed at run time. The real control plane
// (pilot/test/xds FakeDiscoveryServer: fake Kubernetes API -> kube registry, config store ->
// ServiceEntry controller, service handlers -> debounce -> push -> global PushContext) runs inside a
// testing/synctest bubble. A Kubernetes Service (networking.istio.io/exportTo annotation) or a
// ServiceEntry (spec.exportTo) goes from one export value to another (or is created / deleted); after
// quiescence (every notification debounced and committed to a push) three newly connected proxies are
// observed on the global PushContext. Oracles: (1) the bytes equal those of a control plane started
// cold on the final objects; (2) R5 on the final world.
package c07

import (
	"context"
	"fmt"
	"strings"
	"testing"
	"testing/synctest"
	"time"

	corev1 "k8s.io/api/core/v1"
	metav1 "k8s.io/apimachinery/pkg/apis/meta/v1"
	"k8s.io/apimachinery/pkg/runtime"

	"istio.io/istio/pilot/pkg/model"
	xdsfake "istio.io/istio/pilot/test/xds"
	"istio.io/istio/pkg/config"
	"istio.io/istio/pkg/config/schema/gvk"
	"istio.io/istio/pkg/kube/krt"
	"istio.io/istio/zz_verif/engine"
)

const (
	hostPay   = "pay.ns1.svc.cluster.local"
	hostExt   = "ext.example.com"
	debounceE = 5 * time.Second
)

// export values of the subject; index 0 = the object does not exist
var exportValsE = [][]string{{"<absent>"}, nil, {"."}, {"*"}, {"~"}, {ns2}, {ns1, ns2}}

func evName(i int) string {
	if i == 0 {
		return "absent"
	}
	return etName(exportValsE[i])
}

var kindsE = []string{"kubernetes-service", "serviceentry"}

var meshFormsE = []meshT{
	{Name: "defaults"},
	{Name: "svc=.", SvcDefault: []string{"."}},
	{Name: "svc=~", SvcDefault: []string{"~"}},
}

// worldE: the Kubernetes Service ns1/pay and the ServiceEntry ns1/ext; the subject (kind) carries
// export value ev (0 = absent), the other one has no export setting.
func worldE(kind, mesh, ev int) *world {
	w := &world{Mesh: meshFormsE[mesh]}
	http80 := portT{"http", 80, "HTTP"}
	pay := svcT{ID: "P", Kind: "kube", Name: "pay", NS: ns1, Host: hostPay, Res: "static", VIP: "10.10.1.9", Ports: []portT{http80}, TS: baseTS + 1}
	ext := svcT{ID: "X", Kind: "se", Name: "ext", NS: ns1, Host: hostExt, Res: "static", VIP: "240.1.0.9", Endpoint: "10.0.1.9", Ports: []portT{http80}, TS: baseTS + 2}
	if kind == 0 {
		if ev != 0 {
			pay.ExportTo = exportValsE[ev]
			w.Services = append(w.Services, pay)
		}
		w.Services = append(w.Services, ext)
	} else {
		w.Services = append(w.Services, pay)
		if ev != 0 {
			ext.ExportTo = exportValsE[ev]
			w.Services = append(w.Services, ext)
		}
	}
	return w
}

func (s svcT) kubeService() *corev1.Service {
	o := &corev1.Service{
		ObjectMeta: metav1.ObjectMeta{Name: s.Name, Namespace: s.NS, CreationTimestamp: metav1.NewTime(ts(s.TS))},
		Spec:       corev1.ServiceSpec{ClusterIP: s.VIP},
	}
	if s.ExportTo != nil {
		o.Annotations = map[string]string{"networking.istio.io/exportTo": strings.Join(s.ExportTo, ",")}
	}
	for _, p := range s.Ports {
		o.Spec.Ports = append(o.Spec.Ports, corev1.ServicePort{Name: p.Name, Port: int32(p.Number), Protocol: corev1.ProtocolTCP})
	}
	return o
}

func (w *world) find(id string) *svcT {
	for i := range w.Services {
		if w.Services[i].ID == id {
			return &w.Services[i]
		}
	}
	return nil
}

type serverE struct {
	t *testing.T
	s *xdsfake.FakeDiscoveryServer
}

func newServerE(t *testing.T, w *world) *serverE {
	model.VerifResetJwksChannels()
	krt.GlobalDebugHandler = new(krt.DebugHandler) // the discovery server dereferences it; dropped with the server
	cfgs, err := w.configs()
	if err != nil {
		t.Fatal(err)
	}
	var kobjs []runtime.Object
	for _, s := range w.Services {
		if s.Kind == "kube" {
			kobjs = append(kobjs, s.kubeService())
		}
	}
	s := xdsfake.NewFakeDiscoveryServer(t, xdsfake.FakeOptions{Configs: cfgs, KubernetesObjects: kobjs, MeshConfig: w.Mesh.config(), DebounceTime: debounceE})
	srv := &serverE{t: t, s: s}
	srv.quiesce()
	return srv
}

// quiesce: every notification caused by what was applied so far has reached the debouncer (some are
// delivered a few virtual milliseconds late), then the debounce interval elapses until every one of
// them is committed to a push (the global PushContext is rebuilt by the push).
func (e *serverE) quiesce() {
	d := e.s.Discovery
	for i := 0; ; i++ {
		synctest.Wait()
		before := d.InboundUpdates.Load()
		time.Sleep(time.Second)
		synctest.Wait()
		if d.InboundUpdates.Load() == before {
			break
		}
		if i > 50 {
			e.t.Fatal("quiesce: notifications keep arriving")
		}
	}
	for i := 0; d.CommittedUpdates.Load() < d.InboundUpdates.Load(); i++ {
		if i > 50 {
			e.t.Fatal("quiesce: pushes never commit")
		}
		time.Sleep(debounceE)
		synctest.Wait()
	}
	time.Sleep(debounceE)
	synctest.Wait()
}

// apply moves the subject from its state in `from` to its state in `to` (nil = absent).
func (e *serverE) apply(from, to *svcT) {
	ctx := context.Background()
	switch {
	case from == nil && to == nil:
	case (from != nil && from.Kind == "kube") || (to != nil && to.Kind == "kube"):
		var ns string
		if to != nil {
			ns = to.NS
		} else {
			ns = from.NS
		}
		c := e.s.KubeClient().Kube().CoreV1().Services(ns)
		var err error
		switch {
		case from == nil:
			_, err = c.Create(ctx, to.kubeService(), metav1.CreateOptions{})
		case to == nil:
			err = c.Delete(ctx, from.Name, metav1.DeleteOptions{})
		default:
			_, err = c.Update(ctx, to.kubeService(), metav1.UpdateOptions{})
		}
		if err != nil {
			e.t.Fatalf("kube write: %v", err)
		}
	default:
		st := e.s.Store()
		var err error
		switch {
		case from == nil:
			_, err = st.Create(to.serviceEntry())
		case to == nil:
			err = st.Delete(gvk.ServiceEntry, from.Name, from.NS, nil)
		default:
			var cfg config.Config = to.serviceEntry()
			_, err = st.Update(cfg)
		}
		if err != nil {
			e.t.Fatalf("config store write: %v", err)
		}
	}
}

func (e *serverE) observe(w *world) []*proxyObs {
	var out []*proxyObs
	for _, p := range proxies {
		out = append(out, observeProxy(e.s.ConfigGenTest, w, p))
	}
	return out
}

func subjectID(kind int) string {
	if kind == 0 {
		return "P"
	}
	return "X"
}

func descE(kind, mesh, from, to int) string {
	return fmt.Sprintf("mesh{%s}; %s ns1/%s: export %s -> %s at run time (the other service has no export setting)", meshFormsE[mesh].Name, kindsE[kind],
		map[int]string{0: "pay", 1: "ext"}[kind], evName(from), evName(to))
}

// runE returns the observation of newly connected proxies after the change, in one bubble.
func runE(t *testing.T, kind, mesh, from, to int) (obs []*proxyObs) {
	wA, wB := worldE(kind, mesh, from), worldE(kind, mesh, to)
	synctest.Test(t, func(t *testing.T) {
		srv := newServerE(t, wA)
		_ = srv.observe(wA) // proxies connected before the change
		srv.apply(wA.find(subjectID(kind)), wB.find(subjectID(kind)))
		srv.quiesce()
		obs = srv.observe(wB)
	})
	krt.GlobalDebugHandler = nil
	return obs
}

func coldE(t *testing.T, kind, mesh, ev int) (obs []*proxyObs) {
	w := worldE(kind, mesh, ev)
	synctest.Test(t, func(t *testing.T) {
		obs = newServerE(t, w).observe(w)
	})
	krt.GlobalDebugHandler = nil
	return obs
}

// transitionClass names the shape of a change for violation keys.
func transitionClass(from, to int) string {
	switch {
	case from == 0:
		return "created"
	case to == 0:
		return "deleted"
	case etName(exportValsE[to]) == "[~]":
		return "to-none"
	case etName(exportValsE[from]) == "[~]":
		return "from-none"
	}
	return "changed"
}

func TestC07e(t *testing.T) {
	env := engine.GetEnv()
	res := engine.NewResult("C07", "e-runtime-service-export")
	res.Rule = "all ordered pairs (from, to), from != to, over {absent, unset, ., *, ~, [ns2], [ns1,ns2]} for the export setting of one service x its kind (Kubernetes Service with the exportTo annotation through the real kube registry; ServiceEntry through the config store) x mesh defaultServiceExportTo {*, ., ~}; real discovery server in a synctest bubble, change applied through the fake Kubernetes API / config store, quiescence (debounce elapsed, every update committed to a push); newly connected sidecar ns1, sidecar ns2, router ns1 observed on the global PushContext; the bytes against a cold start on the final objects, and R5 on the final world. non-trivial = R5's verdict for the proxy differs between the initial and the final world (distinct by kind, proxy and the pair of verdict vectors)"
	defer res.Write(t, env)
	if env.Replay != "" {
		var rp replayT
		if err := engine.ReadReplay(env.Replay, &rp); err != nil {
			t.Fatal(err)
		}
		replayE(t, res, rp)
		return
	}
	n := len(exportValsE)
	dims := []int{len(kindsE), len(meshFormsE), n}
	res.Bounds["dims(kind,mesh,to)"] = dims
	res.Bounds["from_per_family"] = n - 1
	engine.Product(dims, func(ord int64, idx []int) bool {
		if !env.Mine(ord) {
			return true
		}
		kind, mesh, to := idx[0], idx[1], idx[2]
		cold := coldE(t, kind, mesh, to)
		wB := worldE(kind, mesh, to)
		for from := 0; from < n; from++ {
			if from == to {
				continue
			}
			if env.Expired() {
				res.Cap(fmt.Sprintf("deadline at family %d", ord))
				return false
			}
			rp := replayT{Part: "e", Sidecar: kind, Mesh: mesh, E1: from, E2: to, Desc: descE(kind, mesh, from, to)}
			obs := runE(t, kind, mesh, from, to)
			res.Evaluations++
			evaluate(t, res, wB, obs, rp, nil, "")
			if res.Infra != "" {
				return false
			}
			judgeE(res, worldE(kind, mesh, from), wB, obs, cold, rp, kind, from, to)
		}
		return true
	})
}

func judgeE(res *engine.Result, wA, wB *world, obs, cold []*proxyObs, rp replayT, kind, from, to int) {
	for i, p := range proxies {
		sa, _, _ := verdictSignature(wA, wA.judge(p))
		sb, _, _ := verdictSignature(wB, wB.judge(p))
		if sa != sb {
			res.NontrivialCase(fmt.Sprintf("%s|%s|%s>%s", kindsE[kind], p.Name, sa, sb))
		}
		res.Count("differential_comparisons", 1)
		res.Outcome(fmt.Sprintf("%s after %s: %s", p.Name, transitionClass(from, to), outcomeOf(wB, p, obs[i])))
		if obs[i].Digest == cold[i].Digest {
			continue
		}
		r := rp
		r.Proxy, r.World = p.Name, wB
		parts := diffParts(obs[i], cold[i])
		res.Violate(fmt.Sprintf("stale-after-service-export-change|kind=%s|change=%s|differs=%s|proxy=%s", kindsE[kind], transitionClass(from, to), strings.Join(parts, "+"), p.Type),
			fmt.Sprintf("%s :: %s (namespace %s), connected after the change: the generated %s differ from what a control plane started on the final objects generates (after the change: %s; cold start: %s)",
				rp.Desc, p.Name, p.NS, strings.Join(parts, "+"), outcomeOf(wB, p, obs[i]), outcomeOf(wB, p, cold[i])), r)
	}
}

func replayE(t *testing.T, res *engine.Result, rp replayT) {
	kind, mesh, from, to := rp.Sidecar, rp.Mesh, rp.E1, rp.E2
	rp.Desc = descE(kind, mesh, from, to)
	wB := worldE(kind, mesh, to)
	cold := coldE(t, kind, mesh, to)
	obs := runE(t, kind, mesh, from, to)
	res.Evaluations++
	evaluate(t, res, wB, obs, rp, nil, "")
	judgeE(res, worldE(kind, mesh, from), wB, obs, cold, rp, kind, from, to)
	logCase(t, wB, obs, rp)
}
