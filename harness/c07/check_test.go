// C07: comparison of what a proxy was given (observe_test.go) with what R5 allows and demands
// (oracle_test.go): must_have ⊆ delivered ⊆ may_have per hostname, the instance used, alias domains,
// VirtualService / DestinationRule application.
package c07

import (
	"fmt"
	"sort"
	"strings"

	"istio.io/istio/pilot/pkg/model"
)

type finding struct {
	Key  string
	Desc string
}

// shortForms of a Kubernetes service hostname (a.ns1.svc.cluster.local): a, a.ns1, a.ns1.svc.
func nameForms(h string) []string {
	out := []string{h}
	if strings.HasSuffix(h, ".svc.cluster.local") {
		parts := strings.Split(h, ".")
		out = append(out, parts[0], parts[0]+"."+parts[1], parts[0]+"."+parts[1]+".svc")
	}
	return out
}

// attribution of a virtual-host domain: a service hostname (or one of its short forms), the VIP of an
// instance, or a VirtualService host.
type attribution struct {
	Host     string // service hostname ("" if none)
	Instance *svcT  // set when the domain is an instance's VIP
	VSHost   bool   // the domain is (also) a host of a VirtualService
}

func (w *world) attribute(domain string) (attribution, bool) {
	d, _ := splitDomain(domain)
	d = strings.TrimSuffix(d, ".")
	var a attribution
	ok := false
	for i := range w.Services {
		s := &w.Services[i]
		if isIP(d) {
			if s.VIP != "" && s.VIP == d {
				a.Host, a.Instance, ok = s.Host, s, true
			}
			continue
		}
		for _, f := range nameForms(s.Host) {
			if f == d {
				a.Host, ok = s.Host, true
			}
		}
	}
	for _, v := range w.VS {
		for _, h := range v.Hosts {
			if h == d {
				a.VSHost, ok = true, true
			}
		}
	}
	return a, ok
}

func nsRel(p proxyT, ns string) string {
	if ns == p.NS {
		return "own"
	}
	return "other"
}

func setOf(l []string) map[string]bool {
	m := map[string]bool{}
	for _, x := range l {
		m[x] = true
	}
	return m
}

func keys(m map[string]bool) []string {
	out := make([]string, 0, len(m))
	for k := range m {
		out = append(out, k)
	}
	sort.Strings(out)
	return out
}

// delivered is what the output shows for one hostname.
type delivered struct {
	cdsPorts  map[int]bool
	subsets   map[string]bool
	edsAddrs  map[string]bool
	vips      map[string]bool // VIP domains of virtual hosts
	domains   bool            // some virtual host carries the hostname as a domain
	domainRCs map[string]bool // route configs with such a virtual host
	tcpRefs   map[int]bool    // outbound listeners with a tcp_proxy to outbound|port||host
	routeRefs map[string]bool // virtual hosts (names) whose routes reference a cluster of the host
}

func (d *delivered) surfaces() []string {
	var out []string
	if len(d.cdsPorts) > 0 {
		out = append(out, "cds")
	}
	if len(d.edsAddrs) > 0 {
		out = append(out, "eds")
	}
	if len(d.tcpRefs) > 0 {
		out = append(out, "lds")
	}
	if d.domains || len(d.vips) > 0 {
		out = append(out, "rds")
	}
	return out
}

func collect(w *world, v *verdict, o *proxyObs) (map[string]*delivered, []string, []string) {
	out := map[string]*delivered{}
	get := func(h string) *delivered {
		if out[h] == nil {
			out[h] = &delivered{cdsPorts: map[int]bool{}, subsets: map[string]bool{}, edsAddrs: map[string]bool{}, vips: map[string]bool{},
				domainRCs: map[string]bool{}, tcpRefs: map[int]bool{}, routeRefs: map[string]bool{}}
		}
		return out[h]
	}
	for _, c := range o.Clusters {
		d := get(c.Host)
		d.cdsPorts[c.Port] = true
		if c.Subset != "" {
			d.subsets[c.Subset] = true
		}
		for _, a := range c.Inline {
			d.edsAddrs[a] = true
		}
	}
	for name, addrs := range o.EDS {
		_, _, hn, _ := model.ParseSubsetKey(name)
		d := get(string(hn))
		for _, a := range addrs {
			d.edsAddrs[a] = true
		}
	}
	for _, l := range o.Listeners {
		for _, c := range l.Clusters {
			dir, _, hn, port := model.ParseSubsetKey(c)
			if dir == model.TrafficDirectionOutbound && hn != "" {
				get(string(hn)).tcpRefs[port] = true
			}
		}
	}
	var aliasDomains, unattributed []string
	for _, vh := range o.VHosts {
		for _, dom := range vh.Domains {
			if dom == "*" {
				continue // allow_any / block_all catch-all
			}
			a, ok := w.attribute(dom)
			if !ok {
				unattributed = append(unattributed, dom)
				continue
			}
			if a.Host == "" {
				continue // only a VirtualService host
			}
			if isAlias(w, a.Host) {
				aliasDomains = append(aliasDomains, dom)
				continue
			}
			d := get(a.Host)
			switch {
			case a.Instance != nil:
				d.vips[a.Instance.VIP] = true
			case a.VSHost && len(v.VSMay) > 0:
				// a service hostname that is also the host of a VirtualService the scope may import:
				// the virtual host may exist because of either (a VirtualService host gets a virtual
				// host of its own); counted for "must", not as a delivery of the service
				d.domainRCs[vh.RouteConfig] = true
			default:
				d.domains = true
				d.domainRCs[vh.RouteConfig] = true
			}
		}
		for _, c := range vh.Clusters {
			dir, _, hn, _ := model.ParseSubsetKey(c)
			if dir == model.TrafficDirectionOutbound && hn != "" {
				get(string(hn)).routeRefs[vh.Name] = true
			}
		}
	}
	return out, aliasDomains, unattributed
}

func isAlias(w *world, h string) bool {
	for _, s := range w.Services {
		if s.Host == h && s.Res == "alias" {
			return true
		}
	}
	return false
}

func (w *world) instances(h string) []*svcT {
	var out []*svcT
	for i := range w.Services {
		if w.Services[i].Host == h && w.Services[i].Res != "alias" {
			out = append(out, &w.Services[i])
		}
	}
	return out
}

func (w *world) isVSDest(h string) bool {
	for i := range w.VS {
		for _, d := range w.effDests(&w.VS[i]) {
			if d.Host == h {
				return true
			}
		}
	}
	return false
}

// scopeClass is the coarse shape of the scope used in violation keys.
func scopeClass(p proxyT, v *verdict) string {
	switch {
	case p.Type == "router":
		return "gateway-default"
	case v.Scope == "default":
		return "default"
	case strings.HasPrefix(v.Scope, rootNS+"/"):
		return "root-sidecar"
	}
	return "sidecar"
}

// judgeObservation returns the findings for one proxy. infra is non-empty when the harness itself
// cannot interpret the output.
func judgeObservation(w *world, p proxyT, v *verdict, o *proxyObs) (fs []finding, infra string) {
	del, aliasDomains, unattributed := collect(w, v, o)
	if len(unattributed) > 0 {
		return nil, fmt.Sprintf("virtual-host domains the harness cannot attribute: %v", unattributed)
	}
	_ = scopeClass
	add := func(key, format string, args ...any) {
		fs = append(fs, finding{Key: key, Desc: fmt.Sprintf(format, args...)})
	}

	hostsSeen := map[string]bool{}
	for h := range del {
		hostsSeen[h] = true
	}
	for h := range v.Hosts {
		hostsSeen[h] = true
	}
	for _, h := range keys(hostsSeen) {
		hv := v.Hosts[h]
		d := del[h]
		if hv == nil {
			if isAlias(w, h) {
				// an ExternalName service has no cluster of its own
				if d != nil && (len(d.cdsPorts) > 0 || len(d.edsAddrs) > 0 || len(d.tcpRefs) > 0) {
					add(fmt.Sprintf("alias-has-own-cluster|proxy=%s", p.Type), "%s: cluster/endpoints/listener delivered for the ExternalName alias %s itself", p.Name, h)
				}
				continue
			}
			// a hostname the world does not define: only references from VirtualService routes can name it
			if d != nil && len(d.surfaces()) > 0 {
				return nil, fmt.Sprintf("output for unknown hostname %s", h)
			}
			continue
		}
		if d == nil {
			d = &delivered{}
		}
		insts := w.instances(h)
		allowed := setOf(hv.Allowed)
		// how the hostname could have reached the scope: named as a destination by a VirtualService the
		// scope may import, or only through the egress host list
		via := "host-list"
		if w.isVSDest(h) && len(v.VSMay) > 0 {
			via = "vs-destination"
		}
		if p.Type == "router" && w.isVSDest(h) {
			// a router may be handed the default scope computed for the sidecars of its namespace,
			// VirtualService-inferred destinations included
			for i := range w.VS {
				if w.VS[i].mesh() && w.vsExported(&w.VS[i], p.NS) {
					via = "vs-destination"
				}
			}
		}

		// ---- delivered ⊆ may_have
		if surf := d.surfaces(); len(surf) > 0 && !hv.May {
			// why is it not allowed: no instance exported to the proxy, or exported but not imported;
			// which instance was it (by unique port, endpoint address or VIP; all of them if undecidable)
			reason, rel := "not-imported", map[string]bool{}
			anyExported := false
			for _, s := range insts {
				if w.svcExported(s, p.NS) {
					anyExported = true
				}
				if d.edsAddrs[s.Endpoint] || d.vips[s.VIP] {
					rel[nsRel(p, s.NS)] = true
				}
			}
			if len(rel) == 0 {
				for _, s := range insts {
					rel[nsRel(p, s.NS)] = true
				}
			}
			if !anyExported {
				reason = "not-exported"
			}
			add(leakKey(surf, p, strings.Join(keys(rel), "+"), reason, via),
				"%s (namespace %s, scope %s) was given %s for %s, which R5 does not allow (%s): cds ports %v, eds %v, listeners %v, vips %v",
				p.Name, p.NS, v.Scope, strings.Join(surf, "+"), h, reason, intKeys(d.cdsPorts), keys(d.edsAddrs), intKeys(d.tcpRefs), keys(d.vips))
			continue
		}
		// route references (cluster names inside routes) to a host that is neither deliverable nor a
		// destination written in a VirtualService the scope may import
		if len(d.routeRefs) > 0 && !hv.May && !(w.isVSDest(h) && len(v.VSMay) > 0) {
			add(fmt.Sprintf("leak|what=route-reference|proxy=%s", p.Type),
				"%s: routes of %v reference a cluster of %s although no imported VirtualService names it", p.Name, keys(d.routeRefs), h)
		}

		// ---- which instance (collisions judged per hostname)
		if hv.May {
			used := map[string]bool{}
			for port := range d.cdsPorts {
				var owners []string
				for _, s := range insts {
					for _, sp := range s.Ports {
						if sp.Number == port {
							owners = append(owners, s.ID)
						}
					}
				}
				if len(owners) == 0 {
					add(fmt.Sprintf("unknown-port|proxy=%s", p.Type), "%s: cluster for %s port %d, which no instance has", p.Name, h, port)
					continue
				}
				ok := false
				for _, id := range owners {
					if allowed[id] {
						ok = true
					}
				}
				if !ok {
					for _, id := range owners {
						used[id] = true
					}
				}
			}
			for a := range d.edsAddrs {
				for _, s := range insts {
					if s.Endpoint == a && !allowed[s.ID] {
						used[s.ID] = true
					}
				}
			}
			for vip := range d.vips {
				for _, s := range insts {
					if s.VIP == vip && !allowed[s.ID] {
						used[s.ID] = true
					}
				}
			}
			for _, id := range keys(used) {
				var s *svcT
				for _, x := range insts {
					if x.ID == id {
						s = x
					}
				}
				if !w.svcExported(s, p.NS) {
					var surf []string
					for port := range d.cdsPorts {
						for _, sp := range s.Ports {
							if sp.Number == port && !contains(surf, "cds") {
								surf = append(surf, "cds")
							}
						}
					}
					if d.edsAddrs[s.Endpoint] {
						surf = append(surf, "eds")
					}
					if d.vips[s.VIP] {
						surf = append(surf, "rds")
					}
					add(leakKey(surf, p, nsRel(p, s.NS), "not-exported", via),
						"%s (namespace %s, scope %s): for %s the instance of namespace %s (exportTo %s) was used although it is not exported to %s; allowed instances %v; cds ports %v eds %v vips %v",
						p.Name, p.NS, v.Scope, h, s.NS, etName(s.ExportTo), p.NS, hv.Allowed, intKeys(d.cdsPorts), keys(d.edsAddrs), keys(d.vips))
				} else {
					add(fmt.Sprintf("wrong-instance|proxy=%s|instance-ns=%s", p.Type, nsRel(p, s.NS)),
						"%s (namespace %s, scope %s): for %s the instance of namespace %s was used; R5 allows %v; cds ports %v eds %v vips %v",
						p.Name, p.NS, v.Scope, h, s.NS, hv.Allowed, intKeys(d.cdsPorts), keys(d.edsAddrs), keys(d.vips))
				}
			}
			// imported only through port-bound listeners: no other port may appear
			if !hv.Must && !hv.ViaVSOnly && via == "host-list" && len(hv.PortBound) > 0 {
				pb := map[int]bool{}
				for _, x := range hv.PortBound {
					pb[x] = true
				}
				for port := range d.cdsPorts {
					if !pb[port] {
						add(fmt.Sprintf("leak-port|proxy=%s", p.Type),
							"%s: %s is imported only by a listener bound to port(s) %v but a cluster for port %d was delivered", p.Name, h, hv.PortBound, port)
					}
				}
			}
		}

		// ---- must_have ⊆ delivered
		if hv.Must {
			var missing []string
			for _, port := range hv.MustPorts {
				if !d.cdsPorts[port] {
					missing = append(missing, fmt.Sprintf("cds:%d", port))
					continue
				}
				// the endpoints of a delivered EDS cluster of a static instance
				name := fmt.Sprintf("outbound|%d||%s", port, h)
				if c := o.cluster(name); c != nil && c.Type == "EDS" {
					hasEp := false
					for _, s := range insts {
						if allowed[s.ID] && s.Endpoint != "" {
							hasEp = true
						}
					}
					if hasEp && len(o.EDS[name]) == 0 {
						missing = append(missing, fmt.Sprintf("eds:%d", port))
					}
				}
				if p.Type != "sidecar" || containsInt(v.BoundPorts, port) {
					continue
				}
				proto := ""
				for _, s := range insts {
					for _, sp := range s.Ports {
						if sp.Number == port {
							proto = sp.Proto
						}
					}
				}
				if proto == "HTTP" {
					if !d.domainRCs[fmt.Sprint(port)] {
						missing = append(missing, fmt.Sprintf("rds:%d", port))
					}
				} else if !d.tcpRefs[port] {
					missing = append(missing, fmt.Sprintf("lds:%d", port))
				}
			}
			if len(missing) > 0 {
				var kinds []string
				seen := map[string]bool{}
				for _, m := range missing {
					k := m[:strings.Index(m, ":")]
					if !seen[k] {
						seen[k] = true
						kinds = append(kinds, k)
					}
				}
				rel := map[string]bool{}
				for _, id := range hv.Allowed {
					for _, s := range insts {
						if s.ID == id {
							rel[nsRel(p, s.NS)] = true
						}
					}
				}
				what := "routes-or-listeners"
				if contains(kinds, "cds") || contains(kinds, "eds") {
					what = "clusters"
				}
				add(fmt.Sprintf("missing|what=%s|proxy=%s|service-ns=%s", what, p.Type, strings.Join(keys(rel), "+")),
					"%s (namespace %s, scope %s): %s is exported to the proxy and imported by a port-unrestricted egress host (instances %v) but is not delivered: %v",
					p.Name, p.NS, v.Scope, h, hv.Allowed, missing)
			}
		}
	}

	// ---- alias hostnames as virtual-host domains
	for _, dom := range aliasDomains {
		a, _ := w.attribute(dom)
		if !v.AliasMay[a.Host] {
			var al *svcT
			for i := range w.Services {
				if w.Services[i].Host == a.Host {
					al = &w.Services[i]
				}
			}
			reason := "not-imported"
			if !w.svcExported(al, p.NS) {
				reason = "not-exported"
			}
			add(fmt.Sprintf("leak-alias-domain|proxy=%s|reason=%s", p.Type, reason),
				"%s (namespace %s, scope %s): virtual-host domain %s belongs to the ExternalName service %s/%s (exportTo %s), %s", p.Name, p.NS, v.Scope, dom, al.NS, al.Name, etName(al.ExportTo), reason)
			break // one finding per proxy is enough
		}
	}

	// ---- VirtualService application: the virtual host(s) carrying the rule's host as a domain (sidecar:
	// route "80", the port of the rule's destinations; router: the routes its listeners name)
	for i := range w.VS {
		vs := &w.VS[i]
		want := map[string]bool{}
		for _, dst := range w.effDests(vs) {
			want[fmt.Sprintf("outbound|%d||%s", dst.Port, dst.Host)] = true
		}
		// destinations of a delegate that is not exported to the rule's namespace must not be routed to
		forbidden := map[string]bool{}
		if vs.Delegate != nil && !w.delegateMerged(vs) {
			for _, dst := range vs.Delegate.Dests {
				c := fmt.Sprintf("outbound|%d||%s", dst.Port, dst.Host)
				if !want[c] {
					forbidden[c] = true
				}
			}
		}
		applied, where := false, ""
		for _, vh := range o.VHosts {
			if p.Type == "sidecar" && vh.RouteConfig != "80" {
				continue
			}
			isHost := false
			for _, dom := range vh.Domains {
				for _, h := range vs.Hosts {
					if dom == h {
						isHost = true
					}
				}
			}
			if !isHost {
				continue
			}
			got := setOf(vh.Clusters)
			for c := range forbidden {
				if got[c] {
					add(fmt.Sprintf("rule-leak:delegate-virtualservice|proxy=%s|delegate-ns=%s", p.Type, nsRel(p, vs.Delegate.NS)),
						"%s (namespace %s): virtual host %s/%s routes to %s, the destination of delegate VirtualService %s/%s (exportTo %s, mesh default %s), which is not exported to namespace %s of the rule %s/%s that references it",
						p.Name, p.NS, vh.RouteConfig, vh.Name, c, vs.Delegate.NS, vs.Delegate.Name, etName(vs.Delegate.ExportTo), etName(w.Mesh.VSDefault), vs.NS, vs.NS, vs.Name)
				}
			}
			all := true
			for c := range want {
				if !got[c] {
					all = false
				}
			}
			if all {
				applied, where = true, vh.RouteConfig+"/"+vh.Name
			}
		}
		switch {
		case applied && !contains(v.VSMay, vs.Name):
			reason := "not-imported"
			if !w.vsExported(vs, p.NS) {
				reason = "not-exported"
			}
			add(fmt.Sprintf("rule-leak:virtualservice|proxy=%s|vs-ns=%s|reason=%s", p.Type, nsRel(p, vs.NS), reason),
				"%s (namespace %s, scope %s): VirtualService %s/%s (exportTo %s, gateways %v) shapes the routes of %s although it is %s", p.Name, p.NS, v.Scope, vs.NS, vs.Name, etName(vs.ExportTo), vs.Gateways, where, reason)
		case !applied && contains(v.VSSure, vs.Name) && !(p.Type == "sidecar" && containsInt(v.BoundPorts, 80)):
			add(fmt.Sprintf("rule-missing:virtualservice|proxy=%s|vs-ns=%s", p.Type, nsRel(p, vs.NS)),
				"%s (namespace %s, scope %s): VirtualService %s/%s (exportTo %s, gateways %v) is exported to the proxy and selected by its scope / gateway server, but no virtual host for %v routes to its destinations", p.Name, p.NS, v.Scope, vs.NS, vs.Name, etName(vs.ExportTo), vs.Gateways, vs.Hosts)
		}
	}

	// ---- DestinationRule application: marker on the delivered clusters
	// MeshConfig.defaultDestinationRuleExportTo = "~": the MeshConfig reference gives the field "the same
	// syntax as defaultServiceExportTo" (which lists ~), while "~" is not a legal DestinationRule exportTo
	// value and the implementation honours only "." and "*" there. The text leaves the meaning open, so
	// the rule lookup is not judged under that setting (byte comparisons still are).
	if len(w.DR) > 0 && !contains(w.Mesh.DRDefault, "~") {
		for _, c := range o.Clusters {
			hv := v.Hosts[c.Host]
			if hv == nil || !hv.May {
				continue
			}
			insts := w.instances(c.Host)
			allowed := setOf(hv.Allowed)
			// the instance the cluster was built from (endpoint address, else unique port); when it is
			// not an allowed one that is already reported above and the rule lookup is not judged
			var used []*svcT
			for _, a := range o.EDS[c.Name] {
				for _, s := range insts {
					if s.Endpoint == a {
						used = append(used, s)
					}
				}
			}
			if len(used) == 0 {
				var owners []*svcT
				for _, s := range insts {
					for _, sp := range s.Ports {
						if sp.Number == c.Port {
							owners = append(owners, s)
						}
					}
				}
				if len(owners) == 1 {
					used = owners
				}
			}
			bad := false
			for _, s := range used {
				if !allowed[s.ID] {
					bad = true
				}
			}
			if bad {
				continue
			}
			okMarkers := map[int]bool{}
			if len(used) > 0 {
				for _, s := range used {
					for _, m := range w.drFor(p.NS, s) {
						okMarkers[m] = true
					}
				}
			} else {
				for _, s := range insts {
					if allowed[s.ID] {
						for _, m := range w.drFor(p.NS, s) {
							okMarkers[m] = true
						}
					}
				}
			}
			got := 0
			for _, d := range w.DR {
				if c.MaxConns == d.Marker {
					got = d.Marker
				}
			}
			if c.Subset != "" {
				// a subset cluster exists only through the rule that defines it
				fmt.Sscanf(c.Subset, "m%d", &got)
			}
			if okMarkers[got] {
				continue
			}
			var gotDR *drT
			for i := range w.DR {
				if w.DR[i].Marker == got {
					gotDR = &w.DR[i]
				}
			}
			if gotDR != nil && !w.drExported(gotDR, p.NS) {
				add(fmt.Sprintf("rule-leak:destinationrule|proxy=%s|dr-ns=%s|reason=not-exported", p.Type, drRel(p, gotDR.NS)),
					"%s (namespace %s): cluster %s is shaped by DestinationRule %s/%s (exportTo %s), which is not exported to %s", p.Name, p.NS, c.Name, gotDR.NS, gotDR.Name, etName(gotDR.ExportTo), p.NS)
			} else if gotDR != nil {
				add(fmt.Sprintf("rule-wrong:destinationrule|proxy=%s|dr-ns=%s", p.Type, drRel(p, gotDR.NS)),
					"%s (namespace %s): cluster %s is shaped by DestinationRule %s/%s; R5 (proxy namespace, service namespace, root namespace; exported rules only) expects marker(s) %v", p.Name, p.NS, c.Name, gotDR.NS, gotDR.Name, intKeys(okMarkers))
			} else {
				add(fmt.Sprintf("rule-missing:destinationrule|proxy=%s", p.Type),
					"%s (namespace %s): cluster %s carries no DestinationRule although R5 expects marker(s) %v", p.Name, p.NS, c.Name, intKeys(okMarkers))
			}
		}
	}
	return fs, ""
}

// leakKey groups leaks by shape: what was delivered (clusters/endpoints, or only routes/listeners),
// to which kind of proxy, why R5 forbids it, how the hostname could have reached the scope, and -
// for unexported instances - whether the instance lives in the proxy's own namespace (the
// namespace-local lookups and the cross-namespace choice are different code paths).
func leakKey(surf []string, p proxyT, instanceNS, reason, via string) string {
	what := "routes-or-listeners"
	if contains(surf, "cds") || contains(surf, "eds") {
		what = "clusters"
	}
	k := fmt.Sprintf("leak|what=%s|proxy=%s|reason=%s|via=%s", what, p.Type, reason, via)
	if reason == "not-exported" {
		k += "|instance-ns=" + instanceNS
	}
	return k
}

func containsInt(l []int, x int) bool {
	for _, e := range l {
		if e == x {
			return true
		}
	}
	return false
}

func drRel(p proxyT, ns string) string {
	switch ns {
	case p.NS:
		return "own"
	case rootNS:
		return "root"
	}
	return "other"
}

func intKeys[V any](m map[int]V) []int {
	out := make([]int, 0, len(m))
	for k := range m {
		out = append(out, k)
	}
	sort.Ints(out)
	return out
}
