// C07: the reference oracle R5 (DESIGN.md Appendix A.1), written from the API documentation of
// exportTo (ServiceEntry / VirtualService / DestinationRule / the Kubernetes export annotation),
// MeshConfig.default*ExportTo, MeshConfig.serviceEntryVisibility and Sidecar.egress.hosts. It reads
// only the plain-data world; it never calls into istio.
package c07

import (
	"sort"
	"strings"
)

// ---- exported

func contains(l []string, x string) bool {
	for _, e := range l {
		if e == x {
			return true
		}
	}
	return false
}

// exportedTo: E = own exportTo if non-empty else the default (unset default = "*").
// exported(ns) <=> E != {~} and ("*" in E or ("." in E and ownerNS == ns) or ns in E).
func exportedTo(exportTo, def []string, ownerNS, ns string) bool {
	e := exportTo
	if len(e) == 0 {
		e = def
		if e == nil {
			e = []string{"*"}
		}
	}
	if contains(e, "~") && len(e) == 1 {
		return false
	}
	return contains(e, "*") || (contains(e, ".") && ownerNS == ns) || contains(e, ns)
}

func (w *world) svcExported(s *svcT, ns string) bool {
	if !exportedTo(s.ExportTo, w.Mesh.SvcDefault, s.NS, ns) {
		return false
	}
	// serviceEntryVisibility caps ServiceEntry visibility for sidecars when applyToSidecars is on
	if s.Kind == "se" && w.Mesh.SEVApply {
		switch w.Mesh.SEVDefault {
		case "NONE":
			return false
		case "NAMESPACE":
			return s.NS == ns
		}
	}
	return true
}

func (w *world) vsExported(v *vsT, ns string) bool {
	return exportedTo(v.ExportTo, w.Mesh.VSDefault, v.NS, ns)
}

// delegateMerged: a delegate contributes its routes to the rule that references it iff the delegate
// is exported to that rule's namespace.
func (w *world) delegateMerged(v *vsT) bool {
	return v.Delegate != nil && exportedTo(v.Delegate.ExportTo, w.Mesh.VSDefault, v.Delegate.NS, v.NS)
}

// effDests: the destinations the rule routes to, the merged delegate's included.
func (w *world) effDests(v *vsT) []destT {
	out := append([]destT{}, v.Dests...)
	if w.delegateMerged(v) {
		out = append(out, v.Delegate.Dests...)
	}
	return out
}

func (w *world) drExported(d *drT, ns string) bool {
	return exportedTo(d.ExportTo, w.Mesh.DRDefault, d.NS, ns)
}

// ---- hostname algebra (DNS wildcard subset), independent of pkg/config/host

// hostSubset: a ⊑ b. "*" covers everything; "*.x" covers every name ending in ".x" (also other
// wildcards below it); an exact name covers only itself.
func hostSubset(a, b string) bool {
	if b == "*" {
		return true
	}
	if strings.HasPrefix(b, "*") {
		suffix := b[1:] // ".x"
		if strings.HasPrefix(a, "*") {
			return len(a) >= len(b) && strings.HasSuffix(a[1:], suffix)
		}
		return strings.HasSuffix(a, suffix)
	}
	return a == b
}

func hostOverlap(a, b string) bool { return hostSubset(a, b) || hostSubset(b, a) }

// ---- Sidecar selection and egress hosts

type egressHost struct {
	Exclude bool
	NS      string // "*" or a namespace (already resolved)
	Host    string
}

func parseEgressHost(h, proxyNS string) egressHost {
	i := strings.Index(h, "/")
	ns, name := h[:i], h[i+1:]
	e := egressHost{Host: name}
	if strings.HasPrefix(ns, "~") {
		e.Exclude = true
		ns = ns[1:]
		if ns == "" {
			ns = "*"
		}
	}
	if ns == "." {
		ns = proxyNS
	}
	e.NS = ns
	return e
}

func subsetLabels(sel, labels map[string]string) bool {
	for k, v := range sel {
		if labels[k] != v {
			return false
		}
	}
	return true
}

// scopeT is the egress part of the Sidecar that applies to a proxy.
type scopeT struct {
	From      string // which Sidecar (diagnostic)
	Listeners []egressT
}

// scopeFor: workload-selector Sidecar of the namespace (oldest first) > selector-less Sidecar of the
// namespace > selector-less root-namespace Sidecar > default (*/*). Routers never use Sidecars.
func (w *world) scopeFor(p proxyT) scopeT {
	def := scopeT{From: "default", Listeners: []egressT{{Hosts: []string{"*/*"}}}}
	if p.Type == "router" {
		return def
	}
	var own []sidecarT
	for _, s := range w.Sidecars {
		if s.NS == p.NS {
			own = append(own, s)
		}
	}
	sort.SliceStable(own, func(i, j int) bool { return own[i].TS < own[j].TS })
	for _, s := range own {
		if s.Selector != nil && subsetLabels(s.Selector, p.Labels) {
			return scopeT{From: s.NS + "/" + s.Name, Listeners: s.Egress}
		}
	}
	for _, s := range own {
		if s.Selector == nil {
			return scopeT{From: s.NS + "/" + s.Name, Listeners: s.Egress}
		}
	}
	for _, s := range w.Sidecars {
		if s.NS == rootNS && s.Selector == nil {
			return scopeT{From: s.NS + "/" + s.Name, Listeners: s.Egress}
		}
	}
	return def
}

// listenerImports: does this egress listener's host list import (namespace, hostname)?
// matched by some inclusion entry and by no exclusion entry.
func listenerImports(l egressT, proxyNS, ns, hostname string) bool {
	matched, excluded := false, false
	for _, h := range l.Hosts {
		e := parseEgressHost(h, proxyNS)
		if (e.NS == "*" || e.NS == ns) && hostSubset(hostname, e.Host) {
			if e.Exclude {
				excluded = true
			} else {
				matched = true
			}
		}
	}
	return matched && !excluded
}

// listenerMayImportVS: could this listener select the VirtualService (any of its hosts overlapping an
// inclusion entry of the VS's namespace)? Exclusions are not applied: the text does not say whether
// they subtract VirtualServices, so both readings are accepted (this only widens may_have).
func listenerMayImportVS(l egressT, proxyNS string, v *vsT) bool {
	for _, h := range l.Hosts {
		e := parseEgressHost(h, proxyNS)
		if e.Exclude || !(e.NS == "*" || e.NS == v.NS) {
			continue
		}
		for _, vh := range v.Hosts {
			if hostOverlap(vh, e.Host) {
				return true
			}
		}
	}
	return false
}

// listenerSurelyImportsVS: the clear-cut case used for the converse (an exported, imported
// VirtualService must shape the route): an inclusion entry covers the VS host and no exclusion
// entry of the listener touches it.
func listenerSurelyImportsVS(l egressT, proxyNS string, v *vsT) bool {
	ok := false
	for _, h := range l.Hosts {
		e := parseEgressHost(h, proxyNS)
		if !(e.NS == "*" || e.NS == v.NS) {
			continue
		}
		for _, vh := range v.Hosts {
			if e.Exclude && hostOverlap(vh, e.Host) {
				return false
			}
			if !e.Exclude && hostSubset(vh, e.Host) {
				ok = true
			}
		}
	}
	return ok
}

// ---- the verdict for one proxy

type hostVerdict struct {
	Host string `json:"host"`
	// Must: some instance is exported to the proxy and imported by a port-unrestricted egress host.
	Must bool `json:"must"`
	// May: some instance is exported and (imported by any listener, or destination of a
	// VirtualService the scope may import).
	May bool `json:"may"`
	// MustPorts: ports that must be delivered when Must (all ports of an allowed instance; when
	// several instances are allowed, the ports common to all of them).
	MustPorts []int `json:"must_ports,omitempty"`
	// Allowed: ids of the instances whose delivery is acceptable.
	Allowed []string `json:"allowed,omitempty"`
	// ViaVSOnly: deliverable only as a VirtualService destination (not through the host list).
	ViaVSOnly bool `json:"via_vs_only,omitempty"`
	// PortBoundOnly: imported only by port-bound listeners, on these ports.
	PortBound []int `json:"port_bound,omitempty"`
}

type verdict struct {
	Scope string                  `json:"scope"`
	Hosts map[string]*hostVerdict `json:"hosts"`
	// VSMay / VSSure: names of VirtualServices that may / must be in effect for this proxy.
	VSMay  []string `json:"vs_may,omitempty"`
	VSSure []string `json:"vs_sure,omitempty"`
	// AliasMay: alias hostname -> may appear as a virtual-host domain.
	AliasMay map[string]bool `json:"alias_may,omitempty"`
	// BoundPorts: ports of port-bound egress listeners. The Sidecar reference says that the hosts
	// exposed on such a port are those of the listener with the most specific port, so listeners and
	// routes of these ports are not demanded for services imported by the catch-all listener.
	BoundPorts []int `json:"bound_ports,omitempty"`
}

func (w *world) judge(p proxyT) *verdict {
	sc := w.scopeFor(p)
	v := &verdict{Scope: sc.From, Hosts: map[string]*hostVerdict{}, AliasMay: map[string]bool{}}

	for _, l := range sc.Listeners {
		if l.Port != nil {
			v.BoundPorts = append(v.BoundPorts, l.Port.Number)
		}
	}

	// VirtualServices
	vsDest := map[string]bool{}
	for i := range w.VS {
		vs := &w.VS[i]
		if !w.vsExported(vs, p.NS) {
			continue
		}
		may, sure := false, false
		if p.Type == "router" {
			// a router is shaped by the rules bound to a Gateway that selects it, through the server
			// hosts ("namespace/dnsName": the rule must live in that namespace, "." = the Gateway's own,
			// "*" or no prefix = any); mesh rules do not shape it
			for _, g := range w.Gateways {
				if !contains(vs.Gateways, g.NS+"/"+g.Name) || !subsetLabels(g.Selector, p.Labels) || g.NS != p.NS {
					continue
				}
				for _, sh := range g.Hosts {
					n, h := "*", sh
					if i := strings.Index(sh, "/"); i >= 0 {
						n, h = sh[:i], sh[i+1:]
					}
					if n == "." {
						n = g.NS
					}
					if n != "*" && n != vs.NS {
						continue
					}
					for _, vh := range vs.Hosts {
						if hostOverlap(vh, h) {
							may = true
						}
						if hostSubset(vh, h) {
							sure = true
						}
					}
				}
			}
		} else if vs.mesh() {
			for _, l := range sc.Listeners {
				if listenerMayImportVS(l, p.NS, vs) {
					may = true
				}
				if l.Port == nil && listenerSurelyImportsVS(l, p.NS, vs) {
					sure = true
				}
			}
		}
		if may {
			v.VSMay = append(v.VSMay, vs.Name)
			for _, d := range w.effDests(vs) {
				vsDest[d.Host] = true
			}
		}
		if sure {
			v.VSSure = append(v.VSSure, vs.Name)
		}
	}

	singleListener := len(sc.Listeners) == 1
	for _, h := range w.hostnames() {
		hv := &hostVerdict{Host: h}
		v.Hosts[h] = hv
		var imported, importedFree, exportedAll []*svcT
		portBound := map[int]bool{}
		for i := range w.Services {
			s := &w.Services[i]
			if s.Host != h || s.Res == "alias" || !w.svcExported(s, p.NS) {
				continue
			}
			exportedAll = append(exportedAll, s)
			any, free := false, false
			for _, l := range sc.Listeners {
				if !listenerImports(l, p.NS, s.NS, s.Host) {
					continue
				}
				if l.Port == nil {
					any, free = true, true
					continue
				}
				for _, sp := range s.Ports {
					if sp.Number == l.Port.Number {
						any = true
						portBound[sp.Number] = true
					}
				}
			}
			if any {
				imported = append(imported, s)
			}
			if free {
				importedFree = append(importedFree, s)
			}
		}
		hv.Must = len(importedFree) > 0
		viaVS := vsDest[h] && len(exportedAll) > 0
		hv.May = len(imported) > 0 || viaVS
		hv.ViaVSOnly = len(imported) == 0 && viaVS

		// which instance
		allowed := map[string]*svcT{}
		var own *svcT
		for _, s := range imported {
			if s.NS == p.NS {
				own = s
			}
		}
		if own != nil && singleListener && p.Type == "sidecar" {
			// the proxy's own namespace wins among the imported candidates (Sidecar import rule; A.1).
			// For a router no Sidecar applies and neither the property nor the documentation names a
			// winner among several exported instances of one hostname: any of them is accepted.
			allowed[own.ID] = own
		} else {
			for _, s := range imported {
				allowed[s.ID] = s
			}
		}
		if viaVS {
			for _, s := range exportedAll {
				allowed[s.ID] = s
			}
		}
		for id := range allowed {
			hv.Allowed = append(hv.Allowed, id)
		}
		sort.Strings(hv.Allowed)
		if hv.Must {
			// ports that must be there whichever allowed instance was chosen; when a VirtualService
			// destination or a port-bound listener may have put a trimmed copy first, only ports common
			// to every reading are demanded
			cnt := map[int]int{}
			for _, s := range allowed {
				for _, sp := range s.Ports {
					cnt[sp.Number]++
				}
			}
			for port, n := range cnt {
				if n == len(allowed) {
					hv.MustPorts = append(hv.MustPorts, port)
				}
			}
			sort.Ints(hv.MustPorts)
		}
		for port := range portBound {
			hv.PortBound = append(hv.PortBound, port)
		}
		sort.Ints(hv.PortBound)
	}

	// alias hostnames: an ExternalName service is a service of its own namespace with its own
	// exportTo; its hostname may be given to the proxy (as an extra domain of the concrete service)
	// only if the alias service is exported to the proxy, imported by the scope, and the concrete
	// service may be delivered.
	for i := range w.Services {
		s := &w.Services[i]
		if s.Res != "alias" {
			continue
		}
		ok := w.svcExported(s, p.NS)
		if ok {
			imp := false
			for _, l := range sc.Listeners {
				if listenerImports(l, p.NS, s.NS, s.Host) {
					imp = true
				}
			}
			ok = imp
		}
		if ok {
			c := v.Hosts[s.AliasFor]
			ok = c != nil && c.May
		}
		v.AliasMay[s.Host] = ok
	}
	return v
}

// ---- DestinationRule selection (A.1): looked up in the proxy's namespace, then the service's
// namespace, then the root namespace; only rules exported to the proxy's namespace.

// drFor returns the markers of the rules that may apply to (proxy namespace, service instance): the
// rules exported to the proxy in the first namespace of the lookup order that has one ({0} if none).
// With several exported rules for the host in that namespace the text does not fix how they combine
// (consolidation by creation order), so any of them is accepted; what is fixed is that a rule NOT
// exported to the proxy is never among them.
func (w *world) drFor(proxyNS string, s *svcT) []int {
	for _, ns := range []string{proxyNS, s.NS, rootNS} {
		var out []int
		for i := range w.DR {
			d := &w.DR[i]
			if d.NS == ns && hostSubset(s.Host, d.Host) && w.drExported(d, proxyNS) {
				out = append(out, d.Marker)
			}
		}
		if len(out) > 0 {
			return out
		}
	}
	return []int{0}
}
