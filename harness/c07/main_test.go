package c07

import (
	"os"
	"testing"

	"istio.io/istio/pkg/kube/krt"
	"istio.io/istio/pkg/log"
)

// The control-plane code logs ~75 lines per environment built; only errors are of interest here.
// Every krt collection of every environment registers itself in krt.GlobalDebugHandler and is
// never unregistered by the fake; a nil handler disables that registration (debug endpoint only),
// which keeps the memory of a worker that builds thousands of environments flat.
func TestMain(m *testing.M) {
	for _, s := range log.Scopes() {
		s.SetOutputLevel(log.ErrorLevel)
	}
	krt.GlobalDebugHandler = nil
	os.Exit(m.Run())
}
