// C07: observation. The world is loaded into a real istio environment (core.NewConfigGenTest: real
// ServiceEntry controller, VirtualService controller, PushContext, SidecarScope) and, for each proxy,
// the real CDS / LDS / RDS generators and the EDS endpoint builder are run. What a proxy is given is
// reduced to plain data (names, domains, addresses, cluster references) plus a digest of the bytes.
package c07

import (
	"crypto/sha256"
	"encoding/hex"
	"fmt"
	"net/netip"
	"sort"
	"strconv"
	"strings"

	cluster "github.com/envoyproxy/go-control-plane/envoy/config/cluster/v3"
	endpoint "github.com/envoyproxy/go-control-plane/envoy/config/endpoint/v3"
	listener "github.com/envoyproxy/go-control-plane/envoy/config/listener/v3"
	route "github.com/envoyproxy/go-control-plane/envoy/config/route/v3"
	hcm "github.com/envoyproxy/go-control-plane/envoy/extensions/filters/network/http_connection_manager/v3"
	tcpproxy "github.com/envoyproxy/go-control-plane/envoy/extensions/filters/network/tcp_proxy/v3"
	"google.golang.org/protobuf/proto"

	"istio.io/istio/pilot/pkg/features"
	"istio.io/istio/pilot/pkg/model"
	"istio.io/istio/pilot/pkg/networking/core"
	"istio.io/istio/pilot/pkg/xds/endpoints"
	"istio.io/istio/pkg/test"
)

// clusterObs is one outbound cluster as delivered by CDS.
type clusterObs struct {
	Name     string   `json:"name"`
	Host     string   `json:"host"`
	Port     int      `json:"port"`
	Subset   string   `json:"subset,omitempty"`
	Type     string   `json:"type"`
	Inline   []string `json:"inline_endpoints,omitempty"`
	MaxConns int      `json:"max_connections,omitempty"`
}

type vhostObs struct {
	RouteConfig string   `json:"route_config"`
	Name        string   `json:"name"`
	Domains     []string `json:"domains"`
	Clusters    []string `json:"clusters"` // cluster references of its routes (incl. weighted, mirrors)
}

type listenerObs struct {
	Name     string   `json:"name"`
	Clusters []string `json:"tcp_clusters,omitempty"`
	Routes   []string `json:"rds,omitempty"`
}

// proxyObs is everything one proxy was given.
type proxyObs struct {
	Proxy     string              `json:"proxy"`
	Clusters  []clusterObs        `json:"clusters"`
	EDS       map[string][]string `json:"eds"` // cluster name -> endpoint addresses, for every probed name with a non-empty answer
	Listeners []listenerObs       `json:"listeners,omitempty"`
	VHosts    []vhostObs          `json:"vhosts,omitempty"`
	Digest    string              `json:"digest"` // sha256 over the deterministic encoding of all CDS, LDS, RDS and EDS answers
	Scope     string              `json:"scope"`  // name of the SidecarScope chosen (diagnostic only, never judged)
}

func (o *proxyObs) cluster(name string) *clusterObs {
	for i := range o.Clusters {
		if o.Clusters[i].Name == name {
			return &o.Clusters[i]
		}
	}
	return nil
}

func detMarshal(h interface{ Write([]byte) (int, error) }, tag string, m proto.Message) {
	b, err := proto.MarshalOptions{Deterministic: true}.Marshal(m)
	if err != nil {
		panic(err)
	}
	fmt.Fprintf(h, "%s:%d:", tag, len(b))
	h.Write(b)
}

func addrsOfCLA(cla *endpoint.ClusterLoadAssignment) []string {
	var out []string
	for _, l := range cla.GetEndpoints() {
		for _, e := range l.GetLbEndpoints() {
			if sa := e.GetEndpoint().GetAddress().GetSocketAddress(); sa != nil {
				out = append(out, sa.GetAddress())
			}
		}
	}
	sort.Strings(out)
	return out
}

func routeActionClusters(r *route.Route) []string {
	var out []string
	ra := r.GetRoute()
	if ra == nil {
		return nil
	}
	if c := ra.GetCluster(); c != "" {
		out = append(out, c)
	}
	for _, wc := range ra.GetWeightedClusters().GetClusters() {
		out = append(out, wc.GetName())
	}
	for _, m := range ra.GetRequestMirrorPolicies() {
		out = append(out, m.GetCluster())
	}
	return out
}

// edsProbeNames lists the cluster names asked of EDS: every (hostname, port) of the world, without
// subset and with every subset name a DestinationRule of the universe can define, whether or not
// CDS delivered such a cluster (a proxy may ask for any name). The list does not depend on which
// rules the world holds, so that sibling worlds are asked the same questions.
var probeSubsets = []string{"", "m71", "m72"}

func edsProbeNames(w *world) []string {
	seen := map[string]bool{}
	var out []string
	for _, s := range w.Services {
		for _, p := range s.Ports {
			for _, sub := range probeSubsets {
				n := fmt.Sprintf("outbound|%d|%s|%s", p.Number, sub, s.Host)
				if !seen[n] {
					seen[n] = true
					out = append(out, n)
				}
			}
		}
	}
	sort.Strings(out)
	return out
}

func rdsProbeNames(w *world) []string {
	seen := map[string]bool{}
	var out []string
	for _, s := range w.Services {
		for _, p := range s.Ports {
			if p.Proto == "HTTP" && !seen[strconv.Itoa(p.Number)] {
				seen[strconv.Itoa(p.Number)] = true
				out = append(out, strconv.Itoa(p.Number))
			}
		}
	}
	sort.Strings(out)
	return out
}

func observeProxy(cg *core.ConfigGenTest, w *world, p proxyT) *proxyObs {
	mp := &model.Proxy{
		ID: p.Name + "." + p.NS, ConfigNamespace: p.NS, IPAddresses: []string{p.IP}, Labels: p.Labels,
		Metadata: &model.NodeMetadata{Namespace: p.NS, Labels: p.Labels},
	}
	if p.Type == "router" {
		mp.Type = model.Router
	}
	proxy := cg.SetupProxy(mp)
	push := cg.PushContext()
	o := &proxyObs{Proxy: p.Name, EDS: map[string][]string{}}
	if proxy.SidecarScope != nil {
		o.Scope = proxy.SidecarScope.Name
	}
	h := sha256.New()

	// CDS
	cs := cg.Clusters(proxy)
	sort.SliceStable(cs, func(i, j int) bool { return cs[i].Name < cs[j].Name })
	for _, c := range cs {
		detMarshal(h, "C", c)
		dir, subset, hn, port := model.ParseSubsetKey(c.Name)
		if dir != model.TrafficDirectionOutbound || hn == "" {
			continue // BlackHoleCluster, PassthroughCluster, InboundPassthroughCluster, inbound|..., agent clusters
		}
		co := clusterObs{Name: c.Name, Host: string(hn), Port: port, Subset: subset}
		switch {
		case c.GetType() == cluster.Cluster_EDS:
			co.Type = "EDS"
		default:
			co.Type = c.GetType().String()
		}
		co.Inline = addrsOfCLA(c.GetLoadAssignment())
		for _, th := range c.GetCircuitBreakers().GetThresholds() {
			if th.GetMaxConnections() != nil {
				co.MaxConns = int(th.GetMaxConnections().GetValue())
			}
		}
		o.Clusters = append(o.Clusters, co)
	}

	// EDS: the real endpoint builder, asked for every name of the universe
	for _, name := range edsProbeNames(w) {
		b := endpoints.NewEndpointBuilder(name, proxy, push)
		cla := b.BuildClusterLoadAssignment(cg.Env().EndpointIndex)
		detMarshal(h, "E", cla)
		if a := addrsOfCLA(cla); len(a) > 0 {
			o.EDS[name] = a
		}
	}

	// LDS
	ls := cg.Listeners(proxy)
	sort.SliceStable(ls, func(i, j int) bool { return ls[i].Name < ls[j].Name })
	rdsNames := map[string]bool{}
	for _, l := range ls {
		detMarshal(h, "L", l)
		if l.Name == model.VirtualInboundListenerName {
			continue
		}
		lo := listenerObs{Name: l.Name}
		chains := append([]*listener.FilterChain{}, l.FilterChains...)
		if l.DefaultFilterChain != nil {
			chains = append(chains, l.DefaultFilterChain)
		}
		for _, fc := range chains {
			for _, f := range fc.Filters {
				switch {
				case f.GetTypedConfig().MessageIs(&tcpproxy.TcpProxy{}):
					tp := &tcpproxy.TcpProxy{}
					if err := f.GetTypedConfig().UnmarshalTo(tp); err != nil {
						panic(err)
					}
					if c := tp.GetCluster(); c != "" {
						lo.Clusters = append(lo.Clusters, c)
					}
					for _, wc := range tp.GetWeightedClusters().GetClusters() {
						lo.Clusters = append(lo.Clusters, wc.GetName())
					}
				case f.GetTypedConfig().MessageIs(&hcm.HttpConnectionManager{}):
					hc := &hcm.HttpConnectionManager{}
					if err := f.GetTypedConfig().UnmarshalTo(hc); err != nil {
						panic(err)
					}
					if r := hc.GetRds(); r != nil {
						lo.Routes = append(lo.Routes, r.RouteConfigName)
						rdsNames[r.RouteConfigName] = true
					}
					if rc := hc.GetRouteConfig(); rc != nil {
						o.VHosts = append(o.VHosts, vhostsOf("inline:"+l.Name, rc)...)
					}
				}
			}
		}
		sort.Strings(lo.Clusters)
		sort.Strings(lo.Routes)
		o.Listeners = append(o.Listeners, lo)
	}

	// RDS: the routes the listeners name, plus (sidecars) every HTTP port number of the universe
	if p.Type == "sidecar" {
		for _, n := range rdsProbeNames(w) {
			rdsNames[n] = true
		}
	}
	names := make([]string, 0, len(rdsNames))
	for n := range rdsNames {
		names = append(names, n)
	}
	sort.Strings(names)
	res, _ := cg.ConfigGen.BuildHTTPRoutes(proxy, &model.PushRequest{Push: push}, names)
	for _, r := range res {
		rc := &route.RouteConfiguration{}
		if err := r.Resource.UnmarshalTo(rc); err != nil {
			panic(err)
		}
		detMarshal(h, "R", rc)
		o.VHosts = append(o.VHosts, vhostsOf(rc.Name, rc)...)
	}
	o.Digest = hex.EncodeToString(h.Sum(nil))
	return o
}

func vhostsOf(rcName string, rc *route.RouteConfiguration) []vhostObs {
	var out []vhostObs
	for _, vh := range rc.GetVirtualHosts() {
		vo := vhostObs{RouteConfig: rcName, Name: vh.Name, Domains: append([]string{}, vh.Domains...)}
		seen := map[string]bool{}
		for _, r := range vh.Routes {
			for _, c := range routeActionClusters(r) {
				if !seen[c] {
					seen[c] = true
					vo.Clusters = append(vo.Clusters, c)
				}
			}
		}
		sort.Strings(vo.Clusters)
		out = append(out, vo)
	}
	return out
}

// observeWorld builds a fresh environment for the world and observes every proxy. Any failure of
// the fake itself (t.Fatal inside NewConfigGenTest) is returned as an error = infrastructure.
func observeWorld(w *world, ps []proxyT) (obs []*proxyObs, err error) {
	cfgs, err := w.configs()
	if err != nil {
		return nil, err
	}
	svcs, insts := w.k8s()
	saved := features.SidecarPickBestServiceNamespace
	features.SidecarPickBestServiceNamespace = !w.PickFirst
	defer func() { features.SidecarPickBestServiceNamespace = saved }()
	err = test.Wrap(func(t test.Failer) {
		cg := core.NewConfigGenTest(t, core.TestOptions{
			Configs: cfgs, Services: svcs, Instances: insts, MeshConfig: w.Mesh.config(),
		})
		for _, p := range ps {
			obs = append(obs, observeProxy(cg, w, p))
		}
	})
	return obs, err
}

// ---- helpers to read names

// splitDomain separates an optional :port suffix (IPv6 literals do not occur in the universe).
func splitDomain(d string) (hostPart string, port int) {
	if i := strings.LastIndex(d, ":"); i >= 0 {
		if n, err := strconv.Atoi(d[i+1:]); err == nil {
			return d[:i], n
		}
	}
	return d, 0
}

func isIP(s string) bool {
	_, err := netip.ParseAddr(s)
	return err == nil
}
