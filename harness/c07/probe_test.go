package c07

import (
	"encoding/json"
	"fmt"
	"os"
	"runtime"
	"testing"
	"time"
)

// TestC07Probe is a development aid (not a registered part): VERIF_C07_PROBE=1 prints the observation
// of one world and measures time / memory per environment.
func TestC07Probe(t *testing.T) {
	if os.Getenv("VERIF_C07_PROBE") == "" {
		t.Skip("development probe")
	}
	w := &world{Mesh: meshForms[0], Services: baseServices(nil, []string{ns2})}
	w.Sidecars = sidecarForms[7].Build()
	w.VS = vsForms[1].build()
	obs, err := observeWorld(w, proxies)
	if err != nil {
		t.Fatal(err)
	}
	b, _ := json.MarshalIndent(obs, "", " ")
	fmt.Println(string(b))

	var ms runtime.MemStats
	runtime.GC()
	runtime.ReadMemStats(&ms)
	h0 := ms.HeapAlloc
	t0 := time.Now()
	n := 200
	for i := 0; i < n; i++ {
		w.Sidecars = sidecarForms[i%len(sidecarForms)].Build()
		if _, err := observeWorld(w, proxies); err != nil {
			t.Fatal(err)
		}
	}
	el := time.Since(t0)
	runtime.GC()
	runtime.ReadMemStats(&ms)
	fmt.Printf("per env: %v; heap growth per env: %d KB; goroutines %d\n", el/time.Duration(n), (int64(ms.HeapAlloc)-int64(h0))/int64(n)/1024, runtime.NumGoroutine())
}
