// C07 part a: services. Full product of mesh settings x exportTo of two service groups x Sidecar
// form x VirtualService form; per world a fresh istio environment, three proxies.
package c07

import (
	"encoding/json"
	"fmt"
	"sort"
	"strings"
	"testing"

	"istio.io/istio/zz_verif/engine"
)

type replayT struct {
	Part    string `json:"part"`
	Mesh    int    `json:"mesh"`
	E1      int    `json:"e1"`
	E2      int    `json:"e2"`
	Sidecar int    `json:"sidecar"`
	Flag    int    `json:"flag"`
	VS      int    `json:"vs"`
	DR1     int    `json:"dr1,omitempty"`
	DR2     int    `json:"dr2,omitempty"`
	Proxy   string `json:"proxy"`
	// human-readable copy of the case (not read back)
	Desc  string `json:"desc"`
	World *world `json:"world"`
}

func worldA(mesh, e1, e2, sc, flag, vs int) *world {
	w := &world{Mesh: meshForms[mesh], Services: baseServices(exportToValues[e1], exportToValues[e2])}
	w.Sidecars = sidecarForms[sc].Build()
	w.VS = vsForms[vs].build()
	w.PickFirst = flag == 1
	return w
}

func descA(mesh, e1, e2, sc, flag, vs int) string {
	s := fmt.Sprintf("mesh{%s} group1.exportTo=%s group2.exportTo=%s sidecar=%s virtualservice=%s", meshForms[mesh].Name,
		etName(exportToValues[e1]), etName(exportToValues[e2]), sidecarForms[sc].Name, vsForms[vs].Name)
	if flag == 1 {
		s += " PILOT_SIDECAR_PICK_BEST_SERVICE_NAMESPACE=false"
	}
	return s
}

// verdictSignature summarises what R5 says for a proxy: per hostname M(ust) / m(ay) / -(forbidden).
func verdictSignature(w *world, v *verdict) (sig string, must, forbidden int) {
	var b strings.Builder
	for _, h := range w.hostnames() {
		hv := v.Hosts[h]
		switch {
		case hv.Must:
			b.WriteString("M")
			must++
		case hv.May:
			b.WriteString("m")
		default:
			b.WriteString("-")
			forbidden++
		}
		b.WriteString(strings.Join(hv.Allowed, ""))
		b.WriteString(",")
	}
	return b.String(), must, forbidden
}

func outcomeOf(w *world, p proxyT, o *proxyObs) string {
	hosts := map[string]bool{}
	for _, c := range o.Clusters {
		hosts[c.Host] = true
	}
	var ids []string
	for _, s := range w.Services {
		if hosts[s.Host] {
			ids = append(ids, s.Host[:strings.Index(s.Host, ".")])
			hosts[s.Host] = false
		}
	}
	sort.Strings(ids)
	return p.Name + ":" + strings.Join(ids, "+")
}

// evaluate judges every proxy of one observed world and records the results.
func evaluate(t *testing.T, res *engine.Result, w *world, obs []*proxyObs, rp replayT, base []*proxyObs, baseWhat string) {
	for i, p := range proxies {
		o := obs[i]
		v := w.judge(p)
		res.Count("proxy_observations", 1)
		fs, infra := judgeObservation(w, p, v, o)
		if infra != "" {
			res.Infra = fmt.Sprintf("%s / %s: %s", rp.Desc, p.Name, infra)
			return
		}
		r := rp
		r.Proxy = p.Name
		r.World = w
		for _, f := range fs {
			res.Violate(f.Key, rp.Desc+" :: "+f.Desc, r)
		}
		sig, must, forbidden := verdictSignature(w, v)
		if must > 0 && forbidden > 0 {
			res.NontrivialCase(p.Type + "|" + p.NS + "|" + sig)
		}
		res.Outcome(outcomeOf(w, p, o))
		if p.Type == "router" {
			// not judged (see oracle): a router that is given another namespace's instance of a
			// hostname although its own namespace has an exported one
			if hv := v.Hosts[hostShared]; hv != nil && contains(hv.Allowed, "S1") && contains(hv.Allowed, "S2") && len(o.EDS["outbound|80||"+hostShared]) == 1 && o.EDS["outbound|80||"+hostShared][0] == "10.0.2.1" {
				res.Count("router_given_foreign_instance_although_own_namespace_has_one", 1)
			}
		}

		// a rule not exported to the proxy's namespace leaves the output byte-identical to its absence
		if base != nil && o.Digest != base[i].Digest {
			res.Violate(fmt.Sprintf("rule-leak:%s-bytes|proxy=%s", baseWhat, p.Type),
				fmt.Sprintf("%s :: %s (namespace %s): the %s is not exported to %s, yet the generated CDS/EDS/LDS/RDS bytes differ from the same world without it (digest %s vs %s)",
					rp.Desc, p.Name, p.NS, baseWhat, p.NS, o.Digest[:12], base[i].Digest[:12]), r)
		}
	}
}

func TestC07a(t *testing.T) {
	env := engine.GetEnv()
	res := engine.NewResult("C07", "a-services")
	res.Rule = "full product mesh settings x exportTo(group 1: a.ns1 k8s, shared/ns1, front/ns1, *.wild/ns2) x exportTo(group 2: shared/ns2, hidden/ns1, hidden2/ns2, ExternalName alias/ns2) x Sidecar form x VirtualService(front -> hidden, hidden2, shared) form; one fresh core.NewConfigGenTest environment per world; proxies sidecar ns1, sidecar ns2, router ns1; per proxy real CDS, LDS, RDS (listener routes + every HTTP port) and the EDS builder asked for every (host, port) of the universe; R5 decides must/may/allowed instance per hostname. non-trivial = R5 both demands and forbids some hostname for the proxy (distinct by proxy kind, namespace and verdict vector)"
	defer res.Write(t, env)

	if env.Replay != "" {
		var rp replayT
		if err := engine.ReadReplay(env.Replay, &rp); err != nil {
			t.Fatal(err)
		}
		replay(t, res, rp)
		return
	}

	nMesh, nE, nSC, nVS, nFlag := meshQuick, exportToQuick, sidecarQuick, vsQuick, 2
	if env.Thorough() {
		nMesh, nE, nSC, nVS = len(meshForms), len(exportToValues), len(sidecarForms), len(vsForms)
	}
	// the legacy namespace tie-break (flag 1; read only when a VirtualService destination is inferred):
	// quick under the default mesh settings only, thorough under the first four mesh settings
	skip := func(idx []int) bool {
		if idx[4] == 0 {
			return false
		}
		if env.Thorough() {
			return idx[0] >= meshQuick
		}
		return idx[0] != 0
	}
	dims := []int{nMesh, nE, nE, nSC, nFlag}
	res.Bounds["dims(mesh,e1,e2,sidecar,flag)"] = dims
	res.Bounds["virtualservice_forms"] = nVS
	res.Bounds["proxies"] = len(proxies)
	res.Bounds["flag_restriction"] = "flag=1 (PILOT_SIDECAR_PICK_BEST_SERVICE_NAMESPACE=false): quick only with mesh defaults, thorough only with the first 4 mesh settings"
	var worlds, fam int64
	engine.Product(dims, func(ord int64, idx []int) bool {
		if skip(idx) {
			return true
		}
		fam++
		if !env.Mine(fam) {
			return true
		}
		if env.Expired() {
			res.Cap(fmt.Sprintf("deadline at family %d", ord))
			return false
		}
		var base []*proxyObs
		for vs := 0; vs < nVS; vs++ {
			w := worldA(idx[0], idx[1], idx[2], idx[3], idx[4], vs)
			rp := replayT{Part: "a", Mesh: idx[0], E1: idx[1], E2: idx[2], Sidecar: idx[3], Flag: idx[4], VS: vs, Desc: descA(idx[0], idx[1], idx[2], idx[3], idx[4], vs)}
			obs, err := observeWorld(w, proxies)
			if err != nil {
				t.Fatalf("%s: %v", rp.Desc, err)
			}
			res.Evaluations++
			worlds++
			if vs == 0 {
				base = obs
				evaluate(t, res, w, obs, rp, nil, "")
			} else {
				// compare with the VS-less sibling for the proxies the VS is not exported to
				cmp := make([]*proxyObs, len(proxies))
				for i, p := range proxies {
					if !w.vsExported(&w.VS[0], p.NS) {
						cmp[i] = base[i]
					} else {
						cmp[i] = obs[i]
					}
				}
				evaluate(t, res, w, obs, rp, cmp, "virtualservice")
			}
			if res.Infra != "" {
				return false
			}
			if worlds%197 == 1 {
				// determinism: the same world observed again gives the same bytes
				again, err := observeWorld(w, proxies)
				if err != nil {
					t.Fatal(err)
				}
				for i := range obs {
					if again[i].Digest != obs[i].Digest {
						res.Infra = fmt.Sprintf("nondeterministic output for %s / %s", rp.Desc, proxies[i].Name)
						return false
					}
				}
				res.Count("determinism_rechecks", 1)
			}
			if worlds%1499 == 2 {
				res.Sample(map[string]any{"case": rp.Desc, "proxy": proxies[0].Name, "verdict": w.judge(proxies[0]), "delivered": outcomeOf(w, proxies[0], obs[0])})
			}
		}
		return true
	})
}

// replay re-runs one recorded case (both parts) and logs world, verdict and observation.
func replay(t *testing.T, res *engine.Result, rp replayT) {
	var w, sib *world
	what := ""
	switch rp.Part {
	case "a":
		w = worldA(rp.Mesh, rp.E1, rp.E2, rp.Sidecar, rp.Flag, rp.VS)
		rp.Desc = descA(rp.Mesh, rp.E1, rp.E2, rp.Sidecar, rp.Flag, rp.VS)
		if rp.VS != 0 {
			sib, what = worldA(rp.Mesh, rp.E1, rp.E2, rp.Sidecar, rp.Flag, 0), "virtualservice"
		}
	case "b":
		replayB(t, res, rp)
		return
	case "c":
		replayC(t, res, rp)
		return
	case "d":
		replayD(t, res, rp)
		return
	case "e":
		replayE(t, res, rp)
		return
	default:
		t.Fatalf("unknown part %q", rp.Part)
	}
	obs, err := observeWorld(w, proxies)
	if err != nil {
		t.Fatal(err)
	}
	var cmp []*proxyObs
	if sib != nil {
		sobs, err := observeWorld(sib, proxies)
		if err != nil {
			t.Fatal(err)
		}
		cmp = make([]*proxyObs, len(proxies))
		for i, p := range proxies {
			if !w.vsExported(&w.VS[0], p.NS) {
				cmp[i] = sobs[i]
			} else {
				cmp[i] = obs[i]
			}
		}
	}
	res.Evaluations++
	evaluate(t, res, w, obs, rp, cmp, what)
	logCase(t, w, obs, rp)
}

func logCase(t *testing.T, w *world, obs []*proxyObs, rp replayT) {
	wb, _ := json.MarshalIndent(w, "", " ")
	t.Logf("case: %s\nworld: %s", rp.Desc, wb)
	for i, p := range proxies {
		if rp.Proxy != "" && rp.Proxy != p.Name {
			continue
		}
		vb, _ := json.MarshalIndent(w.judge(p), "", " ")
		ob, _ := json.MarshalIndent(obs[i], "", " ")
		t.Logf("proxy %s\nR5 verdict: %s\nobserved: %s", p.Name, vb, ob)
	}
}
