// C07 part d: mesh default export settings changed at run time. The property quantifies over "every
// mesh default"; the control plane keeps derived state (krt collections of the VirtualService
// controller, the ServiceEntry controller) across a MeshConfig change, so the configuration reached by
// a change A -> B must be the one a control plane started with B computes.
//
// World: all services and the DestinationRule without exportTo (they follow the defaults); a root
// VirtualService ns1/front-vs (front.example.com -> shared, and /api delegated to ns2/api-routes ->
// hidden2.example.com). For every ordered pair (A, B) of mesh settings (defaultServiceExportTo x
// defaultVirtualServiceExportTo x defaultDestinationRuleExportTo, each in {*, ., ~}) the environment
// is built with A inside a testing/synctest bubble, the mesh watcher is switched to B
// (meshwatcher.TestWatcher.Set), the bubble is run to quiescence, a PushContext is built from scratch
// (what the full push after a MeshConfig change does) and the proxies are observed. Oracles: (1) the
// bytes equal those of a fresh environment built with B; (2) R5 on the world with B, including "a
// delegate not exported to the namespace of the rule that references it contributes no route".
package c07

import (
	"encoding/json"
	"fmt"
	"strings"
	"testing"
	"testing/synctest"
	"time"

	"istio.io/istio/pilot/pkg/features"
	"istio.io/istio/pilot/pkg/model"
	"istio.io/istio/pilot/pkg/networking/core"
	"istio.io/istio/pkg/config/mesh/meshwatcher"
	"istio.io/istio/pkg/test"
	"istio.io/istio/zz_verif/engine"
)

var defaultValuesD = [][]string{{"*"}, {"."}, {"~"}}

// meshD: index 0..26 = (svc, vs, dr) in base 3
func meshD(i int) meshT {
	s, v, d := defaultValuesD[i/9], defaultValuesD[(i/3)%3], defaultValuesD[i%3]
	return meshT{Name: fmt.Sprintf("svc=%s,vs=%s,dr=%s", s[0], v[0], d[0]), SvcDefault: s, VSDefault: v, DRDefault: d}
}

// exportTo of the delegate (the root rule and everything else stay unset)
var delegateExportTo = [][]string{nil, {"."}, {"*"}, {ns1}}

const delegateExportToQuick = 2

var sidecarFormsD = []string{"none", "[./front]", "[*/*]"}

const sidecarDQuick = 1

func worldD(mesh, deleg, sc int) *world {
	w := &world{Mesh: meshD(mesh), Services: baseServices(nil, nil)}
	w.Sidecars = sidecarFormByName(sidecarFormsD[sc]).Build()
	w.VS = []vsT{{
		Name: "front-vs", NS: ns1, Hosts: []string{hostFront}, TS: baseTS + 200,
		Dests:    []destT{{hostShared, 80}},
		Delegate: &delegateT{Name: "api-routes", NS: ns2, ExportTo: delegateExportTo[deleg], Dests: []destT{{hostHidden2, 80}}},
	}}
	w.DR = []drT{{Name: "dr-one", NS: ns2, Host: hostShared, Marker: 71, TS: baseTS + 300}}
	return w
}

func descD(a, b, deleg, sc int) string {
	return fmt.Sprintf("mesh{%s} -> mesh{%s} at run time; services, DestinationRule ns2/dr-one, root VirtualService ns1/front-vs without exportTo; delegate ns2/api-routes exportTo=%s; sidecar=%s",
		meshD(a).Name, meshD(b).Name, etName(delegateExportTo[deleg]), sidecarFormsD[sc])
}

// settle runs the bubble to quiescence: Wait alone is not enough (some notifications are delivered
// a few virtual milliseconds later), so virtual time is advanced between waits.
func settle() {
	for i := 0; i < 4; i++ {
		synctest.Wait()
		time.Sleep(time.Second)
		synctest.Wait()
	}
}

// observeAfterChange builds the environment with world wA, switches the mesh settings to those of wB
// (same objects), and observes the proxies on a PushContext built from scratch.
func observeAfterChange(t *testing.T, wA, wB *world, ps []proxyT) (obs []*proxyObs, err error) {
	cfgs, err := wA.configs()
	if err != nil {
		return nil, err
	}
	svcs, insts := wA.k8s()
	saved := features.SidecarPickBestServiceNamespace
	features.SidecarPickBestServiceNamespace = true
	defer func() { features.SidecarPickBestServiceNamespace = saved }()
	fail := engine.Bubble(t, func() {
		err = test.Wrap(func(tf test.Failer) {
			cg := core.NewConfigGenTest(tf, core.TestOptions{Configs: cfgs, Services: svcs, Instances: insts, MeshConfig: wA.Mesh.config()})
			settle()
			// a proxy connected before the change (its scope is computed and thrown away with the old push context)
			_ = observeProxy(cg, wA, ps[0])
			cg.Env().Watcher.(meshwatcher.TestWatcher).Set(wB.Mesh.config())
			settle()
			pc := model.NewPushContext()
			pc.InitContext(cg.Env(), nil, nil)
			cg.Env().SetPushContext(pc)
			for _, p := range ps {
				obs = append(obs, observeProxy(cg, wB, p))
			}
		})
		// cleanups (stop channels) have run; let the goroutines of the environment exit inside the bubble
		settle()
	})
	if fail != "" && err == nil {
		err = fmt.Errorf("bubble: %s", fail)
	}
	return obs, err
}

// diffParts names the parts of two observations that differ (for the violation key).
func diffParts(a, b *proxyObs) []string {
	j := func(v any) string { x, _ := json.Marshal(v); return string(x) }
	var out []string
	if j(a.Clusters) != j(b.Clusters) {
		out = append(out, "clusters")
	}
	if j(a.EDS) != j(b.EDS) {
		out = append(out, "endpoints")
	}
	if j(a.Listeners) != j(b.Listeners) {
		out = append(out, "listeners")
	}
	if j(a.VHosts) != j(b.VHosts) {
		out = append(out, "routes")
	}
	if len(out) == 0 {
		out = append(out, "bytes-only")
	}
	return out
}

func changedSettings(a, b meshT) string {
	var out []string
	if etName(a.SvcDefault) != etName(b.SvcDefault) {
		out = append(out, "svc")
	}
	if etName(a.VSDefault) != etName(b.VSDefault) {
		out = append(out, "vs")
	}
	if etName(a.DRDefault) != etName(b.DRDefault) {
		out = append(out, "dr")
	}
	return strings.Join(out, "+")
}

func TestC07d(t *testing.T) {
	env := engine.GetEnv()
	res := engine.NewResult("C07", "d-runtime-defaults")
	res.Rule = "all ordered pairs (A, B), A != B, of the 27 mesh settings defaultServiceExportTo x defaultVirtualServiceExportTo x defaultDestinationRuleExportTo in {*, ., ~} x exportTo of a delegate VirtualService (ns2/api-routes, referenced by ns1/front-vs) x Sidecar form; environment built with A in a synctest bubble, mesh watcher switched to B, quiescence, PushContext from scratch; per proxy the bytes against a fresh environment built with B and R5 (incl. the delegate's routes) on the world with B. non-trivial = R5's verdict for the proxy differs between A and B (distinct by proxy and the pair of verdict vectors)"
	defer res.Write(t, env)
	if env.Replay != "" {
		var rp replayT
		if err := engine.ReadReplay(env.Replay, &rp); err != nil {
			t.Fatal(err)
		}
		replayD(t, res, rp)
		return
	}
	nDeleg, nSC := delegateExportToQuick, sidecarDQuick
	if env.Thorough() {
		nDeleg, nSC = len(delegateExportTo), len(sidecarFormsD)
	}
	dims := []int{nDeleg, nSC, 27}
	res.Bounds["dims(delegateExportTo,sidecar,meshB)"] = dims
	res.Bounds["meshA_per_family"] = 26
	engine.Product(dims, func(ord int64, idx []int) bool {
		if !env.Mine(ord) {
			return true
		}
		deleg, sc, b := idx[0], idx[1], idx[2]
		wB := worldD(b, deleg, sc)
		fresh, err := observeWorld(wB, proxies)
		if err != nil {
			t.Fatalf("fresh %s: %v", wB.Mesh.Name, err)
		}
		for a := 0; a < 27; a++ {
			if a == b {
				continue
			}
			if env.Expired() {
				res.Cap(fmt.Sprintf("deadline at family %d", ord))
				return false
			}
			wA := worldD(a, deleg, sc)
			rp := replayT{Part: "d", Mesh: a, E1: b, E2: deleg, Sidecar: sc, Desc: descD(a, b, deleg, sc)}
			obs, err := observeAfterChange(t, wA, wB, proxies)
			if err != nil {
				t.Fatalf("%s: %v", rp.Desc, err)
			}
			res.Evaluations++
			evaluate(t, res, wB, obs, rp, nil, "")
			if res.Infra != "" {
				return false
			}
			judgeD(res, wA, wB, obs, fresh, rp)
		}
		return true
	})
}

func judgeD(res *engine.Result, wA, wB *world, obs, fresh []*proxyObs, rp replayT) {
	for i, p := range proxies {
		sa, _, _ := verdictSignature(wA, wA.judge(p))
		sb, _, _ := verdictSignature(wB, wB.judge(p))
		ma, mb := wA.delegateMerged(&wA.VS[0]), wB.delegateMerged(&wB.VS[0])
		if sa != sb || ma != mb {
			res.NontrivialCase(fmt.Sprintf("%s|%s>%s|%v>%v", p.Name, sa, sb, ma, mb))
		}
		res.Count("differential_comparisons", 1)
		if obs[i].Digest == fresh[i].Digest {
			continue
		}
		r := rp
		r.Proxy, r.World = p.Name, wB
		parts := diffParts(obs[i], fresh[i])
		res.Violate(fmt.Sprintf("stale-after-mesh-default-change|differs=%s|proxy=%s", strings.Join(parts, "+"), p.Type),
			fmt.Sprintf("%s :: %s (namespace %s): after the run-time change (%s changed) the generated %s differ from what a control plane started with mesh{%s} generates",
				rp.Desc, p.Name, p.NS, changedSettings(wA.Mesh, wB.Mesh), strings.Join(parts, "+"), wB.Mesh.Name), r)
	}
	res.Outcome(fmt.Sprintf("delegate merged after change=%v", func() bool {
		for _, vh := range obs[0].VHosts {
			if contains(vh.Clusters, "outbound|80||"+hostHidden2) && contains(vh.Domains, hostFront) {
				return true
			}
		}
		return false
	}()))
}

func replayD(t *testing.T, res *engine.Result, rp replayT) {
	a, b, deleg, sc := rp.Mesh, rp.E1, rp.E2, rp.Sidecar
	wA, wB := worldD(a, deleg, sc), worldD(b, deleg, sc)
	rp.Desc = descD(a, b, deleg, sc)
	fresh, err := observeWorld(wB, proxies)
	if err != nil {
		t.Fatal(err)
	}
	obs, err := observeAfterChange(t, wA, wB, proxies)
	if err != nil {
		t.Fatal(err)
	}
	res.Evaluations++
	evaluate(t, res, wB, obs, rp, nil, "")
	judgeD(res, wA, wB, obs, fresh, rp)
	logCase(t, wB, obs, rp)
	for i, p := range proxies {
		if rp.Proxy == "" || rp.Proxy == p.Name {
			fb, _ := json.MarshalIndent(fresh[i], "", " ")
			t.Logf("proxy %s, fresh environment with mesh{%s}: %s", p.Name, wB.Mesh.Name, fb)
		}
	}
}
