// C07 part c: gateways. A router in ns1 selected by a Gateway resource in ns1 (one HTTP server on
// port 80); a VirtualService bound to that Gateway (namespace x exportTo x mesh default) routing
// gw.example.com to shared / hidden. The rule shapes the router's routes iff it is exported to the
// router's namespace and the server's hosts ("namespace/dnsName") admit its namespace; otherwise the
// bytes equal those of the world without it. A gateway-only rule never shapes a sidecar.
package c07

import (
	"fmt"
	"testing"

	"istio.io/istio/zz_verif/engine"
)

const hostGW = "gw.example.com"

var gwServerHosts = [][]string{
	{"*/" + hostGW},
	{"./" + hostGW},
	{"ns2/" + hostGW},
	{hostGW},
	{"*/*"},
	// thorough
	{"ns1/*.example.com"},
	{"ns2/*"},
	{"*/other.example.com"},
}

const gwServerHostsQuick = 5

var gwVSNamespaces = []string{ns1, ns2, rootNS}

var gwVSExportTo = [][]string{nil, {"."}, {"*"}, {ns1}, {ns2}, {ns1, ns2}}

var meshFormsC = []meshT{
	{Name: "defaults"},
	{Name: "vs=.", VSDefault: []string{"."}},
	{Name: "vs=[ns2]", VSDefault: []string{ns2}},
}

// worldC: vsNS < 0 = no VirtualService
func worldC(mesh, pair, hostsIdx, vsNS, et int) *world {
	w := &world{Mesh: meshFormsC[mesh], Services: baseServices(exportPairsB[pair][0], exportPairsB[pair][1])}
	w.Gateways = []gwT{{Name: "gw", NS: ns1, Selector: map[string]string{"app": "gw"}, Hosts: gwServerHosts[hostsIdx], TS: baseTS + 400}}
	if vsNS >= 0 {
		w.VS = []vsT{{
			Name: "gw-vs", NS: gwVSNamespaces[vsNS], Hosts: []string{hostGW}, ExportTo: gwVSExportTo[et], Gateways: []string{ns1 + "/gw"}, TS: baseTS + 401,
			Dests: []destT{{hostShared, 80}, {hostHidden, 80}},
		}}
	}
	return w
}

func descC(mesh, pair, hostsIdx, vsNS, et int) string {
	vs := "absent"
	if vsNS >= 0 {
		vs = gwVSNamespaces[vsNS] + "/" + etName(gwVSExportTo[et])
	}
	return fmt.Sprintf("mesh{%s} shared/ns1.exportTo=%s shared/ns2,hidden.exportTo=%s gateway ns1/gw server hosts %v gw-vs(gateways [ns1/gw])=%s", meshFormsC[mesh].Name,
		etName(exportPairsB[pair][0]), etName(exportPairsB[pair][1]), gwServerHosts[hostsIdx], vs)
}

func TestC07c(t *testing.T) {
	env := engine.GetEnv()
	res := engine.NewResult("C07", "c-gateway-rules")
	res.Rule = "full product mesh defaultVirtualServiceExportTo x service exportTo pair x Gateway server hosts form x VirtualService namespace x VirtualService exportTo (rule bound to the Gateway only); fresh environment per world; the router's listeners and routes, the two sidecars' bytes; R5: the rule shapes the router iff exported to its namespace and admitted by a server host entry. non-trivial = the rule is exported to exactly some of the proxies' namespaces or excluded by the server's namespace filter (distinct by verdict vector)"
	defer res.Write(t, env)
	if env.Replay != "" {
		var rp replayT
		if err := engine.ReadReplay(env.Replay, &rp); err != nil {
			t.Fatal(err)
		}
		replayC(t, res, rp)
		return
	}
	nMesh, nPair, nHosts := 2, 2, gwServerHostsQuick
	if env.Thorough() {
		nMesh, nPair, nHosts = len(meshFormsC), len(exportPairsB), len(gwServerHosts)
	}
	dims := []int{nMesh, nPair, nHosts}
	res.Bounds["dims(mesh,exportPair,serverHosts)"] = dims
	res.Bounds["vs_forms"] = len(gwVSNamespaces)*len(gwVSExportTo) + 1
	engine.Product(dims, func(ord int64, idx []int) bool {
		if !env.Mine(ord) {
			return true
		}
		if env.Expired() {
			res.Cap(fmt.Sprintf("deadline at family %d", ord))
			return false
		}
		base, err := observeWorld(worldC(idx[0], idx[1], idx[2], -1, 0), proxies)
		if err != nil {
			t.Fatal(err)
		}
		res.Evaluations++
		evaluate(t, res, worldC(idx[0], idx[1], idx[2], -1, 0), base, replayT{Part: "c", Mesh: idx[0], E1: idx[1], Sidecar: idx[2], VS: -1, Desc: descC(idx[0], idx[1], idx[2], -1, 0)}, nil, "")
		for vsNS := range gwVSNamespaces {
			for et := range gwVSExportTo {
				if contains(gwVSExportTo[et], ".") && contains(gwVSExportTo[et], gwVSNamespaces[vsNS]) {
					continue
				}
				w := worldC(idx[0], idx[1], idx[2], vsNS, et)
				rp := replayT{Part: "c", Mesh: idx[0], E1: idx[1], Sidecar: idx[2], VS: vsNS, DR1: et, Desc: descC(idx[0], idx[1], idx[2], vsNS, et)}
				obs, err := observeWorld(w, proxies)
				if err != nil {
					t.Fatalf("%s: %v", rp.Desc, err)
				}
				res.Evaluations++
				evaluate(t, res, w, obs, rp, nil, "")
				if res.Infra != "" {
					return false
				}
				judgeC(res, w, obs, base, rp)
			}
		}
		return true
	})
}

// judgeC: byte identity with the rule-less sibling where the rule cannot apply.
func judgeC(res *engine.Result, w *world, obs, base []*proxyObs, rp replayT) {
	vs := &w.VS[0]
	sig := ""
	for i, p := range proxies {
		v := w.judge(p)
		r := rp
		r.Proxy, r.World = p.Name, w
		exported := w.vsExported(vs, p.NS)
		may := contains(v.VSMay, vs.Name)
		sig += fmt.Sprintf("%s:%v/%v,", p.Name, exported, may)
		same := obs[i].Digest == base[i].Digest
		switch {
		case same:
		case !exported:
			res.Violate(fmt.Sprintf("rule-leak:virtualservice-bytes|proxy=%s", p.Type),
				fmt.Sprintf("%s :: %s (namespace %s): the VirtualService is not exported to %s, yet the generated bytes differ from the same world without it", rp.Desc, p.Name, p.NS, p.NS), r)
		case p.Type == "sidecar":
			res.Violate("rule-leak:gateway-virtualservice-shapes-sidecar",
				fmt.Sprintf("%s :: %s: a VirtualService bound only to a Gateway changes the sidecar's bytes", rp.Desc, p.Name), r)
		case !may:
			res.Violate(fmt.Sprintf("rule-leak:virtualservice-bytes-not-admitted-by-server-hosts|proxy=%s", p.Type),
				fmt.Sprintf("%s :: %s: the Gateway server's hosts do not admit the VirtualService's namespace/host, yet the bytes differ from the world without it", rp.Desc, p.Name), r)
		}
		res.Count("byte_comparisons", 1)
	}
	routed := "blackhole"
	for _, vh := range obs[2].VHosts {
		if contains(vh.Domains, hostGW) {
			routed = fmt.Sprint(vh.Clusters)
		}
	}
	res.Outcome("gw-ns1 route for " + hostGW + ": " + routed)
	exportedAny, hiddenAny := false, false
	for _, p := range proxies {
		if w.vsExported(vs, p.NS) {
			exportedAny = true
		} else {
			hiddenAny = true
		}
	}
	gwv := w.judge(proxies[2])
	if (exportedAny && hiddenAny) || (w.vsExported(vs, ns1) && !contains(gwv.VSMay, vs.Name)) {
		res.NontrivialCase(sig)
	}
}

func replayC(t *testing.T, res *engine.Result, rp replayT) {
	w := worldC(rp.Mesh, rp.E1, rp.Sidecar, rp.VS, rp.DR1)
	rp.Desc = descC(rp.Mesh, rp.E1, rp.Sidecar, rp.VS, rp.DR1)
	obs, err := observeWorld(w, proxies)
	if err != nil {
		t.Fatal(err)
	}
	res.Evaluations++
	evaluate(t, res, w, obs, rp, nil, "")
	if rp.VS >= 0 {
		base, err := observeWorld(worldC(rp.Mesh, rp.E1, rp.Sidecar, -1, 0), proxies)
		if err != nil {
			t.Fatal(err)
		}
		judgeC(res, w, obs, base, rp)
	}
	logCase(t, w, obs, rp)
}
