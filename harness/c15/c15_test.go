// C15: the Kubernetes registry converges regardless of event arrival order. Every linear extension
// of per-object event chains is applied to a real kube Controller (fake clientset) in a virtual-time
// bubble; the final services / endpoint shards / service accounts must equal those of a cold
// controller started on the final objects.
package c15

import (
	"context"
	"fmt"
	"sort"
	"strings"
	"testing"
	"testing/synctest"
	"time"

	corev1 "k8s.io/api/core/v1"
	discoveryv1 "k8s.io/api/discovery/v1"
	metav1 "k8s.io/apimachinery/pkg/apis/meta/v1"
	"k8s.io/apimachinery/pkg/runtime"
	"k8s.io/apimachinery/pkg/util/intstr"

	"istio.io/istio/pilot/pkg/model"
	"istio.io/istio/pilot/pkg/serviceregistry/kube/controller"
	kubelib "istio.io/istio/pkg/kube"
	"istio.io/istio/pkg/util/sets"
	"istio.io/istio/zz_verif/engine"
)

var epoch = time.Date(2024, 1, 1, 0, 0, 0, 0, time.UTC)

func ts(i int) metav1.Time { return metav1.NewTime(epoch.Add(time.Duration(i) * time.Minute)) }

// ---- object builders

func svc(name string, selector map[string]string, opts ...func(*corev1.Service)) *corev1.Service {
	s := &corev1.Service{
		ObjectMeta: metav1.ObjectMeta{Name: name, Namespace: "ns", CreationTimestamp: ts(1)},
		Spec: corev1.ServiceSpec{ClusterIP: "10.96.0." + fmt.Sprint(10+len(name)), Selector: selector,
			Ports: []corev1.ServicePort{{Name: "http", Port: 80, TargetPort: intstr.FromInt32(8080), Protocol: corev1.ProtocolTCP}}},
	}
	for _, o := range opts {
		o(s)
	}
	return s
}

// hidden: the service is exported to nobody
func hidden(s *corev1.Service) {
	s.Annotations = map[string]string{"networking.istio.io/exportTo": "~"}
}

type podOpt func(*corev1.Pod)

func pod(name, ip string, labels map[string]string, sa string, ready bool, opts ...podOpt) *corev1.Pod {
	p := &corev1.Pod{
		ObjectMeta: metav1.ObjectMeta{Name: name, Namespace: "ns", Labels: labels, CreationTimestamp: ts(2)},
		Spec:       corev1.PodSpec{ServiceAccountName: sa, NodeName: "node1"},
		Status:     corev1.PodStatus{Phase: corev1.PodPending},
	}
	if ip != "" {
		p.Status.Phase = corev1.PodRunning
		p.Status.PodIP = ip
		p.Status.PodIPs = []corev1.PodIP{{IP: ip}}
		st := corev1.ConditionFalse
		if ready {
			st = corev1.ConditionTrue
		}
		p.Status.Conditions = []corev1.PodCondition{{Type: corev1.PodReady, Status: st}}
	}
	for _, o := range opts {
		o(p)
	}
	return p
}

type sliceEp struct {
	ip, pod string
	ready   bool
}

func slice(name, service string, eps ...sliceEp) *discoveryv1.EndpointSlice {
	http, p8080, tcp := "http", int32(8080), corev1.ProtocolTCP
	s := &discoveryv1.EndpointSlice{
		ObjectMeta:  metav1.ObjectMeta{Name: name, Namespace: "ns", Labels: map[string]string{discoveryv1.LabelServiceName: service}, CreationTimestamp: ts(3)},
		AddressType: discoveryv1.AddressTypeIPv4,
		Ports:       []discoveryv1.EndpointPort{{Name: &http, Port: &p8080, Protocol: &tcp}},
	}
	for _, e := range eps {
		r := e.ready
		ep := discoveryv1.Endpoint{Addresses: []string{e.ip}, Conditions: discoveryv1.EndpointConditions{Ready: &r}}
		if e.pod != "" {
			ep.TargetRef = &corev1.ObjectReference{Kind: "Pod", Name: e.pod, Namespace: "ns"}
		}
		s.Endpoints = append(s.Endpoints, ep)
	}
	return s
}

func node(zone string) *corev1.Node {
	return &corev1.Node{ObjectMeta: metav1.ObjectMeta{Name: "node1", CreationTimestamp: ts(0),
		Labels: map[string]string{"topology.kubernetes.io/region": "r1", "topology.kubernetes.io/zone": zone}}}
}

// ---- events and scenarios

type event struct {
	Verb string // create | update | delete
	Obj  runtime.Object
	Name string
}

type scenario struct {
	Name   string
	Base   []runtime.Object
	Chains [][]event
}

func ev(verb string, o runtime.Object, label string) event { return event{verb, o, label} }

var (
	la  = map[string]string{"app": "a", "version": "v1"}
	la2 = map[string]string{"app": "a", "version": "v2"}
	lax = map[string]string{"app": "a", "tier": "x", "version": "v1"}
	lx2 = map[string]string{"app": "a", "tier": "x", "version": "v2"}
)

func scenarios() []scenario {
	return []scenario{
		{
			Name: "S1-service-slice-pod", Base: []runtime.Object{node("z1")},
			Chains: [][]event{
				{ev("create", svc("a", map[string]string{"app": "a"}), "svc+")},
				{ev("create", slice("a-1", "a", sliceEp{"10.0.0.1", "p1", true}), "slice+")},
				{ev("create", pod("p1", "", la, "sa1", false), "pod+pending"), ev("update", pod("p1", "10.0.0.1", la, "sa1", false), "pod.running"), ev("update", pod("p1", "10.0.0.1", la, "sa1", true), "pod.ready")},
			},
		},
		{
			Name: "S2-address-moves-between-slices", Base: []runtime.Object{node("z1"), pod("p1", "10.0.0.1", la, "sa1", true), pod("p2", "10.0.0.2", la, "sa2", true)},
			Chains: [][]event{
				{ev("create", svc("a", map[string]string{"app": "a"}), "svc+")},
				{ev("create", slice("a-1", "a", sliceEp{"10.0.0.1", "p1", true}, sliceEp{"10.0.0.2", "p2", true}), "s1+{1,2}"), ev("update", slice("a-1", "a", sliceEp{"10.0.0.1", "p1", true}), "s1={1}")},
				{ev("create", slice("a-2", "a"), "s2+{}"), ev("update", slice("a-2", "a", sliceEp{"10.0.0.2", "p2", true}), "s2={2}")},
			},
		},
		{
			Name: "S3-ip-reuse", Base: []runtime.Object{node("z1"), svc("a", map[string]string{"app": "a"})},
			Chains: [][]event{
				{ev("create", pod("p1", "10.0.0.1", la, "sa1", true), "p1+"), ev("delete", pod("p1", "10.0.0.1", la, "sa1", true), "p1-")},
				{ev("create", pod("p2", "10.0.0.1", la2, "sa2", true), "p2+sameip")},
				{ev("create", slice("a-1", "a", sliceEp{"10.0.0.1", "p1", true}), "slice+->p1"), ev("update", slice("a-1", "a", sliceEp{"10.0.0.1", "p2", true}), "slice->p2")},
			},
		},
		{
			Name: "S4-pod-label-edit", Base: []runtime.Object{node("z1")},
			Chains: [][]event{
				{ev("create", svc("a", map[string]string{"app": "a"}), "svc+")},
				{ev("create", slice("a-1", "a", sliceEp{"10.0.0.1", "p1", true}), "slice+")},
				{ev("create", pod("p1", "10.0.0.1", la, "sa1", true), "pod+v1"), ev("update", pod("p1", "10.0.0.1", la2, "sa1", true), "pod.v2")},
			},
		},
		{
			Name: "S7-node-locality", Base: nil,
			Chains: [][]event{
				{ev("create", node("z1"), "node+z1"), ev("update", node("z2"), "node.z2")},
				{ev("create", svc("a", map[string]string{"app": "a"}), "svc+")},
				{ev("create", slice("a-1", "a", sliceEp{"10.0.0.1", "p1", true}), "slice+")},
				{ev("create", pod("p1", "10.0.0.1", la, "sa1", true), "pod+")},
			},
		},
		{
			Name: "S8-pod-in-two-services", Base: []runtime.Object{node("z1")},
			Chains: [][]event{
				{ev("create", svc("a", map[string]string{"app": "a"}), "svcA+")},
				{ev("create", svc("bb", map[string]string{"tier": "x"}), "svcB+")},
				{ev("create", slice("a-1", "a", sliceEp{"10.0.0.1", "p1", true}), "sliceA+")},
				{ev("create", slice("bb-1", "bb", sliceEp{"10.0.0.1", "p1", true}), "sliceB+")},
				{ev("create", pod("p1", "10.0.0.1", lax, "sa1", true), "pod+v1"), ev("update", pod("p1", "10.0.0.1", lx2, "sa1", true), "pod.v2")},
			},
		},
		{
			Name: "S9-service-recreated-around-slice-delete", Base: []runtime.Object{node("z1"), pod("p1", "10.0.0.1", la, "sa1", true)},
			Chains: [][]event{
				{ev("create", svc("a", map[string]string{"app": "a"}), "svc+"), ev("delete", svc("a", map[string]string{"app": "a"}), "svc-"), ev("create", svc("a", map[string]string{"app": "a"}), "svc+again")},
				{ev("create", slice("a-1", "a", sliceEp{"10.0.0.1", "p1", true}), "slice+"), ev("delete", slice("a-1", "a"), "slice-")},
			},
		},
		{
			// a service hidden from everybody (exportTo "~") receives slice events and becomes visible later
			Name: "S11-hidden-service-becomes-visible", Base: []runtime.Object{node("z1"), pod("p1", "10.0.0.1", la, "sa1", true), pod("p2", "10.0.0.2", la, "sa2", true)},
			Chains: [][]event{
				{ev("create", svc("a", map[string]string{"app": "a"}, hidden), "svc+hidden"), ev("update", svc("a", map[string]string{"app": "a"}), "svc.visible")},
				{ev("create", slice("a-1", "a", sliceEp{"10.0.0.1", "p1", true}, sliceEp{"10.0.0.2", "p2", true}), "slice+{1,2}"), ev("update", slice("a-1", "a", sliceEp{"10.0.0.1", "p1", true}), "slice={1}")},
			},
		},
		{
			// a pod loses its address, is deleted and comes back under the same name with the same address
			Name: "S12-pod-recreated-with-same-name-and-ip", Base: []runtime.Object{node("z1"), svc("a", map[string]string{"app": "a"})},
			Chains: [][]event{
				{ev("create", pod("p1", "10.0.0.1", la, "sa1", true), "p1+"), ev("update", pod("p1", "", la, "sa1", false), "p1.noip"), ev("delete", pod("p1", "", la, "sa1", false), "p1-"), ev("create", pod("p1", "10.0.0.1", la2, "sa2", true), "p1+again")},
				// Kubernetes takes the endpoint out of the slice when the pod goes and puts it back when the new
				// pod is ready; the registry may see these updates in any order relative to the pod events
				{ev("create", slice("a-1", "a", sliceEp{"10.0.0.1", "p1", true}), "slice+"), ev("update", slice("a-1", "a"), "slice={}"), ev("update", slice("a-1", "a", sliceEp{"10.0.0.1", "p1", true}), "slice={p1}")},
			},
		},
		{
			Name: "S10-readiness-flap-and-slice-without-pod", Base: []runtime.Object{node("z1"), svc("a", map[string]string{"app": "a"})},
			Chains: [][]event{
				{ev("create", slice("a-1", "a", sliceEp{"10.0.0.1", "p1", true}, sliceEp{"10.0.0.9", "", true}), "slice+{p1,raw}"), ev("update", slice("a-1", "a", sliceEp{"10.0.0.1", "p1", false}, sliceEp{"10.0.0.9", "", true}), "slice.p1-notready"), ev("update", slice("a-1", "a", sliceEp{"10.0.0.1", "p1", true}, sliceEp{"10.0.0.9", "", true}), "slice.p1-ready")},
				{ev("create", pod("p1", "10.0.0.1", la, "sa1", true), "pod+")},
			},
		},
	}
}

// ---- the world

type world struct {
	t    *testing.T
	fc   *controller.FakeController
	kube kubelib.Client
}

func newWorld(t *testing.T, objs []runtime.Object) *world {
	var cp []runtime.Object
	for _, o := range objs {
		cp = append(cp, o.DeepCopyObject())
	}
	kc := kubelib.NewFakeClient(cp...)
	fc, _ := controller.NewFakeControllerWithOptions(t, controller.FakeControllerOptions{Client: kc, DomainSuffix: "cluster.local"})
	w := &world{t: t, fc: fc, kube: kc}
	w.settle()
	return w
}

func (w *world) settle() {
	for i := 0; i < 3; i++ {
		synctest.Wait()
		time.Sleep(2 * time.Second)
	}
	synctest.Wait()
}

func (w *world) apply(e event) {
	ctx := context.Background()
	k := w.kube.Kube()
	var err error
	switch o := e.Obj.DeepCopyObject().(type) {
	case *corev1.Service:
		switch e.Verb {
		case "create":
			_, err = k.CoreV1().Services(o.Namespace).Create(ctx, o, metav1.CreateOptions{})
		case "update":
			_, err = k.CoreV1().Services(o.Namespace).Update(ctx, o, metav1.UpdateOptions{})
		case "delete":
			err = k.CoreV1().Services(o.Namespace).Delete(ctx, o.Name, metav1.DeleteOptions{})
		}
	case *corev1.Pod:
		switch e.Verb {
		case "create":
			_, err = k.CoreV1().Pods(o.Namespace).Create(ctx, o, metav1.CreateOptions{})
		case "update":
			_, err = k.CoreV1().Pods(o.Namespace).Update(ctx, o, metav1.UpdateOptions{})
		case "delete":
			err = k.CoreV1().Pods(o.Namespace).Delete(ctx, o.Name, metav1.DeleteOptions{})
		}
	case *discoveryv1.EndpointSlice:
		switch e.Verb {
		case "create":
			_, err = k.DiscoveryV1().EndpointSlices(o.Namespace).Create(ctx, o, metav1.CreateOptions{})
		case "update":
			_, err = k.DiscoveryV1().EndpointSlices(o.Namespace).Update(ctx, o, metav1.UpdateOptions{})
		case "delete":
			err = k.DiscoveryV1().EndpointSlices(o.Namespace).Delete(ctx, o.Name, metav1.DeleteOptions{})
		}
	case *corev1.Node:
		switch e.Verb {
		case "create":
			_, err = k.CoreV1().Nodes().Create(ctx, o, metav1.CreateOptions{})
		case "update":
			_, err = k.CoreV1().Nodes().Update(ctx, o, metav1.UpdateOptions{})
		case "delete":
			err = k.CoreV1().Nodes().Delete(ctx, o.Name, metav1.DeleteOptions{})
		}
	default:
		panic(fmt.Sprintf("unsupported %T", o))
	}
	if err != nil {
		panic(fmt.Sprintf("%s %s: %v", e.Verb, e.Name, err))
	}
}

// dump is the externally visible registry state: services, endpoint shards, service accounts.
func (w *world) dump() string {
	var b strings.Builder
	var svcs []string
	for _, s := range w.fc.Services() {
		var ports []string
		for _, p := range s.Ports {
			ports = append(ports, fmt.Sprintf("%s/%d/%s", p.Name, p.Port, p.Protocol))
		}
		svcs = append(svcs, fmt.Sprintf("svc %s ns=%s vip=%s ports=%v res=%v sas=%v", s.Hostname, s.Attributes.Namespace, s.DefaultAddress, ports, s.Resolution, s.ServiceAccounts))
	}
	sort.Strings(svcs)
	b.WriteString(strings.Join(svcs, "\n"))
	b.WriteString("\n")
	z := w.fc.Endpoints.Shardz()
	var keys []string
	for s, byNs := range z {
		for ns := range byNs {
			keys = append(keys, s+"|"+ns)
		}
	}
	sort.Strings(keys)
	for _, k := range keys {
		p := strings.Split(k, "|")
		sh := z[p[0]][p[1]]
		var eps []string
		for _, sk := range sh.Keys() {
			for _, e := range sh.Shards[sk] {
				var lbl []string
				for lk, lv := range e.Labels {
					if strings.Contains(lk, "istio-locality") || lk == "app" || lk == "version" || lk == "tier" || strings.HasPrefix(lk, "topology") {
						lbl = append(lbl, lk+"="+lv)
					}
				}
				sort.Strings(lbl)
				eps = append(eps, fmt.Sprintf("%s:%d port=%s sa=%s health=%v loc=%s wl=%s labels=%v", e.FirstAddressOrNil(), e.EndpointPort, e.ServicePortName, e.ServiceAccount, e.HealthStatus, e.Locality.Label, e.WorkloadName, lbl))
			}
		}
		sort.Strings(eps)
		if len(eps) == 0 {
			continue // a preserved empty entry is not externally visible
		}
		// the service-account set is compared as the set of accounts of the CURRENT endpoints (what a
		// cold start yields); the retained superset after endpoint removal is C01's recorded finding
		cur := sets.New[string]()
		for _, sk := range sh.Keys() {
			for _, e := range sh.Shards[sk] {
				if e.ServiceAccount != "" {
					cur.Insert(e.ServiceAccount)
				}
			}
		}
		missing := cur.Difference(sh.ServiceAccounts)
		fmt.Fprintf(&b, "eps %s/%s missing-sas=%v\n  %s\n", p[0], p[1], sets.SortedList(missing), strings.Join(eps, "\n  "))
	}
	return b.String()
}

var _ = model.Healthy

// ---- exploration

type replayCase struct {
	Scenario string   `json:"scenario"`
	Order    [][2]int `json:"order"`
	Burst    int      `json:"burst_mask"`
}

var coldMemo = map[string]string{}

func runCase(t *testing.T, sc scenario, order [][2]int, burst int) (live, cold string, labels []string) {
	finalObjs := map[string]runtime.Object{}
	key := func(o runtime.Object) string {
		m := o.(metav1.Object)
		return fmt.Sprintf("%T/%s/%s", o, m.GetNamespace(), m.GetName())
	}
	for _, o := range sc.Base {
		finalObjs[key(o)] = o
	}
	engine.GCPoint(20)
	synctest.Test(t, func(t *testing.T) {
		w := newWorld(t, sc.Base)
		for i, o := range order {
			e := sc.Chains[o[0]][o[1]]
			labels = append(labels, e.Name)
			w.apply(e)
			if e.Verb == "delete" {
				delete(finalObjs, key(e.Obj))
			} else {
				finalObjs[key(e.Obj)] = e.Obj
			}
			if burst&(1<<i) == 0 || i == len(order)-1 {
				w.settle()
			}
		}
		w.settle()
		live = w.dump()
	})
	var ks []string
	for k := range finalObjs {
		ks = append(ks, k)
	}
	sort.Strings(ks)
	mk := sc.Name + "|" + strings.Join(ks, ",")
	if c, ok := coldMemo[mk]; ok {
		return live, c, labels
	}
	engine.GCPoint(20)
	synctest.Test(t, func(t *testing.T) {
		var objs []runtime.Object
		for _, k := range ks {
			objs = append(objs, finalObjs[k])
		}
		w := newWorld(t, objs)
		cold = w.dump()
	})
	coldMemo[mk] = cold
	return live, cold, labels
}

func firstDiffLine(a, b string) string {
	la, lb := strings.Split(a, "\n"), strings.Split(b, "\n")
	for i := 0; i < len(la) || i < len(lb); i++ {
		x, y := "", ""
		if i < len(la) {
			x = la[i]
		}
		if i < len(lb) {
			y = lb[i]
		}
		if x != y {
			return fmt.Sprintf("live %q vs cold %q", strings.TrimSpace(x), strings.TrimSpace(y))
		}
	}
	return ""
}

func TestC15(t *testing.T) {
	env := engine.GetEnv()
	res := engine.NewResult("C15", "arrival-orders")
	res.Rule = "scenario = per-object event chains of a cluster story; every linear extension of the chains (arrival order) is applied to a real kube Controller on the fake clientset, and every partition into bursts applied back-to-back (quick: for the 6-event story only the first three boundaries vary); the final services / endpoint shards / service accounts must equal a cold controller's on the final objects; non-trivial = order in which some object's event arrives before the object it refers to"
	defer res.Write(t, env)
	scs := scenarios()
	if env.Replay != "" {
		var r replayCase
		if err := engine.ReadReplay(env.Replay, &r); err != nil {
			t.Fatal(err)
		}
		for _, sc := range scs {
			if sc.Name == r.Scenario {
				live, cold, labels := runCase(t, sc, r.Order, r.Burst)
				t.Logf("order %v\nlive:\n%s\ncold:\n%s", labels, live, cold)
				if live != cold {
					d := firstDiffLine(live, cold)
					res.Violate("diverges:"+sc.Name+":"+classify(d), d, r)
				}
			}
		}
		return
	}
	var names []string
	for _, sc := range scs {
		names = append(names, sc.Name)
	}
	res.Bounds["scenarios"] = names
	// determinism probe
	{
		sc := scs[0]
		var order [][2]int
		engine.LinearExtensions([]int{1, 1, 3}, func(_ int64, o [][2]int) bool { order = append([][2]int(nil), o...); return false })
		l1, _, _ := runCase(t, sc, order, 0)
		l2, _, _ := runCase(t, sc, order, 0)
		if l1 != l2 {
			res.Infra = "controller run is not deterministic"
			return
		}
	}
	var ord int64
	states := map[string]bool{}
	for _, sc := range scs {
		lens := make([]int, len(sc.Chains))
		total := 0
		for i, c := range sc.Chains {
			lens[i] = len(c)
			total += len(c)
		}
		engine.LinearExtensions(lens, func(_ int64, o [][2]int) bool {
			order := append([][2]int(nil), o...)
			// every partition into bursts (events of a burst are applied back-to-back, the controller settles
			// between bursts); quick keeps bursts to the first three boundaries of the longest story
			nb := 1 << (total - 1)
			if !env.Thorough() && total > 5 {
				nb = 1 << 3
			}
			for burst := 0; burst < nb; burst++ {
				ord++
				if !env.Mine(ord) {
					continue
				}
				if env.Expired() {
					res.Cap("deadline in " + sc.Name)
					return false
				}
				live, cold, labels := runCase(t, sc, order, burst)
				res.Evaluations++
				res.Traces++
				res.Transitions += int64(total)
				states[live] = true
				// non-trivial: a dependent object's event precedes its referent's first event
				first := map[int]int{}
				for i, x := range order {
					if _, ok := first[x[0]]; !ok {
						first[x[0]] = i
					}
				}
				if first[0] != 0 {
					res.NontrivialCase(sc.Name + fmt.Sprint(order, burst))
				}
				if live != cold {
					d := firstDiffLine(live, cold)
					res.Violate("diverges:"+sc.Name+":"+classify(d), fmt.Sprintf("arrival order %v (burst mask %b): %s", labels, burst, d), replayCase{sc.Name, order, burst})
					res.Outcome("diverged:" + sc.Name)
				} else {
					res.Outcome("converged:" + sc.Name)
				}
				if ord%211 == 0 {
					res.Sample(map[string]any{"scenario": sc.Name, "order": labels, "burst_mask": burst})
				}
			}
			return true
		})
	}
	res.States = int64(len(states))
}

// classify reduces a difference to its shape (so that one root cause gives one key).
func classify(d string) string {
	switch {
	case strings.Contains(d, "live \"eps") && strings.Contains(d, "cold \"\""), strings.Contains(d, "cold \"eps") && strings.Contains(d, "live \"\""):
		return "endpoint-set-presence"
	case strings.Contains(d, "labels="):
		f := func(s, k string) string {
			i := strings.Index(s, k)
			if i < 0 {
				return ""
			}
			return strings.Fields(s[i:])[0]
		}
		l, c := d[:strings.Index(d, " vs cold")], d[strings.Index(d, " vs cold"):]
		var diff []string
		for _, k := range []string{"sa=", "health=", "loc=", "wl=", "labels="} {
			if f(l, k) != f(c, k) {
				diff = append(diff, strings.TrimSuffix(k, "="))
			}
		}
		return "endpoint-fields:" + strings.Join(diff, "+")
	case strings.Contains(d, "svc "):
		return "service"
	}
	return "other"
}
