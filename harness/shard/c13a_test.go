// C13 (a): every interleaving of registry threads operating on one service of the real
// model.EndpointIndex, compiled against the scheduling sync shim, is equivalent to some sequential
// order of the completed calls.
package shard

import (
	"sync"
	"fmt"
	"sort"
	"strings"
	"testing"

	"istio.io/istio/pilot/pkg/model"
	"istio.io/istio/pkg/cluster"
	"istio.io/istio/pkg/config/schema/kind"
	"istio.io/istio/pkg/util/sets"
	"istio.io/istio/pkg/verifshim/sched"
	"istio.io/istio/zz_verif/engine"
)

var (
	shardA = model.ShardKey{Cluster: cluster.ID("c1"), Provider: "Kubernetes"}
	shardB = model.ShardKey{Cluster: cluster.ID("c2"), Provider: "Kubernetes"}
)

const (
	svcName = "svc.ns.svc.cluster.local"
	svcNs   = "ns"
	svc2    = "other.ns.svc.cluster.local"
)

func ep(addr, sa string, healthy bool) *model.IstioEndpoint {
	h := model.Healthy
	if !healthy {
		h = model.UnHealthy
	}
	return &model.IstioEndpoint{
		Addresses: []string{addr}, ServicePortName: "http", EndpointPort: 80, ServiceAccount: sa,
		Namespace: svcNs, WorkloadName: "w-" + addr, HealthStatus: h,
	}
}

type op struct {
	name string
	run  func(e *model.EndpointIndex) string
}

func push(p model.PushType) string { return [...]string{"NoPush", "Incremental", "Full"}[p] }

// the operation alphabet: everything a registry can do to one (service, namespace) entry
var ops = []op{
	{"A.update[e1]", func(e *model.EndpointIndex) string {
		return push(e.UpdateServiceEndpoints(shardA, svcName, svcNs, []*model.IstioEndpoint{ep("10.0.0.1", "sa1", true)}, true))
	}},
	{"B.update[e2]", func(e *model.EndpointIndex) string {
		return push(e.UpdateServiceEndpoints(shardB, svcName, svcNs, []*model.IstioEndpoint{ep("10.0.0.2", "sa1", true)}, true))
	}},
	{"B.update[e2,sa2]", func(e *model.EndpointIndex) string {
		return push(e.UpdateServiceEndpoints(shardB, svcName, svcNs, []*model.IstioEndpoint{ep("10.0.0.2", "sa2", true)}, true))
	}},
	{"A.update[]", func(e *model.EndpointIndex) string {
		return push(e.UpdateServiceEndpoints(shardA, svcName, svcNs, nil, true))
	}},
	{"A.serviceDelete", func(e *model.EndpointIndex) string {
		e.DeleteServiceShard(shardA, svcName, svcNs, false)
		return "-"
	}},
	{"B.serviceDelete", func(e *model.EndpointIndex) string {
		e.DeleteServiceShard(shardB, svcName, svcNs, false)
		return "-"
	}},
	{"A.clusterRemoved", func(e *model.EndpointIndex) string {
		e.DeleteShard(shardA)
		return "-"
	}},
	{"A.prune", func(e *model.EndpointIndex) string {
		e.PruneShard(shardA, map[string]sets.String{svc2: sets.New(svcNs)})
		return "-"
	}},
	{"A.update[e1,unhealthy]", func(e *model.EndpointIndex) string {
		return push(e.UpdateServiceEndpoints(shardA, svcName, svcNs, []*model.IstioEndpoint{ep("10.0.0.1", "sa1", false)}, true))
	}},
	{"read", func(e *model.EndpointIndex) string {
		s, ok := e.ShardsForService(svcName, svcNs)
		if !ok {
			// a proxy cannot tell "service unknown" from "service without endpoints": both give an empty
			// endpoint set, so the two are one observation
			return "read:"
		}
		m := s.CopyEndpoints(map[string]int{"http": 80}, sets.New(80))
		var a []string
		for _, x := range m[80] {
			a = append(a, x.FirstAddressOrNil())
		}
		sort.Strings(a)
		return "read:" + strings.Join(a, ",")
	}},
}

// refIndex is the boring reference: service -> registry shard -> endpoint addresses.
type refIndex map[string]map[string][]string

func (r refIndex) set(svc, shard string, eps []string) {
	if len(eps) == 0 {
		delete(r[svc], shard)
		return
	}
	if r[svc] == nil {
		r[svc] = map[string][]string{}
	}
	r[svc][shard] = eps
}

func (r refIndex) dropShardEverywhere(shard string, keep map[string]bool) {
	for svc := range r {
		if !keep[svc] {
			delete(r[svc], shard)
		}
	}
}

func (r refIndex) String() string {
	var out []string
	for svc, m := range r {
		for sh, eps := range m {
			out = append(out, fmt.Sprintf("%s@%s=%v", svc, sh, eps))
		}
	}
	sort.Strings(out)
	return strings.Join(out, " ")
}

// refOps gives each call's meaning on the reference, by op name.
var refOps = map[string]func(r refIndex){
	"A.update[e1]":           func(r refIndex) { r.set(svcName, "c1", []string{"10.0.0.1"}) },
	"B.update[e2]":           func(r refIndex) { r.set(svcName, "c2", []string{"10.0.0.2"}) },
	"B.update[e2,sa2]":       func(r refIndex) { r.set(svcName, "c2", []string{"10.0.0.2"}) },
	"A.update[]":             func(r refIndex) { r.set(svcName, "c1", nil) },
	"A.serviceDelete":        func(r refIndex) { r.set(svcName, "c1", nil) },
	"B.serviceDelete":        func(r refIndex) { r.set(svcName, "c2", nil) },
	"A.clusterRemoved":       func(r refIndex) { r.dropShardEverywhere("c1", nil) },
	"A.prune":                func(r refIndex) { r.dropShardEverywhere("c1", map[string]bool{svc2: true}) },
	"A.update[e1,unhealthy]": func(r refIndex) { r.set(svcName, "c1", []string{"10.0.0.1"}) },
	"read":                   func(r refIndex) {},
}

var refInitials = map[string]func(r refIndex){
	"empty": func(r refIndex) {},
	"A":     func(r refIndex) { r.set(svcName, "c1", []string{"10.0.0.9"}) },
	"A+B": func(r refIndex) {
		r.set(svcName, "c1", []string{"10.0.0.9"})
		r.set(svcName, "c2", []string{"10.0.0.8"})
	},
	"A+other": func(r refIndex) {
		r.set(svcName, "c1", []string{"10.0.0.9"})
		r.set(svc2, "c1", []string{"10.0.1.9"})
	},
}

// contents projects the real index onto the reference's vocabulary.
func contents(e *model.EndpointIndex) string {
	r := refIndex{}
	for svc, byNs := range e.Shardz() {
		for _, sh := range byNs {
			for k, eps := range sh.Shards {
				var a []string
				for _, x := range eps {
					a = append(a, x.FirstAddressOrNil())
				}
				r.set(svc, string(k.Cluster), a)
			}
		}
	}
	return r.String()
}

var initials = []struct {
	name  string
	build func(e *model.EndpointIndex)
}{
	{"empty", func(e *model.EndpointIndex) {}},
	{"A", func(e *model.EndpointIndex) {
		e.UpdateServiceEndpoints(shardA, svcName, svcNs, []*model.IstioEndpoint{ep("10.0.0.9", "sa1", true)}, false)
	}},
	{"A+B", func(e *model.EndpointIndex) {
		e.UpdateServiceEndpoints(shardA, svcName, svcNs, []*model.IstioEndpoint{ep("10.0.0.9", "sa1", true)}, false)
		e.UpdateServiceEndpoints(shardB, svcName, svcNs, []*model.IstioEndpoint{ep("10.0.0.8", "sa1", true)}, false)
	}},
	{"A+other", func(e *model.EndpointIndex) {
		e.UpdateServiceEndpoints(shardA, svcName, svcNs, []*model.IstioEndpoint{ep("10.0.0.9", "sa1", true)}, false)
		e.UpdateServiceEndpoints(shardA, svc2, svcNs, []*model.IstioEndpoint{ep("10.0.1.9", "sa1", true)}, false)
	}},
}

// recCache records invalidations so that "cache cleared for every change" is part of the state.
// (the real XdsCache synchronises itself; so does this stand-in, with a real mutex that the scheduler
// does not see, so that the free-running -race pass reports the index's accesses only)
type recCache struct {
	model.DisabledCache
	mu                sync.Mutex
	clears, clearAlls int
}

func (r *recCache) Clear(s sets.Set[model.ConfigKey]) {
	r.mu.Lock()
	defer r.mu.Unlock()
	for k := range s {
		if k.Kind == kind.ServiceEntry {
			r.clears++
		}
	}
}

func (r *recCache) ClearAll() {
	r.mu.Lock()
	r.clearAlls++
	r.mu.Unlock()
}

func dump(e *model.EndpointIndex) string {
	z := e.Shardz()
	var svcs []string
	for s := range z {
		svcs = append(svcs, s)
	}
	sort.Strings(svcs)
	var b strings.Builder
	for _, s := range svcs {
		var nss []string
		for n := range z[s] {
			nss = append(nss, n)
		}
		sort.Strings(nss)
		for _, n := range nss {
			sh := z[s][n]
			fmt.Fprintf(&b, "%s/%s{", s, n)
			for _, k := range sh.Keys() {
				fmt.Fprintf(&b, "%s:[", k.Cluster)
				for _, x := range sh.Shards[k] {
					fmt.Fprintf(&b, "%s/%s/%v ", x.FirstAddressOrNil(), x.ServiceAccount, x.HealthStatus)
				}
				b.WriteString("]")
			}
			fmt.Fprintf(&b, " sa=%v}", sets.SortedList(sh.ServiceAccounts))
		}
	}
	return b.String()
}

// scenario = initial state + per-thread op lists
type scenario struct {
	Init    int     `json:"init"`
	Threads [][]int `json:"threads"`
}

func (sc scenario) String() string {
	var th []string
	for _, t := range sc.Threads {
		var o []string
		for _, i := range t {
			o = append(o, ops[i].name)
		}
		th = append(th, strings.Join(o, ";"))
	}
	return initials[sc.Init].name + " | " + strings.Join(th, " || ")
}

// sequential computes the outcomes (final state + per-call returns) of every sequential order that
// respects each thread's program order, on the real code run single-threaded.
type outcome struct {
	rets  [][]string
	state string
}

func (o outcome) String() string { return fmt.Sprint(o.rets) + " => " + o.state }

var pushRank = map[string]int{"NoPush": 0, "Incremental": 1, "Full": 2}

// admits reports whether the concurrent outcome o is explained by the sequential outcome q: same
// final state, same values read, and every call announced a push at least as strong as the
// sequential order would have (a stronger push is harmless, a weaker one loses a notification).
func admits(q, o outcome) bool {
	if q.state != o.state {
		return false
	}
	for i := range q.rets {
		if len(q.rets[i]) != len(o.rets[i]) {
			return false
		}
		for j := range q.rets[i] {
			a, b := q.rets[i][j], o.rets[i][j]
			ra, okA := pushRank[a]
			rb, okB := pushRank[b]
			if okA && okB {
				if rb < ra {
					return false
				}
			} else if a != b {
				return false
			}
		}
	}
	return true
}

func sequential(sc scenario) []outcome { return sequentialChecked(sc, nil) }

// sequentialChecked additionally compares every sequential order on the real code with the
// reference index (so that a defect that is not a race is not hidden by using the real code as its
// own sequential specification).
func sequentialChecked(sc scenario, res *engine.Result) []outcome {
	lens := make([]int, len(sc.Threads))
	for i, t := range sc.Threads {
		lens[i] = len(t)
	}
	var out []outcome
	seen := map[string]bool{}
	engine.LinearExtensions(lens, func(_ int64, order [][2]int) bool {
		e := model.NewEndpointIndex(&recCache{})
		initials[sc.Init].build(e)
		rets := make([][]string, len(sc.Threads))
		ref := refIndex{}
		refInitials[initials[sc.Init].name](ref)
		var names []string
		for _, o := range order {
			op := ops[sc.Threads[o[0]][o[1]]]
			rets[o[0]] = append(rets[o[0]], op.run(e))
			refOps[op.name](ref)
			names = append(names, op.name)
		}
		if res != nil && contents(e) != ref.String() {
			res.Violate("sequential-semantics:"+names[len(names)-1], fmt.Sprintf("from %s the sequence %v leaves %q, the reference index has %q", initials[sc.Init].name, names, contents(e), ref.String()), replayC13{Scenario: sc})
		}
		o := outcome{rets, dump(e)}
		if !seen[o.String()] {
			seen[o.String()] = true
			out = append(out, o)
		}
		return true
	})
	return out
}

type replayC13 struct {
	Scenario scenario `json:"scenario"`
	Choices  []int    `json:"choices"`
}

func runOne(t *testing.T, sc scenario, c *sched.Chooser) (out outcome, log []string, deadlock string, bubbleErr string) {
	var e *model.EndpointIndex
	rets := make([][]string, len(sc.Threads))
	bubbleErr = engine.Interleave(t, c, func(s *sched.Sched) {
		e = model.NewEndpointIndex(&recCache{})
		initials[sc.Init].build(e)
		for ti, prog := range sc.Threads {
			ti, prog := ti, prog
			s.Go(fmt.Sprintf("T%d", ti), func() any {
				for _, oi := range prog {
					rets[ti] = append(rets[ti], ops[oi].run(e))
				}
				return nil
			})
		}
	}, func(s *sched.Sched, completed bool) {
		log = s.Log
		deadlock = s.Deadlock
		if completed {
			out = outcome{rets, dump(e)}
		}
	})
	return
}

func scenarios(thorough bool) []scenario {
	var out []scenario
	n := len(ops)
	for init := range initials {
		// two threads, one call each (unordered pairs incl. the same call twice)
		for a := 0; a < n; a++ {
			for b := a; b < n; b++ {
				out = append(out, scenario{init, [][]int{{a}, {b}}})
			}
		}
		// one thread with two calls against one thread with one call
		for a := 0; a < n; a++ {
			for a2 := 0; a2 < n; a2++ {
				for b := 0; b < n; b++ {
					if !thorough && !(a < 8 && a2 < 8 && b < 8) {
						continue
					}
					out = append(out, scenario{init, [][]int{{a, a2}, {b}}})
				}
			}
		}
		// three threads, one call each
		for a := 0; a < n; a++ {
			for b := a; b < n; b++ {
				for c := b; c < n; c++ {
					if !thorough && !(a < 8 && b < 8) {
						continue
					}
					out = append(out, scenario{init, [][]int{{a}, {b}, {c}}})
				}
			}
		}
	}
	return out
}

func TestC13a(t *testing.T) {
	env := engine.GetEnv()
	res := engine.NewResult("C13", "a-interleavings")
	res.Rule = "scenario = initial index state x per-thread call lists over the EndpointIndex call alphabet on one forced-collision service; every interleaving at lock acquisitions within the preemption bound; non-trivial = scenario whose interleavings produced >=2 distinct (returns,final state) outcomes or whose sequential orders disagree"
	defer res.Write(t, env)

	if env.Replay != "" {
		var rp replayC13
		if err := engine.ReadReplay(env.Replay, &rp); err != nil {
			t.Fatal(err)
		}
		checkExecution(t, res, rp.Scenario, sequentialChecked(rp.Scenario, res), sched.NewChooser(rp.Choices), true)
		return
	}
	bound := 2
	if env.Thorough() {
		bound = 3
	}
	res.Bounds["preemptions"] = bound
	res.Bounds["threads"] = "2-3"
	scs := scenarios(env.Thorough())
	res.Bounds["scenarios_total"] = len(scs)
	for i, sc := range scs {
		if !env.Mine(int64(i)) {
			continue
		}
		if env.Expired() {
			res.Cap(fmt.Sprintf("deadline at scenario %d/%d", i, len(scs)))
			break
		}
		seq := sequentialChecked(sc, res)
		outcomes := map[string]bool{}
		// determinism: the default schedule, run twice, must give identical observations
		o1, l1, _, _ := runOne(t, sc, sched.NewChooser(nil))
		o2, l2, _, _ := runOne(t, sc, sched.NewChooser(nil))
		if o1.String() != o2.String() || fmt.Sprint(l1) != fmt.Sprint(l2) {
			res.Infra = "nondeterministic replay in scenario " + sc.String()
			return
		}
		st := sched.Explore(sched.ExploreOpts{Bound: bound, Deadline: env.Expired}, func(c *sched.Chooser, owned bool) bool {
			o := checkExecution(t, res, sc, seq, c, false)
			outcomes[o] = true
			return true
		})
		if st.Diverged != "" {
			res.Infra = "replay divergence: " + st.Diverged + " in " + sc.String()
			return
		}
		if st.Capped != "" {
			res.Cap(st.Capped)
		}
		res.States++
		res.Evaluations += st.Executions
		res.Traces += st.Executions
		res.Transitions += st.Points
		if len(outcomes) > 1 || len(seq) > 1 {
			res.NontrivialCase(sc.String())
		}
		if i%97 == 0 {
			res.Sample(map[string]any{"scenario": sc.String(), "interleavings": st.Executions, "distinct_outcomes": len(outcomes), "sequential_outcomes": len(seq)})
		}
	}
}

func checkExecution(t *testing.T, res *engine.Result, sc scenario, seq []outcome, c *sched.Chooser, verbose bool) string {
	o, log, dl, berr := runOne(t, sc, c)
	ok := false
	for _, q := range seq {
		if admits(q, o) {
			ok = true
			break
		}
	}
	key := ""
	desc := ""
	switch {
	case berr != "":
		key, desc = "bubble:"+sc.String(), "execution did not end cleanly: "+berr
	case dl != "":
		key, desc = "deadlock:"+sc.String(), dl
	case !ok:
		var s []string
		for _, q := range seq {
			s = append(s, q.String())
		}
		sort.Strings(s)
		key = "nonlinearizable:" + sc.String()
		desc = fmt.Sprintf("interleaving %v gives %q, which no sequential order gives (sequential: %q)", log, o, s)
	}
	res.Outcome(o.String())
	if key != "" {
		res.Violate(key, desc, replayC13{Scenario: sc, Choices: c.Choices()})
	}
	if verbose {
		t.Logf("schedule %v\noutcome %s", log, o)
	}
	return o.String()
}

// TestC13Race: the same thread bodies, free-running (no scheduler: the sync shim passes through to
// package sync), under the Go race detector. A cooperative scheduler's hand-offs are happens-before
// edges that hide unsynchronised accesses from the detector; this separate pass looks for them.
func TestC13Race(t *testing.T) {
	env := engine.GetEnv()
	res := engine.NewResult("C13", "a-race-pass")
	res.Rule = "every 2- and 3-thread scenario of part a-interleavings run free (real goroutines, no scheduler) repeatedly under -race; a race report is a violation; non-trivial = scenario with at least one writer"
	defer res.Write(t, env)
	reps := 20
	if env.Thorough() {
		reps = 200
	}
	res.Bounds["repetitions"] = reps
	for i, sc := range scenarios(env.Thorough()) {
		if !env.Mine(int64(i)) || len(sc.Threads[0]) > 1 {
			continue
		}
		if env.Expired() {
			res.Cap("deadline")
			break
		}
		for r := 0; r < reps; r++ {
			e := model.NewEndpointIndex(&recCache{})
			initials[sc.Init].build(e)
			done := make(chan struct{}, len(sc.Threads))
			for _, prog := range sc.Threads {
				prog := prog
				go func() {
					for _, oi := range prog {
						ops[oi].run(e)
					}
					done <- struct{}{}
				}()
			}
			for range sc.Threads {
				<-done
			}
			_ = dump(e)
			res.Evaluations++
		}
		res.States++
		res.Transitions += int64(reps * len(sc.Threads))
		res.NontrivialCase(sc.String())
		if i%301 == 0 {
			res.Sample(sc.String())
		}
	}
	res.Traces = res.Evaluations
}
