package c17

import (
	"crypto/sha256"
	"encoding/hex"
	"fmt"
	"runtime"
	"runtime/debug"
	"slices"
	"sort"

	cluster "github.com/envoyproxy/go-control-plane/envoy/config/cluster/v3"
	corev3 "github.com/envoyproxy/go-control-plane/envoy/config/core/v3"
	"google.golang.org/protobuf/types/known/anypb"

	meshconfig "istio.io/api/mesh/v1alpha1"
	"istio.io/istio/pilot/pkg/model"
	"istio.io/istio/pilot/pkg/networking/core"
	"istio.io/istio/pilot/pkg/util/protoconv"
	"istio.io/istio/pilot/pkg/xds/endpoints"
	"istio.io/istio/pkg/config"
	"istio.io/istio/pkg/config/mesh"
	"istio.io/istio/pkg/config/schema/kind"
	"istio.io/istio/pkg/kube/krt"
	"istio.io/istio/pkg/test"
	"istio.io/istio/pkg/util/sets"
)

// resT is one generated xDS resource as a proxy would receive it: name and serialized Any.
type resT struct {
	Name string
	Any  *anypb.Any
}

// sectionT is the ordered resource list of one (proxy, xDS type, repetition).
type sectionT struct {
	Key string // "<proxy>/<CDS|EDS|LDS|RDS>"
	Res []resT
}

type observation struct {
	Sections []sectionT
}

func (o *observation) digest() string {
	h := sha256.New()
	for _, s := range o.Sections {
		fmt.Fprintf(h, "S%s:%d;", s.Key, len(s.Res))
		for _, r := range s.Res {
			fmt.Fprintf(h, "%s:%s:%d;", r.Name, r.Any.GetTypeUrl(), len(r.Any.GetValue()))
			h.Write(r.Any.GetValue())
		}
	}
	return hex.EncodeToString(h.Sum(nil))[:16]
}

func (o *observation) resources() (n int, bytes int) {
	for _, s := range o.Sections {
		n += len(s.Res)
		for _, r := range s.Res {
			bytes += len(r.Any.GetValue())
		}
	}
	return
}

// The proxies every case is generated for.
type proxySpec struct {
	Name string
	Make func() *model.Proxy
}

var proxies = []proxySpec{
	{"sidecar-ns1", func() *model.Proxy {
		return &model.Proxy{
			Type: model.SidecarProxy, ID: "a-1.ns1", ConfigNamespace: "ns1", DNSDomain: "ns1.svc.cluster.local",
			IPAddresses: []string{"10.1.1.1"}, Labels: kv("app", "a", "version", "v1"),
			Locality: &corev3.Locality{Region: "r1", Zone: "z1", SubZone: "s1"},
			Metadata: &model.NodeMetadata{Namespace: "ns1", Labels: kv("app", "a", "version", "v1")},
		}
	}},
	{"sidecar-ns2", func() *model.Proxy {
		return &model.Proxy{
			Type: model.SidecarProxy, ID: "b-1.ns2", ConfigNamespace: "ns2", DNSDomain: "ns2.svc.cluster.local",
			IPAddresses: []string{"10.2.2.2"}, Labels: kv("app", "b"),
			Locality: &corev3.Locality{}, // istiod always sets a (possibly empty) locality
			Metadata: &model.NodeMetadata{Namespace: "ns2", Labels: kv("app", "b")},
		}
	}},
	{"router", func() *model.Proxy {
		return &model.Proxy{
			Type: model.Router, ID: "gw-1.istio-system", ConfigNamespace: "istio-system", DNSDomain: "istio-system.svc.cluster.local",
			IPAddresses: []string{"10.9.9.9"}, Labels: kv("istio", "ingressgateway"),
			Locality: &corev3.Locality{Region: "r2", Zone: "z1", SubZone: "s1"},
			Metadata: &model.NodeMetadata{Namespace: "istio-system", Labels: kv("istio", "ingressgateway")},
		}
	}},
}

// generate produces CDS, EDS, LDS and RDS for one proxy on the environment's current push context.
func generate(t test.Failer, cg *core.ConfigGenTest, ps proxySpec, tag string) []sectionT {
	p := cg.SetupProxy(ps.Make())
	push := cg.PushContext()
	req := &model.PushRequest{Push: push}

	cds := sectionT{Key: ps.Name + "/CDS" + tag}
	eds := sectionT{Key: ps.Name + "/EDS" + tag}
	raw, _ := cg.ConfigGen.BuildClusters(p, req)
	var edsNames []string
	for _, r := range raw {
		cds.Res = append(cds.Res, resT{r.Name, r.Resource})
		c := &cluster.Cluster{}
		if err := r.Resource.UnmarshalTo(c); err != nil {
			t.Fatalf("cluster %s: %v", r.Name, err)
		}
		if c.GetType() == cluster.Cluster_EDS {
			edsNames = append(edsNames, c.Name)
		}
	}
	// The order of an EDS / RDS response follows the names the client asks for: ask in sorted order.
	sort.Strings(edsNames)
	for _, name := range edsNames {
		b := endpoints.NewEndpointBuilder(name, p, push)
		cla := b.BuildClusterLoadAssignment(cg.Env().EndpointIndex)
		eds.Res = append(eds.Res, resT{name, protoconv.MessageToAny(cla)})
	}

	lds := sectionT{Key: ps.Name + "/LDS" + tag}
	ls := cg.ConfigGen.BuildListeners(p, push)
	for _, l := range ls {
		lds.Res = append(lds.Res, resT{l.Name, protoconv.MessageToAny(l)})
	}

	rds := sectionT{Key: ps.Name + "/RDS" + tag}
	routeNames := core.ExtractRoutesFromListeners(ls)
	sort.Strings(routeNames)
	routeNames = slices.Compact(routeNames)
	routes, _ := cg.ConfigGen.BuildHTTPRoutes(p, req, routeNames)
	for _, r := range routes {
		rds.Res = append(rds.Res, resT{r.Name, r.Resource})
	}
	return []sectionT{cds, eds, lds, rds}
}

// comboT is one point of the enumerated space of a case.
type comboT struct {
	Perm  []int  `json:"perm"`  // insertion order of the case's permuted objects
	Const uint64 `json:"const"` // map constant of the runtime seam
}

func (c comboT) String() string { return fmt.Sprintf("perm=%v const=%#x", c.Perm, c.Const) }

// observe builds a cold istio environment for the case under the given map constant, inserting the
// permuted objects in the given order, and generates everything three times: on the first push
// context (rep 0), again on the same push context with fresh proxies (rep 1), and on a push context
// rebuilt from the same stores (rep 2, what a full push does). mask selects which of the permuted objects
// are present (all of them except for the non-triviality measurement).
func observe(c *caseT, n int, cb comboT, mask int) (o *observation, err error) {
	saved := runtime.VerifMapRand()
	defer runtime.VerifSetMapRand(saved)
	runtime.VerifSetMapRand(cb.Const)
	// The debug handler keeps every krt collection ever registered alive; nothing reads it here.
	krt.GlobalDebugHandler = new(krt.DebugHandler)
	err = test.Wrap(func(t test.Failer) {
		defer func() {
			if r := recover(); r != nil {
				t.Fatalf("panic: %v\n%s", r, debug.Stack())
			}
		}()
		// The objects (and every map inside their specs) are built after the switch.
		base, objs := c.Build()
		objs = objs[:n]
		cfgs := append([]config.Config{}, base...)
		for _, i := range cb.Perm {
			if mask&(1<<i) != 0 {
				cfgs = append(cfgs, objs[i])
			}
		}
		var mc *meshconfig.MeshConfig
		if c.Mesh != nil {
			mc = mesh.DefaultMeshConfig()
			c.Mesh(mc)
		}
		opts := core.TestOptions{Configs: cfgs, MeshConfig: mc}
		if c.Registry != nil {
			opts.Services, opts.Instances = c.Registry()
		}
		cg := core.NewConfigGenTest(t, opts)
		if len(c.Churn) > 0 {
			churn := map[string]bool{}
			for _, id := range c.Churn {
				churn[id] = true
			}
			old := cg.PushContext()
			updated := sets.New[model.ConfigKey]()
			for _, o := range cfgs {
				if !churn[objID(o)] {
					continue
				}
				if err := cg.Store().Delete(o.GroupVersionKind, o.Name, o.Namespace, nil); err != nil {
					t.Fatalf("delete %s: %v", objID(o), err)
				}
				updated.Insert(model.ConfigKey{Kind: kind.FromString(o.GroupVersionKind.Kind), Name: o.Name, Namespace: o.Namespace})
			}
			if len(updated) > 0 {
				pc := model.NewPushContext()
				pc.InitContext(cg.Env(), old, &model.PushRequest{ConfigsUpdated: updated})
				cg.Env().SetPushContext(pc)
			}
		}
		o = &observation{}
		for _, ps := range proxies {
			o.Sections = append(o.Sections, generate(t, cg, ps, "")...)
		}
		for _, ps := range proxies {
			o.Sections = append(o.Sections, generate(t, cg, ps, "#again")...)
		}
		pc := model.NewPushContext()
		pc.InitContext(cg.Env(), nil, nil)
		cg.Env().SetPushContext(pc)
		for _, ps := range proxies {
			o.Sections = append(o.Sections, generate(t, cg, ps, "#newpush")...)
		}
	})
	return o, err
}
