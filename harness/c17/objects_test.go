package c17

import (
	"fmt"
	"time"

	"google.golang.org/protobuf/types/known/durationpb"
	"google.golang.org/protobuf/types/known/wrapperspb"

	networking "istio.io/api/networking/v1alpha3"
	security "istio.io/api/security/v1beta1"
	typev1beta1 "istio.io/api/type/v1beta1"
	"istio.io/istio/pkg/config"
	"istio.io/istio/pkg/config/host"
	"istio.io/istio/pkg/config/schema/gvk"
)

// Every object of every case carries the same creation timestamp unless a case says otherwise: age
// ties are the point of the property ("ties between objects of equal age are broken by a total,
// stable rule").
var t0 = time.Unix(1700000000, 0).UTC()

func obj(k config.GroupVersionKind, ns, name string, spec config.Spec) config.Config {
	return config.Config{
		Meta: config.Meta{
			GroupVersionKind: k, Namespace: ns, Name: name,
			CreationTimestamp: t0, ResourceVersion: "1",
		},
		Spec: spec,
	}
}

func older(c config.Config, seconds int) config.Config {
	c.CreationTimestamp = t0.Add(-time.Duration(seconds) * time.Second)
	return c
}

func objID(c config.Config) string {
	return fmt.Sprintf("%s/%s/%s", c.GroupVersionKind.Kind, c.Namespace, c.Name)
}

// kv builds a fresh map (under the map constant in force) in the given insertion order.
func kv(pairs ...string) map[string]string {
	m := map[string]string{}
	for i := 0; i+1 < len(pairs); i += 2 {
		m[pairs[i]] = pairs[i+1]
	}
	return m
}

// ---- ServiceEntry / WorkloadEntry ----

func port(n uint32, name, proto string) *networking.ServicePort {
	return &networking.ServicePort{Number: n, Name: name, Protocol: proto}
}

func ep(addr, locality string, labels map[string]string) *networking.WorkloadEntry {
	return &networking.WorkloadEntry{Address: addr, Locality: locality, Labels: labels}
}

func se(ns, name string, hosts []string, ports []*networking.ServicePort, eps []*networking.WorkloadEntry, mod ...func(*networking.ServiceEntry)) config.Config {
	s := &networking.ServiceEntry{
		Hosts: hosts, Ports: ports, Endpoints: eps,
		Location: networking.ServiceEntry_MESH_INTERNAL, Resolution: networking.ServiceEntry_STATIC,
	}
	for _, f := range mod {
		f(s)
	}
	return obj(gvk.ServiceEntry, ns, name, s)
}

func seAddr(a ...string) func(*networking.ServiceEntry) {
	return func(s *networking.ServiceEntry) { s.Addresses = a }
}

func seExport(ns ...string) func(*networking.ServiceEntry) {
	return func(s *networking.ServiceEntry) { s.ExportTo = ns }
}

func seSelector(labels map[string]string) func(*networking.ServiceEntry) {
	return func(s *networking.ServiceEntry) {
		s.WorkloadSelector = &networking.WorkloadSelector{Labels: labels}
	}
}

func seDNS(r networking.ServiceEntry_Resolution) func(*networking.ServiceEntry) {
	return func(s *networking.ServiceEntry) {
		s.Resolution = r
		s.Location = networking.ServiceEntry_MESH_EXTERNAL
	}
}

func we(ns, name, addr, locality string, weight uint32, labels map[string]string) config.Config {
	return obj(gvk.WorkloadEntry, ns, name, &networking.WorkloadEntry{Address: addr, Locality: locality, Weight: weight, Labels: labels})
}

// ---- VirtualService ----

func exact(s string) *networking.StringMatch {
	return &networking.StringMatch{MatchType: &networking.StringMatch_Exact{Exact: s}}
}

func prefix(s string) *networking.StringMatch {
	return &networking.StringMatch{MatchType: &networking.StringMatch_Prefix{Prefix: s}}
}

func regex(s string) *networking.StringMatch {
	return &networking.StringMatch{MatchType: &networking.StringMatch_Regex{Regex: s}}
}

func dst(host string, port uint32, subset string, weight int32) *networking.HTTPRouteDestination {
	d := &networking.HTTPRouteDestination{Destination: &networking.Destination{Host: host, Subset: subset}, Weight: weight}
	if port != 0 {
		d.Destination.Port = &networking.PortSelector{Number: port}
	}
	return d
}

func httpRoute(name string, match []*networking.HTTPMatchRequest, dests ...*networking.HTTPRouteDestination) *networking.HTTPRoute {
	return &networking.HTTPRoute{Name: name, Match: match, Route: dests}
}

func uriPrefix(p string) []*networking.HTTPMatchRequest {
	return []*networking.HTTPMatchRequest{{Uri: prefix(p)}}
}

func vs(ns, name string, hosts, gateways []string, http ...*networking.HTTPRoute) config.Config {
	return obj(gvk.VirtualService, ns, name, &networking.VirtualService{Hosts: hosts, Gateways: gateways, Http: http})
}

func vsSpec(c config.Config) *networking.VirtualService { return c.Spec.(*networking.VirtualService) }

// ---- DestinationRule ----

func subset(name string, labels map[string]string, tp *networking.TrafficPolicy) *networking.Subset {
	return &networking.Subset{Name: name, Labels: labels, TrafficPolicy: tp}
}

func tpLB(simple networking.LoadBalancerSettings_SimpleLB) *networking.TrafficPolicy {
	return &networking.TrafficPolicy{LoadBalancer: &networking.LoadBalancerSettings{LbPolicy: &networking.LoadBalancerSettings_Simple{Simple: simple}}}
}

func tpConn(maxConn int32) *networking.TrafficPolicy {
	return &networking.TrafficPolicy{ConnectionPool: &networking.ConnectionPoolSettings{
		Tcp: &networking.ConnectionPoolSettings_TCPSettings{MaxConnections: maxConn, ConnectTimeout: durationpb.New(time.Duration(maxConn) * time.Millisecond)},
	}}
}

func tpTLS(mode networking.ClientTLSSettings_TLSmode, sni string) *networking.TrafficPolicy {
	return &networking.TrafficPolicy{Tls: &networking.ClientTLSSettings{Mode: mode, Sni: sni}}
}

func dr(ns, name, host string, tp *networking.TrafficPolicy, subsets []*networking.Subset, mod ...func(*networking.DestinationRule)) config.Config {
	d := &networking.DestinationRule{Host: host, TrafficPolicy: tp, Subsets: subsets}
	for _, f := range mod {
		f(d)
	}
	return obj(gvk.DestinationRule, ns, name, d)
}

func drExport(ns ...string) func(*networking.DestinationRule) {
	return func(d *networking.DestinationRule) { d.ExportTo = ns }
}

func drSelector(labels map[string]string) func(*networking.DestinationRule) {
	return func(d *networking.DestinationRule) {
		d.WorkloadSelector = &typev1beta1.WorkloadSelector{MatchLabels: labels}
	}
}

// ---- Gateway ----

func server(num uint32, name, proto string, hosts ...string) *networking.Server {
	return &networking.Server{Port: &networking.Port{Number: num, Name: name, Protocol: proto}, Hosts: hosts}
}

func serverTLS(num uint32, name, cred string, hosts ...string) *networking.Server {
	s := server(num, name, "HTTPS", hosts...)
	s.Tls = &networking.ServerTLSSettings{Mode: networking.ServerTLSSettings_SIMPLE, CredentialName: cred}
	return s
}

func serverPassthrough(num uint32, name string, hosts ...string) *networking.Server {
	s := server(num, name, "TLS", hosts...)
	s.Tls = &networking.ServerTLSSettings{Mode: networking.ServerTLSSettings_PASSTHROUGH}
	return s
}

func gw(ns, name string, servers ...*networking.Server) config.Config {
	return obj(gvk.Gateway, ns, name, &networking.Gateway{Selector: kv("istio", "ingressgateway"), Servers: servers})
}

// ---- Sidecar ----

func egress(hosts ...string) *networking.IstioEgressListener {
	return &networking.IstioEgressListener{Hosts: hosts}
}

func egressPort(num uint32, name, proto string, hosts ...string) *networking.IstioEgressListener {
	return &networking.IstioEgressListener{Port: &networking.SidecarPort{Number: num, Name: name, Protocol: proto}, Hosts: hosts}
}

func sidecar(ns, name string, selector map[string]string, egress ...*networking.IstioEgressListener) config.Config {
	s := &networking.Sidecar{Egress: egress}
	if selector != nil {
		s.WorkloadSelector = &networking.WorkloadSelector{Labels: selector}
	}
	return obj(gvk.Sidecar, ns, name, s)
}

// ---- security ----

func pa(ns, name string, selector map[string]string, mode security.PeerAuthentication_MutualTLS_Mode, portModes ...any) config.Config {
	p := &security.PeerAuthentication{Mtls: &security.PeerAuthentication_MutualTLS{Mode: mode}}
	if selector != nil {
		p.Selector = &typev1beta1.WorkloadSelector{MatchLabels: selector}
	}
	for i := 0; i+1 < len(portModes); i += 2 {
		if p.PortLevelMtls == nil {
			p.PortLevelMtls = map[uint32]*security.PeerAuthentication_MutualTLS{}
		}
		var m security.PeerAuthentication_MutualTLS_Mode
		switch v := portModes[i+1].(type) {
		case int:
			m = security.PeerAuthentication_MutualTLS_Mode(v)
		case security.PeerAuthentication_MutualTLS_Mode:
			m = v
		}
		p.PortLevelMtls[uint32(portModes[i].(int))] = &security.PeerAuthentication_MutualTLS{Mode: m}
	}
	return obj(gvk.PeerAuthentication, ns, name, p)
}

func authz(ns, name string, selector map[string]string, action security.AuthorizationPolicy_Action, rules ...*security.Rule) config.Config {
	p := &security.AuthorizationPolicy{Action: action, Rules: rules}
	if selector != nil {
		p.Selector = &typev1beta1.WorkloadSelector{MatchLabels: selector}
	}
	return obj(gvk.AuthorizationPolicy, ns, name, p)
}

func rule(from []*security.Rule_From, to []*security.Rule_To, when ...*security.Condition) *security.Rule {
	return &security.Rule{From: from, To: to, When: when}
}

func fromPrincipals(p ...string) *security.Rule_From {
	return &security.Rule_From{Source: &security.Source{Principals: p}}
}

func fromNamespaces(n ...string) *security.Rule_From {
	return &security.Rule_From{Source: &security.Source{Namespaces: n}}
}

func fromIPBlocks(b ...string) *security.Rule_From {
	return &security.Rule_From{Source: &security.Source{IpBlocks: b}}
}

func toOp(methods, paths, ports []string) *security.Rule_To {
	return &security.Rule_To{Operation: &security.Operation{Methods: methods, Paths: paths, Ports: ports}}
}

func when(key string, values ...string) *security.Condition {
	return &security.Condition{Key: key, Values: values}
}

func requestAuthn(ns, name string, selector map[string]string, rules ...*security.JWTRule) config.Config {
	p := &security.RequestAuthentication{JwtRules: rules}
	if selector != nil {
		p.Selector = &typev1beta1.WorkloadSelector{MatchLabels: selector}
	}
	return obj(gvk.RequestAuthentication, ns, name, p)
}

func hostNameOf(s string) host.Name { return host.Name(s) }

func boolv(b bool) *wrapperspb.BoolValue { return wrapperspb.Bool(b) }
