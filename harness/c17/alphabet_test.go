package c17

import (
	"fmt"
	"runtime"
	"strings"
)

// mapAlphabet is M of DESIGN.md section 4 C17: the constants of the runtime seam (section 2.4) under
// which every case is generated. A constant replaces every random draw that decides a map's hash seed
// and the start offset of every iteration. Small maps (one group of 8 slots) are iterated from slot
// (constant mod 8) in insertion order, so the low three bits of the eight constants are pairwise
// different (all eight rotations occur); the upper bits are well spread so that the hash seeds of
// larger maps differ too.
var mapAlphabet = []uint64{
	0x9e3779b97f4a7c10, // ..000
	0xc2b2ae3d27d4eb49, // ..001
	0x165667b19e3779fa, // ..010
	0xd6e8feb86659fd93, // ..011
	0x27d4eb2f165667c4, // ..100
	0xff51afd7ed558ccd, // ..101
	0x85ebca6b0b7e3a86, // ..110
	0x6a09e667f3bcc90f, // ..111
}

var alphabetSink map[string]int

// measureAlphabet reports, per map size 2..16, how many distinct iteration orders the alphabet gives
// for a plain map[string]int filled in one fixed insertion order, and how many (insertion order
// reversed) when the insertion order is a second dimension. It is evidence that the order alphabet is
// not vacuous: an order-dependent range over a map of that size meets at least two different orders.
func measureAlphabet() (perSize map[string]int, perSizeWithReverse map[string]int, min int) {
	saved := runtime.VerifMapRand()
	defer runtime.VerifSetMapRand(saved)
	perSize, perSizeWithReverse = map[string]int{}, map[string]int{}
	min = 1 << 30
	for size := 2; size <= 16; size++ {
		orders, both := map[string]bool{}, map[string]bool{}
		for _, c := range mapAlphabet {
			runtime.VerifSetMapRand(c)
			for _, rev := range []bool{false, true} {
				m := map[string]int{}
				alphabetSink = m // heap map: its seed comes from the seam (a stack map's does not, see C17.json)
				for i := 0; i < size; i++ {
					j := i
					if rev {
						j = size - 1 - i
					}
					m[fmt.Sprintf("key-%02d", j)] = j
				}
				var sb strings.Builder
				for k := range m {
					sb.WriteString(k[4:])
					sb.WriteByte(',')
				}
				if !rev {
					orders[sb.String()] = true
				}
				both[sb.String()] = true
			}
		}
		perSize[fmt.Sprintf("%02d", size)] = len(orders)
		perSizeWithReverse[fmt.Sprintf("%02d", size)] = len(both)
		if len(orders) < min {
			min = len(orders)
		}
	}
	return perSize, perSizeWithReverse, min
}
