package c17

import (
	"os"
	"testing"

	"istio.io/istio/pkg/log"
)

// The control-plane code logs ~75 lines per environment built; nothing of it is of interest here
// (every object of every case is validated with istio's own validation before it is used).
func TestMain(m *testing.M) {
	for _, s := range log.Scopes() {
		s.SetOutputLevel(log.NoneLevel)
	}
	os.Exit(m.Run())
}
