package c17

import (
	"fmt"
	"sort"

	"google.golang.org/protobuf/proto"
	"google.golang.org/protobuf/reflect/protoreflect"
	"google.golang.org/protobuf/types/known/anypb"
)

// firstDiffPath returns the field path (names only) of the first difference between two messages,
// descending into google.protobuf.Any payloads. It classifies a difference for violation keys.
func firstDiffPath(a, b proto.Message) string {
	if a == nil || b == nil {
		return "<nil>"
	}
	return diffMsg(a.ProtoReflect(), b.ProtoReflect(), 0)
}

func diffMsg(a, b protoreflect.Message, depth int) string {
	if a.Descriptor().FullName() != b.Descriptor().FullName() {
		return "<type>"
	}
	if a.Descriptor().FullName() == "google.protobuf.Any" {
		var x, y anypb.Any
		proto.Merge(&x, a.Interface())
		proto.Merge(&y, b.Interface())
		if x.TypeUrl != y.TypeUrl {
			return "<any-type>"
		}
		mx, err1 := anypb.UnmarshalNew(&x, proto.UnmarshalOptions{})
		my, err2 := anypb.UnmarshalNew(&y, proto.UnmarshalOptions{})
		if err1 != nil || err2 != nil {
			if string(x.Value) != string(y.Value) {
				return "<any-bytes>"
			}
			return ""
		}
		if d := diffMsg(mx.ProtoReflect(), my.ProtoReflect(), depth+1); d != "" {
			return d
		}
		if string(x.Value) != string(y.Value) {
			return "<same-content-other-encoding>" // e.g. a map field marshalled in another order
		}
		return ""
	}
	fields := map[protoreflect.FieldNumber]protoreflect.FieldDescriptor{}
	a.Range(func(fd protoreflect.FieldDescriptor, _ protoreflect.Value) bool { fields[fd.Number()] = fd; return true })
	b.Range(func(fd protoreflect.FieldDescriptor, _ protoreflect.Value) bool { fields[fd.Number()] = fd; return true })
	var nums []int
	for n := range fields {
		nums = append(nums, int(n))
	}
	sort.Ints(nums)
	for _, n := range nums {
		fd := fields[protoreflect.FieldNumber(n)]
		name := string(fd.Name())
		ha, hb := a.Has(fd), b.Has(fd)
		if ha != hb {
			return name + "<presence>"
		}
		va, vb := a.Get(fd), b.Get(fd)
		switch {
		case fd.IsList():
			la, lb := va.List(), vb.List()
			if la.Len() != lb.Len() {
				return name + "<len>"
			}
			for i := 0; i < la.Len(); i++ {
				if fd.Message() != nil {
					if d := diffMsg(la.Get(i).Message(), lb.Get(i).Message(), depth+1); d != "" {
						return name + "." + d
					}
				} else if !la.Get(i).Equal(lb.Get(i)) {
					return name
				}
			}
		case fd.IsMap():
			ma, mb := va.Map(), vb.Map()
			if ma.Len() != mb.Len() {
				return name + "<len>"
			}
			d := ""
			ma.Range(func(k protoreflect.MapKey, v protoreflect.Value) bool {
				w := mb.Get(k)
				if !w.IsValid() {
					d = name + "<keys>"
					return false
				}
				if fd.MapValue().Message() != nil {
					if x := diffMsg(v.Message(), w.Message(), depth+1); x != "" {
						d = name + "." + x
						return false
					}
				} else if !v.Equal(w) {
					d = name
					return false
				}
				return true
			})
			if d != "" {
				return d
			}
		case fd.Message() != nil:
			if d := diffMsg(va.Message(), vb.Message(), depth+1); d != "" {
				return name + "." + d
			}
		default:
			if !va.Equal(vb) {
				return name
			}
		}
	}
	if !proto.Equal(a.Interface(), b.Interface()) {
		return fmt.Sprintf("<unknown@%d>", depth)
	}
	return ""
}
