// C17: generation is deterministic. For every case (a small tie-heavy configuration) the real istio
// generators are run on a cold environment for every insertion permutation of the case's objects x
// every constant of the map-order alphabet x three repetitions, for two sidecars and a router, and the
// deterministic-marshalled bytes of every CDS/EDS/LDS/RDS resource and the resource order are
// compared with the case's reference combination (identity permutation, first constant).
package c17

import (
	"encoding/json"
	"fmt"
	"sort"
	"strings"
	"testing"

	"google.golang.org/protobuf/encoding/prototext"
	"google.golang.org/protobuf/proto"
	"google.golang.org/protobuf/types/known/anypb"

	meshconfig "istio.io/api/mesh/v1alpha1"
	"istio.io/istio/pilot/pkg/model"
	"istio.io/istio/pkg/config"
	"istio.io/istio/pkg/config/schema/collections"
	"istio.io/istio/zz_verif/engine"
)

type caseT struct {
	Name   string // "<family>/<variant>"
	Family string
	// Build returns the fixed objects (inserted first, in this order) and the permuted objects. It is
	// called after every switch of the map constant, so every map inside a spec is created under it.
	Build func() (base, objs []config.Config)
	Mesh  func(m *meshconfig.MeshConfig)
	// Registry returns services and instances of the second (memory) registry; fixed part of the case.
	Registry func() ([]*model.Service, []*model.ServiceInstance)
	// Churn names objects ("Kind/namespace/name") that exist while the first push context is built and are
	// deleted afterwards; the generation then runs on a push context derived incrementally from the first
	// one (ConfigsUpdated = the deleted objects), as istiod does after a delete event. The rebuilt push
	// context of repetition 2 is a cold computation on the same final objects. Only kinds that no
	// asynchronous controller watches in this environment are used.
	Churn []string
}

type replayT struct {
	Case string `json:"case"`
	N    int    `json:"n"`
	Ref  comboT `json:"ref"`
	Got  comboT `json:"got"`
}

type diffT struct {
	Key  string
	Desc string
}

func baseKey(k string) (string, string) {
	if i := strings.IndexByte(k, '#'); i >= 0 {
		return k[:i], k[i:]
	}
	return k, ""
}

func proxyClass(sectionKey string) string {
	p := sectionKey[:strings.IndexByte(sectionKey, '/')]
	if strings.HasPrefix(p, "sidecar") {
		return "sidecar"
	}
	return p
}

func xdsOf(sectionKey string) string {
	k, _ := baseKey(sectionKey)
	return k[strings.IndexByte(k, '/')+1:]
}

// resourceClass maps a resource name to the kind of resource, so that one root cause does not give
// one key per host name.
func resourceClass(xds, name string) string {
	switch xds {
	case "CDS", "EDS":
		if i := strings.IndexByte(name, '|'); i > 0 {
			parts := strings.Split(name, "|")
			if len(parts) == 4 && parts[2] != "" {
				return parts[0] + "-subset"
			}
			return parts[0]
		}
		return name
	case "LDS":
		if strings.HasPrefix(name, "virtual") {
			return name
		}
		return "addr_port"
	}
	return "route"
}

func names(rs []resT) []string {
	out := make([]string, len(rs))
	for i, r := range rs {
		out[i] = r.Name
	}
	return out
}

func sameMultiset(a, b []string) bool {
	if len(a) != len(b) {
		return false
	}
	x, y := append([]string{}, a...), append([]string{}, b...)
	sort.Strings(x)
	sort.Strings(y)
	return strings.Join(x, "\x00") == strings.Join(y, "\x00")
}

// textDiff shows the first differing line of the text forms with two lines of context.
func textDiff(a, b *anypb.Any) string {
	ma, err1 := anypb.UnmarshalNew(a, proto.UnmarshalOptions{})
	mb, err2 := anypb.UnmarshalNew(b, proto.UnmarshalOptions{})
	if err1 != nil || err2 != nil {
		return "(not decodable)"
	}
	la := strings.Split(prototext.MarshalOptions{Multiline: true, Indent: " "}.Format(ma), "\n")
	lb := strings.Split(prototext.MarshalOptions{Multiline: true, Indent: " "}.Format(mb), "\n")
	i := 0
	for i < len(la) && i < len(lb) && la[i] == lb[i] {
		i++
	}
	cut := func(l []string) string {
		lo, hi := i-2, i+3
		if lo < 0 {
			lo = 0
		}
		if hi > len(l) {
			hi = len(l)
		}
		var out []string
		for _, s := range l[lo:hi] {
			out = append(out, strings.TrimSpace(s))
		}
		return strings.Join(out, " / ")
	}
	return fmt.Sprintf("text line %d: reference {%s} got {%s}", i+1, cut(la), cut(lb))
}

// compareSections classifies the differences between two ordered resource lists. The key says WHAT
// differs (one root cause, one key); between which runs it differs (other permutation, other constant,
// repetition in one environment, other process) is part of the description. Keys:
//   <proxy>/<xds>|resource-order|<classA>~<classB>      same resources, other order (classes of the first two resources out of place)
//   <proxy>/<xds>|resource-set|<class>|<family>          a resource is missing / extra
//   <proxy>/<xds>|<class>|<first differing field path>|<family>   same name, other bytes
func compareSections(family, key, suffix string, ref, got []resT) []diffT {
	xds := xdsOf(key)
	pfx := proxyClass(key) + "/" + xds + "|"
	var out []diffT
	rn, gn := names(ref), names(got)
	if strings.Join(rn, "\x00") != strings.Join(gn, "\x00") {
		if sameMultiset(rn, gn) {
			i := 0
			for rn[i] == gn[i] {
				i++
			}
			ca, cb := resourceClass(xds, rn[i]), resourceClass(xds, gn[i])
			if cb < ca {
				ca, cb = cb, ca
			}
			out = append(out, diffT{pfx + "resource-order|" + ca + "~" + cb, fmt.Sprintf("%s%s: same resources in a different order: reference %v got %v", key, suffix, rn, gn)})
		} else {
			inRef, inGot := map[string]int{}, map[string]int{}
			for _, n := range rn {
				inRef[n]++
			}
			for _, n := range gn {
				inGot[n]++
			}
			cls := ""
			for _, n := range append(append([]string{}, rn...), gn...) {
				if inRef[n] != inGot[n] {
					cls = resourceClass(xds, n)
					break
				}
			}
			out = append(out, diffT{pfx + "resource-set|" + cls + "|" + family, fmt.Sprintf("%s%s: different resource names: reference %v got %v", key, suffix, rn, gn)})
		}
	}
	// content, matched by name (k-th occurrence of a name with the k-th occurrence)
	byName := map[string][]*anypb.Any{}
	for _, r := range got {
		byName[r.Name] = append(byName[r.Name], r.Any)
	}
	seen := map[string]bool{}
	for i := range ref {
		l := byName[ref[i].Name]
		if len(l) == 0 {
			continue
		}
		a, b := ref[i].Any, l[0]
		byName[ref[i].Name] = l[1:]
		if a.GetTypeUrl() == b.GetTypeUrl() && string(a.GetValue()) == string(b.GetValue()) {
			continue
		}
		path := firstDiffPath(a, b)
		if path == "" {
			path = "<bytes-only>" // equal as messages, different encodings
		}
		k := pfx + resourceClass(xds, ref[i].Name) + "|" + path + "|" + family
		if seen[k] {
			continue
		}
		seen[k] = true
		out = append(out, diffT{k, fmt.Sprintf("%s%s resource %q (%d vs %d bytes) first differs at %s; %s", key, suffix, ref[i].Name, len(a.GetValue()), len(b.GetValue()), path, textDiff(a, b))})
	}
	return out
}

// compare returns the differences of got against the reference (first repetition of each), and of
// got's later repetitions against its own first repetition.
func compare(family string, ref, got *observation) []diffT {
	refBy, gotBy := map[string][]resT{}, map[string][]resT{}
	for _, s := range ref.Sections {
		refBy[s.Key] = s.Res
	}
	for _, s := range got.Sections {
		gotBy[s.Key] = s.Res
	}
	var out []diffT
	for _, s := range got.Sections {
		k, rep := baseKey(s.Key)
		if rep == "" {
			if ref != got {
				out = append(out, compareSections(family, k, "", refBy[k], s.Res)...)
			}
		} else {
			out = append(out, compareSections(family, k, " [repetition "+rep+" against the first generation in the same environment]", gotBy[k], s.Res)...)
		}
	}
	return out
}

func all(n int) int { return 1<<n - 1 }

func identity(n int) []int {
	p := make([]int, n)
	for i := range p {
		p[i] = i
	}
	return p
}

func insertionOrder(c *caseT, n int, perm []int) []string {
	_, objs := c.Build()
	var out []string
	for _, i := range perm {
		if i < n {
			out = append(out, objID(objs[i]))
		}
	}
	return out
}

func hasKey(ds []diffT, key string) bool {
	for _, d := range ds {
		if d.Key == key {
			return true
		}
	}
	return false
}

// validateCases runs istio's own validation on every object of every case: a case that istio would
// reject at admission proves nothing.
func validateCases(t *testing.T, cases []*caseT) {
	seen := map[string]bool{}
	for _, c := range cases {
		if seen[c.Name] {
			t.Fatalf("duplicate case name %s", c.Name)
		}
		seen[c.Name] = true
		base, objs := c.Build()
		ids := map[string]bool{}
		for _, o := range append(append([]config.Config{}, base...), objs...) {
			if ids[objID(o)] {
				t.Fatalf("case %s: duplicate object %s", c.Name, objID(o))
			}
			ids[objID(o)] = true
			s, ok := collections.Pilot.FindByGroupVersionKind(o.GroupVersionKind)
			if !ok {
				t.Fatalf("case %s: unknown kind %v", c.Name, o.GroupVersionKind)
			}
			if _, err := s.ValidateConfig(o); err != nil {
				t.Fatalf("case %s: object %s is invalid: %v", c.Name, objID(o), err)
			}
		}
	}
}

func TestC17(t *testing.T) {
	env := engine.GetEnv()
	res := engine.NewResult("C17", "a-generate")
	res.Rule = "one evaluation = one (case, insertion permutation, map constant) on a cold istio environment, generated 3 times for 3 proxies x CDS/EDS/LDS/RDS and compared byte-wise and order-wise with the case's reference combination; a case is non-trivial when at least two of its permuted objects each change the generated bytes when left out, or when at least two of them, each alone on top of the fixed part, give outputs that differ from the output without any of them and from one another (so which of the tied objects wins is observable)"
	defer res.Write(t, env)

	cases := allCases()
	validateCases(t, cases)
	byName := map[string]*caseT{}
	for _, c := range cases {
		byName[c.Name] = c
	}

	if env.Replay != "" {
		var rp replayT
		if err := engine.ReadReplay(env.Replay, &rp); err != nil {
			t.Fatal(err)
		}
		c := byName[rp.Case]
		if c == nil {
			t.Fatalf("unknown case %q", rp.Case)
		}
		ref, err := observe(c, rp.N, rp.Ref, all(rp.N))
		if err != nil {
			t.Fatal(err)
		}
		got, err := observe(c, rp.N, rp.Got, all(rp.N))
		if err != nil {
			t.Fatal(err)
		}
		res.Evaluations = 2
		for _, d := range append(compare(c.Family, ref, ref), compare(c.Family, ref, got)...) {
			res.Violate(d.Key, describe(c, rp, d, ""), rp)
		}
		return
	}

	perSize, perSizeRev, minOrders := measureAlphabet()
	res.Bounds["map_constants"] = fmt.Sprintf("%#x", mapAlphabet)
	res.Bounds["distinct_iteration_orders_by_map_size"] = perSize
	res.Bounds["distinct_iteration_orders_by_map_size_with_reversed_insertion"] = perSizeRev
	if minOrders < 2 {
		res.Infra = fmt.Sprintf("map-order alphabet is vacuous: some map size 2..16 has %d distinct orders", minOrders)
		return
	}
	maxN := 4
	if env.Thorough() {
		maxN = 5
	}
	res.Bounds["max_permuted_objects"] = maxN
	res.Bounds["cases"] = len(cases)
	res.Bounds["proxies"] = len(proxies)
	res.Bounds["repetitions_per_environment"] = 3

	var ord int64
	reported := map[string]bool{}
	for _, c := range cases {
		_, objs := c.Build()
		n := len(objs)
		if n > maxN {
			n = maxN
		}
		refCombo := comboT{Perm: identity(n), Const: mapAlphabet[0]}
		var ref *observation
		stop := false
		engine.Permutations(n, func(pord int64, perm []int) bool {
			my := ord
			ord++
			if !env.Mine(my) {
				return true
			}
			if env.Expired() {
				res.Cap(fmt.Sprintf("deadline at case %s permutation %d", c.Name, pord))
				stop = true
				return false
			}
			if ref == nil {
				var err error
				if ref, err = observe(c, n, refCombo, all(n)); err != nil {
					t.Fatalf("case %s reference: %v", c.Name, err)
				}
			}
			if pord == 0 {
				// Non-triviality of the case, measured: which permuted objects matter to the output.
				nres, nbytes := ref.resources()
				res.Count("reference_resources", int64(nres))
				res.Count("reference_bytes", int64(nbytes))
				// (a) objects whose removal changes the bytes; (b) objects that, alone, change the bytes of the
				// case without any permuted object, and how many different outputs these solo runs give.
				influence, solo := 0, map[string]bool{}
				none, err := observe(c, n, refCombo, 0)
				if err != nil {
					t.Fatalf("case %s without permuted objects: %v", c.Name, err)
				}
				for i := 0; i < n; i++ {
					o, err := observe(c, n, refCombo, all(n)&^(1<<i))
					if err != nil {
						t.Fatalf("case %s without object %d: %v", c.Name, i, err)
					}
					if o.digest() != ref.digest() {
						influence++
					}
					if o, err = observe(c, n, refCombo, 1<<i); err != nil {
						t.Fatalf("case %s with only object %d: %v", c.Name, i, err)
					}
					if o.digest() != none.digest() {
						solo[o.digest()] = true
					}
				}
				res.Count("objects_whose_removal_changes_the_output", int64(influence))
				res.Count("distinct_outputs_of_single_object_runs", int64(len(solo)))
				if influence >= 2 || len(solo) >= 2 {
					res.NontrivialCase(c.Name)
				} else {
					res.Outcome("trivial-case:" + c.Name)
				}
				res.Sample(map[string]any{"case": c.Name, "permuted_objects": insertionOrder(c, n, refCombo.Perm), "resources": nres, "bytes": nbytes, "objects_whose_removal_changes_the_output": influence, "distinct_outputs_of_single_object_runs": len(solo)})
			}
			for _, m := range mapAlphabet {
				cb := comboT{Perm: engine.CopyInts(perm), Const: m}
				got := ref
				if !(pord == 0 && m == refCombo.Const) {
					var err error
					if got, err = observe(c, n, cb, all(n)); err != nil {
						t.Fatalf("case %s %s: %v", c.Name, cb, err)
					}
				}
				res.Evaluations++
				ds := compare(c.Family, ref, got)
				if len(ds) == 0 {
					res.Outcome(c.Name + ":same")
					continue
				}
				res.Outcome(c.Name + ":differs")
				rp := replayT{Case: c.Name, N: n, Ref: refCombo, Got: cb}
				for _, d := range ds {
					extra := ""
					if !reported[d.Key] {
						reported[d.Key] = true
						extra = attribute(c, n, ref, refCombo, cb, got, d.Key)
					}
					res.Violate(d.Key, describe(c, rp, d, extra), rp)
				}
			}
			return true
		})
		if stop {
			break
		}
	}
	res.Bounds["case_permutation_pairs"] = ord
	res.Bounds["combinations"] = ord * int64(len(mapAlphabet))
}

// attribute finds out which single dimension suffices to produce the difference, and whether the
// differing combination reproduces in-process.
func attribute(c *caseT, n int, ref *observation, refCombo, cb comboT, got *observation, key string) string {
	var notes []string
	if again, err := observe(c, n, cb, all(n)); err == nil && again.digest() != got.digest() {
		notes = append(notes, "NOT STABLE: the same combination generated again in this process gave other bytes")
	}
	if cb.Const != refCombo.Const {
		if o, err := observe(c, n, comboT{Perm: refCombo.Perm, Const: cb.Const}, all(n)); err == nil && hasKey(compare(c.Family, ref, o), key) {
			notes = append(notes, "the map constant alone (same insertion order) suffices")
		}
	}
	if fmt.Sprint(cb.Perm) != fmt.Sprint(refCombo.Perm) {
		if o, err := observe(c, n, comboT{Perm: cb.Perm, Const: refCombo.Const}, all(n)); err == nil && hasKey(compare(c.Family, ref, o), key) {
			notes = append(notes, "the insertion order alone (same map constant) suffices")
		}
	}
	return strings.Join(notes, "; ")
}

func describe(c *caseT, rp replayT, d diffT, extra string) string {
	b, _ := json.Marshal(insertionOrder(c, rp.N, rp.Got.Perm))
	a, _ := json.Marshal(insertionOrder(c, rp.N, rp.Ref.Perm))
	s := fmt.Sprintf("case %s: reference (insertion %s, map constant %#x) vs (insertion %s, map constant %#x): %s", c.Name, a, rp.Ref.Const, b, rp.Got.Const, d.Desc)
	if extra != "" {
		s += " [" + extra + "]"
	}
	return s
}
