package c17

import (
	"google.golang.org/protobuf/types/known/structpb"
	"google.golang.org/protobuf/types/known/wrapperspb"

	extensions "istio.io/api/extensions/v1alpha1"
	networking "istio.io/api/networking/v1alpha3"
	tpb "istio.io/api/telemetry/v1alpha1"
	typev1beta1 "istio.io/api/type/v1beta1"
	"istio.io/istio/pkg/config"
	"istio.io/istio/pkg/config/schema/gvk"
)

// ---- EnvoyFilter ----

func mustStruct(m map[string]any) *structpb.Struct {
	s, err := structpb.NewStruct(m)
	if err != nil {
		panic(err)
	}
	return s
}

func efPatch(applyTo networking.EnvoyFilter_ApplyTo, match *networking.EnvoyFilter_EnvoyConfigObjectMatch, op networking.EnvoyFilter_Patch_Operation, value map[string]any) *networking.EnvoyFilter_EnvoyConfigObjectPatch {
	p := &networking.EnvoyFilter_EnvoyConfigObjectPatch{ApplyTo: applyTo, Match: match, Patch: &networking.EnvoyFilter_Patch{Operation: op}}
	if value != nil {
		p.Patch.Value = mustStruct(value)
	}
	return p
}

func envoyFilter(ns, name string, selector map[string]string, priority int32, patches ...*networking.EnvoyFilter_EnvoyConfigObjectPatch) config.Config {
	e := &networking.EnvoyFilter{ConfigPatches: patches, Priority: priority}
	if selector != nil {
		e.WorkloadSelector = &networking.WorkloadSelector{Labels: selector}
	}
	return obj(gvk.EnvoyFilter, ns, name, e)
}

// matchHTTPFilter matches the router filter of the HTTP connection manager in the given context.
func matchHTTPFilter(ctx networking.EnvoyFilter_PatchContext, sub string) *networking.EnvoyFilter_EnvoyConfigObjectMatch {
	return &networking.EnvoyFilter_EnvoyConfigObjectMatch{
		Context: ctx,
		ObjectTypes: &networking.EnvoyFilter_EnvoyConfigObjectMatch_Listener{Listener: &networking.EnvoyFilter_ListenerMatch{
			FilterChain: &networking.EnvoyFilter_ListenerMatch_FilterChainMatch{
				Filter: &networking.EnvoyFilter_ListenerMatch_FilterMatch{
					Name:      "envoy.filters.network.http_connection_manager",
					SubFilter: &networking.EnvoyFilter_ListenerMatch_SubFilterMatch{Name: sub},
				},
			},
		}},
	}
}

func matchCluster(ctx networking.EnvoyFilter_PatchContext, service string) *networking.EnvoyFilter_EnvoyConfigObjectMatch {
	return &networking.EnvoyFilter_EnvoyConfigObjectMatch{
		Context:     ctx,
		ObjectTypes: &networking.EnvoyFilter_EnvoyConfigObjectMatch_Cluster{Cluster: &networking.EnvoyFilter_ClusterMatch{Service: service}},
	}
}

func matchListenerCtx(ctx networking.EnvoyFilter_PatchContext) *networking.EnvoyFilter_EnvoyConfigObjectMatch {
	return &networking.EnvoyFilter_EnvoyConfigObjectMatch{Context: ctx}
}

func matchRouteConfig(ctx networking.EnvoyFilter_PatchContext) *networking.EnvoyFilter_EnvoyConfigObjectMatch {
	return &networking.EnvoyFilter_EnvoyConfigObjectMatch{
		Context:     ctx,
		ObjectTypes: &networking.EnvoyFilter_EnvoyConfigObjectMatch_RouteConfiguration{RouteConfiguration: &networking.EnvoyFilter_RouteConfigurationMatch{}},
	}
}

func luaFilter(name, code string) map[string]any {
	return map[string]any{
		"name": name,
		"typed_config": map[string]any{
			"@type":       "type.googleapis.com/envoy.extensions.filters.http.lua.v3.Lua",
			"inline_code": code,
		},
	}
}

// ---- Telemetry ----

func telemetry(ns, name string, selector map[string]string, t *tpb.Telemetry) config.Config {
	if selector != nil {
		t.Selector = &typev1beta1.WorkloadSelector{MatchLabels: selector}
	}
	return obj(gvk.Telemetry, ns, name, t)
}

func provider(name string) []*tpb.ProviderRef { return []*tpb.ProviderRef{{Name: name}} }

func tagUpsert(v string) *tpb.MetricsOverrides_TagOverride {
	return &tpb.MetricsOverrides_TagOverride{Operation: tpb.MetricsOverrides_TagOverride_UPSERT, Value: v}
}

func tagRemove() *tpb.MetricsOverrides_TagOverride {
	return &tpb.MetricsOverrides_TagOverride{Operation: tpb.MetricsOverrides_TagOverride_REMOVE}
}

func metricMatch(m tpb.MetricSelector_IstioMetric, mode tpb.WorkloadMode) *tpb.MetricSelector {
	return &tpb.MetricSelector{MetricMatch: &tpb.MetricSelector_Metric{Metric: m}, Mode: mode}
}

func litTag(v string) *tpb.Tracing_CustomTag {
	return &tpb.Tracing_CustomTag{Type: &tpb.Tracing_CustomTag_Literal{Literal: &tpb.Tracing_Literal{Value: v}}}
}

func hdrTag(h string) *tpb.Tracing_CustomTag {
	return &tpb.Tracing_CustomTag{Type: &tpb.Tracing_CustomTag_Header{Header: &tpb.Tracing_RequestHeader{Name: h, DefaultValue: "none"}}}
}

// ---- TrafficExtension (the kind the push context reads; WasmPlugin objects are converted to it by a
// controller that is not part of this environment) ----

func trafficExt(ns, name string, selector map[string]string, phase extensions.TrafficExtension_ExecutionPhase, prio int32, cfg map[string]any, lua string) config.Config {
	w := &extensions.TrafficExtension{Phase: phase, Priority: wrapperspb.Int32(prio)}
	if lua != "" {
		w.FilterConfig = &extensions.TrafficExtension_Lua{Lua: &extensions.LuaConfig{InlineCode: lua}}
	} else {
		wc := &extensions.WasmConfig{Url: "oci://registry.example/" + name + ":v1"}
		if cfg != nil {
			wc.PluginConfig = mustStruct(cfg)
		}
		w.FilterConfig = &extensions.TrafficExtension_Wasm{Wasm: wc}
	}
	if selector != nil {
		w.Selector = &typev1beta1.WorkloadSelector{MatchLabels: selector}
	}
	return obj(gvk.TrafficExtension, ns, name, w)
}
