package c17

import (
	"fmt"

	"google.golang.org/protobuf/types/known/durationpb"

	meshconfig "istio.io/api/mesh/v1alpha1"
	networking "istio.io/api/networking/v1alpha3"
	security "istio.io/api/security/v1beta1"
	"istio.io/istio/pilot/pkg/model"
	registryprovider "istio.io/istio/pilot/pkg/serviceregistry/provider"
	"istio.io/istio/pkg/config"
	"istio.io/istio/pkg/config/protocol"
)

func moreCases() []*caseT {
	var cs []*caseT
	add := func(family, variant string, build func() (base, objs cfgs)) *caseT {
		c := &caseT{Name: family + "/" + variant, Family: family, Build: build}
		cs = append(cs, c)
		return c
	}

	// ---------------------------------------------------------------- opaque ports without a VIP: first service wins

	// Several services of equal age on one TCP / TLS port without an address of their own: they share the
	// wildcard listener (TCP: one of them owns it; TLS: one filter chain per SNI host).
	add("se-same-port", "tcp-and-tls-without-vip", func() (cfgs, cfgs) {
		base := cfgs{selfSE()}
		mk := func(ns, name, host, ip string, ports ...*networking.ServicePort) config.Config {
			return se(ns, name, []string{host}, ports, []*networking.WorkloadEntry{ep(ip, "r1/z1/s1", kv("from", name))})
		}
		return base, cfgs{
			mk("ns1", "tcp-b", "tcp-b.example.com", "10.31.0.2", port(9000, "tcp", "TCP"), port(443, "tls", "TLS")),
			mk("ns1", "tcp-a", "tcp-a.example.com", "10.31.0.1", port(9000, "tcp", "TCP"), port(443, "tls", "TLS")),
			mk("ns2", "tcp-c", "tcp-c.example.com", "10.31.0.3", port(9000, "mysql", "MySQL"), port(443, "https", "HTTPS")),
			mk("ns1", "http-d", "http-d.example.com", "10.31.0.4", port(9000, "http", "HTTP"), port(443, "tls", "TLS")),
			mk("ns3", "tcp-e", "tcp-e.example.com", "10.31.0.5", port(9000, "tcp", "TCP")),
		}
	})
	// The same with addresses: exact VIPs, a shared VIP and CIDR ranges.
	add("se-same-port", "tcp-with-addresses", func() (cfgs, cfgs) {
		base := cfgs{selfSE()}
		mk := func(ns, name, host string, addrs []string, res networking.ServiceEntry_Resolution) config.Config {
			return se(ns, name, []string{host}, []*networking.ServicePort{port(9000, "tcp", "TCP"), port(9001, "tcp2", "TCP")},
				[]*networking.WorkloadEntry{ep("10.32.0."+name[len(name)-1:], "r1/z1/s1", kv("from", name))},
				func(s *networking.ServiceEntry) {
					s.Addresses = addrs
					s.Resolution = res
					if res == networking.ServiceEntry_NONE {
						s.Endpoints = nil
					}
				})
		}
		return base, cfgs{
			mk("ns1", "vip-2", "vip-b.example.com", []string{"240.1.0.2", "240.1.0.9"}, networking.ServiceEntry_STATIC),
			mk("ns1", "vip-1", "vip-a.example.com", []string{"240.1.0.9", "240.1.0.1"}, networking.ServiceEntry_STATIC),
			mk("ns1", "cidr-3", "cidr-a.example.com", []string{"240.2.0.0/16", "240.3.0.0/24"}, networking.ServiceEntry_NONE),
			mk("ns2", "cidr-4", "cidr-b.example.com", []string{"240.2.0.0/16"}, networking.ServiceEntry_NONE),
			mk("ns1", "vip-5", "vip-c.example.com", []string{"240.1.0.2"}, networking.ServiceEntry_STATIC),
		}
	})

	// ---------------------------------------------------------------- maps with more than eight entries

	// Ten hosts x ten ports in the fixed part: the service, listener and cluster maps have more than
	// eight entries (several groups; the hash seed decides the order, not only the start offset).
	add("large-maps", "ten-hosts-ten-ports", func() (cfgs, cfgs) {
		var hosts []string
		for i := 0; i < 10; i++ {
			hosts = append(hosts, fmt.Sprintf("big-%c.example.net", 'j'-i))
		}
		var ports []*networking.ServicePort
		for i := 0; i < 10; i++ {
			ports = append(ports, port(uint32(7000+(i*7)%10), fmt.Sprintf("http-%d", i), "HTTP"))
		}
		var eps []*networking.WorkloadEntry
		for i := 0; i < 10; i++ {
			eps = append(eps, ep(fmt.Sprintf("10.33.0.%d", 10-i), []string{"r1/z1/s1", "r2/z1/s1", "r1/z2/s1"}[i%3], kv("version", fmt.Sprintf("v%d", i%3))))
		}
		base := cfgs{selfSE(), gw("istio-system", "gw1", server(80, "http", "HTTP", "*")), se("ns1", "big", hosts, ports, eps)}
		m := &networking.HTTPMatchRequest{Headers: map[string]*networking.StringMatch{}, QueryParams: map[string]*networking.StringMatch{}}
		for i := 0; i < 10; i++ {
			m.Headers[fmt.Sprintf("x-%c", 'j'-i)] = exact("1")
			m.QueryParams[fmt.Sprintf("q-%c", 'j'-i)] = exact("1")
		}
		var subsets []*networking.Subset
		for i := 0; i < 10; i++ {
			subsets = append(subsets, subset(fmt.Sprintf("s%c", 'j'-i), kv("version", fmt.Sprintf("v%d", i%3)), nil))
		}
		return base, cfgs{
			vs("ns1", "big", []string{"*.example.net"}, []string{"mesh", "istio-system/gw1"}, httpRoute("m", []*networking.HTTPMatchRequest{m}, dst(hosts[3], 7000, "", 0)), httpRoute("rest", nil, dst(hosts[0], 7000, "", 0))),
			dr("ns1", "big", "*.example.net", tpConn(3), subsets),
			vs("ns1", "big-one", []string{hosts[5]}, nil, httpRoute("one", nil, dst(hosts[5], 7001, "", 0))),
			dr("ns1", "big-one", hosts[5], tpConn(4), subsets[:2]),
			sidecar("ns1", "default", nil, egress("*/*")),
		}
	})

	// ---------------------------------------------------------------- inbound side

	// Several services of equal age select the proxy on the same target port.
	add("inbound-same-port", "three-services", func() (cfgs, cfgs) {
		mk := func(name, host string, ports ...*networking.ServicePort) config.Config {
			return se("ns1", name, []string{host}, ports, []*networking.WorkloadEntry{ep("10.1.1.1", "r1/z1/s1", kv("app", "a", "version", "v1"))})
		}
		tp := func(n, target uint32, name, proto string) *networking.ServicePort {
			return &networking.ServicePort{Number: n, Name: name, Protocol: proto, TargetPort: target}
		}
		base := cfgs{svc("ns1", "h1", h1, "10.10.1")}
		return base, cfgs{
			mk("in-b", "in-b.ns1.example", tp(80, 8080, "http", "HTTP"), tp(9000, 9090, "tcp", "TCP")),
			mk("in-a", "in-a.ns1.example", tp(81, 8080, "http", "HTTP"), tp(9001, 9090, "tcp", "TCP")),
			mk("in-c", "in-c.ns1.example", tp(82, 8080, "grpc", "GRPC"), tp(7000, 7070, "http-x", "HTTP")),
			mk("in-d", "in-d.ns1.example", tp(83, 8080, "tcp", "TCP")),
			pa("ns1", "wl", kv("app", "a"), 1),
		}
	})
	// Sidecar ingress listeners next to service ports.
	add("sidecar-ingress", "listeners", func() (cfgs, cfgs) {
		ing := func(n uint32, name, proto, ep string) *networking.IstioIngressListener {
			return &networking.IstioIngressListener{Port: &networking.SidecarPort{Number: n, Name: name, Protocol: proto}, DefaultEndpoint: ep}
		}
		mk := func(name string, sel map[string]string, l ...*networking.IstioIngressListener) config.Config {
			c := sidecar("ns1", name, sel, egress("*/*"))
			c.Spec.(*networking.Sidecar).Ingress = l
			return c
		}
		base := cfgs{selfSE()}
		return base, cfgs{
			mk("ingress-b", kv("app", "a"), ing(9443, "tcp-b", "TCP", "127.0.0.1:9443"), ing(8080, "http", "HTTP", "127.0.0.1:18080"), ing(7070, "http-c", "HTTP", "0.0.0.0:7070")),
			mk("ingress-a", kv("app", "a"), ing(8080, "http", "HTTP", "127.0.0.1:28080"), ing(6060, "grpc", "GRPC", "127.0.0.1:6060")),
			se("ns1", "extra", []string{"extra.ns1.example"}, []*networking.ServicePort{port(7070, "http", "HTTP"), port(5050, "tcp", "TCP")},
				[]*networking.WorkloadEntry{ep("10.1.1.1", "r1/z1/s1", kv("app", "a"))}, seAddr("240.0.0.2")),
			mk("ingress-ns", nil, ing(4040, "http", "HTTP", "127.0.0.1:4040")),
			pa("ns1", "wl", kv("app", "a"), 1, 8080, 3, 9443, 2),
		}
	})

	// ---------------------------------------------------------------- visibility ties

	add("export-to", "services-rules-routes", func() (cfgs, cfgs) {
		base := cfgs{selfSE()}
		return base, cfgs{
			svc("ns3", "h1-private", h1, "10.10.1", seExport("ns1")),
			svc("ns4", "h1-public", h1, "10.10.2", seExport("*")),
			func() config.Config {
				c := vs("ns3", "h1", []string{h1}, nil, httpRoute("ns3", uriPrefix("/ns3"), dst(h1, 80, "", 0)))
				vsSpec(c).ExportTo = []string{"ns1", "ns2"}
				return c
			}(),
			dr("ns4", "h1", h1, tpConn(4), nil, drExport("ns2", "ns1")),
			svc("ns5", "h1-ns2", h1, "10.10.3", seExport("ns2", ".")),
		}
	})
	// Source-scoped matches: sourceLabels, sourceNamespace, gateways inside a match.
	add("vs-source-match", "labels-namespace-gateways", func() (cfgs, cfgs) {
		base := cfgs{selfSE(), gw1(), svc("ns1", "h1", h1, "10.10.1"), svc("ns1", "h2", h2, "10.10.2")}
		both := []string{"mesh", "istio-system/gw1"}
		mk := func(ns, name, host string) config.Config {
			return vs(ns, name, []string{host}, both,
				httpRoute("labels", []*networking.HTTPMatchRequest{{SourceLabels: kv("version", "v1", "app", "a"), Uri: prefix("/l")}}, dst(h1, 80, "", 0)),
				httpRoute("ns", []*networking.HTTPMatchRequest{{SourceNamespace: "ns2", Uri: prefix("/n")}, {SourceNamespace: "ns1", Uri: prefix("/m")}}, dst(h2, 80, "", 0)),
				httpRoute("gw", []*networking.HTTPMatchRequest{{Gateways: []string{"istio-system/gw1"}, Uri: prefix("/g")}, {Gateways: []string{"mesh"}, Uri: prefix("/s")}}, dst(h1, 80, "", 0)),
				httpRoute("rest", nil, dst(h2, 80, "", 0)))
		}
		return base, cfgs{
			mk("ns1", "src-b", h1),
			mk("ns1", "src-a", h2),
			mk("ns2", "src-c", h1),
			mk("ns1", "src-d", h1),
			mk("istio-system", "src-e", h2),
		}
	})
	// Consistent-hash load balancing: the hash policy of a route comes from the destination's rule.
	add("dr-consistent-hash", "cookie-header-query", func() (cfgs, cfgs) {
		hash := func(k *networking.LoadBalancerSettings_ConsistentHashLB) *networking.TrafficPolicy {
			return &networking.TrafficPolicy{LoadBalancer: &networking.LoadBalancerSettings{LbPolicy: &networking.LoadBalancerSettings_ConsistentHash{ConsistentHash: k}}}
		}
		cookie := &networking.LoadBalancerSettings_ConsistentHashLB{HashKey: &networking.LoadBalancerSettings_ConsistentHashLB_HttpCookie{
			HttpCookie: &networking.LoadBalancerSettings_ConsistentHashLB_HTTPCookie{Name: "session", Ttl: durationpb.New(60e9), Path: "/"},
		}}
		header := &networking.LoadBalancerSettings_ConsistentHashLB{HashKey: &networking.LoadBalancerSettings_ConsistentHashLB_HttpHeaderName{HttpHeaderName: "x-user"}}
		query := &networking.LoadBalancerSettings_ConsistentHashLB{HashKey: &networking.LoadBalancerSettings_ConsistentHashLB_HttpQueryParameterName{HttpQueryParameterName: "user"}}
		base := cfgs{selfSE(), gw1(), svc("ns1", "h1", h1, "10.10.1"), svc("ns1", "h2", h2, "10.10.2")}
		return base, cfgs{
			dr("ns1", "hash-b", h1, hash(cookie), []*networking.Subset{subset("v1", kv("version", "v1"), hash(header)), subset("v2", kv("version", "v2"), nil)}),
			dr("ns1", "hash-a", h1, hash(query), []*networking.Subset{subset("v3", kv("version", "v3"), hash(cookie))}),
			vs("ns1", "hash", []string{h1, "www.example.com"}, []string{"mesh", "istio-system/gw1"},
				httpRoute("w", nil, dst(h1, 80, "v1", 50), dst(h1, 80, "v2", 25), dst(h2, 80, "", 25))),
			dr("ns1", "hash-h2", h2, hash(header), nil),
			dr("istio-system", "hash-root", "*.example.com", hash(query), nil),
		}
	})

	// ---------------------------------------------------------------- gateway: every service through one server

	add("gateway-auto-passthrough", "sni-dnat", func() (cfgs, cfgs) {
		ap := func(ns, name string, n uint32, hosts ...string) config.Config {
			s := server(n, "tls-"+name, "TLS", hosts...)
			s.Tls = &networking.ServerTLSSettings{Mode: networking.ServerTLSSettings_AUTO_PASSTHROUGH}
			return gw(ns, name, s)
		}
		base := cfgs{selfSE(), svc("ns1", "h1", h1, "10.10.1"), svc("ns2", "h2", h2, "10.10.2")}
		return base, cfgs{
			ap("istio-system", "east-west-b", 15443, "*.example.com"),
			ap("istio-system", "east-west-a", 15443, "*"),
			dr("ns1", "h1", h1, nil, []*networking.Subset{subset("v2", kv("version", "v2"), nil), subset("v1", kv("version", "v1"), nil)}),
			svc("ns3", "h3", h3, "10.10.3"),
			ap("ns1", "east-west-c", 15444, "ns1/*"),
		}
	})

	// ---------------------------------------------------------------- headless TCP: one listener / filter chain per endpoint

	add("headless-tcp", "workload-entries", func() (cfgs, cfgs) {
		host := "headless.ns1.example"
		base := cfgs{
			selfSE(),
			se("ns1", "headless", []string{host}, []*networking.ServicePort{port(9000, "tcp", "TCP"), port(80, "http", "HTTP")}, nil,
				seSelector(kv("app", "hl")), func(s *networking.ServiceEntry) { s.Resolution = networking.ServiceEntry_NONE }),
		}
		return base, cfgs{
			we("ns1", "hl-d", "10.8.0.4", "r2/z1/s1", 0, kv("app", "hl")),
			we("ns1", "hl-a", "10.8.0.1", "r1/z1/s1", 0, kv("app", "hl")),
			we("ns1", "hl-c", "10.8.0.3", "r1/z2/s1", 0, kv("app", "hl")),
			we("ns1", "hl-b", "10.8.0.2", "r1/z1/s1", 0, kv("app", "hl")),
			we("ns2", "hl-other-namespace", "10.8.0.5", "r1/z1/s1", 0, kv("app", "hl")),
		}
	})

	// ---------------------------------------------------------------- Sidecar with exact, namespaced egress hosts only

	// The fast path of the sidecar scope (every egress host is "namespace/exact-host"): one host imported
	// from several namespaces, none of them the Sidecar's own, all services of equal age.
	add("sidecar-exact-hosts", "same-host-three-namespaces", func() (cfgs, cfgs) {
		shared := "shared.example.com"
		base := cfgs{selfSE()}
		mk := func(ns, ip string, ports ...*networking.ServicePort) config.Config {
			return se(ns, "shared", []string{shared}, ports, []*networking.WorkloadEntry{ep(ip, "r1/z1/s1", kv("from", ns))})
		}
		return base, cfgs{
			mk("ns3", "10.30.0.3", port(80, "http", "HTTP")),
			mk("ns2", "10.20.0.2", port(80, "http", "HTTP"), port(8080, "http-b", "HTTP")),
			sidecar("ns1", "default", nil, egress("ns3/"+shared, "ns4/"+shared, "ns2/"+shared, "ns1/"+selfHost)),
			mk("ns4", "10.40.0.4", port(80, "http", "HTTP"), port(443, "tls", "TLS")),
			dr("ns3", "shared", shared, tpConn(3), []*networking.Subset{subset("v1", kv("from", "ns3"), nil)}),
		}
	})
	// The same with two hosts, each in two namespaces, and an egress listener with a port.
	add("sidecar-exact-hosts", "two-hosts-port-listener", func() (cfgs, cfgs) {
		base := cfgs{selfSE()}
		return base, cfgs{
			svc("ns3", "h1", h1, "10.10.3"),
			svc("ns2", "h1", h1, "10.10.2"),
			func() config.Config {
				c := sidecar("ns1", "default", nil,
					egressPort(80, "http", "HTTP", "ns3/"+h1, "ns2/"+h1, "ns3/"+h2, "ns2/"+h2),
					egress("ns2/"+h2, "ns3/"+h2, "ns2/"+h1, "ns3/"+h1))
				return c
			}(),
			svc("ns2", "h2", h2, "10.20.2"),
			svc("ns3", "h2", h2, "10.20.3"),
		}
	})

	// ---------------------------------------------------------------- history: an object deleted after the first push

	// Four EnvoyFilters of one namespace, priority and age insert a filter at the same place and merge the same
	// cluster field; one of them is deleted after the first push context, the next one is derived incrementally.
	efIns := func(ns, name string, sel map[string]string) config.Config {
		return envoyFilter(ns, name, sel, 0,
			efPatch(networking.EnvoyFilter_HTTP_FILTER, matchHTTPFilter(networking.EnvoyFilter_ANY, "envoy.filters.http.router"), networking.EnvoyFilter_Patch_INSERT_BEFORE, luaFilter("lua-"+ns+"-"+name, "-- "+name)),
			efPatch(networking.EnvoyFilter_CLUSTER, matchCluster(networking.EnvoyFilter_ANY, h1), networking.EnvoyFilter_Patch_MERGE, map[string]any{"alt_stat_name": ns + "-" + name}),
		)
	}
	add("incremental-delete", "envoyfilters-one-namespace", func() (cfgs, cfgs) {
		base := cfgs{selfSE(), gw1(), svc("ns1", "h1", h1, "10.10.1"), vs("ns1", "www", []string{"www.example.com"}, gw1Ref, httpRoute("r", nil, dst(h1, 80, "", 0)))}
		return base, cfgs{
			efIns("ns1", "ef-c", nil),
			efIns("ns1", "ef-a", nil),
			efIns("ns1", "ef-d-deleted", nil),
			efIns("ns1", "ef-b", kv("app", "a")),
			efIns("ns1", "ef-e", nil),
		}
	}).Churn = []string{"EnvoyFilter/ns1/ef-d-deleted"}
	add("incremental-delete", "envoyfilters-root-namespace", func() (cfgs, cfgs) {
		base := cfgs{selfSE(), gw1(), svc("ns1", "h1", h1, "10.10.1"), vs("ns1", "www", []string{"www.example.com"}, gw1Ref, httpRoute("r", nil, dst(h1, 80, "", 0)))}
		return base, cfgs{
			efIns("istio-system", "root-c", nil),
			efIns("istio-system", "root-a-deleted", nil),
			efIns("istio-system", "root-b", nil),
			efIns("ns1", "ns-a", nil),
			efIns("istio-system", "root-d", kv("istio", "ingressgateway")),
		}
	}).Churn = []string{"EnvoyFilter/istio-system/root-a-deleted"}
	// The same history for kinds with merge / precedence rules: DestinationRules of one host, PeerAuthentications.
	add("incremental-delete", "destinationrules-and-peerauthentications", func() (cfgs, cfgs) {
		base := cfgs{selfSE(), svc("ns1", "h1", h1, "10.10.1")}
		return base, cfgs{
			dr("ns1", "dr-c", h1, tpConn(3), []*networking.Subset{subset("v3", kv("version", "v3"), nil)}),
			dr("ns1", "dr-a-deleted", h1, tpConn(1), []*networking.Subset{subset("v1", kv("version", "v1"), nil)}),
			dr("ns1", "dr-b", h1, tpConn(2), []*networking.Subset{subset("v2", kv("version", "v2"), nil), subset("v3", kv("version", "v3", "x", "y"), nil)}),
			pa("ns1", "pa-a-deleted", kv("app", "a"), 1),
			pa("ns1", "pa-b", kv("app", "a"), 3, 8080, 2),
		}
	}).Churn = []string{"DestinationRule/ns1/dr-a-deleted", "PeerAuthentication/ns1/pa-a-deleted"}

	// ---------------------------------------------------------------- EnvoyFilter MERGE on filter configs that contain proto maps

	// jwt_authn (providers / requirement_map: one entry per issuer) and RBAC (policies: one entry per rule) are
	// re-packed by the MERGE operation: the bytes of the typed_config must not depend on map iteration order.
	add("envoyfilter-merge-map-config", "jwt-and-rbac", func() (cfgs, cfgs) {
		base := cfgs{selfSE(), gw1(), svc("ns1", "h1", h1, "10.10.1"), vs("ns1", "www", []string{"www.example.com"}, gw1Ref, httpRoute("r", nil, dst(h1, 80, "", 0)))}
		merge := func(ns, name, filter, typ string, fields map[string]any) config.Config {
			tc := map[string]any{"@type": "type.googleapis.com/" + typ}
			for k, v := range fields {
				tc[k] = v
			}
			return envoyFilter(ns, name, nil, 0, efPatch(networking.EnvoyFilter_HTTP_FILTER, matchHTTPFilter(networking.EnvoyFilter_ANY, filter),
				networking.EnvoyFilter_Patch_MERGE, map[string]any{"name": filter, "typed_config": tc}))
		}
		var rules []*security.JWTRule
		for _, iss := range []string{"issuer-d", "issuer-a", "issuer-e", "issuer-c", "issuer-b"} {
			rules = append(rules, &security.JWTRule{Issuer: iss, Jwks: jwks})
		}
		return base, cfgs{
			requestAuthn("istio-system", "jwt", nil, rules...),
			merge("istio-system", "merge-jwt", "envoy.filters.http.jwt_authn", "envoy.extensions.filters.http.jwt_authn.v3.JwtAuthentication", map[string]any{"bypass_cors_preflight": true}),
			authz("istio-system", "allow", nil, security.AuthorizationPolicy_ALLOW,
				rule([]*security.Rule_From{fromNamespaces("ns2")}, []*security.Rule_To{toOp([]string{"GET"}, nil, nil)}),
				rule([]*security.Rule_From{fromNamespaces("ns3")}, []*security.Rule_To{toOp([]string{"POST"}, nil, nil)}),
				rule([]*security.Rule_From{fromNamespaces("ns4")}, nil),
				rule(nil, []*security.Rule_To{toOp(nil, []string{"/public"}, nil)})),
			merge("istio-system", "merge-rbac", "envoy.filters.http.rbac", "envoy.extensions.filters.http.rbac.v3.RBAC", map[string]any{"shadow_rules_stat_prefix": "merged_"}),
			authz("ns1", "allow-ns1", kv("app", "a"), security.AuthorizationPolicy_ALLOW, rule([]*security.Rule_From{fromNamespaces("ns5")}, nil)),
		}
	})

	// ---------------------------------------------------------------- two registries

	regBuild := func() (cfgs, cfgs) {
		base := cfgs{selfSE(), gw1()}
		k8sHost := "k8s.ns1.svc.cluster.local"
		return base, cfgs{
			se("ns1", "squat-b", []string{k8sHost}, []*networking.ServicePort{port(80, "http", "HTTP"), port(8080, "http-b", "HTTP")}, []*networking.WorkloadEntry{ep("10.34.0.2", "r2/z1/s1", kv("from", "squat-b"))}),
			se("ns2", "squat-a", []string{k8sHost}, []*networking.ServicePort{port(80, "http", "HTTP")}, []*networking.WorkloadEntry{ep("10.34.0.1", "r1/z1/s1", kv("from", "squat-a"))}),
			vs("ns1", "k8s", []string{k8sHost, "www.example.com"}, []string{"mesh", "istio-system/gw1"}, httpRoute("r", nil, dst(k8sHost, 80, "", 0))),
			dr("ns1", "k8s", k8sHost, tpConn(5), []*networking.Subset{subset("v1", kv("version", "v1"), nil)}),
			se("ns1", "mock-host", []string{"mock.ns2.example"}, []*networking.ServicePort{port(80, "http", "HTTP")}, []*networking.WorkloadEntry{ep("10.34.0.3", "r1/z1/s1", nil)}),
		}
	}
	regRegistry := func() ([]*model.Service, []*model.ServiceInstance) {
		mk := func(hostname, ns, name, vip string, prov registryprovider.ID) *model.Service {
			return &model.Service{
				Hostname: hostNameOf(hostname), DefaultAddress: vip, CreationTime: t0, Resolution: model.ClientSideLB,
				Ports:      model.PortList{{Name: "http", Port: 80, Protocol: protocol.HTTP}, {Name: "tcp", Port: 9000, Protocol: protocol.TCP}},
				Attributes: model.ServiceAttributes{Name: name, Namespace: ns, ServiceRegistry: prov},
			}
		}
		k8s := mk("k8s.ns1.svc.cluster.local", "ns1", "k8s", "10.100.0.1", registryprovider.Kubernetes)
		mock := mk("mock.ns2.example", "ns2", "mock", "10.100.0.2", registryprovider.Mock)
		var inst []*model.ServiceInstance
		for _, s := range []*model.Service{k8s, mock} {
			for i, loc := range []string{"r2/z1/s1", "r1/z1/s1", "r1/z2/s1"} {
				for _, p := range s.Ports {
					inst = append(inst, &model.ServiceInstance{Service: s, ServicePort: p, Endpoint: &model.IstioEndpoint{
						Addresses: []string{fmt.Sprintf("10.7.%d.%d", len(s.Attributes.Name), 3-i)}, EndpointPort: uint32(p.Port + 1000), ServicePortName: p.Name,
						Locality: model.Locality{Label: loc}, Labels: kv("version", fmt.Sprintf("v%d", i+1)), Namespace: s.Attributes.Namespace,
					}})
				}
			}
		}
		return []*model.Service{k8s, mock}, inst
	}
	add("two-registries", "memory-and-serviceentry", regBuild).Registry = regRegistry
	// The same with the doubly registered host declared cluster-local: EDS takes only the shards of the
	// proxy's own cluster, of which there are two (memory registry and ServiceEntry registry, one cluster id),
	// with endpoints of both in one locality.
	local := add("two-registries", "cluster-local", regBuild)
	local.Registry = regRegistry
	local.Mesh = func(m *meshconfig.MeshConfig) {
		m.ServiceSettings = append(m.ServiceSettings, &meshconfig.MeshConfig_ServiceSettings{
			Settings: &meshconfig.MeshConfig_ServiceSettings_Settings{ClusterLocal: true},
			Hosts:    []string{"k8s.ns1.svc.cluster.local", "mock.ns2.example"},
		})
	}
	return cs
}
