package c17

import (
	"google.golang.org/protobuf/types/known/durationpb"
	"google.golang.org/protobuf/types/known/wrapperspb"

	extensions "istio.io/api/extensions/v1alpha1"
	meshconfig "istio.io/api/mesh/v1alpha1"
	networking "istio.io/api/networking/v1alpha3"
	security "istio.io/api/security/v1beta1"
	tpb "istio.io/api/telemetry/v1alpha1"
	"istio.io/istio/pkg/config"
	"istio.io/istio/pkg/config/schema/gvk"
)

const (
	selfHost = "a.ns1.example"
	h1       = "h1.example.com"
	h2       = "h2.example.com"
	h3       = "h3.example.com"
	jwks     = `{ "keys": [ { "kid": "k1", "alg": "RS256", "kty": "RSA", "n": "abc", "e": "def" } ] }`
)

type cfgs = []config.Config

// selfSE makes sidecar-ns1 (10.1.1.1, app=a) an instance of a service with an HTTP and a TCP port, so
// it has inbound listeners and clusters.
func selfSE() config.Config {
	return se("ns1", "self", []string{selfHost},
		[]*networking.ServicePort{port(8080, "http", "HTTP"), port(9090, "tcp", "TCP")},
		[]*networking.WorkloadEntry{ep("10.1.1.1", "r1/z1/s1", kv("app", "a", "version", "v1"))},
		seAddr("240.0.0.1"))
}

// svc is a plain HTTP service on port 80 with endpoints of three versions in three localities.
func svc(ns, name, host, ipPrefix string, mod ...func(*networking.ServiceEntry)) config.Config {
	return se(ns, name, []string{host},
		[]*networking.ServicePort{port(80, "http", "HTTP")},
		[]*networking.WorkloadEntry{
			ep(ipPrefix+".3", "r2/z1/s1", kv("version", "v3")),
			ep(ipPrefix+".1", "r1/z1/s1", kv("version", "v1")),
			ep(ipPrefix+".2", "r1/z2/s1", kv("version", "v2")),
		}, mod...)
}

func gw1() config.Config {
	return gw("istio-system", "gw1", server(80, "http", "HTTP", "*.example.com"))
}

var gw1Ref = []string{"istio-system/gw1"}

func allCases() []*caseT {
	var cs []*caseT
	add := func(family, variant string, build func() (base, objs cfgs)) *caseT {
		c := &caseT{Name: family + "/" + variant, Family: family, Build: build}
		cs = append(cs, c)
		return c
	}

	// ---------------------------------------------------------------- VirtualServices claiming one host

	// Several VirtualServices of equal age claim one host on the sidecar path: one wins.
	add("vs-same-host-sidecar", "mesh", func() (cfgs, cfgs) {
		base := cfgs{selfSE(), svc("ns1", "h1", h1, "10.10.1"), svc("ns1", "h2", h2, "10.10.2")}
		return base, cfgs{
			vs("ns1", "vs-b", []string{h1}, nil, httpRoute("b", nil, dst(h2, 80, "", 0))),
			vs("ns1", "vs-a", []string{h1}, nil, httpRoute("a", uriPrefix("/a"), dst(h1, 80, "", 0))),
			vs("ns2", "vs-a", []string{h1}, nil, httpRoute("ns2a", uriPrefix("/ns2"), dst(h1, 80, "", 0))),
			vs("istio-system", "vs-c", []string{h1, h2}, nil, httpRoute("c", uriPrefix("/c"), dst(h2, 80, "", 0))),
			vs("ns1", "vs-c", []string{h2, h1}, nil, httpRoute("c1", uriPrefix("/c1"), dst(h1, 80, "", 0))),
		}
	})
	// The same with the services living in another namespace than the proxies' VirtualServices.
	add("vs-same-host-sidecar", "other-namespaces", func() (cfgs, cfgs) {
		base := cfgs{selfSE(), svc("ns3", "h1", h1, "10.10.1"), svc("ns3", "h2", h2, "10.10.2")}
		return base, cfgs{
			vs("ns3", "x", []string{h1}, nil, httpRoute("x3", uriPrefix("/x3"), dst(h1, 80, "", 0))),
			vs("ns2", "x", []string{h1}, nil, httpRoute("x2", uriPrefix("/x2"), dst(h2, 80, "", 0))),
			vs("ns4", "x", []string{h1}, nil, httpRoute("x4", uriPrefix("/x4"), dst(h1, 80, "", 0))),
			vs("ns1", "x", []string{h1}, nil, httpRoute("x1", uriPrefix("/x1"), dst(h2, 80, "", 0))),
			vs("istio-system", "x", []string{h1}, nil, httpRoute("xs", uriPrefix("/xs"), dst(h1, 80, "", 0))),
		}
	})
	// Gateway path: routes of all VirtualServices bound to one gateway host are merged.
	add("vs-same-host-gateway", "merge", func() (cfgs, cfgs) {
		base := cfgs{selfSE(), gw1(), svc("ns1", "h1", h1, "10.10.1"), svc("ns1", "h2", h2, "10.10.2")}
		return base, cfgs{
			vs("ns1", "r-b", []string{"www.example.com"}, gw1Ref, httpRoute("b", uriPrefix("/b"), dst(h1, 80, "", 0))),
			vs("ns1", "r-a", []string{"www.example.com"}, gw1Ref, httpRoute("a", uriPrefix("/a"), dst(h2, 80, "", 0))),
			vs("ns2", "r-a", []string{"www.example.com"}, gw1Ref, httpRoute("ns2", nil, dst(h1, 80, "", 0))),
			vs("istio-system", "r-c", []string{"www.example.com", "api.example.com"}, gw1Ref, httpRoute("c", uriPrefix("/c"), dst(h2, 80, "", 0))),
			vs("ns1", "r-d", []string{"*.example.com"}, gw1Ref, httpRoute("d", uriPrefix("/d"), dst(h1, 80, "", 0))),
		}
	})
	// Overlapping wildcard hosts: most specific wins, order of virtual hosts.
	add("vs-wildcard-overlap", "sidecar-and-gateway", func() (cfgs, cfgs) {
		both := []string{"mesh", "istio-system/gw1"}
		base := cfgs{
			selfSE(), gw("istio-system", "gw1", server(80, "http", "HTTP", "*")),
			svc("ns1", "h1", h1, "10.10.1"), svc("ns1", "h2", h2, "10.10.2"), svc("ns1", "org", "svc.example.org", "10.10.3"),
		}
		return base, cfgs{
			vs("ns1", "w-com", []string{"*.com"}, both, httpRoute("com", nil, dst(h2, 80, "", 0))),
			vs("ns1", "w-example", []string{"*.example.com"}, both, httpRoute("example", nil, dst(h1, 80, "", 0))),
			vs("ns1", "w-exact", []string{h1}, both, httpRoute("exact", nil, dst(h1, 80, "", 0))),
			vs("ns1", "w-two", []string{"*.example.org", h2}, both, httpRoute("two", nil, dst(h2, 80, "", 0))),
			vs("ns1", "w-dup", []string{"*.example.com"}, both, httpRoute("dup", nil, dst(h2, 80, "", 0))),
		}
	})
	// Delegation: a root and delegates of equal age.
	add("vs-delegate", "root-and-delegates", func() (cfgs, cfgs) {
		base := cfgs{selfSE(), gw1(), svc("ns1", "h1", h1, "10.10.1"), svc("ns1", "h2", h2, "10.10.2")}
		root := vs("istio-system", "root", []string{"www.example.com"}, gw1Ref,
			&networking.HTTPRoute{Name: "to-a", Match: uriPrefix("/a"), Delegate: &networking.Delegate{Name: "del-a", Namespace: "ns1"}},
			&networking.HTTPRoute{Name: "to-b", Match: uriPrefix("/b"), Delegate: &networking.Delegate{Name: "del-b", Namespace: "ns1"}},
			httpRoute("rest", nil, dst(h1, 80, "", 0)))
		root2 := vs("istio-system", "root2", []string{"api.example.com"}, gw1Ref,
			&networking.HTTPRoute{Name: "to-a", Match: uriPrefix("/a"), Delegate: &networking.Delegate{Name: "del-a", Namespace: "ns1"}})
		return base, cfgs{
			vs("ns1", "del-b", nil, nil, httpRoute("b1", uriPrefix("/b/1"), dst(h2, 80, "", 0)), httpRoute("b2", uriPrefix("/b/2"), dst(h1, 80, "", 0))),
			root,
			vs("ns1", "del-a", nil, nil, httpRoute("a1", []*networking.HTTPMatchRequest{{Uri: prefix("/a/1"), Headers: map[string]*networking.StringMatch{"x-b": exact("1"), "x-a": exact("2")}}}, dst(h1, 80, "", 0))),
			root2,
			vs("ns1", "plain", []string{"www.example.com"}, gw1Ref, httpRoute("p", uriPrefix("/p"), dst(h2, 80, "", 0))),
		}
	})

	// ---------------------------------------------------------------- maps inside a match / a route

	richMatch := func() *networking.HTTPMatchRequest {
		m := &networking.HTTPMatchRequest{
			Uri:            prefix("/api"),
			Headers:        map[string]*networking.StringMatch{},
			WithoutHeaders: map[string]*networking.StringMatch{},
			QueryParams:    map[string]*networking.StringMatch{},
			Method:         exact("GET"),
		}
		m.Headers["x-d"] = exact("d")
		m.Headers["x-a"] = prefix("a")
		m.Headers["x-c"] = regex("c.*")
		m.Headers["x-b"] = exact("b")
		m.WithoutHeaders["y-c"] = exact("c")
		m.WithoutHeaders["y-a"] = prefix("a")
		m.WithoutHeaders["y-b"] = exact("b")
		m.QueryParams["q-d"] = exact("d")
		m.QueryParams["q-a"] = exact("a")
		m.QueryParams["q-c"] = regex("c.*")
		m.QueryParams["q-b"] = exact("b")
		return m
	}
	richVS := func(ns, name, host, to string) config.Config {
		r := httpRoute("rich", []*networking.HTTPMatchRequest{richMatch()}, dst(to, 80, "", 0))
		r.Headers = &networking.Headers{
			Request: &networking.Headers_HeaderOperations{
				Set:    kv("s-d", "1", "s-a", "2", "s-c", "3", "s-b", "4"),
				Add:    kv("a-d", "1", "a-a", "2", "a-c", "3", "a-b", "4"),
				Remove: []string{"r-b", "r-a"},
			},
			Response: &networking.Headers_HeaderOperations{
				Set: kv("t-c", "1", "t-a", "2", "t-b", "3"),
				Add: kv("u-c", "1", "u-a", "2", "u-b", "3"),
			},
		}
		return vs(ns, name, []string{host}, []string{"mesh", "istio-system/gw1"}, r, httpRoute("rest", nil, dst(to, 80, "", 0)))
	}
	// Matches with several headers, absent headers and query parameters; header operations.
	add("vs-match-maps", "headers-queryparams", func() (cfgs, cfgs) {
		base := cfgs{selfSE(), gw1()}
		return base, cfgs{
			richVS("ns1", "rich-1", h1, h1),
			svc("ns1", "h1", h1, "10.10.1"),
			richVS("ns1", "rich-2", h2, h2),
			svc("ns1", "h2", h2, "10.10.2"),
			dr("ns1", "dr-h1", h1, tpLB(networking.LoadBalancerSettings_ROUND_ROBIN), nil),
		}
	})
	// The same match without query parameters (so that the rest of the match is compared on its own).
	add("vs-match-headers", "headers-only", func() (cfgs, cfgs) {
		mk := func(ns, name, host, to string) config.Config {
			c := richVS(ns, name, host, to)
			vsSpec(c).Http[0].Match[0].QueryParams = nil
			return c
		}
		base := cfgs{selfSE(), gw1()}
		return base, cfgs{
			mk("ns1", "rich-1", h1, h1),
			svc("ns1", "h1", h1, "10.10.1"),
			mk("ns1", "rich-2", h2, h2),
			svc("ns1", "h2", h2, "10.10.2"),
			dr("ns1", "dr-h1", h1, tpLB(networking.LoadBalancerSettings_ROUND_ROBIN), nil),
		}
	})
	// JWT-claim routing on the gateway: header names "@request.auth.claims.*" become dynamic-metadata matchers.
	add("vs-match-claims", "gateway", func() (cfgs, cfgs) {
		m := func() []*networking.HTTPMatchRequest {
			hm := map[string]*networking.StringMatch{}
			hm["@request.auth.claims.groups"] = exact("admin")
			hm["@request.auth.claims.iss"] = exact("issuer-1")
			hm["@request.auth.claims.sub"] = prefix("user-")
			hm["x-plain"] = exact("1")
			wm := map[string]*networking.StringMatch{}
			wm["@request.auth.claims.aud"] = exact("other")
			wm["@request.auth.claims.scope"] = exact("none")
			return []*networking.HTTPMatchRequest{{Headers: hm, WithoutHeaders: wm}}
		}
		base := cfgs{selfSE(), gw1()}
		return base, cfgs{
			vs("ns1", "claims", []string{"www.example.com"}, gw1Ref, httpRoute("claims", m(), dst(h1, 80, "", 0)), httpRoute("rest", nil, dst(h2, 80, "", 0))),
			svc("ns1", "h1", h1, "10.10.1"),
			requestAuthn("istio-system", "jwt", kv("istio", "ingressgateway"), &security.JWTRule{Issuer: "issuer-1", Jwks: jwks}),
			svc("ns1", "h2", h2, "10.10.2"),
			vs("ns1", "claims-2", []string{"api.example.com"}, gw1Ref, httpRoute("claims", m(), dst(h2, 80, "", 0))),
		}
	})
	// Weighted destinations, mirrors, retries, CORS, fault, rewrite: list-valued route features.
	add("vs-route-features", "weights-mirrors-cors", func() (cfgs, cfgs) {
		mk := func(ns, name, host string) config.Config {
			r := httpRoute("w", uriPrefix("/w"), dst(h1, 80, "v1", 50), dst(h1, 80, "v2", 30), dst(h2, 80, "", 20))
			r.Mirrors = []*networking.HTTPMirrorPolicy{
				{Destination: &networking.Destination{Host: h2, Port: &networking.PortSelector{Number: 80}}, Percentage: &networking.Percent{Value: 10}},
				{Destination: &networking.Destination{Host: h1, Subset: "v1", Port: &networking.PortSelector{Number: 80}}, Percentage: &networking.Percent{Value: 5}},
			}
			r.Retries = &networking.HTTPRetry{Attempts: 3, PerTryTimeout: durationpb.New(2e9), RetryOn: "gateway-error,connect-failure,retriable-status-codes,503,504"}
			r.CorsPolicy = &networking.CorsPolicy{
				AllowOrigins: []*networking.StringMatch{exact("https://b.example.com"), prefix("https://a."), regex(".*c.*")},
				AllowMethods: []string{"POST", "GET"}, AllowHeaders: []string{"x-b", "x-a"}, ExposeHeaders: []string{"y-b", "y-a"},
				MaxAge: durationpb.New(60e9),
			}
			r.Fault = &networking.HTTPFaultInjection{Abort: &networking.HTTPFaultInjection_Abort{
				ErrorType: &networking.HTTPFaultInjection_Abort_HttpStatus{HttpStatus: 503}, Percentage: &networking.Percent{Value: 1},
			}}
			r.Rewrite = &networking.HTTPRewrite{Uri: "/x"}
			r.Route[0].Headers = &networking.Headers{Request: &networking.Headers_HeaderOperations{Set: kv("w-b", "1", "w-a", "2", "w-c", "3")}}
			return vs(ns, name, []string{host}, []string{"mesh", "istio-system/gw1"}, r, httpRoute("rest", nil, dst(h1, 80, "", 0)))
		}
		base := cfgs{selfSE(), gw1(), svc("ns1", "h1", h1, "10.10.1"), svc("ns1", "h2", h2, "10.10.2")}
		return base, cfgs{
			mk("ns1", "feat-1", h1),
			dr("ns1", "h1", h1, nil, []*networking.Subset{subset("v2", kv("version", "v2"), nil), subset("v1", kv("version", "v1"), nil)}),
			mk("ns1", "feat-2", h2),
			dr("ns1", "h2", h2, tpConn(10), nil),
			mk("ns2", "feat-3", h3),
		}
	})
	// TCP and TLS routes of several VirtualServices on one host.
	add("vs-tcp-tls", "sidecar-and-gateway", func() (cfgs, cfgs) {
		tcpHost, tlsHost := "tcp.example.com", "tls.example.com"
		base := cfgs{
			selfSE(),
			gw("istio-system", "gw1", serverPassthrough(443, "tls", "*.example.com"), server(9000, "tcp", "TCP", "*")),
			se("ns1", "tcp", []string{tcpHost}, []*networking.ServicePort{port(9000, "tcp", "TCP"), port(9001, "tcp2", "TCP")},
				[]*networking.WorkloadEntry{ep("10.11.0.1", "r1/z1/s1", kv("version", "v1")), ep("10.11.0.2", "r2/z1/s1", kv("version", "v2"))}, seAddr("240.0.1.1")),
			se("ns1", "tls", []string{tlsHost}, []*networking.ServicePort{port(443, "tls", "TLS")},
				[]*networking.WorkloadEntry{ep("10.12.0.1", "r1/z1/s1", kv("version", "v1"))}, seAddr("240.0.1.2")),
		}
		both := []string{"mesh", "istio-system/gw1"}
		tlsVS := func(ns, name string, sni ...string) config.Config {
			return obj(gvk.VirtualService, ns, name, &networking.VirtualService{Hosts: sni, Gateways: both, Tls: []*networking.TLSRoute{{
				Match: []*networking.TLSMatchAttributes{{Port: 443, SniHosts: sni}},
				Route: []*networking.RouteDestination{{Destination: &networking.Destination{Host: tlsHost, Port: &networking.PortSelector{Number: 443}}}},
			}}})
		}
		tcpVS := func(ns, name string, p uint32, to string) config.Config {
			return obj(gvk.VirtualService, ns, name, &networking.VirtualService{Hosts: []string{tcpHost}, Gateways: both, Tcp: []*networking.TCPRoute{{
				Match: []*networking.L4MatchAttributes{{Port: p}},
				Route: []*networking.RouteDestination{
					{Destination: &networking.Destination{Host: to, Port: &networking.PortSelector{Number: 9000}}, Weight: 60},
					{Destination: &networking.Destination{Host: tcpHost, Port: &networking.PortSelector{Number: 9001}}, Weight: 40},
				},
			}}})
		}
		return base, cfgs{
			tlsVS("ns1", "tls-b", tlsHost),
			tcpVS("ns1", "tcp-b", 9000, tcpHost),
			tlsVS("ns1", "tls-a", tlsHost, "alt.example.com"),
			tcpVS("ns1", "tcp-a", 9000, tcpHost),
			tcpVS("ns2", "tcp-c", 9001, tcpHost),
		}
	})

	// ---------------------------------------------------------------- which Service a name means

	// A VirtualService destination that exists in several namespaces, none of them the proxy's own:
	// the sidecar scope has to pick one.
	add("vs-destination-namespace", "three-namespaces", func() (cfgs, cfgs) {
		ext := "ext.example.com"
		base := cfgs{selfSE(), sidecar("ns1", "default", nil, egress("ns1/*", "nsvs/*"))}
		mk := func(ns, ip string) config.Config {
			return se(ns, "ext", []string{ext}, []*networking.ServicePort{port(80, "http", "HTTP")},
				[]*networking.WorkloadEntry{ep(ip, "r1/z1/s1", kv("from", ns))})
		}
		return base, cfgs{
			mk("ns3", "10.30.0.3"),
			mk("ns2", "10.20.0.2"),
			vs("nsvs", "to-ext", []string{"front.example.com"}, nil, httpRoute("r", nil, dst(ext, 80, "", 0))),
			mk("ns4", "10.40.0.4"),
			mk("ns5", "10.50.0.5"),
		}
	})
	// The same with one ServiceEntry older than the others: the documented rule (oldest wins) decides.
	add("vs-destination-namespace", "one-older", func() (cfgs, cfgs) {
		ext := "ext.example.com"
		base := cfgs{selfSE(), sidecar("ns1", "default", nil, egress("ns1/*", "nsvs/*"))}
		mk := func(ns, ip string) config.Config {
			return se(ns, "ext", []string{ext}, []*networking.ServicePort{port(80, "http", "HTTP")},
				[]*networking.WorkloadEntry{ep(ip, "r1/z1/s1", kv("from", ns))})
		}
		return base, cfgs{
			mk("ns3", "10.30.0.3"),
			older(mk("ns4", "10.40.0.4"), 60),
			vs("nsvs", "to-ext", []string{"front.example.com"}, nil, httpRoute("r", nil, dst(ext, 80, "", 0))),
			mk("ns2", "10.20.0.2"),
			mk("ns5", "10.50.0.5"),
		}
	})
	// Several ServiceEntries of equal age claim one host in different namespaces (default sidecar scope, gateway).
	add("se-same-host", "four-namespaces", func() (cfgs, cfgs) {
		shared := "shared.example.com"
		base := cfgs{selfSE(), gw1(), vs("istio-system", "to-shared", []string{"www.example.com"}, gw1Ref, httpRoute("r", nil, dst(shared, 80, "", 0)))}
		mk := func(ns, ip string, ports ...*networking.ServicePort) config.Config {
			return se(ns, "shared", []string{shared}, ports, []*networking.WorkloadEntry{ep(ip, "r1/z1/s1", kv("from", ns))})
		}
		return base, cfgs{
			mk("ns3", "10.30.0.3", port(80, "http", "HTTP")),
			mk("ns4", "10.40.0.4", port(80, "http", "HTTP"), port(443, "tls", "TLS")),
			mk("istio-system", "10.90.0.9", port(80, "http", "HTTP"), port(8080, "http2", "HTTP")),
			mk("ns5", "10.50.0.5", port(80, "tcp", "TCP")),
			mk("ns6", "10.60.0.6", port(80, "http", "HTTP")),
		}
	})
	// Two ServiceEntries in ONE namespace claim one host (their endpoints are merged).
	add("se-same-host", "one-namespace", func() (cfgs, cfgs) {
		shared := "shared.example.com"
		base := cfgs{selfSE()}
		mk := func(name string, ips []string, ports ...*networking.ServicePort) config.Config {
			var eps []*networking.WorkloadEntry
			for _, ip := range ips {
				eps = append(eps, ep(ip, "r1/z1/s1", kv("from", name)))
			}
			return se("ns1", name, []string{shared}, ports, eps)
		}
		return base, cfgs{
			mk("shared-b", []string{"10.30.0.2", "10.30.0.1"}, port(80, "http", "HTTP")),
			mk("shared-a", []string{"10.40.0.2", "10.40.0.1"}, port(80, "http", "HTTP")),
			mk("shared-c", []string{"10.50.0.1"}, port(80, "http", "HTTP"), port(443, "tls", "TLS")),
			mk("shared-d", []string{"10.60.0.1"}, port(8080, "http-alt", "HTTP")),
			dr("ns1", "shared", shared, tpLB(networking.LoadBalancerSettings_LEAST_REQUEST), nil),
		}
	})
	// One ServiceEntry with several hosts (several services of equal age and equal name/namespace).
	add("se-multi-host", "overlap", func() (cfgs, cfgs) {
		base := cfgs{selfSE(), gw("istio-system", "gw1", server(80, "http", "HTTP", "*"))}
		ports := []*networking.ServicePort{port(80, "http", "HTTP"), port(443, "tls", "TLS"), port(8080, "http-b", "HTTP")}
		eps := func(p string) []*networking.WorkloadEntry {
			return []*networking.WorkloadEntry{ep(p+".2", "r2/z1/s1", kv("version", "v2")), ep(p+".1", "r1/z1/s1", kv("version", "v1"))}
		}
		return base, cfgs{
			se("ns1", "multi", []string{"d.example.org", "b.example.org", "a.example.org", "c.example.org"}, ports, eps("10.21.0"), seAddr("240.0.2.1")),
			se("ns1", "multi2", []string{"b.example.org", "e.example.org"}, ports[:2], eps("10.22.0"), seAddr("240.0.2.2")),
			vs("ns1", "org", []string{"*.example.org"}, []string{"mesh", "istio-system/gw1"}, httpRoute("org", nil, dst("a.example.org", 80, "", 0))),
			dr("ns1", "org", "*.example.org", tpConn(7), []*networking.Subset{subset("v1", kv("version", "v1"), nil)}),
			se("ns2", "multi3", []string{"a.example.org", "f.example.org"}, ports[:1], eps("10.23.0")),
		}
	})
	// DNS resolution, several endpoints with localities; the cluster carries its load assignment inline.
	add("se-dns", "endpoints-and-localities", func() (cfgs, cfgs) {
		base := cfgs{selfSE()}
		mk := func(name, host string, r networking.ServiceEntry_Resolution, hosts ...string) config.Config {
			var eps []*networking.WorkloadEntry
			for i, h := range hosts {
				eps = append(eps, &networking.WorkloadEntry{Address: h, Locality: []string{"r2/z1/s1", "r1/z1/s1", "r1/z2/s1"}[i%3], Ports: map[string]uint32{"http": 8080 + uint32(i), "tls": 8443}})
			}
			return se("ns1", name, []string{host}, []*networking.ServicePort{port(80, "http", "HTTP"), port(443, "tls", "TLS")}, eps, seDNS(r))
		}
		return base, cfgs{
			mk("dns-b", "api.external.com", networking.ServiceEntry_DNS, "c.backend.com", "a.backend.com", "b.backend.com", "d.backend.com"),
			mk("dns-a", "www.external.com", networking.ServiceEntry_DNS_ROUND_ROBIN, "b.other.com"),
			mk("dns-c", "*.wild.external.com", networking.ServiceEntry_NONE),
			dr("ns1", "ext", "*.external.com", tpTLS(networking.ClientTLSSettings_SIMPLE, ""), nil),
			mk("dns-d", "db.external.com", networking.ServiceEntry_DNS),
		}
	})

	// ---------------------------------------------------------------- DestinationRules

	// Several DestinationRules of equal age for one host: same namespace (merged), other namespaces, root namespace, wildcard.
	add("dr-same-host", "merge-and-precedence", func() (cfgs, cfgs) {
		base := cfgs{selfSE(), svc("ns1", "h1", h1, "10.10.1"), gw1(), vs("ns1", "h1", []string{h1}, []string{"mesh", "istio-system/gw1"}, httpRoute("r", nil, dst(h1, 80, "v1", 0)))}
		return base, cfgs{
			dr("ns1", "dr-b", h1, tpLB(networking.LoadBalancerSettings_ROUND_ROBIN), []*networking.Subset{subset("v2", kv("version", "v2"), tpConn(2)), subset("v1", kv("version", "v1"), nil)}),
			dr("ns1", "dr-a", h1, tpLB(networking.LoadBalancerSettings_LEAST_REQUEST), []*networking.Subset{subset("v3", kv("version", "v3"), nil), subset("v1", kv("version", "v1", "extra", "x"), tpConn(1))}),
			dr("istio-system", "dr-root", h1, tpConn(99), []*networking.Subset{subset("v9", kv("version", "v9"), nil)}),
			dr("ns1", "dr-wild", "*.example.com", tpConn(5), []*networking.Subset{subset("w", kv("version", "v1"), nil)}),
			dr("ns2", "dr-ns2", h1, tpLB(networking.LoadBalancerSettings_RANDOM), []*networking.Subset{subset("v2", kv("version", "v2"), nil)}),
		}
	})
	// The service lives in ns3; rules in the client namespace, the service namespace, the root namespace, exported ones.
	add("dr-same-host", "namespaces", func() (cfgs, cfgs) {
		base := cfgs{selfSE(), svc("ns3", "h1", h1, "10.10.1")}
		return base, cfgs{
			dr("ns3", "dr-svc-b", h1, tpConn(3), []*networking.Subset{subset("v1", kv("version", "v1"), nil)}),
			dr("ns3", "dr-svc-a", h1, tpConn(4), []*networking.Subset{subset("v2", kv("version", "v2"), nil)}),
			dr("istio-system", "dr-root", h1, tpConn(9), nil),
			dr("ns4", "dr-exported", h1, tpConn(6), nil, drExport("*")),
			dr("ns2", "dr-client", h1, tpConn(2), []*networking.Subset{subset("v3", kv("version", "v3"), nil)}),
		}
	})
	// Workload-selector rules next to a namespace-wide one.
	add("dr-workload-selector", "two-selected", func() (cfgs, cfgs) {
		base := cfgs{selfSE(), svc("ns1", "h1", h1, "10.10.1")}
		return base, cfgs{
			dr("ns1", "sel-b", h1, tpConn(11), []*networking.Subset{subset("v1", kv("version", "v1"), nil)}, drSelector(kv("app", "a"))),
			dr("ns1", "sel-a", h1, tpConn(12), []*networking.Subset{subset("v2", kv("version", "v2"), nil)}, drSelector(kv("app", "a"))),
			dr("ns1", "plain", h1, tpConn(13), []*networking.Subset{subset("v3", kv("version", "v3"), nil)}),
			dr("ns1", "sel-c", h1, tpConn(14), nil, drSelector(kv("version", "v1"))),
			dr("istio-system", "root", h1, tpConn(15), nil),
		}
	})
	// Many subsets, port-level settings, locality distribution.
	add("dr-subsets", "many-subsets-and-ports", func() (cfgs, cfgs) {
		multi := se("ns1", "multi", []string{h1}, []*networking.ServicePort{port(80, "http", "HTTP"), port(8080, "http-b", "HTTP"), port(9000, "tcp", "TCP")},
			[]*networking.WorkloadEntry{
				ep("10.10.1.3", "r2/z1/s1", kv("version", "v3", "tier", "x")), ep("10.10.1.1", "r1/z1/s1", kv("version", "v1", "tier", "y")),
				ep("10.10.1.2", "r1/z2/s1", kv("version", "v2", "tier", "x")), ep("10.10.1.4", "r3/z1/s1", kv("version", "v1", "tier", "x")),
			}, seAddr("240.0.3.1"))
		base := cfgs{selfSE(), multi}
		tp := func() *networking.TrafficPolicy {
			return &networking.TrafficPolicy{
				LoadBalancer: &networking.LoadBalancerSettings{
					LbPolicy: &networking.LoadBalancerSettings_Simple{Simple: networking.LoadBalancerSettings_ROUND_ROBIN},
					LocalityLbSetting: &networking.LocalityLoadBalancerSetting{Distribute: []*networking.LocalityLoadBalancerSetting_Distribute{
						{From: "r1/z1/*", To: map[string]uint32{"r2/z1/*": 10, "r1/z1/*": 70, "r1/z2/*": 15, "r3/*": 5}},
						{From: "r2/*", To: map[string]uint32{"r2/*": 80, "r1/*": 20}},
					}},
				},
				OutlierDetection: &networking.OutlierDetection{ConsecutiveGatewayErrors: wrapperspb.UInt32(3)},
				PortLevelSettings: []*networking.TrafficPolicy_PortTrafficPolicy{
					{Port: &networking.PortSelector{Number: 9000}, ConnectionPool: tpConn(9).ConnectionPool},
					{Port: &networking.PortSelector{Number: 80}, ConnectionPool: tpConn(8).ConnectionPool},
				},
			}
		}
		return base, cfgs{
			dr("ns1", "subsets-1", h1, tp(), []*networking.Subset{
				subset("s-d", kv("version", "v1", "tier", "x"), nil), subset("s-a", kv("tier", "y", "version", "v1"), tpConn(1)),
				subset("s-c", kv("version", "v3"), tpLB(networking.LoadBalancerSettings_RANDOM)), subset("s-b", kv("version", "v2"), nil),
			}),
			dr("ns1", "subsets-2", h1, nil, []*networking.Subset{subset("s-e", kv("tier", "x"), nil), subset("s-a", kv("version", "v9"), nil)}),
			vs("ns1", "to-subsets", []string{h1}, nil, httpRoute("r", nil, dst(h1, 80, "s-a", 40), dst(h1, 80, "s-b", 30), dst(h1, 80, "s-e", 30))),
			dr("ns2", "subsets-3", h1, tp(), []*networking.Subset{subset("s-z", kv("version", "v2"), nil)}),
			dr("istio-system", "subsets-root", h1, nil, []*networking.Subset{subset("s-r", kv("version", "v1"), nil)}),
		}
	})

	// ---------------------------------------------------------------- Gateways

	// Several Gateways of equal age select one workload; servers overlap on port and host.
	add("gateway-same-selector", "http-overlap", func() (cfgs, cfgs) {
		all := []string{"istio-system/gw-b", "istio-system/gw-a", "ns1/gw-a", "ns2/gw-c", "ns1/gw-d"}
		base := cfgs{
			selfSE(), svc("ns1", "h1", h1, "10.10.1"), svc("ns1", "h2", h2, "10.10.2"),
			vs("ns1", "www", []string{"www.example.com"}, all, httpRoute("www", nil, dst(h1, 80, "", 0))),
			vs("ns1", "api", []string{"api.example.com"}, all, httpRoute("api", nil, dst(h2, 80, "", 0))),
		}
		return base, cfgs{
			gw("istio-system", "gw-b", server(80, "http", "HTTP", "*.example.com")),
			gw("istio-system", "gw-a", server(80, "http", "HTTP", "www.example.com", "api.example.com")),
			gw("ns1", "gw-a", server(80, "http-ns1", "HTTP", "ns1/www.example.com"), server(8080, "http-alt", "HTTP", "*")),
			gw("ns2", "gw-c", server(80, "http", "HTTP", "api.example.com"), server(8080, "http-alt", "HTTP", "www.example.com")),
			gw("ns1", "gw-d", server(80, "http", "HTTP", "*")),
		}
	})
	// TLS servers: several SNI hosts and credentials on one port, spread over several Gateways.
	add("gateway-same-selector", "tls", func() (cfgs, cfgs) {
		all := []string{"istio-system/tls-b", "istio-system/tls-a", "ns1/tls-c", "ns1/tls-d", "ns2/tls-e"}
		base := cfgs{
			selfSE(), svc("ns1", "h1", h1, "10.10.1"),
			vs("ns1", "secure", []string{"*.example.com"}, all, httpRoute("s", nil, dst(h1, 80, "", 0))),
		}
		return base, cfgs{
			gw("istio-system", "tls-b", serverTLS(443, "https-b", "cred-b", "b.example.com", "bb.example.com")),
			gw("istio-system", "tls-a", serverTLS(443, "https-a", "cred-a", "a.example.com"), serverTLS(443, "https-a2", "cred-a2", "a2.example.com")),
			gw("ns1", "tls-c", serverTLS(443, "https-c", "cred-c", "c.example.com", "b.example.com")),
			gw("ns1", "tls-d", serverPassthrough(443, "tls-d", "d.example.com"), server(80, "http", "HTTP", "d.example.com")),
			gw("ns2", "tls-e", serverTLS(8443, "https-e", "cred-e", "*.example.com")),
		}
	})

	// ---------------------------------------------------------------- Sidecar resources

	add("sidecar-same-selector", "ties", func() (cfgs, cfgs) {
		base := cfgs{selfSE(), svc("ns2", "h1", h1, "10.10.1"), svc("ns3", "h2", h2, "10.10.2"), svc("ns1", "h3", h3, "10.10.3")}
		return base, cfgs{
			sidecar("ns1", "sel-b", kv("app", "a"), egress("ns2/*")),
			sidecar("ns1", "sel-a", kv("app", "a"), egress("ns3/*")),
			sidecar("ns1", "default-b", nil, egress("./*")),
			sidecar("ns1", "default-a", nil, egress("*/*")),
			sidecar("istio-system", "default", nil, egress("istio-system/*", "ns2/*")),
		}
	})
	// One Sidecar with several egress listeners whose hosts overlap; services with the same port.
	add("sidecar-egress", "listeners-and-hosts", func() (cfgs, cfgs) {
		base := cfgs{selfSE()}
		sc := sidecar("ns1", "default", nil,
			egressPort(8081, "http-x", "HTTP", "ns3/*"),
			egressPort(80, "http", "HTTP", "ns2/*", "ns3/h2.example.com"),
			egress("ns2/*", "ns3/*", "./*"))
		return base, cfgs{
			svc("ns2", "h1", h1, "10.10.1"),
			sc,
			svc("ns3", "h2", h2, "10.10.2"),
			svc("ns3", "h1-dup", h1, "10.10.4"),
			vs("ns3", "h2", []string{h2}, nil, httpRoute("r", nil, dst(h1, 80, "", 0))),
		}
	})

	// ---------------------------------------------------------------- security

	add("peerauthn-same-selector", "mesh-and-namespace", func() (cfgs, cfgs) {
		base := cfgs{selfSE()}
		return base, cfgs{
			pa("istio-system", "mesh-b", nil, security.PeerAuthentication_MutualTLS_STRICT),
			pa("istio-system", "mesh-a", nil, security.PeerAuthentication_MutualTLS_PERMISSIVE),
			pa("ns1", "ns-b", nil, security.PeerAuthentication_MutualTLS_DISABLE),
			pa("ns1", "ns-a", nil, security.PeerAuthentication_MutualTLS_STRICT),
			pa("ns1", "wl", kv("app", "a"), security.PeerAuthentication_MutualTLS_PERMISSIVE, 8080, security.PeerAuthentication_MutualTLS_STRICT),
		}
	})
	add("peerauthn-same-selector", "workload", func() (cfgs, cfgs) {
		base := cfgs{selfSE(), svc("ns1", "h1", h1, "10.10.1")}
		return base, cfgs{
			pa("ns1", "wl-b", kv("app", "a"), security.PeerAuthentication_MutualTLS_PERMISSIVE, 8080, security.PeerAuthentication_MutualTLS_DISABLE),
			pa("ns1", "wl-a", kv("app", "a"), security.PeerAuthentication_MutualTLS_STRICT, 9090, security.PeerAuthentication_MutualTLS_PERMISSIVE, 8080, security.PeerAuthentication_MutualTLS_STRICT),
			pa("ns1", "wl-c", kv("version", "v1"), security.PeerAuthentication_MutualTLS_DISABLE),
			pa("ns1", "ns", nil, security.PeerAuthentication_MutualTLS_STRICT),
			pa("istio-system", "mesh", nil, security.PeerAuthentication_MutualTLS_PERMISSIVE),
		}
	})
	add("authz-multi", "allow-deny-audit", func() (cfgs, cfgs) {
		base := cfgs{selfSE()}
		rules := func(tag string) []*security.Rule {
			return []*security.Rule{
				rule([]*security.Rule_From{fromPrincipals("cluster.local/ns/ns2/sa/"+tag, "cluster.local/ns/ns1/sa/b"), fromNamespaces("ns3", "ns2")},
					[]*security.Rule_To{toOp([]string{"POST", "GET"}, []string{"/b/*", "/a"}, []string{"8080"}), toOp(nil, []string{"/" + tag}, nil)},
					when("request.headers[x-b]", "2", "1"), when("source.ip", "10.0.0.0/8", "192.168.0.0/16")),
				rule([]*security.Rule_From{fromIPBlocks("10.9.0.0/16", "10.8.0.0/16")}, nil, when("destination.port", "9090", "8080")),
				rule(nil, []*security.Rule_To{toOp([]string{"DELETE"}, nil, nil)}),
			}
		}
		return base, cfgs{
			authz("ns1", "allow-b", kv("app", "a"), security.AuthorizationPolicy_ALLOW, rules("allow-b")...),
			authz("ns1", "allow-a", kv("app", "a"), security.AuthorizationPolicy_ALLOW, rules("allow-a")...),
			authz("ns1", "deny-b", nil, security.AuthorizationPolicy_DENY, rules("deny-b")...),
			authz("istio-system", "deny-a", nil, security.AuthorizationPolicy_DENY, rules("deny-a")...),
			authz("ns1", "audit", kv("app", "a"), security.AuthorizationPolicy_AUDIT, rules("audit")...),
		}
	})
	authzCustom := add("authz-multi", "custom-providers", func() (cfgs, cfgs) {
		base := cfgs{
			selfSE(), gw1(),
			se("ns1", "authz", []string{"authz.ns1.example"}, []*networking.ServicePort{port(9000, "http", "HTTP"), port(9001, "grpc", "GRPC")},
				[]*networking.WorkloadEntry{ep("10.13.0.1", "r1/z1/s1", nil)}),
		}
		custom := func(ns, name string, sel map[string]string, prov string, paths ...string) config.Config {
			c := authz(ns, name, sel, security.AuthorizationPolicy_CUSTOM, rule(nil, []*security.Rule_To{toOp(nil, paths, nil)}))
			c.Spec.(*security.AuthorizationPolicy).ActionDetail = &security.AuthorizationPolicy_Provider{Provider: &security.AuthorizationPolicy_ExtensionProvider{Name: prov}}
			return c
		}
		return base, cfgs{
			custom("ns1", "custom-b", kv("app", "a"), "authz-http", "/b", "/bb"),
			custom("ns1", "custom-a", kv("app", "a"), "authz-http", "/a"),
			custom("ns1", "custom-ns", nil, "authz-http", "/ns"),
			custom("istio-system", "custom-gw", kv("istio", "ingressgateway"), "authz-grpc", "/gw"),
			custom("istio-system", "custom-gw2", kv("istio", "ingressgateway"), "authz-grpc", "/gw2"),
		}
	})
	authzCustom.Mesh = func(m *meshconfig.MeshConfig) {
		m.ExtensionProviders = append(m.ExtensionProviders,
			&meshconfig.MeshConfig_ExtensionProvider{Name: "authz-http", Provider: &meshconfig.MeshConfig_ExtensionProvider_EnvoyExtAuthzHttp{
				EnvoyExtAuthzHttp: &meshconfig.MeshConfig_ExtensionProvider_EnvoyExternalAuthorizationHttpProvider{
					Service: "authz.ns1.example", Port: 9000, PathPrefix: "/check",
					IncludeRequestHeadersInCheck:    []string{"x-b", "x-a", "x-c-*"},
					IncludeAdditionalHeadersInCheck: kv("x-add-d", "4", "x-add-a", "1", "x-add-c", "3", "x-add-b", "2"),
					HeadersToUpstreamOnAllow:        []string{"u-b", "u-a"},
					HeadersToDownstreamOnDeny:       []string{"d-b", "d-a"},
				},
			}},
			&meshconfig.MeshConfig_ExtensionProvider{Name: "authz-grpc", Provider: &meshconfig.MeshConfig_ExtensionProvider_EnvoyExtAuthzGrpc{
				EnvoyExtAuthzGrpc: &meshconfig.MeshConfig_ExtensionProvider_EnvoyExternalAuthorizationGrpcProvider{Service: "authz.ns1.example", Port: 9001},
			}})
	}
	add("request-authn-multi", "jwt-rules", func() (cfgs, cfgs) {
		base := cfgs{selfSE(), gw1()}
		jr := func(iss string, hdrs ...string) *security.JWTRule {
			r := &security.JWTRule{Issuer: iss, Jwks: jwks, Audiences: []string{"aud-b", "aud-a"}, FromParams: []string{"tok-b", "tok-a"},
				OutputClaimToHeaders: []*security.ClaimToHeader{{Header: "x-claim-b", Claim: "b"}, {Header: "x-claim-a", Claim: "a"}}}
			for _, h := range hdrs {
				r.FromHeaders = append(r.FromHeaders, &security.JWTHeader{Name: h, Prefix: "Bearer "})
			}
			return r
		}
		return base, cfgs{
			requestAuthn("ns1", "ra-b", kv("app", "a"), jr("issuer-d", "x-jwt-b", "x-jwt-a"), jr("issuer-a")),
			requestAuthn("ns1", "ra-a", kv("app", "a"), jr("issuer-c"), jr("issuer-b", "x-jwt-c")),
			requestAuthn("istio-system", "ra-root", nil, jr("issuer-root")),
			requestAuthn("ns1", "ra-ns", nil, jr("issuer-ns"), jr("issuer-a")),
			requestAuthn("istio-system", "ra-gw", kv("istio", "ingressgateway"), jr("issuer-gw")),
		}
	})

	// ---------------------------------------------------------------- EnvoyFilter, Telemetry, WasmPlugin

	add("envoyfilter-multi", "same-priority", func() (cfgs, cfgs) {
		base := cfgs{selfSE(), gw1(), svc("ns1", "h1", h1, "10.10.1"), vs("ns1", "www", []string{"www.example.com"}, gw1Ref, httpRoute("r", nil, dst(h1, 80, "", 0)))}
		ins := func(ns, name string, sel map[string]string, prio int32) config.Config {
			return envoyFilter(ns, name, sel, prio,
				efPatch(networking.EnvoyFilter_HTTP_FILTER, matchHTTPFilter(networking.EnvoyFilter_ANY, "envoy.filters.http.router"), networking.EnvoyFilter_Patch_INSERT_BEFORE, luaFilter("lua-"+ns+"-"+name, "-- "+name)),
				efPatch(networking.EnvoyFilter_CLUSTER, matchCluster(networking.EnvoyFilter_ANY, h1), networking.EnvoyFilter_Patch_MERGE, map[string]any{"alt_stat_name": ns + "-" + name, "metadata": map[string]any{"filter_metadata": map[string]any{"ef": map[string]any{name: ns, "z": "1", "a": "2"}}}}),
				efPatch(networking.EnvoyFilter_ROUTE_CONFIGURATION, matchRouteConfig(networking.EnvoyFilter_ANY), networking.EnvoyFilter_Patch_MERGE, map[string]any{"response_headers_to_remove": []any{"x-" + ns + "-" + name}}),
				efPatch(networking.EnvoyFilter_LISTENER, matchListenerCtx(networking.EnvoyFilter_SIDECAR_OUTBOUND), networking.EnvoyFilter_Patch_MERGE, map[string]any{"metadata": map[string]any{"filter_metadata": map[string]any{"ef": map[string]any{"last": ns + "-" + name}}}}),
			)
		}
		return base, cfgs{
			ins("ns1", "ef-b", kv("app", "a"), 0),
			ins("ns1", "ef-a", kv("app", "a"), 0),
			ins("istio-system", "ef-root-b", nil, 0),
			ins("istio-system", "ef-root-a", nil, 0),
			ins("ns1", "ef-prio", nil, -5),
		}
	})
	add("envoyfilter-multi", "add-and-remove", func() (cfgs, cfgs) {
		base := cfgs{selfSE(), gw1(), svc("ns1", "h1", h1, "10.10.1"), vs("ns1", "www", []string{"www.example.com"}, gw1Ref, httpRoute("r", nil, dst(h1, 80, "", 0)))}
		addCluster := func(ns, name string) config.Config {
			return envoyFilter(ns, name, nil, 0,
				efPatch(networking.EnvoyFilter_CLUSTER, matchListenerCtx(networking.EnvoyFilter_ANY), networking.EnvoyFilter_Patch_ADD, map[string]any{"name": "added-" + name, "type": "STATIC", "connect_timeout": "1s"}),
				efPatch(networking.EnvoyFilter_LISTENER, matchListenerCtx(networking.EnvoyFilter_ANY), networking.EnvoyFilter_Patch_ADD, map[string]any{
					"name": "added-" + name, "address": map[string]any{"socket_address": map[string]any{"address": "127.0.0.1", "port_value": float64(15900 + len(name))}},
				}),
				efPatch(networking.EnvoyFilter_VIRTUAL_HOST, matchRouteConfig(networking.EnvoyFilter_ANY), networking.EnvoyFilter_Patch_ADD, map[string]any{"name": "added-" + name, "domains": []any{name + ".added.example"}}),
			)
		}
		return base, cfgs{
			addCluster("istio-system", "bb"),
			addCluster("istio-system", "a"),
			addCluster("ns1", "ccc"),
			envoyFilter("ns1", "remove", nil, 0, efPatch(networking.EnvoyFilter_HTTP_FILTER, matchHTTPFilter(networking.EnvoyFilter_SIDECAR_INBOUND, "envoy.filters.http.cors"), networking.EnvoyFilter_Patch_REMOVE, nil)),
			addCluster("ns2", "dddd"),
		}
	})
	tele := add("telemetry-multi", "metrics-logging-tracing", func() (cfgs, cfgs) {
		base := cfgs{
			selfSE(), gw1(), svc("ns1", "h1", h1, "10.10.1"),
			se("istio-system", "zipkin", []string{"zipkin.istio-system.example"}, []*networking.ServicePort{port(9411, "http", "HTTP")}, []*networking.WorkloadEntry{ep("10.14.0.1", "", nil)}),
		}
		metrics := func(tags ...string) []*tpb.Metrics {
			to := map[string]*tpb.MetricsOverrides_TagOverride{}
			for _, t := range tags {
				to[t] = tagUpsert("request.headers['" + t + "']")
			}
			to["response_flags"] = tagRemove()
			return []*tpb.Metrics{{Providers: provider("prometheus"), Overrides: []*tpb.MetricsOverrides{
				{Match: metricMatch(tpb.MetricSelector_REQUEST_COUNT, tpb.WorkloadMode_CLIENT_AND_SERVER), TagOverrides: to},
				{Match: metricMatch(tpb.MetricSelector_REQUEST_DURATION, tpb.WorkloadMode_SERVER), Disabled: wrapperspb.Bool(true)},
				{Match: metricMatch(tpb.MetricSelector_ALL_METRICS, tpb.WorkloadMode_CLIENT), TagOverrides: map[string]*tpb.MetricsOverrides_TagOverride{"tag-" + tags[0]: tagUpsert("'x'"), "destination_port": tagRemove()}},
			}}}
		}
		tracing := func(tags ...string) []*tpb.Tracing {
			ct := map[string]*tpb.Tracing_CustomTag{}
			for i, t := range tags {
				if i%2 == 0 {
					ct[t] = litTag("v-" + t)
				} else {
					ct[t] = hdrTag("x-" + t)
				}
			}
			return []*tpb.Tracing{{Providers: provider("zipkin"), RandomSamplingPercentage: wrapperspb.Double(50), CustomTags: ct}}
		}
		logging := func(expr string) []*tpb.AccessLogging {
			return []*tpb.AccessLogging{{Providers: provider("envoy"), Filter: &tpb.AccessLogging_Filter{Expression: expr}}, {Providers: provider("envoy-json")}}
		}
		return base, cfgs{
			telemetry("ns1", "wl-b", kv("app", "a"), &tpb.Telemetry{Metrics: metrics("t-d", "t-a", "t-c", "t-b"), Tracing: tracing("c-d", "c-a", "c-c", "c-b"), AccessLogging: logging("response.code >= 400")}),
			telemetry("ns1", "wl-a", kv("app", "a"), &tpb.Telemetry{Metrics: metrics("s-b", "s-a"), Tracing: tracing("d-b", "d-a"), AccessLogging: logging("response.code >= 500")}),
			telemetry("istio-system", "mesh", nil, &tpb.Telemetry{Metrics: metrics("m-c", "m-a", "m-b"), Tracing: tracing("m-c", "m-a", "m-b"), AccessLogging: logging("true")}),
			telemetry("ns1", "ns", nil, &tpb.Telemetry{Metrics: metrics("n-b", "n-a"), Tracing: tracing("n-b", "n-a")}),
			telemetry("istio-system", "gw", kv("istio", "ingressgateway"), &tpb.Telemetry{Metrics: metrics("g-b", "g-a", "g-c"), Tracing: tracing("g-b", "g-a", "g-c"), AccessLogging: logging("false")}),
		}
	})
	tele.Mesh = func(m *meshconfig.MeshConfig) {
		m.ExtensionProviders = append(m.ExtensionProviders,
			&meshconfig.MeshConfig_ExtensionProvider{Name: "zipkin", Provider: &meshconfig.MeshConfig_ExtensionProvider_Zipkin{
				Zipkin: &meshconfig.MeshConfig_ExtensionProvider_ZipkinTracingProvider{Service: "zipkin.istio-system.example", Port: 9411},
			}},
			&meshconfig.MeshConfig_ExtensionProvider{Name: "envoy-json", Provider: &meshconfig.MeshConfig_ExtensionProvider_EnvoyFileAccessLog{
				EnvoyFileAccessLog: &meshconfig.MeshConfig_ExtensionProvider_EnvoyFileAccessLogProvider{
					Path: "/dev/stdout",
					LogFormat: &meshconfig.MeshConfig_ExtensionProvider_EnvoyFileAccessLogProvider_LogFormat{
						LogFormat: &meshconfig.MeshConfig_ExtensionProvider_EnvoyFileAccessLogProvider_LogFormat_Labels{
							Labels: mustStruct(map[string]any{"l-d": "%REQ(D)%", "l-a": "%REQ(A)%", "l-c": "%REQ(C)%", "l-b": "%REQ(B)%"}),
						},
					},
				},
			}})
	}
	add("trafficextension-multi", "same-phase-and-priority", func() (cfgs, cfgs) {
		base := cfgs{selfSE(), gw1(), svc("ns1", "h1", h1, "10.10.1")}
		pc := func(n string) map[string]any { return map[string]any{"k-d": n, "k-a": "1", "k-c": "2", "k-b": "3"} }
		return base, cfgs{
			trafficExt("ns1", "wasm-b", kv("app", "a"), extensions.TrafficExtension_AUTHN, 10, pc("b"), ""),
			trafficExt("ns1", "wasm-a", kv("app", "a"), extensions.TrafficExtension_AUTHN, 10, pc("a"), ""),
			trafficExt("istio-system", "wasm-root", nil, extensions.TrafficExtension_AUTHN, 10, pc("root"), ""),
			trafficExt("ns1", "lua-stats", nil, extensions.TrafficExtension_STATS, 10, nil, "-- stats"),
			trafficExt("istio-system", "lua-unspec", nil, extensions.TrafficExtension_UNSPECIFIED, 10, nil, "-- unspecified"),
		}
	})

	// ---------------------------------------------------------------- endpoints and localities

	lbDR := func(ns, name, host string) config.Config {
		return dr(ns, name, host, &networking.TrafficPolicy{
			LoadBalancer: &networking.LoadBalancerSettings{
				LbPolicy: &networking.LoadBalancerSettings_Simple{Simple: networking.LoadBalancerSettings_ROUND_ROBIN},
				LocalityLbSetting: &networking.LocalityLoadBalancerSetting{
					Failover: []*networking.LocalityLoadBalancerSetting_Failover{{From: "r1", To: "r2"}, {From: "r2", To: "r3"}, {From: "r3", To: "r1"}},
				},
			},
			OutlierDetection: &networking.OutlierDetection{},
		}, nil)
	}
	// Endpoints of one service as separate WorkloadEntry objects in three localities.
	add("endpoints-localities", "workload-entries", func() (cfgs, cfgs) {
		host := "wl.ns1.example"
		base := cfgs{
			selfSE(),
			se("ns1", "wl", []string{host}, []*networking.ServicePort{port(80, "http", "HTTP")}, nil, seSelector(kv("app", "wl"))),
			lbDR("ns1", "wl", host),
		}
		return base, cfgs{
			we("ns1", "we-d", "10.5.0.4", "r2/z1/s1", 2, kv("app", "wl")),
			we("ns1", "we-a", "10.5.0.1", "r1/z1/s1", 1, kv("app", "wl")),
			we("ns1", "we-c", "10.5.0.3", "r3/z1/s1", 1, kv("app", "wl")),
			we("ns1", "we-b", "10.5.0.2", "r1/z1/s1", 3, kv("app", "wl")),
			we("ns1", "we-e", "10.5.0.5", "r1/z2/s1", 1, kv("app", "wl")),
		}
	})
	// Two ServiceEntries select the same WorkloadEntries; one more has inline endpoints.
	add("endpoints-localities", "two-selecting-services", func() (cfgs, cfgs) {
		base := cfgs{selfSE(), lbDR("ns1", "wl", "*.ns1.example")}
		return base, cfgs{
			we("ns1", "we-b", "10.5.0.2", "r2/z1/s1", 1, kv("app", "wl", "version", "v2")),
			se("ns1", "wl-2", []string{"wl2.ns1.example"}, []*networking.ServicePort{port(80, "http", "HTTP"), port(8080, "http-b", "HTTP")}, nil, seSelector(kv("app", "wl"))),
			we("ns1", "we-a", "10.5.0.1", "r1/z1/s1", 1, kv("app", "wl", "version", "v1")),
			se("ns1", "wl-1", []string{"wl1.ns1.example"}, []*networking.ServicePort{port(80, "http", "HTTP")}, nil, seSelector(kv("app", "wl"))),
			we("ns1", "we-c", "10.5.0.3", "r1/z2/s1", 1, kv("app", "wl", "version", "v1")),
		}
	})
	// Inline endpoints in three localities, several per locality, with weights and networks.
	add("endpoints-localities", "inline", func() (cfgs, cfgs) {
		mk := func(name, host, p string) config.Config {
			return se("ns1", name, []string{host}, []*networking.ServicePort{port(80, "http", "HTTP")}, []*networking.WorkloadEntry{
				{Address: p + ".6", Locality: "r3/z1/s1", Weight: 2, Labels: kv("version", "v2")},
				{Address: p + ".2", Locality: "r1/z1/s1", Weight: 1, Labels: kv("version", "v1")},
				{Address: p + ".5", Locality: "r2/z1/s1", Labels: kv("version", "v2")},
				{Address: p + ".1", Locality: "r1/z1/s1", Weight: 3, Labels: kv("version", "v1")},
				{Address: p + ".4", Locality: "r1/z2/s1", Labels: kv("version", "v1")},
				{Address: p + ".3", Locality: "r2/z1/s1", Labels: kv("version", "v2")},
			})
		}
		base := cfgs{selfSE()}
		return base, cfgs{
			mk("inline-b", h2, "10.6.2"),
			mk("inline-a", h1, "10.6.1"),
			lbDR("ns1", "lb", "*.example.com"),
			dr("ns1", "h1", h1, tpLB(networking.LoadBalancerSettings_ROUND_ROBIN), []*networking.Subset{subset("v2", kv("version", "v2"), nil), subset("v1", kv("version", "v1"), nil)}),
			mk("inline-c", h3, "10.6.3"),
		}
	})

	return append(cs, moreCases()...)
}
