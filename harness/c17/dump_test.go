package c17

import (
	"fmt"
	"os"
	"strings"
	"testing"

	"google.golang.org/protobuf/encoding/prototext"
	"google.golang.org/protobuf/proto"
	"google.golang.org/protobuf/types/known/anypb"
)

// TestC17Dump is a development aid (not a registered part): VERIF_C17_CASE=<case name> prints the
// reference generation of that case as text, optionally only sections containing VERIF_C17_SECTION.
func TestC17Dump(t *testing.T) {
	name := os.Getenv("VERIF_C17_CASE")
	if name == "" {
		t.Skip("VERIF_C17_CASE not set")
	}
	for _, c := range allCases() {
		if c.Name != name {
			continue
		}
		_, objs := c.Build()
		n := len(objs)
		o, err := observe(c, n, comboT{Perm: identity(n), Const: mapAlphabet[0]}, all(n))
		if err != nil {
			t.Fatal(err)
		}
		for _, s := range o.Sections {
			if strings.Contains(s.Key, "#") || !strings.Contains(s.Key, os.Getenv("VERIF_C17_SECTION")) {
				continue
			}
			for _, r := range s.Res {
				m, _ := anypb.UnmarshalNew(r.Any, proto.UnmarshalOptions{})
				fmt.Printf("=== %s %s\n%s\n", s.Key, r.Name, prototext.MarshalOptions{Multiline: true, Indent: " "}.Format(m))
			}
		}
	}
}

// TestC17Repeat is a development aid: VERIF_C17_CASE=<case> VERIF_C17_PERM=1,2,0,3 VERIF_C17_CONST=<index> builds
// the same combination several times in this process and reports sections whose bytes vary.
func TestC17Repeat(t *testing.T) {
	name := os.Getenv("VERIF_C17_CASE")
	if name == "" {
		t.Skip("VERIF_C17_CASE not set")
	}
	for _, c := range allCases() {
		if c.Name != name {
			continue
		}
		var perm []int
		for _, f := range strings.Split(os.Getenv("VERIF_C17_PERM"), ",") {
			var i int
			fmt.Sscan(f, &i)
			perm = append(perm, i)
		}
		var ci int
		fmt.Sscan(os.Getenv("VERIF_C17_CONST"), &ci)
		cb := comboT{Perm: perm, Const: mapAlphabet[ci]}
		var first *observation
		for k := 0; k < 6; k++ {
			o, err := observe(c, len(perm), cb, all(len(perm)))
			if err != nil {
				t.Fatal(err)
			}
			if first == nil {
				first = o
			}
			fmt.Printf("run %d digest %s\n", k, o.digest())
			for _, d := range append(compare(c.Family, o, o), compare(c.Family, first, o)...) {
				fmt.Printf("   %s :: %s\n", d.Key, d.Desc)
			}
		}
	}
}
