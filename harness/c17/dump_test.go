package c17

import (
	"fmt"
	"os"
	"strings"
	"testing"

	"google.golang.org/protobuf/encoding/prototext"
	"google.golang.org/protobuf/proto"
	"google.golang.org/protobuf/types/known/anypb"
)

// TestC17Dump is a development aid (not a registered part): VERIF_C17_CASE=<case name> prints the
// reference generation of that case as text, optionally only sections containing VERIF_C17_SECTION.
func TestC17Dump(t *testing.T) {
	name := os.Getenv("VERIF_C17_CASE")
	if name == "" {
		t.Skip("VERIF_C17_CASE not set")
	}
	for _, c := range allCases() {
		if c.Name != name {
			continue
		}
		_, objs := c.Build()
		n := len(objs)
		o, err := observe(c, n, comboT{Perm: identity(n), Const: mapAlphabet[0]}, all(n))
		if err != nil {
			t.Fatal(err)
		}
		for _, s := range o.Sections {
			if strings.Contains(s.Key, "#") || !strings.Contains(s.Key, os.Getenv("VERIF_C17_SECTION")) {
				continue
			}
			for _, r := range s.Res {
				m, _ := anypb.UnmarshalNew(r.Any, proto.UnmarshalOptions{})
				fmt.Printf("=== %s %s\n%s\n", s.Key, r.Name, prototext.MarshalOptions{Multiline: true, Indent: " "}.Format(m))
			}
		}
	}
}
