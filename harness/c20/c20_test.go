// C20: traffic-capture rules redirect exactly the intended packets and never loop.
//
// For every capture configuration of a finite product (space_test.go) the REAL
// capture.IptablesConfigurator.Run is executed against a recording dependencies stub; the
// iptables-restore / ip6tables-restore inputs it produces are parsed and evaluated by the reference
// netfilter interpreter R4 (netfilter_test.go) on every packet of the configuration's boundary-value
// alphabet, and each verdict is compared with the policy predicate computed from the configuration
// alone (policy_test.go), plus IPv4/IPv6 agreement on corresponding packets.
package c20

import (
	"bytes"
	"fmt"
	"io"
	"net/netip"
	"sort"
	"strings"
	"testing"

	istiolog "istio.io/istio/pkg/log"
	"istio.io/istio/tools/common/config"
	"istio.io/istio/tools/istio-iptables/pkg/capture"
	"istio.io/istio/tools/istio-iptables/pkg/constants"
	dep "istio.io/istio/tools/istio-iptables/pkg/dependencies"
	"istio.io/istio/zz_verif/engine"
)

// ---- running the real code ----

type restoreCall struct {
	bin  string
	args []string
	text string
}

// recDeps is dependencies.DependenciesStub plus a record of which binary received which stdin (the stub
// itself concatenates the IPv4 and IPv6 restore inputs).
type recDeps struct {
	dep.DependenciesStub
	restores []restoreCall
}

func (r *recDeps) Run(logger *istiolog.Scope, quiet bool, cmd constants.IptablesCmd, iptVer *dep.IptablesVersion,
	stdin io.ReadSeeker, args ...string,
) (*bytes.Buffer, error) {
	if stdin != nil {
		b, err := io.ReadAll(stdin)
		if err != nil {
			panic(err)
		}
		if _, err := stdin.Seek(0, io.SeekStart); err != nil {
			panic(err)
		}
		r.restores = append(r.restores, restoreCall{bin: iptVer.CmdToString(cmd), args: append([]string(nil), args...), text: string(b)})
	}
	return r.DependenciesStub.Run(logger, quiet, cmd, iptVer, stdin, args...)
}

func (c capCfg) toIstio() *config.Config {
	cfg := &config.Config{
		ProxyPort:               proxyPort,
		InboundCapturePort:      inboundCapture,
		InboundTunnelPort:       fmt.Sprint(tunnelPort),
		ProxyUID:                c.UID,
		ProxyGID:                c.GID,
		InboundInterceptionMode: c.Mode,
		InboundTProxyMark:       fmt.Sprint(tproxyMark),
		InboundTProxyRouteTable: "133",
		InboundPortsInclude:     c.InInc,
		InboundPortsExclude:     c.InExc,
		OwnerGroupsInclude:      c.OGInc,
		OwnerGroupsExclude:      c.OGExc,
		OutboundPortsInclude:    c.OutInc,
		OutboundPortsExclude:    c.OutExc,
		OutboundIPRangesInclude: c.Include,
		OutboundIPRangesExclude: c.Exclude,
		ExcludeInterfaces:       c.ExclIf,
		DropInvalid:             c.DropInvalid,
		EnableIPv6:              c.IPv6,
		DualStack:               c.IPv6,
		HostIPv4LoopbackCidr:    c.LoopCidr,
	}
	switch c.DNS {
	case "off":
	case "servers":
		cfg.RedirectDNS = true
		cfg.DNSServersV4 = []string{fixedRoles["dns"][0].String()}
		cfg.DNSServersV6 = []string{fixedRoles["dns"][1].String()}
	case "v4only":
		cfg.RedirectDNS = true
		cfg.DNSServersV4 = []string{fixedRoles["dns-local"][0].String()}
	case "all":
		cfg.RedirectDNS = true
		cfg.CaptureAllDNS = true
	case "noservers":
		cfg.RedirectDNS = true
	}
	return cfg
}

// generate runs istio's configurator and returns the restore inputs per family ("" = none issued).
func generate(c capCfg) (v4, v6 string, err error) {
	cfg := c.toIstio()
	if err := cfg.Validate(); err != nil {
		return "", "", fmt.Errorf("Validate: %v", err)
	}
	ext := &recDeps{}
	ipt, err := capture.NewIptablesConfigurator(cfg, ext)
	if err != nil {
		return "", "", err
	}
	if err := ipt.Run(); err != nil {
		return "", "", err
	}
	if len(ext.ExecutedNormally) > 0 {
		panic(fmt.Sprintf("c20 harness: direct iptables commands on a clean state are not modelled: %q", ext.ExecutedNormally))
	}
	for _, r := range ext.restores {
		if len(r.args) != 1 || r.args[0] != "--noflush" {
			panic(fmt.Sprintf("c20 harness: restore arguments %q not modelled", r.args))
		}
		switch r.bin {
		case "iptables-restore":
			if v4 != "" {
				panic("c20 harness: two iptables-restore calls")
			}
			v4 = r.text
		case "ip6tables-restore":
			if v6 != "" {
				panic("c20 harness: two ip6tables-restore calls")
			}
			v6 = r.text
		default:
			panic("c20 harness: stdin given to " + r.bin)
		}
	}
	return v4, v6, nil
}

// ---- evaluating one flow ----

func loopbackAddr(fam int) netip.Addr {
	if fam == 4 {
		return netip.MustParseAddr("127.0.0.1")
	}
	return netip.MustParseAddr("::1")
}

// verdict is the capture decision of a flow plus (ext part, compared only between the two families)
// the final fwmark and the conntrack zone.
type verdict struct {
	nat    int // port of the REDIRECT taken (0 none)
	tproxy int // port of the TPROXY taken (0 none)
	drop   bool
	mark   uint32
	zone   int
}

type verdictName struct {
	nat, tproxy int
	drop        bool
}

var verdictNames = map[verdictName]string{}

// String names the capture decision: "untouched", "REDIRECT:<port>", "TPROXY:<port>", "DROP" or a
// '+'-joined combination.
func (v verdict) String() string {
	k := verdictName{v.nat, v.tproxy, v.drop}
	if s, ok := verdictNames[k]; ok {
		return s
	}
	var parts []string
	if v.nat != 0 {
		parts = append(parts, fmt.Sprint("REDIRECT:", v.nat))
	}
	if v.tproxy != 0 {
		parts = append(parts, fmt.Sprint("TPROXY:", v.tproxy))
	}
	if v.drop {
		parts = append(parts, "DROP")
	}
	s := "untouched"
	if len(parts) > 0 {
		s = strings.Join(parts, "+")
	}
	verdictNames[k] = s
	return s
}

func (v verdict) ext() string { return fmt.Sprintf("%s mark=%d zone=%d", v, v.mark, v.zone) }

// verdictOf evaluates a flow on a rule set.
func verdictOf(rs *ruleset, f *flow, src, dst netip.Addr, trace bool) (v verdict, tr []string) {
	p := pkt{
		fam: rs.fam, proto: f.Proto, src: src, dst: dst, sport: 40000, dport: f.Dport,
		uid: f.Owner.UID, gid: f.Owner.GID, mark: f.Mark, ctstate: f.Ct,
	}
	v.zone = -1
	switch f.Kind {
	case "out", "loop":
		p.hook, p.out = "OUTPUT", f.Iface
		r := rs.runHook(&p, false, trace)
		tr = r.trace
		v.zone, v.nat, v.drop = r.zone, r.nat, r.dropped
		if f.Kind == "loop" && !r.dropped {
			// the same packet re-enters through lo: no socket at PREROUTING, fwmark kept, NAT (DNAT
			// manipulation) already decided at OUTPUT, so nat is not consulted again; a REDIRECT taken at
			// OUTPUT has rewritten the destination to the loopback address and the new port
			p.hook, p.in, p.out, p.uid, p.gid = "PREROUTING", "lo", "", -1, -1
			if r.nat != 0 {
				p.dst, p.dport = loopbackAddr(rs.fam), r.nat
			}
			r2 := rs.runHook(&p, true, trace)
			tr = append(tr, r2.trace...)
			v.tproxy, v.drop = r2.tproxy, r2.dropped
		}
	case "in":
		p.hook, p.in, p.uid, p.gid = "PREROUTING", f.Iface, -1, -1
		// the nat table only sees the first packet of a connection (conntrack state NEW)
		r := rs.runHook(&p, f.Ct != "NEW", trace)
		tr = r.trace
		v.zone, v.nat, v.tproxy, v.drop = r.zone, r.nat, r.tproxy, r.dropped
	default:
		panic("flow kind " + f.Kind)
	}
	v.mark = p.mark
	return v, tr
}

// ---- the check ----

type replayC20 struct {
	Config capCfg `json:"config"`
	Flow   *flow  `json:"flow,omitempty"`
}

type cfgStats struct {
	evals               int64
	demandRedirect      bool
	demandUntouched     bool
	distinctVerdicts    map[string]bool
	violations          int
	rejected            string
	restoreV4, restoreV6 string
}

func lintClass(s string) string {
	// the stable part of a load-time finding: what is wrong, not where
	for _, k := range []string{
		"does not exist in this table", "does not exist in table", "already exists", "no built-in chain", "insert position",
		"needs -p tcp or -p udp", "without -p", "owner match reachable", "REDIRECT reachable", "TPROXY reachable", "CT in table",
		"chain loop", "is not an IPv", "multiport takes at most", "-i in chain", "-o in chain", "jumps to a built-in chain", "-N of a built-in name",
	} {
		if strings.Contains(s, k) {
			return k
		}
	}
	return "other"
}

func checkConfig(res *engine.Result, c capCfg, thorough bool, only *flow, verbose func(string, ...any)) cfgStats {
	st := cfgStats{distinctVerdicts: map[string]bool{}}
	v4text, v6text, err := generate(c)
	if err != nil {
		st.rejected = err.Error()
		res.Outcome("config-rejected: " + err.Error())
		res.Count("configs_rejected", 1)
		return st
	}
	// determinism of the generator: same configuration, same text
	v4again, v6again, _ := generate(c)
	if v4again != v4text || v6again != v6text {
		res.Infra = "rule generation is not deterministic for " + c.key()
		return st
	}
	st.restoreV4, st.restoreV6 = v4text, v6text
	violate := func(key, desc string, f *flow) {
		st.violations++
		res.Violate(key, desc, replayC20{Config: c, Flow: f})
	}
	if v4text == "" {
		violate("no-ipv4-rules", "no iptables-restore input was produced for "+c.key(), nil)
		return st
	}
	if c.IPv6 && v6text == "" {
		violate("no-ipv6-rules", "ENABLE_INBOUND_IPV6 is set but no ip6tables-restore input was produced for "+c.key(), nil)
	}
	if !c.IPv6 && v6text != "" {
		violate("ipv6-rules-while-disabled", "ENABLE_INBOUND_IPV6 is off but ip6tables-restore input was produced for "+c.key(), nil)
	}
	sets := map[int]*ruleset{}
	for _, fam := range []int{4, 6} {
		text := map[int]string{4: v4text, 6: v6text}[fam]
		if text == "" {
			continue
		}
		rs, err := parseRuleset(text, fam)
		if err != nil {
			// a syntax the reference interpreter does not understand: infrastructure error, never skipped
			panic(fmt.Sprintf("%v\nconfiguration %s\n%s", err, c.key(), text))
		}
		if len(rs.lint) == 0 {
			sets[fam] = rs // rules that cannot be loaded are reported below and not evaluated
		}
		for _, l := range rs.lint {
			violate(fmt.Sprintf("unloadable:v%d:%s", fam, lintClass(l)),
				fmt.Sprintf("ip%stables-restore would refuse the generated rules: %s | configuration %s", map[int]string{4: "", 6: "6"}[fam], l, c.key()), nil)
		}
	}
	if sets[4] == nil {
		return st
	}
	// C6: the same configuration with the CIDRs of each family listed in reverse order
	var setsRev map[int]*ruleset
	revInc, ch1 := reversedPerFamily(c.Include)
	revExc, ch2 := reversedPerFamily(c.Exclude)
	if ch1 || ch2 {
		rc := c
		rc.Include, rc.Exclude = revInc, revExc
		r4, r6, err := generate(rc)
		if err != nil {
			violate("C6-order-dependence:rejected", fmt.Sprintf("configuration %s is accepted but the same configuration with reversed CIDR lists is rejected: %v", c.key(), err), nil)
		} else {
			setsRev = map[int]*ruleset{}
			for fam, text := range map[int]string{4: r4, 6: r6} {
				if text == "" {
					continue
				}
				rs, err := parseRuleset(text, fam)
				if err != nil {
					panic(fmt.Sprintf("%v\nconfiguration %s\n%s", err, rc.key(), text))
				}
				if len(rs.lint) == 0 {
					setsRev[fam] = rs // load-time findings of the reversed list are reported when it is enumerated itself
				}
			}
		}
	}
	pol := newPolicy(c)
	sym := symmetric(c)
	fams := []int{4}
	if sets[6] != nil {
		fams = append(fams, 6)
	}
	type outcomeKey struct{ clause, verdict string }
	outcomes := map[outcomeKey]int64{}
	var pairs, orderPairs int64
	one := func(f flow) {
		var vs [2]verdict
		var have [2]bool
		for fi, fam := range fams {
			src, dst := f.srcA[fi], f.dstA[fi]
			if !src.IsValid() || !dst.IsValid() {
				continue
			}
			rs := sets[fam]
			v, _ := verdictOf(rs, &f, src, dst, false)
			vs[fi], have[fi] = v, true
			name := v.String()
			st.evals++
			st.distinctVerdicts[name] = true
			exp := pol.expect(&f, fam, dst)
			outcomes[outcomeKey{exp.clause, name}]++
			if exp.want == "untouched" {
				st.demandUntouched = true
			} else if exp.want != "" {
				st.demandRedirect = true
			}
			if rr := setsRev[fam]; rr != nil {
				orderPairs++
				if v2, _ := verdictOf(rr, &f, src, dst, false); v2 != v {
					_, t1 := verdictOf(rs, &f, src, dst, true)
					_, t2 := verdictOf(rr, &f, src, dst, true)
					// one root cause flips many verdict pairs: the key names only the kind of packet
					violate(fmt.Sprintf("C6-order-dependence:%s:%s", f.Kind, pol.ownerClass(&f)),
						fmt.Sprintf("IPv%d packet [%s src=%s dst=%s]: verdict depends on the order of the CIDR lists: configuration %s gives %s via %s ;;;; with include=%q exclude=%q it gives %s via %s",
							fam, f, src, dst, c.key(), v.ext(), strings.Join(t1, " ;; "), revInc, revExc, v2.ext(), strings.Join(t2, " ;; ")), copyFlow(f))
				}
			}
			badWant := exp.want != "" && name != exp.want
			badForbid := exp.forbid != "" && strings.Contains(name, exp.forbid)
			if verbose != nil {
				_, tr := verdictOf(rs, &f, src, dst, true)
				verbose("v%d %s src=%s dst=%s: verdict %s, clause %s want=%q forbid=%q\n    %s", fam, f, src, dst, v.ext(), exp.clause, exp.want, exp.forbid, strings.Join(tr, "\n    "))
			}
			if badWant || badForbid {
				_, tr := verdictOf(rs, &f, src, dst, true)
				want := exp.want
				if badForbid {
					want = "not " + exp.forbid
				}
				key := fmt.Sprintf("%s:v%d:%s:%s want=%s got=%s", exp.clause, fam, f.Kind, pol.ownerClass(&f), want, name)
				violate(key, fmt.Sprintf("packet [%s src=%s dst=%s] expected %s by the policy of configuration %s but the generated IPv%d rules give %s via: %s",
					f, src, dst, want, c.key(), fam, name, strings.Join(tr, " ;; ")), copyFlow(f))
			}
		}
		// C5: corresponding packets, same verdict (when the two halves of the configuration are twins)
		if have[0] && have[1] && sym && !(c.DNS == "v4only" && f.Dport == 53) {
			pairs++
			if vs[0] != vs[1] {
				// one key per pair of capture decisions; fwmark / zone only when the decisions agree
				key := fmt.Sprintf("C5-v4v6-disagree:%s:%s v4=%s v6=%s", f.Kind, pol.ownerClass(&f), vs[0], vs[1])
				if vs[0].String() == vs[1].String() {
					key = fmt.Sprintf("C5-v4v6-disagree:%s:%s v4=[%s] v6=[%s]", f.Kind, pol.ownerClass(&f), vs[0].ext(), vs[1].ext())
				}
				_, t4 := verdictOf(sets[4], &f, f.srcA[0], f.dstA[0], true)
				_, t6 := verdictOf(sets[6], &f, f.srcA[1], f.dstA[1], true)
				violate(key, fmt.Sprintf("corresponding packets [%s] (v4 %s->%s, v6 %s->%s) get different verdicts under configuration %s: IPv4 %s via %s ;;;; IPv6 %s via %s",
					f, f.srcA[0], f.dstA[0], f.srcA[1], f.dstA[1], c.key(), vs[0].ext(), strings.Join(t4, " ;; "), vs[1].ext(), strings.Join(t6, " ;; ")), copyFlow(f))
			}
		}
	}
	defer func() {
		for k, n := range outcomes {
			res.Outcomes[k.clause+" => "+k.verdict] += n // single-threaded worker; same effect as n calls of res.Outcome
		}
		res.Count("v4v6_pairs_compared", pairs)
		res.Count("order_reversed_pairs_compared", orderPairs)
	}()
	if only != nil {
		only.resolve(c)
		one(*only)
	} else {
		flows(c, thorough, one)
	}
	return st
}

func copyFlow(f flow) *flow { return &f } // keeps the hot loop's flow value off the heap

func quiet() {
	for _, s := range istiolog.Scopes() {
		s.SetOutputLevel(istiolog.NoneLevel)
	}
}

func TestC20(t *testing.T) {
	env := engine.GetEnv()
	res := engine.NewResult("C20", "capture-rules")
	res.Rule = "case = (capture configuration, packet, family): the real IptablesConfigurator.Run output is interpreted by the reference netfilter interpreter on every packet of the configuration's boundary-value alphabet and compared with the policy predicate; non-trivial = configuration for which the policy demands at least one redirected and at least one untouched packet and the rules produced >= 2 distinct verdicts"
	defer res.Write(t, env)
	quiet()
	if msg := selfTest(); msg != "" {
		t.Fatalf("reference interpreter self-test failed: %s", msg)
	}

	if env.Replay != "" {
		var rp replayC20
		if err := engine.ReadReplay(env.Replay, &rp); err != nil {
			t.Fatal(err)
		}
		st := checkConfig(res, rp.Config, env.Thorough(), rp.Flow, t.Logf)
		t.Logf("IPv4 restore input:\n%s\nIPv6 restore input:\n%s", st.restoreV4, st.restoreV6)
		if rp.Flow != nil && st.violations == 0 {
			// the recorded packet no longer fails: look at the whole alphabet of the configuration
			checkConfig(res, rp.Config, env.Thorough(), nil, nil)
		}
		return
	}

	cfgs := configurations(env.Thorough())
	res.Bounds["configurations"] = len(cfgs)
	dd := dims(env.Thorough())
	alph := map[string]any{}
	for _, d := range dd {
		alph[d.name] = d.values
		if !env.Thorough() && d.quickN > 0 {
			alph[d.name+" (full product uses the first)"] = d.quickN
		}
	}
	res.Bounds["dimension_alphabets"] = alph
	res.Bounds["full_product_dims"] = "include x exclude x outports x uidgid x dns x ownergroups x mode" + map[bool]string{true: " x v6 x loopcidr", false: ""}[env.Thorough()]
	res.Bounds["not_in_alphabet"] = "KUBE_VIRT_INTERFACES (always empty), owner groups given by name, fwmarks other than 0/1337/1338, conntrack RELATED/UNTRACKED, fragments/ICMP, nftables backend"
	for i, c := range cfgs {
		// deal configurations to shards by a scrambled ordinal: neighbours in the product differ in one
		// dimension (e.g. mode), which would otherwise give every shard one value of it
		if !env.Mine(int64((uint64(i) * 0x9E3779B97F4A7C15) >> 33)) {
			continue
		}
		if env.Expired() {
			res.Cap(fmt.Sprintf("deadline at configuration %d/%d", i, len(cfgs)))
			break
		}
		st := checkConfig(res, c, env.Thorough(), nil, nil)
		if res.Infra != "" {
			return
		}
		res.Evaluations += st.evals
		res.Count("configs_evaluated", 1)
		if st.demandRedirect && st.demandUntouched && len(st.distinctVerdicts) >= 2 {
			res.NontrivialCase(c.key())
		}
		if i%2503 == 0 {
			var vs []string
			for v := range st.distinctVerdicts {
				vs = append(vs, v)
			}
			sort.Strings(vs)
			res.Sample(map[string]any{"config": c, "packets_evaluated": st.evals, "distinct_verdicts": vs})
		}
	}
}
