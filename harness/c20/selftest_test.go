// Self-test of the reference netfilter interpreter on hand-written rule sets whose verdicts follow
// from the iptables manual pages. Run at the start of every worker; a failure is an infrastructure
// error (the oracle is broken), never a VIOLATION.
package c20

import (
	"fmt"
	"net/netip"
	"strings"
	"testing"
)

const selfRules = `
# hand-written
* nat
-N A
-N B
-N EMPTY
-A OUTPUT -o skip0 -j RETURN
-A OUTPUT -j A
-A A -p tcp --dport 22 -j RETURN
-A A -m owner --uid-owner 7 -j RETURN
-A A -o lo -m owner ! --uid-owner 7 -j RETURN
-A A ! -d 10.0.0.1/8 -j RETURN
-A A -j EMPTY
-A A -p tcp -m multiport ! --dports 80,443,8000:8010 -j B
-A A -p tcp -j REDIRECT --to-ports 1000
-A B -p tcp -j REDIRECT --to-ports 2000
-A PREROUTING -p tcp -j B
-I PREROUTING 1 -i virt0 -j RETURN
-I PREROUTING 1 -i virt0 -d 10.9.0.0/16 -j B
COMMIT
* mangle
-N M
-A PREROUTING -p tcp -j M
-A M -p tcp -m mark --mark 5 -j RETURN
-A M -p tcp -m conntrack --ctstate RELATED,ESTABLISHED -j MARK --set-mark 9
-A M -p tcp -m conntrack --ctstate RELATED,ESTABLISHED -j ACCEPT
-A M -p tcp -m conntrack --ctstate INVALID -j DROP
-A M ! -d 127.0.0.1/32 -p tcp -j TPROXY --tproxy-mark 5/0xffffffff --on-port 3000
-A OUTPUT -p tcp -m connmark --mark 5 -j CONNMARK --restore-mark
COMMIT
* raw
-N Z
-A OUTPUT -j Z
-A Z -p udp --dport 53 -j CT --zone 2
COMMIT
`

type selfCase struct {
	name string
	p    pkt
	skip bool
	want string
}

func a(s string) netip.Addr { return netip.MustParseAddr(s) }

func selfTest() string {
	rs, err := parseRuleset(selfRules, 4)
	if err != nil {
		return err.Error()
	}
	if len(rs.lint) != 0 {
		return "unexpected load-time findings: " + strings.Join(rs.lint, "; ")
	}
	out := func(o string, uid int, dst string, proto string, dport int) pkt {
		return pkt{fam: 4, hook: "OUTPUT", out: o, proto: proto, src: a("10.0.0.9"), dst: a(dst), sport: 4, dport: dport, uid: uid, gid: uid, ctstate: "NEW"}
	}
	in := func(i string, dst string, dport int, mark uint32, ct string) pkt {
		return pkt{fam: 4, hook: "PREROUTING", in: i, proto: "tcp", src: a("10.0.0.9"), dst: a(dst), sport: 4, dport: dport, uid: -1, gid: -1, mark: mark, ctstate: ct}
	}
	noSock := out("eth0", -1, "10.1.1.1", "tcp", 80)
	cases := []selfCase{
		{"excluded interface returns before the jump", out("skip0", 1, "10.1.1.1", "tcp", 80), false, "nat= tproxy= drop=false mark=0 zone=-1"},
		{"first match wins: port 22 returns", out("eth0", 1, "10.1.1.1", "tcp", 22), false, "nat= tproxy= drop=false mark=0 zone=-1"},
		{"owner uid match", out("eth0", 7, "10.1.1.1", "tcp", 80), false, "nat= tproxy= drop=false mark=0 zone=-1"},
		{"negated owner with -o lo", out("lo", 1, "10.1.1.1", "tcp", 80), false, "nat= tproxy= drop=false mark=0 zone=-1"},
		{"negated destination, host bits masked (10.0.0.1/8 = 10.0.0.0/8)", out("eth0", 1, "11.0.0.1", "tcp", 80), false, "nat= tproxy= drop=false mark=0 zone=-1"},
		{"jump to empty chain falls through; multiport negation: 80 is listed -> not B -> 1000", out("eth0", 1, "10.1.1.1", "tcp", 80), false, "nat=REDIRECT:1000 tproxy= drop=false mark=0 zone=-1"},
		{"multiport range 8000:8010 listed", out("eth0", 1, "10.1.1.1", "tcp", 8005), false, "nat=REDIRECT:1000 tproxy= drop=false mark=0 zone=-1"},
		{"multiport negation: 81 not listed -> B -> 2000", out("eth0", 1, "10.1.1.1", "tcp", 81), false, "nat=REDIRECT:2000 tproxy= drop=false mark=0 zone=-1"},
		{"udp falls off every -p tcp rule; raw CT zone only for port 53", out("eth0", 1, "10.1.1.1", "udp", 53), false, "nat= tproxy= drop=false mark=0 zone=2"},
		{"udp other port", out("eth0", 1, "10.1.1.1", "udp", 54), false, "nat= tproxy= drop=false mark=0 zone=-1"},
		{"no socket: positive owner test fails, negated owner test holds only with -o lo", noSock, false, "nat=REDIRECT:1000 tproxy= drop=false mark=0 zone=-1"},
		{"inserted rules come first, later insert at 1 before earlier", in("virt0", "10.9.1.1", 81, 0, "NEW"), false, "nat=REDIRECT:2000 tproxy=TPROXY:3000 drop=false mark=5 zone=-1"},
		{"inserted RETURN shields the appended jump", in("virt0", "10.8.1.1", 81, 0, "NEW"), false, "nat= tproxy=TPROXY:3000 drop=false mark=5 zone=-1"},
		{"mangle before nat; TPROXY sets mark; nat still consulted", in("eth0", "10.8.1.1", 81, 0, "NEW"), false, "nat=REDIRECT:2000 tproxy=TPROXY:3000 drop=false mark=5 zone=-1"},
		{"mark match returns from M", in("eth0", "10.8.1.1", 81, 5, "NEW"), false, "nat=REDIRECT:2000 tproxy= drop=false mark=5 zone=-1"},
		{"MARK is non-terminal, ACCEPT ends the table only", in("eth0", "10.8.1.1", 81, 0, "ESTABLISHED"), false, "nat=REDIRECT:2000 tproxy= drop=false mark=9 zone=-1"},
		{"DROP ends everything", in("eth0", "10.8.1.1", 81, 0, "INVALID"), false, "nat= tproxy= drop=true mark=0 zone=-1"},
		{"negated -d in TPROXY rule", in("eth0", "127.0.0.1", 81, 0, "NEW"), false, "nat=REDIRECT:2000 tproxy= drop=false mark=0 zone=-1"},
		{"skipNAT leaves nat out", in("eth0", "10.8.1.1", 81, 0, "NEW"), true, "nat= tproxy=TPROXY:3000 drop=false mark=5 zone=-1"},
	}
	for _, c := range cases {
		p := c.p
		r := rs.runHook(&p, c.skip, false)
		nat, tp := "", ""
		if r.nat != 0 {
			nat = fmt.Sprint("REDIRECT:", r.nat)
		}
		if r.tproxy != 0 {
			tp = fmt.Sprint("TPROXY:", r.tproxy)
		}
		got := fmt.Sprintf("nat=%s tproxy=%s drop=%v mark=%d zone=%d", nat, tp, r.dropped, p.mark, r.zone)
		if got != c.want {
			return fmt.Sprintf("%s: got %q want %q", c.name, got, c.want)
		}
	}
	// connmark restore
	p := out("eth0", 1, "11.1.1.1", "tcp", 80)
	p.connmark = 5
	rs.runHook(&p, false, false)
	if p.mark != 5 {
		return "CONNMARK --restore-mark did not copy the connection mark"
	}
	// load-time findings
	for text, wantLint := range map[string]string{
		"* nat\n-A OUTPUT -j NOPE\nCOMMIT\n":                                          "does not exist in this table",
		"* nat\n-N X\n-A X --dport 80 -j RETURN\nCOMMIT\n":                            "needs -p tcp or -p udp",
		"* nat\n-N X\n-A PREROUTING -j X\n-A X -m owner --uid-owner 1 -j RETURN\nCOMMIT\n": "owner match reachable",
		"* mangle\n-A OUTPUT -p tcp -j REDIRECT --to-ports 1\nCOMMIT\n":               "REDIRECT reachable",
		"* nat\n-A OUTPUT -d fd00::/8 -j RETURN\nCOMMIT\n":                            "is not an IPv",
		"* nat\n-N X\n-N X\nCOMMIT\n":                                                 "already exists",
		"* nat\n-I OUTPUT 2 -j RETURN\nCOMMIT\n":                                      "insert position",
		"* raw\n-A POSTROUTING -j RETURN\nCOMMIT\n":                                   "no built-in chain",
		"* nat\n-N X\n-N Y\n-A OUTPUT -j X\n-A X -j Y\n-A Y -j X\nCOMMIT\n":           "chain loop",
	} {
		r, err := parseRuleset(text, 4)
		if err != nil {
			return "lint case failed to parse: " + err.Error()
		}
		found := false
		for _, l := range r.lint {
			if strings.Contains(l, wantLint) {
				found = true
			}
		}
		if !found {
			return fmt.Sprintf("load-time finding %q not raised for %q (got %q)", wantLint, text, r.lint)
		}
	}
	// syntax the interpreter does not know must be an error, never skipped
	for _, text := range []string{
		"* nat\n-A OUTPUT -m comment --comment x -j RETURN\nCOMMIT\n",
		"* nat\n-A OUTPUT -j SNAT --to-source 1.2.3.4\nCOMMIT\n",
		"* nat\n-A OUTPUT -g X\nCOMMIT\n",
		"* nat\n-D OUTPUT -j RETURN\nCOMMIT\n",
		"* nat\n-A OUTPUT -d ! 1.2.3.4 -j RETURN\nCOMMIT\n",
		"* nat\n-A OUTPUT -j RETURN\n",
		"* security\nCOMMIT\n",
		"* nat\n-A OUTPUT -m owner --uid-owner istio-proxy -j RETURN\nCOMMIT\n",
		"hello\n",
	} {
		if _, err := parseRuleset(text, 4); err == nil {
			return fmt.Sprintf("unknown syntax accepted silently: %q", text)
		}
	}
	return ""
}

func TestC20InterpreterSelfTest(t *testing.T) {
	if msg := selfTest(); msg != "" {
		t.Fatal(msg)
	}
}
