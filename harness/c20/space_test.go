// The finite spaces C20 enumerates: capture configurations, and for each configuration the packets
// (flows) at every boundary value the configuration mentions.
package c20

import (
	"encoding/json"
	"fmt"
	"net/netip"
	"sort"
	"strings"
)

// capCfg is one capture configuration in the harness's own terms; toIstio() turns it into the
// config.Config istio-iptables is run with. It is also the replay value of a violation.
type capCfg struct {
	Include     string `json:"include"`  // OUTBOUND_IPRANGES_INCLUDE
	Exclude     string `json:"exclude"`  // OUTBOUND_IPRANGES_EXCLUDE
	InInc       string `json:"in_inc"`   // INBOUND_PORTS_INCLUDE
	InExc       string `json:"in_exc"`   // INBOUND_PORTS_EXCLUDE
	OutInc      string `json:"out_inc"`  // OUTBOUND_PORTS_INCLUDE
	OutExc      string `json:"out_exc"`  // OUTBOUND_PORTS_EXCLUDE
	ExclIf      string `json:"excl_if"`  // EXCLUDE_INTERFACES
	UID         string `json:"uid"`      // PROXY_UID (list)
	GID         string `json:"gid"`      // PROXY_GID (list)
	Mode        string `json:"mode"`     // REDIRECT | TPROXY
	DNS         string `json:"dns"`      // off | servers | v4only | all | noservers
	IPv6        bool   `json:"ipv6"`     // ENABLE_INBOUND_IPV6 (dual stack)
	OGInc       string `json:"og_inc"`   // ISTIO_OUTBOUND_OWNER_GROUPS
	OGExc       string `json:"og_exc"`   // ISTIO_OUTBOUND_OWNER_GROUPS_EXCLUDE
	DropInvalid bool   `json:"drop_inv"` // DROP_INVALID
	LoopCidr    string `json:"loop"`     // ISTIO_OUTBOUND_IPV4_LOOPBACK_CIDR
}

func (c capCfg) key() string {
	b, _ := json.Marshal(c)
	return string(b)
}

// ---- address universe: every IPv4 value has an IPv6 twin with the same nesting structure ----

var twinOf = map[string]string{
	"10.1.0.0/16":    "fd00:1::/32",
	"10.2.0.0/24":    "fd00:2::/48",
	"10.1.5.0/24":    "fd00:1:5::/48",      // inside 10.1.0.0/16
	"10.2.0.64/26":   "fd00:2:0:4000::/50", // inside 10.2.0.0/24
	"10.0.0.0/8":     "fd00::/16",          // contains both included ranges
	"192.168.0.0/16": "fd00:c0a8::/32",     // unrelated
	"0.0.0.0/0":      "::/0",
	"10.1.7.7/32":    "fd00:1:7::7/128", // the pod IP itself
	// loopback CIDRs have no IPv6 twin (IPv6 loopback is the single address ::1)
	"127.1.2.3/32": "",
	"127.0.0.0/8":  "",
}

type addrPair [2]netip.Addr // [0] IPv4, [1] IPv6; zero value = no such address in that family

func ap(v4, v6 string) addrPair {
	var p addrPair
	if v4 != "" {
		p[0] = netip.MustParseAddr(v4)
	}
	if v6 != "" {
		p[1] = netip.MustParseAddr(v6)
	}
	return p
}

var fixedRoles = map[string]addrPair{
	"loopback":    ap("127.0.0.1", "::1"),
	"pod":         ap("10.1.7.7", "fd00:1:7::7"), // inside 10.1.0.0/16, outside 10.1.5.0/24
	"passthrough": ap("127.0.0.6", "::6"),        // source the proxy binds for inbound passthrough
	"outside":     ap("8.8.8.8", "2001:4860::8888"),
	"dns":         ap("10.1.0.10", "fd00:1::a"), // resolv.conf name server (twin pair)
	"dns-local":   ap("127.0.0.53", ""),         // resolv.conf name server on localhost (IPv4 only)
	"lo2":         ap("127.0.0.2", ""),          // another address of 127.0.0.0/8
	"remote":      ap("172.16.9.9", "fd00:ac10::9"),
}

func addrAdd(a netip.Addr, delta int) (netip.Addr, bool) {
	b := a.AsSlice()
	for i := len(b) - 1; i >= 0; i-- {
		v := int(b[i]) + delta
		if v >= 0 && v <= 255 {
			b[i] = byte(v)
			r, _ := netip.AddrFromSlice(b)
			return r, true
		}
		if delta > 0 {
			b[i] = 0
		} else {
			b[i] = 255
		}
	}
	return netip.Addr{}, false // wrapped around
}

func lastOf(p netip.Prefix) netip.Addr {
	b := p.Masked().Addr().AsSlice()
	for i := p.Bits(); i < len(b)*8; i++ {
		b[i/8] |= 1 << (7 - i%8)
	}
	r, _ := netip.AddrFromSlice(b)
	return r
}

// boundary returns first / last address inside and the addresses just below / above a prefix.
func boundary(p netip.Prefix) map[string]netip.Addr {
	p = p.Masked()
	out := map[string]netip.Addr{"first": p.Addr(), "last": lastOf(p)}
	if a, ok := addrAdd(p.Addr(), -1); ok {
		out["below"] = a
	}
	if a, ok := addrAdd(lastOf(p), 1); ok {
		out["above"] = a
	}
	return out
}

// dstRoles returns the destination alphabet of a configuration: fixed roles plus the boundary values
// of every CIDR the configuration mentions. A role carries the IPv4 address and, when the CIDR's twin
// is mentioned too, the corresponding IPv6 address.
func dstRoles(c capCfg) map[string]addrPair {
	roles := map[string]addrPair{}
	for _, r := range []string{"loopback", "pod", "outside", "dns", "dns-local", "lo2"} {
		roles[r] = fixedRoles[r]
	}
	mentioned := map[string]bool{}
	var all []string
	for _, l := range []string{c.Include, c.Exclude} {
		if l == "*" {
			continue
		}
		for _, s := range splitList(l) {
			if !mentioned[s] {
				mentioned[s] = true
				all = append(all, s)
			}
		}
	}
	used6 := map[string]bool{}
	for _, s := range all {
		pf := netip.MustParsePrefix(s)
		if !pf.Addr().Is4() {
			continue
		}
		b4 := boundary(pf)
		var b6 map[string]netip.Addr
		if tw, ok := twinOf[s]; !ok {
			panic("c20 space: CIDR without twin table entry: " + s)
		} else if tw != "" && mentioned[tw] {
			b6 = boundary(netip.MustParsePrefix(tw))
			used6[tw] = true
		}
		for pos, a4 := range b4 {
			p := addrPair{a4}
			if a6, ok := b6[pos]; ok {
				p[1] = a6
			}
			roles[s+":"+pos] = p
		}
	}
	for _, s := range all { // IPv6 CIDRs mentioned without their IPv4 partner
		pf := netip.MustParsePrefix(s)
		if pf.Addr().Is4() || used6[s] {
			continue
		}
		for pos, a6 := range boundary(pf) {
			roles[s+":"+pos] = addrPair{netip.Addr{}, a6}
		}
	}
	return roles
}

// symmetric reports whether the IPv4 and IPv6 halves of the configuration are twins of each other, so
// that C5 (same verdict on corresponding packets) is meaningful for every destination role.
func symmetric(c capCfg) bool {
	for _, l := range []string{c.Include, c.Exclude} {
		if l == "*" {
			continue
		}
		have := map[string]bool{}
		for _, s := range splitList(l) {
			have[s] = true
		}
		n6 := 0
		for s := range have {
			if a := netip.MustParsePrefix(s).Addr(); !a.Is4() {
				if !a.IsLoopback() { // ::1/128 has no IPv4 partner (like the IPv4 loopback CIDRs)
					n6++
				}
				continue
			}
			if tw := twinOf[s]; tw != "" && !have[tw] {
				return false
			}
		}
		n4tw := 0
		for s := range have {
			if netip.MustParsePrefix(s).Addr().Is4() && twinOf[s] != "" {
				n4tw++
			}
		}
		if n6 != n4tw {
			return false
		}
	}
	return true
}

// ---- packets ----

type owner struct {
	UID int `json:"uid"`
	GID int `json:"gid"`
}

// flow is one packet (or, for Kind=loop, the two hook traversals of one packet over lo).
type flow struct {
	Kind  string `json:"kind"`  // out: OUTPUT towards the network | loop: OUTPUT on lo, then PREROUTING on lo | in: PREROUTING from the network
	Owner owner  `json:"owner"` // socket owner (OUTPUT); -1/-1 for Kind=in
	Iface string `json:"iface"`
	Proto string `json:"proto"`
	Src   string `json:"src"` // role
	Dst   string `json:"dst"` // role
	Dport int    `json:"dport"`
	Mark  uint32 `json:"mark"`
	Ct    string `json:"ct"`

	srcA, dstA addrPair // the addresses of the two roles (filled by flows / resolve)
}

func (f *flow) resolve(c capCfg) {
	f.srcA, f.dstA = fixedRoles[f.Src], dstRoles(c)[f.Dst]
}

func (f flow) String() string {
	return fmt.Sprintf("%s owner=%d:%d if=%s %s %s->%s:%d mark=%d ct=%s", f.Kind, f.Owner.UID, f.Owner.GID, f.Iface, f.Proto, f.Src, f.Dst, f.Dport, f.Mark, f.Ct)
}

func portsAround(base []int, lists ...string) []int {
	set := map[int]bool{}
	for _, p := range base {
		set[p] = true
	}
	for _, l := range lists {
		if l == "*" {
			continue
		}
		for p := range intSet(l) {
			for _, q := range []int{p - 1, p, p + 1} {
				if q >= 1 && q <= 65535 {
					set[q] = true
				}
			}
		}
	}
	out := make([]int, 0, len(set))
	for p := range set {
		out = append(out, p)
	}
	sort.Ints(out)
	return out
}

func owners(c capCfg) []owner {
	const appUID, appGID = 1000, 1000
	var out []owner
	seen := map[owner]bool{}
	add := func(o owner) {
		if !seen[o] {
			seen[o] = true
			out = append(out, o)
		}
	}
	add(owner{appUID, appGID})
	add(owner{0, 0}) // a root-owned application process (or the proxy, when the configuration says uid 0)
	var us, gs []int
	for u := range intSet(c.UID) {
		us = append(us, u)
	}
	for g := range intSet(c.GID) {
		gs = append(gs, g)
	}
	sort.Ints(us)
	sort.Ints(gs)
	for _, u := range us {
		add(owner{u, appGID})
	}
	for _, g := range gs {
		add(owner{appUID, g})
	}
	if len(us) > 0 && len(gs) > 0 {
		add(owner{us[0], gs[0]})
		add(owner{us[len(us)-1], gs[len(gs)-1]})
	}
	var og []int
	if c.OGInc != "*" {
		for g := range intSet(c.OGInc) {
			og = append(og, g)
		}
	}
	for g := range intSet(c.OGExc) {
		og = append(og, g)
	}
	sort.Ints(og)
	for _, g := range og {
		add(owner{appUID, g})
		add(owner{appUID, g + 1})
	}
	return out
}

// flows enumerates the packet alphabet of a configuration (cross product of the boundary values it
// mentions). Unphysical combinations are left out and listed here: loopback-net destinations
// (127.0.0.0/8, ::1) only on lo; the 127.0.0.6/::6 source only on lo; non-zero fwmarks only on lo and
// on inbound packets, and only in TPROXY mode (the only mode whose rules read marks).
func flows(c capCfg, thorough bool, emit func(f flow)) {
	roles := dstRoles(c)
	var dsts []string
	for r := range roles {
		dsts = append(dsts, r)
	}
	sort.Strings(dsts)
	base := []int{53, 80, 443, 15001, 15006, 15008, 15053}
	if thorough {
		base = append(base, 1, 15020, 15021, 15090, 65535)
	}
	outPorts := portsAround(base, c.OutInc, c.OutExc)
	inPorts := portsAround(base, c.InInc, c.InExc)
	if thorough {
		outPorts = portsAround(base, c.OutInc, c.OutExc, c.InInc, c.InExc)
	}
	// quick tier: UDP only at the ports the UDP rules can tell apart (DNS, one generic port, the excluded
	// outbound ports and their neighbours); thorough: the full port alphabet for both protocols
	udpOutPorts := outPorts
	if !thorough {
		udpOutPorts = portsAround([]int{53, 80}, c.OutExc)
	}
	ifs := append([]string{"eth0"}, splitList(c.ExclIf)...)
	marks := []uint32{0}
	if c.Mode == "TPROXY" {
		marks = append(marks, tproxyMark, outboundMark)
	}
	isLoopNet := func(role string) bool {
		a := roles[role]
		return (a[0].IsValid() && a[0].IsLoopback()) || (a[1].IsValid() && a[1].IsLoopback())
	}
	emit0 := emit
	emit = func(f flow) {
		f.srcA, f.dstA = fixedRoles[f.Src], roles[f.Dst]
		emit0(f)
	}
	for _, o := range owners(c) {
		for _, proto := range []string{"tcp", "udp"} {
			ports := outPorts
			if proto == "udp" {
				ports = udpOutPorts
			}
			for _, d := range dsts {
				for _, port := range ports {
					if !isLoopNet(d) {
						for _, ifc := range ifs {
							emit(flow{Kind: "out", Owner: o, Iface: ifc, Proto: proto, Src: "pod", Dst: d, Dport: port, Ct: "NEW"})
						}
					}
					for _, src := range []string{"pod", "passthrough"} {
						for _, m := range marks {
							emit(flow{Kind: "loop", Owner: o, Iface: "lo", Proto: proto, Src: src, Dst: d, Dport: port, Mark: m, Ct: "NEW"})
						}
					}
				}
			}
		}
	}
	inMarks := []uint32{0}
	if c.Mode == "TPROXY" {
		inMarks = append(inMarks, tproxyMark)
	}
	for _, ifc := range ifs {
		for _, proto := range []string{"tcp", "udp"} {
			for _, d := range []string{"pod", "outside"} {
				for _, port := range inPorts {
					for _, ct := range []string{"NEW", "ESTABLISHED", "INVALID"} {
						for _, m := range inMarks {
							emit(flow{Kind: "in", Owner: owner{-1, -1}, Iface: ifc, Proto: proto, Src: "remote", Dst: d, Dport: port, Mark: m, Ct: ct})
						}
					}
				}
			}
		}
	}
}

// ---- configurations ----

type dimension struct {
	name   string
	values []string
	set    func(c *capCfg, v string)
	quickN int // number of leading values used by the quick tier's full product (0 = all); pairwise always uses all
}

func withTwins(list string) string {
	if list == "*" || list == "" {
		return list
	}
	out := splitList(list)
	have := map[string]bool{}
	for _, s := range out {
		have[s] = true
	}
	for _, s := range splitList(list) {
		if tw := twinOf[s]; tw != "" && !have[tw] {
			out = append(out, tw)
		}
	}
	return strings.Join(out, ",")
}

// reversedPerFamily returns the list with the CIDRs of each family in reverse order, and whether that
// differs from the order given.
func reversedPerFamily(list string) (string, bool) {
	if list == "*" {
		return list, false
	}
	var v4, v6 []string
	for _, s := range splitList(list) {
		if netip.MustParsePrefix(s).Addr().Is4() {
			v4 = append([]string{s}, v4...)
		} else {
			v6 = append([]string{s}, v6...)
		}
	}
	changed := false
	for _, l := range [][]string{v4, v6} {
		if len(l) > 1 {
			changed = true
		}
	}
	return strings.Join(append(v4, v6...), ","), changed
}

func pair(v string) (string, string) {
	a, b, _ := strings.Cut(v, "|")
	return a, b
}

// dims lists every configuration dimension with its value alphabet. The first value of each dimension
// is the shipped default. v6 is applied last (it rewrites the CIDR lists).
func dims(thorough bool) []dimension {
	d := []dimension{
		// loopback CIDRs are listed both before and after a non-loopback CIDR of the same family
		{"include", []string{"*", "", "10.1.0.0/16", "10.1.0.0/16,10.2.0.0/24", "127.1.2.3/32,10.1.0.0/16", "10.1.0.0/16,127.1.2.3/32",
			"::1/128,fd00:1::/32,10.1.0.0/16", "10.1.0.0/16,fd00:1::/32,::1/128"},
			func(c *capCfg, v string) { c.Include = v }, 6},
		{"exclude", []string{"", "10.1.5.0/24", "10.0.0.0/8", "10.1.5.0/24,10.2.0.64/26", "192.168.0.0/16", "10.1.7.7/32"},
			func(c *capCfg, v string) { c.Exclude = v }, 5},
		{"outports", []string{"|", "|80,5000", "5000|", "5000,6000|80,5000", "|5001", "5000|5001"},
			func(c *capCfg, v string) { c.OutInc, c.OutExc = pair(v) }, 4},
		// the last two leave one list empty: possible for a caller of the library (the CLI and the CNI
		// plugin always fill both); without them the uid and gid rule blocks mask each other
		{"uidgid", []string{"1337|1337", "1337|2000", "3,4|1,2", "0|1337", "1337|", "|1337"},
			func(c *capCfg, v string) { c.UID, c.GID = pair(v) }, 4},
		{"dns", []string{"off", "servers", "v4only", "all", "noservers"},
			func(c *capCfg, v string) { c.DNS = v }, 4},
		{"ownergroups", []string{"*|", "*|888,889", "202,203|", "*|888", "|"},
			func(c *capCfg, v string) { c.OGInc, c.OGExc = pair(v) }, 3},
		{"mode", []string{"REDIRECT", "TPROXY"},
			func(c *capCfg, v string) { c.Mode = v }, 0},
		{"inports", []string{"*|", "*|80", "*|9000,15020,", "|", "|80", "80,8080|", "80,8080|80", "80,15008|9000"},
			func(c *capCfg, v string) { c.InInc, c.InExc = pair(v) }, 0},
		{"ifaces", []string{"", "nic1", "nic1,nic2"},
			func(c *capCfg, v string) { c.ExclIf = v }, 0},
		{"dropinvalid", []string{"false", "true"},
			func(c *capCfg, v string) { c.DropInvalid = v == "true" }, 0},
		{"loopcidr", []string{"127.0.0.1/32", "127.0.0.0/8"},
			func(c *capCfg, v string) { c.LoopCidr = v }, 0},
		{"v6", []string{"twins", "off", "v4lists"},
			func(c *capCfg, v string) {
				c.IPv6 = v != "off"
				if v == "twins" {
					c.Include, c.Exclude = withTwins(c.Include), withTwins(c.Exclude)
				}
			}, 0},
	}
	if thorough {
		d[0].values = append(d[0].values, "0.0.0.0/0", "127.0.0.0/8,10.2.0.0/24")
		d[1].values = append(d[1].values, "0.0.0.0/0")
	}
	return d
}

const nProductDims = 7 // include .. mode: the dimensions that interact in ISTIO_OUTPUT (+ mode)

func build(d []dimension, idx []int) capCfg {
	var c capCfg
	for i := range d {
		d[i].set(&c, d[i].values[idx[i]])
	}
	return c
}

// configurations returns the deduplicated configuration list of a tier:
//
//	(1) the full product of the dimensions that interact in ISTIO_OUTPUT (include, exclude, outbound
//	    ports, uid/gid, dns, owner groups) and the mode; quick: the remaining dimensions take a value
//	    that rotates with the ordinal; thorough: additionally multiplied by v6 and loopcidr
//	(2) the full product of the dimensions that interact in the inbound chains
//	    (inports, ifaces, mode, dropinvalid, v6)
//	(3) pairwise: every pair of values of every pair of dimensions, on each of three base configurations
func configurations(thorough bool) []capCfg {
	d := dims(thorough)
	index := map[string]int{}
	for i := range d {
		index[d[i].name] = i
	}
	var out []capCfg
	seen := map[string]bool{}
	add := func(idx []int) {
		c := build(d, idx)
		k := c.key()
		if !seen[k] {
			seen[k] = true
			out = append(out, c)
		}
	}
	product := func(free []int, rest func(ord int64, idx []int)) {
		sizes := make([]int, len(free))
		for i, f := range free {
			sizes[i] = len(d[f].values)
			if !thorough && d[f].quickN > 0 {
				sizes[i] = d[f].quickN
			}
		}
		idx := make([]int, len(d))
		var ord int64
		var rec func(k int)
		rec = func(k int) {
			if k == len(free) {
				cp := append([]int(nil), idx...)
				rest(ord, cp)
				add(cp)
				ord++
				return
			}
			for v := 0; v < sizes[k]; v++ {
				idx[free[k]] = v
				rec(k + 1)
			}
		}
		rec(0)
	}
	// (1)
	free := []int{}
	for i := 0; i < nProductDims; i++ {
		free = append(free, i)
	}
	if thorough {
		free = append(free, index["v6"], index["loopcidr"])
	}
	isFree := map[int]bool{}
	for _, f := range free {
		isFree[f] = true
	}
	primes := []int64{1, 3, 5, 7, 11, 13, 17, 19, 23, 29, 31, 37}
	product(free, func(ord int64, idx []int) {
		for i := range d {
			if !isFree[i] {
				idx[i] = int((ord / primes[i%len(primes)]) % int64(len(d[i].values)))
			}
		}
	})
	// (2)
	product([]int{index["inports"], index["ifaces"], index["mode"], index["dropinvalid"], index["v6"]}, func(int64, []int) {})
	// (3)
	bases := [][]int{make([]int, len(d)), make([]int, len(d)), make([]int, len(d))}
	for i := range d {
		bases[1][i] = len(d[i].values) - 1
		bases[2][i] = 1 % len(d[i].values)
	}
	bases[1][index["v6"]] = 0 // keep IPv6 rules present in the second base
	for _, b := range bases {
		for i := 0; i < len(d); i++ {
			for j := i + 1; j < len(d); j++ {
				for vi := range d[i].values {
					for vj := range d[j].values {
						idx := append([]int(nil), b...)
						idx[i], idx[j] = vi, vj
						add(idx)
					}
				}
			}
		}
	}
	return out
}
