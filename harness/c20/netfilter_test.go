// R4: reference netfilter interpreter for iptables-restore text (DESIGN.md Appendix A.5).
//
// It is written from the iptables / iptables-extensions manual pages and the kernel's documented hook
// order, not from istio's rule builder. It understands exactly the syntax listed below and panics
// (infrastructure error, never a VIOLATION) on anything else, so that a rule can never be silently
// skipped. Rules that are syntactically understood but that iptables-restore / the kernel would
// refuse to load (jump to an undeclared chain, --dport without -p tcp|udp, REDIRECT outside nat, owner
// match reachable from PREROUTING, address of the wrong family, ...) are collected in ruleset.lint:
// rules that do not load redirect nothing, so the harness reports them as violations.
package c20

import (
	"fmt"
	"net/netip"
	"sort"
	"strconv"
	"strings"
)

type matchKind int

const (
	mProto matchKind = iota
	mSrc
	mDst
	mIn
	mOut
	mDport
	mSport
	mMultiDports
	mMultiSports
	mMultiPorts
	mUID
	mGID
	mMark
	mConnmark
	mCtstate
)

type nfMatch struct {
	kind   matchKind
	neg    bool
	str    string // proto / interface
	pfx    netip.Prefix
	ranges [][2]int // ports, uid or gid ranges (inclusive)
	val    uint32
	mask   uint32
	states []string
}

type nfRule struct {
	table, chain string
	matches      []nfMatch
	target       string // "" = no target (counter-only rule)
	toPort       int    // REDIRECT --to-ports / TPROXY --on-port (0 = keep)
	setVal       uint32 // MARK / CONNMARK --set-mark / TPROXY --tproxy-mark
	setMask      uint32
	xor          bool
	cmOp         string // CONNMARK: save | restore | set
	zone         int
	raw          string
	jump         *nfChain // resolved user-chain target (nil: built-in target, no target, or undeclared chain)
}

// nfChain is a chain after linking; rules is the final order after all -A / -I commands.
type nfChain struct {
	table string
	rules []*nfRule
}

type nfTable struct {
	name     string
	chains   map[string][]*nfRule
	declared map[string]bool // user chains created by -N / ":chain"
}

type ruleset struct {
	fam    int // 4 or 6
	tables map[string]*nfTable
	lint   []string
	plan   map[string][]*nfChain // hook -> built-in chains of the tables registered there, in kernel order
}

// the built-in chains every table has (iptables(8), section TABLES)
var builtinChains = map[string][]string{
	"raw":    {"PREROUTING", "OUTPUT"},
	"mangle": {"PREROUTING", "INPUT", "FORWARD", "OUTPUT", "POSTROUTING"},
	"nat":    {"PREROUTING", "INPUT", "OUTPUT", "POSTROUTING"},
	"filter": {"INPUT", "FORWARD", "OUTPUT"},
}

var anyBuiltin = map[string]bool{"PREROUTING": true, "INPUT": true, "FORWARD": true, "OUTPUT": true, "POSTROUTING": true}

var builtinTargets = map[string]bool{
	"ACCEPT": true, "DROP": true, "RETURN": true, "REDIRECT": true, "TPROXY": true, "MARK": true, "CONNMARK": true, "CT": true,
}

// standard extension targets the interpreter does not model: meeting one is an error, not a jump
var unsupportedTargets = map[string]bool{
	"SNAT": true, "DNAT": true, "MASQUERADE": true, "NETMAP": true, "LOG": true, "NFLOG": true, "REJECT": true, "NOTRACK": true,
	"TCPMSS": true, "NFQUEUE": true, "QUEUE": true, "TRACE": true, "SET": true, "CONNSECMARK": true, "SECMARK": true, "DSCP": true,
	"TOS": true, "TTL": true, "HL": true, "CHECKSUM": true, "CLASSIFY": true, "CLUSTERIP": true, "AUDIT": true, "IDLETIMER": true,
	"LED": true, "RATEEST": true, "SYNPROXY": true, "TEE": true, "TCPOPTSTRIP": true, "HMARK": true,
}

func isBuiltinChain(table, chain string) bool {
	for _, c := range builtinChains[table] {
		if c == chain {
			return true
		}
	}
	return false
}

type syntaxError struct{ msg string }

func (e syntaxError) Error() string { return e.msg }

func bad(format string, a ...any) { panic(syntaxError{fmt.Sprintf(format, a...)}) }

// parseRuleset parses the input of one iptables-restore (fam 4) / ip6tables-restore (fam 6) call that
// is applied with --noflush to an empty rule set. A syntax the interpreter does not know is returned
// as an error (the caller must treat it as an infrastructure error).
func parseRuleset(text string, fam int) (rs *ruleset, err error) {
	defer func() {
		if r := recover(); r != nil {
			if se, ok := r.(syntaxError); ok {
				rs, err = nil, fmt.Errorf("netfilter interpreter: %s", se.msg)
				return
			}
			panic(r)
		}
	}()
	rs = &ruleset{fam: fam, tables: map[string]*nfTable{}}
	var cur *nfTable
	for ln, line := range strings.Split(text, "\n") {
		line = strings.TrimSpace(line)
		if line == "" || strings.HasPrefix(line, "#") {
			continue
		}
		where := fmt.Sprintf("line %d %q", ln+1, line)
		switch {
		case strings.HasPrefix(line, "*"):
			if cur != nil {
				bad("%s: table header inside table %s (missing COMMIT)", where, cur.name)
			}
			name := strings.TrimSpace(line[1:])
			if _, ok := builtinChains[name]; !ok {
				bad("%s: unknown table", where)
			}
			if _, dup := rs.tables[name]; dup {
				bad("%s: table appears twice in one restore input", where)
			}
			cur = &nfTable{name: name, chains: map[string][]*nfRule{}, declared: map[string]bool{}}
			rs.tables[name] = cur
		case line == "COMMIT":
			if cur == nil {
				bad("%s: COMMIT outside a table", where)
			}
			cur = nil
		case strings.HasPrefix(line, ":"):
			if cur == nil {
				bad("%s: chain declaration outside a table", where)
			}
			f := strings.Fields(line[1:])
			if len(f) < 2 {
				bad("%s: malformed chain declaration", where)
			}
			if !isBuiltinChain(cur.name, f[0]) {
				if anyBuiltin[f[0]] {
					rs.lintf("%s: table %s has no built-in chain %s", where, cur.name, f[0])
				}
				cur.declare(rs, f[0], where)
			} else if f[1] != "ACCEPT" {
				bad("%s: built-in chain policy %s not supported", where, f[1])
			}
		case strings.HasPrefix(line, "-"):
			if cur == nil {
				bad("%s: rule outside a table", where)
			}
			rs.command(cur, strings.Fields(line), line, where)
		default:
			bad("%s: not understood", where)
		}
	}
	if cur != nil {
		bad("table %s not committed", cur.name)
	}
	rs.check()
	rs.link()
	return rs, nil
}

// link resolves jumps and the per-hook table order once, so that evaluation does no look-ups.
func (rs *ruleset) link() {
	linked := map[string]*nfChain{}
	for tn, t := range rs.tables {
		for cn, rules := range t.chains {
			linked[tn+"/"+cn] = &nfChain{table: tn, rules: rules}
		}
	}
	for tn, t := range rs.tables {
		for _, rules := range t.chains {
			for _, r := range rules {
				if r.target != "" && !builtinTargets[r.target] && t.declared[r.target] {
					r.jump = linked[tn+"/"+r.target]
				}
			}
		}
	}
	rs.plan = map[string][]*nfChain{}
	for hook, order := range tableOrder {
		for _, tn := range order {
			if c := linked[tn+"/"+hook]; c != nil {
				rs.plan[hook] = append(rs.plan[hook], c)
			}
		}
	}
}

func (rs *ruleset) lintf(format string, a ...any) { rs.lint = append(rs.lint, fmt.Sprintf(format, a...)) }

func (t *nfTable) declare(rs *ruleset, chain, where string) {
	if t.declared[chain] {
		rs.lintf("%s: chain %s already exists in table %s", where, chain, t.name)
	}
	t.declared[chain] = true
	if _, ok := t.chains[chain]; !ok {
		t.chains[chain] = nil
	}
}

func (rs *ruleset) command(t *nfTable, tok []string, line, where string) {
	switch tok[0] {
	case "-N", "--new-chain":
		if len(tok) != 2 {
			bad("%s: -N takes exactly one chain", where)
		}
		if anyBuiltin[tok[1]] || builtinTargets[tok[1]] {
			rs.lintf("%s: -N of a built-in name", where)
		}
		t.declare(rs, tok[1], where)
	case "-A", "--append", "-I", "--insert":
		if len(tok) < 2 {
			bad("%s: chain missing", where)
		}
		chain := tok[1]
		rest := tok[2:]
		pos := -1 // append
		if tok[0] == "-I" || tok[0] == "--insert" {
			pos = 1
			if len(rest) > 0 {
				if n, err := strconv.Atoi(rest[0]); err == nil {
					pos = n
					rest = rest[1:]
				}
			}
		}
		if anyBuiltin[chain] {
			if !isBuiltinChain(t.name, chain) {
				rs.lintf("%s: table %s has no built-in chain %s", where, t.name, chain)
			}
		} else if !t.declared[chain] {
			rs.lintf("%s: chain %s does not exist in table %s", where, chain, t.name)
		}
		r := rs.parseRule(t.name, chain, rest, line, where)
		cur := t.chains[chain]
		if pos < 0 {
			t.chains[chain] = append(cur, r)
			return
		}
		if pos < 1 || pos > len(cur)+1 {
			rs.lintf("%s: insert position %d too big for chain %s with %d rules", where, pos, chain, len(cur))
			if pos < 1 {
				pos = 1
			} else {
				pos = len(cur) + 1
			}
		}
		out := make([]*nfRule, 0, len(cur)+1)
		out = append(out, cur[:pos-1]...)
		out = append(out, r)
		out = append(out, cur[pos-1:]...)
		t.chains[chain] = out
	default:
		bad("%s: command %s not supported", where, tok[0])
	}
}

func parsePort(s, where string) int {
	n, err := strconv.Atoi(s)
	if err != nil || n < 0 || n > 65535 {
		bad("%s: bad port %q", where, s)
	}
	return n
}

func parsePortRange(s, where string) [2]int {
	if a, b, ok := strings.Cut(s, ":"); ok {
		lo, hi := 0, 65535
		if a != "" {
			lo = parsePort(a, where)
		}
		if b != "" {
			hi = parsePort(b, where)
		}
		return [2]int{lo, hi}
	}
	p := parsePort(s, where)
	return [2]int{p, p}
}

func parseIDRange(s, where string) [2]int {
	a, b, ok := strings.Cut(s, "-")
	lo, err := strconv.Atoi(a)
	if err != nil || lo < 0 {
		bad("%s: owner id %q is not numeric (names cannot be resolved by the interpreter)", where, s)
	}
	hi := lo
	if ok {
		hi, err = strconv.Atoi(b)
		if err != nil || hi < lo {
			bad("%s: bad owner id range %q", where, s)
		}
	}
	return [2]int{lo, hi}
}

func parseU32(s, where string) uint32 {
	n, err := strconv.ParseUint(s, 0, 32)
	if err != nil {
		bad("%s: bad 32-bit value %q", where, s)
	}
	return uint32(n)
}

func parseValMask(s, where string) (uint32, uint32) {
	if v, m, ok := strings.Cut(s, "/"); ok {
		return parseU32(v, where), parseU32(m, where)
	}
	return parseU32(s, where), 0xffffffff
}

func (rs *ruleset) parseAddr(s, where string) netip.Prefix {
	var p netip.Prefix
	if strings.Contains(s, "/") {
		var err error
		p, err = netip.ParsePrefix(s)
		if err != nil {
			bad("%s: bad address %q: %v", where, s, err)
		}
	} else {
		a, err := netip.ParseAddr(s)
		if err != nil {
			bad("%s: bad address %q (host names are not supported)", where, s)
		}
		p = netip.PrefixFrom(a, a.BitLen())
	}
	if (p.Addr().Is4() && rs.fam != 4) || (!p.Addr().Is4() && rs.fam != 6) {
		rs.lintf("%s: address %s is not an IPv%d address", where, s, rs.fam)
	}
	return p.Masked()
}

func (rs *ruleset) parseRule(table, chain string, tok []string, line, where string) *nfRule {
	r := &nfRule{table: table, chain: chain, raw: line, zone: -1}
	neg := false
	takeNeg := func() bool { n := neg; neg = false; return n }
	noNeg := func(opt string) {
		if neg {
			bad("%s: '!' before %s not supported", where, opt)
		}
	}
	mods := map[string]bool{}
	lastMod := ""
	arg := func(i *int, opt string) string {
		*i++
		if *i >= len(tok) {
			bad("%s: %s needs an argument", where, opt)
		}
		if tok[*i] == "!" {
			bad("%s: old-style '%s ! value' negation not supported", where, opt)
		}
		return tok[*i]
	}
	protoOK := func() bool {
		for _, m := range r.matches {
			if m.kind == mProto && !m.neg && (m.str == "tcp" || m.str == "udp") {
				return true
			}
		}
		return false
	}
	for i := 0; i < len(tok); i++ {
		o := tok[i]
		switch o {
		case "!":
			if neg {
				bad("%s: double negation", where)
			}
			neg = true
		case "-p", "--protocol":
			v := strings.ToLower(arg(&i, o))
			switch v {
			case "tcp", "udp", "icmp", "icmpv6", "all":
			default:
				bad("%s: protocol %q not supported", where, v)
			}
			for _, m := range r.matches {
				if m.kind == mProto {
					bad("%s: -p given twice", where)
				}
			}
			r.matches = append(r.matches, nfMatch{kind: mProto, neg: takeNeg(), str: v})
		case "-s", "--source", "--src":
			r.matches = append(r.matches, nfMatch{kind: mSrc, neg: takeNeg(), pfx: rs.parseAddr(arg(&i, o), where)})
		case "-d", "--destination", "--dst":
			r.matches = append(r.matches, nfMatch{kind: mDst, neg: takeNeg(), pfx: rs.parseAddr(arg(&i, o), where)})
		case "-i", "--in-interface":
			r.matches = append(r.matches, nfMatch{kind: mIn, neg: takeNeg(), str: arg(&i, o)})
		case "-o", "--out-interface":
			r.matches = append(r.matches, nfMatch{kind: mOut, neg: takeNeg(), str: arg(&i, o)})
		case "-m", "--match":
			noNeg(o)
			v := arg(&i, o)
			switch v {
			case "tcp", "udp":
				if !protoOK() {
					rs.lintf("%s: -m %s without -p %s", where, v, v)
				}
			case "multiport", "owner", "mark", "connmark", "conntrack":
			default:
				bad("%s: match module %q not supported", where, v)
			}
			mods[v] = true
			lastMod = v
		case "--dport", "--destination-port", "--sport", "--source-port":
			k := mDport
			if o == "--sport" || o == "--source-port" {
				k = mSport
			}
			n := takeNeg()
			if !protoOK() {
				rs.lintf("%s: %s needs -p tcp or -p udp", where, o)
			}
			r.matches = append(r.matches, nfMatch{kind: k, neg: n, ranges: [][2]int{parsePortRange(arg(&i, o), where)}})
		case "--dports", "--destination-ports", "--sports", "--source-ports", "--ports":
			if !mods["multiport"] {
				bad("%s: %s without -m multiport", where, o)
			}
			k := mMultiDports
			switch o {
			case "--sports", "--source-ports":
				k = mMultiSports
			case "--ports":
				k = mMultiPorts
			}
			n := takeNeg()
			if !protoOK() {
				rs.lintf("%s: multiport needs -p tcp or -p udp", where)
			}
			var rg [][2]int
			for _, p := range strings.Split(arg(&i, o), ",") {
				rg = append(rg, parsePortRange(p, where))
			}
			if len(rg) > 15 {
				rs.lintf("%s: multiport takes at most 15 ports", where)
			}
			r.matches = append(r.matches, nfMatch{kind: k, neg: n, ranges: rg})
		case "--uid-owner", "--gid-owner":
			if !mods["owner"] {
				bad("%s: %s without -m owner", where, o)
			}
			k := mUID
			if o == "--gid-owner" {
				k = mGID
			}
			n := takeNeg()
			r.matches = append(r.matches, nfMatch{kind: k, neg: n, ranges: [][2]int{parseIDRange(arg(&i, o), where)}})
		case "--mark":
			n := takeNeg()
			v, m := parseValMask(arg(&i, o), where)
			switch lastMod {
			case "mark":
				r.matches = append(r.matches, nfMatch{kind: mMark, neg: n, val: v, mask: m})
			case "connmark":
				r.matches = append(r.matches, nfMatch{kind: mConnmark, neg: n, val: v, mask: m})
			default:
				bad("%s: --mark without a preceding -m mark / -m connmark", where)
			}
		case "--ctstate":
			if !mods["conntrack"] {
				bad("%s: --ctstate without -m conntrack", where)
			}
			n := takeNeg()
			var st []string
			for _, s := range strings.Split(arg(&i, o), ",") {
				switch s {
				case "NEW", "ESTABLISHED", "RELATED", "INVALID", "UNTRACKED":
				default:
					bad("%s: conntrack state %q not supported", where, s)
				}
				st = append(st, s)
			}
			r.matches = append(r.matches, nfMatch{kind: mCtstate, neg: n, states: st})
		case "-j", "--jump":
			noNeg(o)
			if r.target != "" {
				bad("%s: two targets", where)
			}
			r.target = arg(&i, o)
			if unsupportedTargets[r.target] {
				bad("%s: target %s not supported", where, r.target)
			}
		case "--to-ports", "--to-port":
			// getopt_long accepts the unambiguous abbreviation --to-port
			noNeg(o)
			if r.target != "REDIRECT" {
				bad("%s: %s outside REDIRECT", where, o)
			}
			v := arg(&i, o)
			if strings.ContainsAny(v, "-:") {
				bad("%s: port ranges in --to-ports not supported", where)
			}
			r.toPort = parsePort(v, where)
		case "--on-port":
			noNeg(o)
			if r.target != "TPROXY" {
				bad("%s: %s outside TPROXY", where, o)
			}
			r.toPort = parsePort(arg(&i, o), where)
		case "--tproxy-mark":
			noNeg(o)
			if r.target != "TPROXY" {
				bad("%s: %s outside TPROXY", where, o)
			}
			r.setVal, r.setMask = parseValMask(arg(&i, o), where)
		case "--set-mark", "--set-xmark":
			noNeg(o)
			v, m := parseValMask(arg(&i, o), where)
			switch r.target {
			case "MARK":
				r.setVal, r.setMask, r.xor = v, m, o == "--set-xmark"
				if !r.xor {
					// --set-mark value/mask: zero the bits of mask|value... (iptables-extensions: "Zeroes out the
					// bits given by mask and ORs value into the packet mark"; mask defaults to all ones)
					r.setMask = m | v
				}
				r.cmOp = "set"
			case "CONNMARK":
				r.setVal, r.setMask, r.xor = v, m, o == "--set-xmark"
				if !r.xor {
					r.setMask = m | v
				}
				r.cmOp = "set"
			default:
				bad("%s: %s outside MARK/CONNMARK", where, o)
			}
		case "--save-mark", "--restore-mark":
			noNeg(o)
			if r.target != "CONNMARK" {
				bad("%s: %s outside CONNMARK", where, o)
			}
			r.cmOp = strings.TrimSuffix(strings.TrimPrefix(o, "--"), "-mark")
		case "--zone":
			noNeg(o)
			if r.target != "CT" {
				bad("%s: %s outside CT", where, o)
			}
			z, err := strconv.Atoi(arg(&i, o))
			if err != nil {
				bad("%s: bad zone", where)
			}
			r.zone = z
		default:
			bad("%s: option %q not understood", where, o)
		}
	}
	if neg {
		bad("%s: dangling '!'", where)
	}
	switch r.target {
	case "REDIRECT":
		if r.toPort != 0 && !protoOK() {
			rs.lintf("%s: REDIRECT --to-ports needs -p tcp or -p udp", where)
		}
	case "TPROXY":
		if r.toPort == 0 {
			bad("%s: TPROXY without --on-port", where)
		}
		if !protoOK() {
			rs.lintf("%s: TPROXY needs -p tcp or -p udp", where)
		}
	case "MARK":
		if r.cmOp != "set" {
			bad("%s: MARK without --set-mark", where)
		}
	case "CONNMARK":
		if r.cmOp == "" {
			bad("%s: CONNMARK without an operation", where)
		}
	case "CT":
		if r.zone < 0 {
			bad("%s: CT without --zone (other CT options not supported)", where)
		}
	}
	return r
}

// check performs the load-time validations of iptables-restore / x_tables that do not depend on a packet.
func (rs *ruleset) check() {
	for _, tn := range sortedKeys(rs.tables) {
		t := rs.tables[tn]
		// every jump target exists
		for _, cn := range sortedKeys(t.chains) {
			for _, r := range t.chains[cn] {
				if r.target == "" || builtinTargets[r.target] {
					continue
				}
				if anyBuiltin[r.target] {
					rs.lintf("table %s: %q jumps to a built-in chain", tn, r.raw)
				} else if !t.declared[r.target] {
					rs.lintf("table %s: %q jumps to chain %s which does not exist in this table", tn, r.raw, r.target)
				}
			}
		}
		// reachability: which hooks can reach each rule; loops
		for _, hook := range builtinChains[tn] {
			onPath := map[string]bool{}
			seen := map[string]bool{}
			var walk func(chain string)
			walk = func(chain string) {
				if onPath[chain] {
					rs.lintf("table %s: chain loop through %s", tn, chain)
					return
				}
				if seen[chain] {
					return
				}
				seen[chain] = true
				onPath[chain] = true
				for _, r := range t.chains[chain] {
					rs.checkRuleAt(r, tn, hook)
					if r.target != "" && !builtinTargets[r.target] && t.declared[r.target] {
						walk(r.target)
					}
				}
				onPath[chain] = false
			}
			walk(hook)
		}
	}
	// one finding per distinct text
	seen := map[string]bool{}
	out := rs.lint[:0]
	for _, l := range rs.lint {
		if !seen[l] {
			seen[l] = true
			out = append(out, l)
		}
	}
	rs.lint = out
}

func (rs *ruleset) checkRuleAt(r *nfRule, table, hook string) {
	for _, m := range r.matches {
		switch m.kind {
		case mUID, mGID:
			if hook != "OUTPUT" && hook != "POSTROUTING" {
				rs.lintf("table %s: %q: owner match reachable from %s (valid in OUTPUT/POSTROUTING only)", table, r.raw, hook)
			}
		case mIn:
			if r.chain == "OUTPUT" || r.chain == "POSTROUTING" {
				rs.lintf("table %s: %q: -i in chain %s", table, r.raw, r.chain)
			}
		case mOut:
			if r.chain == "PREROUTING" || r.chain == "INPUT" {
				rs.lintf("table %s: %q: -o in chain %s", table, r.raw, r.chain)
			}
		}
	}
	switch r.target {
	case "REDIRECT":
		if table != "nat" || (hook != "PREROUTING" && hook != "OUTPUT") {
			rs.lintf("%q: REDIRECT reachable from %s/%s (valid in nat PREROUTING/OUTPUT only)", r.raw, table, hook)
		}
	case "TPROXY":
		if table != "mangle" || hook != "PREROUTING" {
			rs.lintf("%q: TPROXY reachable from %s/%s (valid in mangle PREROUTING only)", r.raw, table, hook)
		}
	case "CT":
		if table != "raw" {
			rs.lintf("%q: CT in table %s (valid in raw only)", r.raw, table)
		}
	}
}

func sortedKeys[V any](m map[string]V) []string {
	k := make([]string, 0, len(m))
	for s := range m {
		k = append(k, s)
	}
	sort.Strings(k)
	return k
}

// ---- evaluation ----

type pkt struct {
	fam      int
	hook     string // PREROUTING | OUTPUT
	in, out  string // interface ("" = none at this hook)
	proto    string // tcp | udp
	src, dst netip.Addr
	sport    int
	dport    int
	uid, gid int // -1 = no socket attached (never the case for locally generated TCP/UDP of a process)
	mark     uint32
	connmark uint32
	ctstate  string // NEW | ESTABLISHED | INVALID | ...
}

type hookResult struct {
	dropped bool
	nat     int // 0 | port of the REDIRECT taken in nat
	tproxy  int // 0 | port of the TPROXY taken in mangle
	zone    int // conntrack zone assigned in raw (-1 none)
	trace   []string
}

func inRanges(v int, rg [][2]int) bool {
	for _, r := range rg {
		if v >= r[0] && v <= r[1] {
			return true
		}
	}
	return false
}

func ifaceMatch(pattern, name string) bool {
	if name == "" {
		return false
	}
	if strings.HasSuffix(pattern, "+") {
		return strings.HasPrefix(name, strings.TrimSuffix(pattern, "+"))
	}
	return pattern == name
}

func (m *nfMatch) holds(p *pkt) bool {
	var r bool
	switch m.kind {
	case mProto:
		r = m.str == "all" || m.str == p.proto
	case mSrc:
		r = m.pfx.Contains(p.src)
	case mDst:
		r = m.pfx.Contains(p.dst)
	case mIn:
		r = ifaceMatch(m.str, p.in)
	case mOut:
		r = ifaceMatch(m.str, p.out)
	case mDport:
		r = inRanges(p.dport, m.ranges)
	case mSport:
		r = inRanges(p.sport, m.ranges)
	case mMultiDports:
		r = inRanges(p.dport, m.ranges)
	case mMultiSports:
		r = inRanges(p.sport, m.ranges)
	case mMultiPorts:
		r = inRanges(p.dport, m.ranges) || inRanges(p.sport, m.ranges)
	case mUID:
		if p.uid < 0 {
			// xt_owner without a socket: the rule matches only if every requested test is inverted
			return m.neg
		}
		r = inRanges(p.uid, m.ranges)
	case mGID:
		if p.gid < 0 {
			return m.neg
		}
		r = inRanges(p.gid, m.ranges)
	case mMark:
		r = p.mark&m.mask == m.val
	case mConnmark:
		r = p.connmark&m.mask == m.val
	case mCtstate:
		for _, s := range m.states {
			if s == p.ctstate {
				r = true
			}
		}
	default:
		panic("netfilter interpreter: unknown match kind")
	}
	return r != m.neg
}

type chainVerdict int

const (
	vContinue chainVerdict = iota // fell off the end / RETURN
	vAccept                       // this table is done, the packet goes on
	vDrop
)

// the kernel's table order at the two hooks the capture rules live in
var tableOrder = map[string][]string{
	"PREROUTING": {"raw", "mangle", "nat"},
	"OUTPUT":     {"raw", "mangle", "nat", "filter"},
}

// runHook sends the packet through every table registered at p.hook, in the kernel's order.
// p.mark / p.connmark are updated in place. skipNAT models a packet of a connection whose NAT
// decision of this manipulation type was already taken at an earlier hook (nat is consulted once).
func (rs *ruleset) runHook(p *pkt, skipNAT, trace bool) hookResult {
	res := hookResult{zone: -1}
	if _, ok := tableOrder[p.hook]; !ok {
		panic("netfilter interpreter: hook " + p.hook + " not modelled")
	}
	for _, c := range rs.plan[p.hook] {
		if c.table == "nat" && skipNAT {
			continue
		}
		if v := runChain(c, p, &res, trace, 0); v == vDrop {
			res.dropped = true
			return res
		}
	}
	return res
}

func runChain(c *nfChain, p *pkt, res *hookResult, trace bool, depth int) chainVerdict {
	if depth > 16 {
		return vContinue // loops are reported by check(); do not hang
	}
rules:
	for _, r := range c.rules {
		for i := range r.matches {
			if !r.matches[i].holds(p) {
				continue rules
			}
		}
		if trace {
			res.trace = append(res.trace, c.table+": "+r.raw)
		}
		if r.jump != nil {
			if v := runChain(r.jump, p, res, trace, depth+1); v != vContinue {
				return v
			}
			continue
		}
		switch r.target {
		case "":
		case "ACCEPT":
			return vAccept
		case "DROP":
			return vDrop
		case "RETURN":
			return vContinue
		case "REDIRECT":
			port := p.dport
			if r.toPort != 0 {
				port = r.toPort
			}
			res.nat = port
			return vAccept
		case "TPROXY":
			res.tproxy = r.toPort
			p.mark = (p.mark &^ r.setMask) ^ r.setVal
			return vAccept
		case "MARK":
			p.mark = (p.mark &^ r.setMask) ^ r.setVal
		case "CONNMARK":
			switch r.cmOp {
			case "save":
				p.connmark = p.mark
			case "restore":
				p.mark = p.connmark
			case "set":
				p.connmark = (p.connmark &^ r.setMask) ^ r.setVal
			}
		case "CT":
			res.zone = r.zone
		default:
			// jump to a chain that does not exist: reported by check(); the rule cannot be loaded
		}
	}
	return vContinue
}
