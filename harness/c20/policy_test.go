// The policy predicate of C20, computed from the capture configuration alone (never from the rules).
// It is the property statement, clause by clause:
//
//	C1  the proxy's own outbound traffic is never redirected back into the proxy's outbound port
//	C2  application outbound TCP is redirected (to the outbound port) iff its destination is in the
//	    included ranges and not in an excluded range, port or interface
//	C3  inbound TCP is redirected (to the inbound capture port; REDIRECT or TPROXY by mode) iff its port
//	    is included and not excluded
//	C4  loopback traffic between the application and itself is left alone
//	C5  the IPv4 and IPv6 rule sets give the same verdict on corresponding packets (c20_test.go)
//	C6  (differential, no policy claim) the verdict of every packet is independent of the order in which
//	    the CIDRs are listed in the include / exclude lists: the statement's policy is a function of the
//	    *sets* of ranges (c20_test.go)
//
// Readings fixed here, each taken from the public flag / annotation documentation
// (tools/istio-iptables/pkg/cmd/root.go flag help), not from run.go:
//   - "proxy's own" = socket owned by one of PROXY_UID or one of PROXY_GID; everything else is the
//     application.
//   - "included" for outbound = wildcard, or destination inside an included CIDR of its family, or
//     destination port in OUTBOUND_PORTS_INCLUDE ("outbound ports to be explicitly included").
//   - owner-group capture filters (ISTIO_OUTBOUND_OWNER_GROUPS[_EXCLUDE]) restrict which application
//     groups are captured at all.
//   - EXCLUDE_INTERFACES: "Neither inbound nor outbound traffic will be captured".
//   - "loopback traffic between the application and itself" = application-owned packet leaving on lo
//     (this includes app -> own pod IP, which the kernel routes over lo) or addressed to the loopback
//     address. C4 is an exception to C2 (otherwise the statement contradicts itself for '*').
//
// Cells the statement leaves open (every verdict accepted, counted under "open:*" outcomes):
//   - open:dns53           port 53 while DNS capture is in effect (DNS capture is a separate feature
//     that redirects to the agent's DNS port; the statement does not describe it)
//   - open:tunnel-port     inbound to INBOUND_TUNNEL_PORT (15008) when the port list would include it
//     (HBONE tunnel port is served by the proxy itself; REDIRECT mode exempts it, TPROXY mode does not)
//   - open:in-exclude-with-list  inbound port that is in an explicit include *list* and in the exclude
//     list: the statement says "not redirected", the flag documentation says the exclude list "only
//     applies when all inbound traffic (i.e. '*') is being redirected" -> both accepted
//   - open:loopback-explicitly-included  lo traffic to a NON-loopback destination C2 would redirect (e.g.
//     the pod's own IP inside an included range), when the operator named a loopback CIDR in the include
//     list: C2 says redirect, C4 says leave alone. Not open: a destination inside the explicitly
//     included loopback range itself (other than the loopback address) must be redirected (C2; C4 is
//     about the loopback address / app-to-itself traffic, and the operator asked for that range).
//   - open:app-udp, open:app-marked, open:app-passthrough-src, open:in-not-new-tcp  packets the statement
//     does not talk about (UDP, packets carrying a non-zero fwmark, application-owned packets sourced
//     from the proxy's passthrough address 127.0.0.6/::6, non-NEW conntrack states); they are still
//     subject to C5 and C6
//   - proxy-owned packets are only subject to C1 (and C5)
package c20

import (
	"net/netip"
	"strconv"
	"strings"
)

const (
	proxyPort      = "15001"
	inboundCapture = "15006"
	tunnelPort     = 15008
	agentDNSPort   = "15053"
	tproxyMark     = 1337
	outboundMark   = 1338
)

type policy struct {
	c              capCfg
	uids, gids     map[int]bool
	incWild        bool
	inc, exc       map[int][]netip.Prefix // by family
	hasLoopInclude bool
	loopInc        map[int][]netip.Prefix // the explicitly included loopback CIDRs, by family
	loop           map[int]netip.Prefix
	inInc, inExc   map[int]bool
	inWild         bool
	outInc, outExc map[int]bool
	exclIf         map[string]bool
	ogWild         bool
	ogInc, ogExc   map[int]bool
	dnsEffective   bool
}

func splitList(s string) []string {
	var out []string
	for _, x := range strings.Split(s, ",") {
		if x != "" {
			out = append(out, x)
		}
	}
	return out
}

func intSet(s string) map[int]bool {
	m := map[int]bool{}
	for _, x := range splitList(s) {
		n, err := strconv.Atoi(x)
		if err != nil {
			panic("c20 space: non-numeric list item " + x)
		}
		m[n] = true
	}
	return m
}

func famOf(a netip.Addr) int {
	if a.Is4() {
		return 4
	}
	return 6
}

func newPolicy(c capCfg) *policy {
	p := &policy{
		c: c, uids: intSet(c.UID), gids: intSet(c.GID),
		inc: map[int][]netip.Prefix{}, exc: map[int][]netip.Prefix{}, loopInc: map[int][]netip.Prefix{},
		loop:   map[int]netip.Prefix{4: netip.MustParsePrefix(c.LoopCidr).Masked(), 6: netip.MustParsePrefix("::1/128")},
		outInc: intSet(c.OutInc), outExc: intSet(c.OutExc), inExc: intSet(c.InExc),
		exclIf: map[string]bool{}, ogExc: intSet(c.OGExc),
	}
	if c.Include == "*" {
		p.incWild = true
	} else {
		for _, s := range splitList(c.Include) {
			pf := netip.MustParsePrefix(s)
			p.inc[famOf(pf.Addr())] = append(p.inc[famOf(pf.Addr())], pf.Masked())
			if pf.Addr().IsLoopback() {
				p.hasLoopInclude = true // the operator named a loopback address explicitly
				p.loopInc[famOf(pf.Addr())] = append(p.loopInc[famOf(pf.Addr())], pf.Masked())
			}
		}
	}
	for _, s := range splitList(c.Exclude) {
		pf := netip.MustParsePrefix(s)
		p.exc[famOf(pf.Addr())] = append(p.exc[famOf(pf.Addr())], pf.Masked())
	}
	if c.InInc == "*" {
		p.inWild = true
	} else {
		p.inInc = intSet(c.InInc)
	}
	for _, s := range splitList(c.ExclIf) {
		p.exclIf[s] = true
	}
	if c.OGInc == "*" {
		p.ogWild = true
	} else {
		p.ogInc = intSet(c.OGInc)
	}
	switch c.DNS {
	case "servers", "v4only", "all":
		p.dnsEffective = true
	case "off", "noservers": // REDIRECT_DNS without CAPTURE_ALL_DNS and without servers captures nothing
	default:
		panic("c20 space: dns value " + c.DNS)
	}
	return p
}

func inAny(l []netip.Prefix, a netip.Addr) bool {
	for _, p := range l {
		if p.Contains(a) {
			return true
		}
	}
	return false
}

func (p *policy) isProxy(o owner) bool { return p.uids[o.UID] || p.gids[o.GID] }

func (p *policy) ownerClass(f *flow) string {
	if f.Kind == "in" {
		return "net"
	}
	if p.isProxy(f.Owner) {
		return "proxy"
	}
	return "app"
}

type expectation struct {
	clause string
	want   string // exact verdict demanded; "" = nothing demanded by want
	forbid string // verdict must not contain this; "" = nothing forbidden
}

func (p *policy) expect(f *flow, fam int, dst netip.Addr) expectation {
	if f.Kind == "in" {
		if f.Proto != "tcp" || f.Ct != "NEW" || f.Mark != 0 {
			return expectation{clause: "open:in-not-new-tcp"}
		}
		if p.exclIf[f.Iface] {
			return expectation{clause: "C3-inbound", want: "untouched"}
		}
		var inc bool
		if p.inWild {
			inc = !p.inExc[f.Dport]
		} else {
			inc = p.inInc[f.Dport]
			if inc && p.inExc[f.Dport] {
				return expectation{clause: "open:in-exclude-with-list"}
			}
		}
		if inc && f.Dport == tunnelPort {
			return expectation{clause: "open:tunnel-port"}
		}
		if !inc {
			return expectation{clause: "C3-inbound", want: "untouched"}
		}
		if p.c.Mode == "TPROXY" {
			return expectation{clause: "C3-inbound", want: "TPROXY:" + inboundCapture}
		}
		return expectation{clause: "C3-inbound", want: "REDIRECT:" + inboundCapture}
	}
	if p.isProxy(f.Owner) {
		return expectation{clause: "C1-proxy-no-loop", forbid: "REDIRECT:" + proxyPort}
	}
	if f.Proto != "tcp" {
		return expectation{clause: "open:app-udp"}
	}
	if f.Mark != 0 {
		return expectation{clause: "open:app-marked"}
	}
	if f.Src == "passthrough" {
		// 127.0.0.6 / ::6 is the address the proxy binds for inbound passthrough; the rules key on the
		// source, not the owner. An application-owned socket bound to it is not a case the statement covers.
		return expectation{clause: "open:app-passthrough-src"}
	}
	if p.dnsEffective && f.Dport == 53 {
		return expectation{clause: "open:dns53"}
	}
	capturable := (p.ogWild && !p.ogExc[f.Owner.GID]) || (!p.ogWild && p.ogInc[f.Owner.GID])
	c2 := capturable && !p.exclIf[f.Iface] && !p.outExc[f.Dport] && !inAny(p.exc[fam], dst) &&
		(p.incWild || inAny(p.inc[fam], dst) || p.outInc[f.Dport])
	if p.loop[fam].Contains(dst) {
		// the loopback address itself (ISTIO_OUTBOUND_IPV4_LOOPBACK_CIDR / ::1): always left alone
		return expectation{clause: "C4-loopback", want: "untouched"}
	}
	if f.Kind == "loop" {
		if p.hasLoopInclude && c2 {
			if inAny(p.loopInc[fam], dst) {
				// inside a loopback range the operator explicitly included: C2 applies
				return expectation{clause: "C2-outbound", want: "REDIRECT:" + proxyPort}
			}
			return expectation{clause: "open:loopback-explicitly-included"}
		}
		return expectation{clause: "C4-loopback", want: "untouched"}
	}
	if c2 {
		return expectation{clause: "C2-outbound", want: "REDIRECT:" + proxyPort}
	}
	return expectation{clause: "C2-outbound", want: "untouched"}
}
