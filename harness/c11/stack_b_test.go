// C11 part b: the world of the SDS check. Real code under test: xds.SecretGen (Generate,
// parseResources, filterAuthorizedResources, generate), credentials.ParseResourceName, the real
// kube CredentialsController / Multicluster aggregate (Authorize with its authorization cache,
// GetCertInfo / GetCaCert / GetConfigMapCaCert) over a fake Kubernetes client, and the real XdsCache.
// Everything in this file is plain data (cases can be written out as replay values) plus the glue
// that builds one fresh stack (controller + cache + generator) per enumerated history.
package c11

import (
	"errors"
	"fmt"
	"regexp"
	"sort"
	"strings"
	"time"

	envoytls "github.com/envoyproxy/go-control-plane/envoy/extensions/transport_sockets/tls/v3"
	discovery "github.com/envoyproxy/go-control-plane/envoy/service/discovery/v3"
	"google.golang.org/protobuf/proto"
	"google.golang.org/protobuf/types/known/anypb"
	authorizationv1 "k8s.io/api/authorization/v1"
	corev1 "k8s.io/api/core/v1"
	metav1 "k8s.io/apimachinery/pkg/apis/meta/v1"
	"k8s.io/apimachinery/pkg/runtime"
	"k8s.io/client-go/kubernetes/fake"
	k8stesting "k8s.io/client-go/testing"

	kubesecrets "istio.io/istio/pilot/pkg/credentials/kube"
	"istio.io/istio/pilot/pkg/model"
	"istio.io/istio/pilot/pkg/xds"
	"istio.io/istio/pkg/config/schema/kind"
	"istio.io/istio/pkg/kube"
	"istio.io/istio/pkg/kube/multicluster"
	"istio.io/istio/pkg/spiffe"
	"istio.io/istio/pkg/util/sets"
	"istio.io/istio/zz_verif/engine"
)

const clusterID = "Kubernetes"

// ---- secrets held by the fake cluster. Every piece of material is a marker naming the object it
// belongs to, so a response can be scanned for whose private key it carries.

func keyOf(ns, n string) string  { return "KEY[" + ns + "/" + n + "]" }
func certOf(ns, n string) string { return "CERT[" + ns + "/" + n + "]" }
func caOf(ns, n string) string   { return "CA[" + ns + "/" + n + "]" }

var (
	keyRe  = regexp.MustCompile(`KEY\[[^\]]*\]`)
	certRe = regexp.MustCompile(`CERT\[[^\]]*\]`)
	caRe   = regexp.MustCompile(`CA\[[^\]]*\]`)
)

type secretID struct{ NS, Name string }

// tlsSecrets: kubernetes.io/tls secrets with tls.crt, tls.key, ca.crt
var tlsSecrets = []secretID{{"ns1", "s"}, {"ns2", "s"}, {"ns2", "only2"}, {"ns2", "s-cacert"}, {"ns1", "t-cacert"}}

// genericSecrets: opaque secrets with cert, key, cacert
var genericSecrets = []secretID{{"ns1", "g"}, {"ns2", "g"}}

// key/cert secrets WITHOUT a CA part whose own name ends in -cacert (the suffix that, in a resource
// name, asks for the CA part of a secret): kubernetes.io/tls with tls.crt + tls.key only, and opaque
// with cert + key only
var tlsNoCASecrets = []secretID{{"ns1", "k-cacert"}, {"ns2", "k-cacert"}}
var genericNoCASecrets = []secretID{{"ns1", "j-cacert"}}

var configMaps = []secretID{{"ns1", "c"}, {"ns2", "c"}}

func hasKeyMaterial(ns, n string) bool {
	all := append(append([]secretID{}, tlsSecrets...), genericSecrets...)
	all = append(append(all, tlsNoCASecrets...), genericNoCASecrets...)
	for _, s := range all {
		if s.NS == ns && s.Name == n {
			return true
		}
	}
	return false
}

func kubeObjects() []runtime.Object {
	var out []runtime.Object
	for _, s := range tlsSecrets {
		out = append(out, &corev1.Secret{
			ObjectMeta: metav1.ObjectMeta{Name: s.Name, Namespace: s.NS},
			Type:       corev1.SecretTypeTLS,
			Data: map[string][]byte{
				"tls.crt": []byte(certOf(s.NS, s.Name)),
				"tls.key": []byte(keyOf(s.NS, s.Name)),
				"ca.crt":  []byte(caOf(s.NS, s.Name)),
			},
		})
	}
	for _, s := range genericSecrets {
		out = append(out, &corev1.Secret{
			ObjectMeta: metav1.ObjectMeta{Name: s.Name, Namespace: s.NS},
			Type:       corev1.SecretTypeOpaque,
			Data: map[string][]byte{
				"cert":   []byte(certOf(s.NS, s.Name)),
				"key":    []byte(keyOf(s.NS, s.Name)),
				"cacert": []byte(caOf(s.NS, s.Name)),
			},
		})
	}
	for _, s := range tlsNoCASecrets {
		out = append(out, &corev1.Secret{
			ObjectMeta: metav1.ObjectMeta{Name: s.Name, Namespace: s.NS},
			Type:       corev1.SecretTypeTLS,
			Data: map[string][]byte{
				"tls.crt": []byte(certOf(s.NS, s.Name)),
				"tls.key": []byte(keyOf(s.NS, s.Name)),
			},
		})
	}
	for _, s := range genericNoCASecrets {
		out = append(out, &corev1.Secret{
			ObjectMeta: metav1.ObjectMeta{Name: s.Name, Namespace: s.NS},
			Type:       corev1.SecretTypeOpaque,
			Data: map[string][]byte{
				"cert": []byte(certOf(s.NS, s.Name)),
				"key":  []byte(keyOf(s.NS, s.Name)),
			},
		})
	}
	for _, s := range configMaps {
		out = append(out, &corev1.ConfigMap{
			ObjectMeta: metav1.ObjectMeta{Name: s.Name, Namespace: s.NS},
			Data:       map[string]string{"ca.crt": caOf(s.NS, "cm-"+s.Name)},
		})
	}
	return out
}

// ---- proxies

type proxyB struct {
	Short string `json:"short"`
	Label string `json:"label"`
	Type  string `json:"type"`
	// ClaimNS is what the node metadata says; VNS/VSA is the identity the credential proved
	// (empty: the stream was not authenticated, Proxy.VerifiedIdentity is nil).
	ClaimNS string `json:"claim_ns"`
	VNS     string `json:"verified_ns"`
	VSA     string `json:"verified_sa"`
}

var proxiesB = []proxyB{
	{"U", "unauthenticated-router-claiming-ns1", "router", "ns1", "", ""},
	{"R1", "router-ns1-sa1", "router", "ns1", "ns1", "sa1"},
	{"R2", "router-ns2-sa2", "router", "ns2", "ns2", "sa2"},
	{"S1", "sidecar-ns1-sa3", "sidecar", "ns1", "ns1", "sa3"},
	// what part a shows to be reachable: empty namespace claim, identity ns1/sa1 verified
	{"R1e", "router-ns1-sa1-claiming-no-namespace", "router", "", "ns1", "sa1"},
	// same service account name as R1 in the other namespace (a key that drops the namespace would confuse them)
	{"R2b", "router-ns2-sa1", "router", "ns2", "ns2", "sa1"},
}

func (p proxyB) authenticated() bool { return p.VNS != "" }
func (p proxyB) user() string        { return "system:serviceaccount:" + p.VNS + ":" + p.VSA }

// ---- RBAC of the fake API server (answers SubjectAccessReviews)

const (
	sarAllow = "allow"
	sarDeny  = "deny"
	sarError = "error"
)

// rbacB: Own[identity] is the answer to "may <identity> read secrets in its own namespace";
// Foreign lists (user, namespace) pairs that are granted although the namespace is not the user's own.
// Any question that is not about reading (get/list/watch) secrets is denied.
type rbacB struct {
	Name    string            `json:"name"`
	Own     map[string]string `json:"own"`
	Default string            `json:"default"`
	Foreign []string          `json:"foreign,omitempty"`
}

func (r rbacB) answer(user, ns, verb, resource string) string {
	if resource != "secrets" || (verb != "list" && verb != "get" && verb != "watch") {
		return sarDeny
	}
	parts := strings.Split(user, ":")
	if len(parts) == 4 && parts[0] == "system" && parts[1] == "serviceaccount" && parts[2] == ns {
		if a, ok := r.Own[parts[2]+"/"+parts[3]]; ok {
			return a
		}
		return r.Default
	}
	for _, f := range r.Foreign {
		if f == user+"@"+ns {
			return sarAllow
		}
	}
	if r.Default == sarError {
		return sarError
	}
	return sarDeny
}

var identitiesB = []string{"ns1/sa1", "ns2/sa2", "ns1/sa3"}

func rbacConfigs(thorough bool) []rbacB {
	out := []rbacB{
		{Name: "all-allow", Default: sarAllow},
		{Name: "all-deny", Default: sarDeny},
		{Name: "all-error", Default: sarError},
		{Name: "only-ns1/sa1", Default: sarDeny, Own: map[string]string{"ns1/sa1": sarAllow}},
		{Name: "only-ns2/sa2,ns1/sa1-error", Default: sarDeny, Own: map[string]string{"ns2/sa2": sarAllow, "ns1/sa1": sarError}},
		{
			Name: "granted-in-the-other-namespace-only", Default: sarDeny,
			Foreign: []string{"system:serviceaccount:ns1:sa1@ns2", "system:serviceaccount:ns2:sa2@ns1", "system:serviceaccount:ns1:sa3@ns2"},
		},
	}
	if !thorough {
		return out
	}
	seen := map[string]bool{}
	for _, c := range out {
		seen[ownSig(c)] = len(c.Foreign) == 0
	}
	opts := []string{sarAllow, sarDeny, sarError}
	engine.Product([]int{3, 3, 3}, func(_ int64, idx []int) bool {
		c := rbacB{Default: sarDeny, Own: map[string]string{}}
		var nm []string
		for i, id := range identitiesB {
			c.Own[id] = opts[idx[i]]
			nm = append(nm, id+"="+opts[idx[i]])
		}
		c.Name = strings.Join(nm, ",")
		if !seen[ownSig(c)] {
			out = append(out, c)
		}
		return true
	})
	return out
}

func ownSig(c rbacB) string {
	var s []string
	for _, id := range identitiesB {
		s = append(s, c.answer("system:serviceaccount:"+strings.Replace(id, "/", ":", 1), strings.Split(id, "/")[0], "list", "secrets"))
	}
	return strings.Join(s, ",")
}

// ---- verified references (MergedGateway.VerifiedCertificateReferences), per proxy label

type refsB struct {
	Name string              `json:"name"`
	Refs map[string][]string `json:"refs"` // proxy label -> references; a listed proxy has a MergedGateway
}

var refsConfigs = []refsB{
	{Name: "none"},
	{Name: "grant:router-ns1-sa1->ns2/s", Refs: map[string][]string{"router-ns1-sa1": {"kubernetes-gateway://ns2/s"}}},
	{Name: "own:router-ns1-sa1->ns1/s;grant:router-ns2-sa2->ns1/s", Refs: map[string][]string{
		"router-ns1-sa1": {"kubernetes-gateway://ns1/s"},
		"router-ns2-sa2": {"kubernetes-gateway://ns1/s", "kubernetes-gateway://ns1/t-cacert"},
		// what mergeGateways adds for a MUTUAL server on behalf of secrets ns1/s and ns1/k: the CA parts
		"router-ns2-sa1":  {"kubernetes-gateway://ns1/s-cacert", "kubernetes-gateway://ns1/k-cacert"},
		"sidecar-ns1-sa3": {},
	}},
}

type configB struct {
	RBAC rbacB `json:"rbac"`
	Refs refsB `json:"refs"`
}

func (c configB) refsOf(p proxyB) []string { return c.Refs.Refs[p.Label] }

// ---- resource names

type nameB struct {
	Name string
	Form string // the shape, used in violation keys
	Core bool   // part of the alphabet of the longest histories in the quick tier
}

var namesB = []nameB{
	{"kubernetes://s", "kubernetes://name", true},
	{"kubernetes://ns1/s", "kubernetes://ns1/name", true},
	{"kubernetes://ns2/s", "kubernetes://ns2/name", true},
	{"kubernetes://s-cacert", "kubernetes://name-cacert", true},
	{"kubernetes://ns2/s-cacert", "kubernetes://ns2/name-cacert", true},
	{"kubernetes://only2", "kubernetes://name-only-in-ns2", false},
	{"kubernetes://g", "kubernetes://generic-name", true},
	{"kubernetes://t-cacert", "kubernetes://name-cacert(secret-of-that-name-with-key-in-ns1)", false},
	{"kubernetes://k-cacert", "kubernetes://name-cacert(key/cert-secret-of-that-name-without-ca)", true},
	{"kubernetes://ns1/k-cacert", "kubernetes://ns1/name-cacert(key/cert-secret-of-that-name-without-ca)", false},
	{"kubernetes://j-cacert", "kubernetes://name-cacert(generic-key/cert-secret-of-that-name-without-ca)", false},
	{"kubernetes-gateway://ns1/k-cacert", "kubernetes-gateway://ns1/name-cacert(key/cert-secret-of-that-name-without-ca)", false},
	{"kubernetes-gateway://ns1/s", "kubernetes-gateway://ns1/name", true},
	{"kubernetes-gateway://ns2/s", "kubernetes-gateway://ns2/name", true},
	{"kubernetes-gateway://ns2/s-cacert", "kubernetes-gateway://ns2/name-cacert", false},
	{"kubernetes-gateway://ns1/t-cacert", "kubernetes-gateway://ns1/name-cacert", false},
	{"kubernetes-gateway://ns2/s/x", "kubernetes-gateway://ns2/name/extra", false},
	{"configmap://ns2/c", "configmap://ns2/name", true},
	{"configmap://ns1/c", "configmap://ns1/name", false},
	{"configmap://ns2/s", "configmap://ns2/name-of-a-secret", false},
	// malformed / adversarial
	{"kubernetes://", "kubernetes://<empty>", false},
	{"kubernetes:///s", "kubernetes:///name", true},
	{"kubernetes://ns2/s/x", "kubernetes://ns2/name/extra", true},
	{"kubernetes://ns1/s/x", "kubernetes://ns1/name/extra", false},
	{"kubernetes://ns2//s", "kubernetes://ns2//name", false},
	{"kubernetes://s/ns2", "kubernetes://name/ns2", false},
	{"kubernetes://../ns2/s", "kubernetes://../ns2/name", false},
	{"kubernetes://ns2%2Fs", "kubernetes://ns2%2Fname", false},
	{"kubernetes://s ", "kubernetes://name<space>", false},
	{"Kubernetes://s", "Kubernetes://name", false},
	{"kubernetes:/s", "kubernetes:/name", false},
	{"kubernetes-gateway://s", "kubernetes-gateway://name", false},
	{"kubernetes-gateway:///s", "kubernetes-gateway:///name", false},
	{"kubernetes-gateway://ns2/", "kubernetes-gateway://ns2/<empty>", false},
	{"configmap://c", "configmap://name", false},
	{"unknown://s", "unknown://name", false},
	{"invalid://", "invalid://", false},
	{"s", "bare-name", false},
	{"ns2/s", "bare-ns2/name", false},
	{"default", "default", false},
	{"", "<empty>", true},
}

func nameByName(n string) nameB {
	for _, x := range namesB {
		if x.Name == n {
			return x
		}
	}
	return nameB{Name: n, Form: n}
}

// ---- push kinds

const (
	pushForced  = 0 // full push / first request
	pushSecret1 = 1 // incremental: Secret ns1/s changed
	pushSecret2 = 2 // incremental: Secret ns2/s changed
)

var pushNames = []string{"forced", "incremental(Secret ns1/s)", "incremental(Secret ns2/s)"}

var pushEpoch = time.Unix(1700000000, 0)

func pushRequest(k int) *model.PushRequest {
	switch k {
	case pushSecret1:
		return &model.PushRequest{Start: pushEpoch, ConfigsUpdated: sets.New(model.ConfigKey{Kind: kind.Secret, Name: "s", Namespace: "ns1"})}
	case pushSecret2:
		return &model.PushRequest{Start: pushEpoch, ConfigsUpdated: sets.New(model.ConfigKey{Kind: kind.Secret, Name: "s", Namespace: "ns2"})}
	}
	return &model.PushRequest{Start: pushEpoch, Forced: true}
}

// ---- one request and its observation

type reqB struct {
	Proxy int      `json:"proxy"`
	Names []string `json:"names"`
	Push  int      `json:"push"`
}

type resB struct {
	Name   string   `json:"name"`
	Keys   []string `json:"private_keys,omitempty"`
	Certs  []string `json:"certs,omitempty"`
	CAs    []string `json:"cas,omitempty"`
	Kind   string   `json:"kind"`
	Digest string   `json:"digest"`
}

type obsB struct {
	Resources []resB `json:"resources"`
	Err       string `json:"err,omitempty"`
	Panic     string `json:"panic,omitempty"`
	Cached    string `json:"cached,omitempty"`
}

func (o *obsB) canon() string {
	var b strings.Builder
	for _, r := range o.Resources {
		fmt.Fprintf(&b, "%s=%s;", r.Name, r.Digest)
	}
	if o.Err != "" {
		b.WriteString("err=" + o.Err)
	}
	if o.Panic != "" {
		b.WriteString("panic=" + o.Panic)
	}
	return b.String()
}

func uniq(in [][]byte) []string {
	m := map[string]bool{}
	for _, x := range in {
		m[string(x)] = true
	}
	out := make([]string, 0, len(m))
	for k := range m {
		out = append(out, k)
	}
	sort.Strings(out)
	return out
}

func observeResources(rs model.Resources) []resB {
	out := make([]resB, 0, len(rs))
	for _, r := range rs {
		b, err := proto.MarshalOptions{Deterministic: true}.Marshal(r)
		if err != nil {
			panic(err)
		}
		o := resB{Name: r.Name, Digest: engine.Hash(string(b)), Kind: "?"}
		// scan the whole serialized resource: a key is a key wherever it sits
		o.Keys = uniq(keyRe.FindAll(b, -1))
		o.Certs = uniq(certRe.FindAll(b, -1))
		o.CAs = uniq(caRe.FindAll(b, -1))
		var sec envoytls.Secret
		if r.Resource != nil && r.Resource.UnmarshalTo(&sec) == nil {
			switch {
			case sec.GetTlsCertificate() != nil:
				o.Kind = "tls_certificate"
				if sec.GetTlsCertificate().GetPrivateKey() != nil {
					o.Kind += "+private_key"
				}
				if sec.GetTlsCertificate().GetPrivateKeyProvider() != nil {
					o.Kind += "+private_key_provider"
				}
			case sec.GetValidationContext() != nil:
				o.Kind = "validation_context"
			}
			if sec.Name != r.Name {
				o.Kind += "(inner name " + sec.Name + ")"
			}
		}
		out = append(out, o)
	}
	sort.Slice(out, func(i, j int) bool {
		if out[i].Name != out[j].Name {
			return out[i].Name < out[j].Name
		}
		return out[i].Digest < out[j].Digest
	})
	return out
}

// ---- the stack

type worldB struct {
	client    kube.Client
	stop      chan struct{}
	cur       *rbacB
	Questions int64 // SubjectAccessReviews asked
	started   bool
}

func newWorldB() *worldB {
	w := &worldB{stop: make(chan struct{})}
	w.client = kube.NewFakeClient(kubeObjects()...)
	cc := w.client.Kube().(*fake.Clientset)
	cc.Fake.PrependReactor("create", "subjectaccessreviews", func(action k8stesting.Action) (bool, runtime.Object, error) {
		sar := action.(k8stesting.CreateAction).GetObject().(*authorizationv1.SubjectAccessReview)
		w.Questions++
		ra := sar.Spec.ResourceAttributes
		if ra == nil || w.cur == nil {
			return true, &authorizationv1.SubjectAccessReview{Status: authorizationv1.SubjectAccessReviewStatus{Allowed: false, Reason: "no resource attributes"}}, nil
		}
		switch w.cur.answer(sar.Spec.User, ra.Namespace, ra.Verb, ra.Resource) {
		case sarAllow:
			return true, &authorizationv1.SubjectAccessReview{Status: authorizationv1.SubjectAccessReviewStatus{Allowed: true}}, nil
		case sarError:
			return true, nil, errors.New("subject access review unavailable")
		}
		return true, &authorizationv1.SubjectAccessReview{Status: authorizationv1.SubjectAccessReviewStatus{Allowed: false, Reason: "RBAC: access denied"}}, nil
	})
	return w
}

func (w *worldB) close() { close(w.stop) }

// stackB is one SecretGen with its own credentials controller (authorization cache) and XdsCache.
type stackB struct {
	gen   *xds.SecretGen
	creds *kubesecrets.Multicluster
	cfg   configB
}

func (w *worldB) newStack(cfg configB) *stackB {
	c := cfg.RBAC
	w.cur = &c
	// the fake clientset logs every action it is asked to perform; nobody reads that log
	w.client.Kube().(*fake.Clientset).Fake.ClearActions()
	mc := multicluster.NewFakeController()
	creds := kubesecrets.NewMulticluster(clusterID, mc)
	mc.Add(clusterID, w.client, w.stop)
	if !w.started {
		w.client.RunAndWait(w.stop)
		w.started = true
	}
	return &stackB{gen: xds.NewSecretGen(creds, model.NewXdsCache(), clusterID, nil), creds: creds, cfg: cfg}
}

func (s *stackB) proxy(p proxyB) *model.Proxy {
	out := &model.Proxy{
		ID:              "gw-1." + p.ClaimNS,
		Type:            model.NodeType(p.Type),
		ConfigNamespace: p.ClaimNS,
		IPAddresses:     []string{"10.3.0.1"},
		Metadata:        &model.NodeMetadata{ClusterID: clusterID, Namespace: p.ClaimNS},
	}
	if p.authenticated() {
		out.VerifiedIdentity = &spiffe.Identity{TrustDomain: "cluster.local", Namespace: p.VNS, ServiceAccount: p.VSA}
		out.Metadata.ServiceAccount = p.VSA
	}
	if refs, ok := s.cfg.Refs.Refs[p.Label]; ok {
		out.MergedGateway = &model.MergedGateway{VerifiedCertificateReferences: sets.New(refs...)}
	}
	return out
}

func (s *stackB) request(r reqB) (o *obsB) {
	o = &obsB{}
	defer func() {
		if e := recover(); e != nil {
			o.Panic = fmt.Sprint(e)
		}
	}()
	res, details, err := s.gen.Generate(s.proxy(proxiesB[r.Proxy]), &model.WatchedResource{ResourceNames: sets.New(r.Names...)}, pushRequest(r.Push))
	if err != nil {
		o.Err = err.Error()
	}
	o.Cached = details.AdditionalInfo
	o.Resources = observeResources(res)
	return o
}

// nameOfSecret: SotW responses carry bare Secret messages; the name is inside.
func nameOfSecret(a *anypb.Any) string {
	var sec envoytls.Secret
	if a.UnmarshalTo(&sec) != nil {
		return "?"
	}
	return sec.Name
}

var _ = discovery.Resource{}
