// C11 part a: the xDS identity check. A real control plane (pilot/test/xds FakeDiscoveryServer: real
// DiscoveryServer, real generators, real SecretGen over a fake Kubernetes client) runs inside a
// testing/synctest bubble; every case opens one in-memory ADS stream (SotW or delta) whose context
// carries a TLS peer (security.Authenticate then runs DiscoveryServer.Authenticators, which are stub
// authenticators returning the enumerated outcome) or a plaintext peer, sends one CDS request with the
// enumerated node id / metadata, then one SDS request, and looks at what the server did.
//
// Oracle (from the property statement and the documented contract of security.Authenticate: the first
// authenticator that returns a caller with at least one identity and no error decides):
//
//	TLS peer, no authenticator succeeds              -> the stream must be refused, nothing is served
//	TLS peer, identities I                           -> served only if some well-formed i in I
//	     (spiffe://<trust domain>/ns/<ns>/sa/<sa>; an empty <ns> or <sa> is taken at face value) satisfies all of:
//	     - the namespace the node claims (metadata NAMESPACE, else the first label of the node id's DNS
//	       domain when it has one) is i.ns; an empty claim is accepted only if (next line) still holds
//	     - the proxy is served exactly as namespace i.ns: its CDS equals the CDS of the canonical
//	       unauthenticated proxy of i.ns (same node type, same protocol)
//	     - the claimed service account is i.sa or empty
//	     - Proxy.VerifiedIdentity is i
//	     - every private key in the SDS answer belongs to a secret of namespace i.ns
//	plaintext peer                                   -> no demand on CDS (the property speaks about
//	     authenticated clients), but VerifiedIdentity must stay nil and the SDS answer must be empty
//	converse (not demanded by the property, own key prefix, keeps the check from passing on a server
//	that refuses everybody): a fully consistent claim ns/sa with a well-formed identity ns/sa in I is served.
package c11

import (
	"context"
	"encoding/json"
	"errors"
	"fmt"
	"net"
	"regexp"
	"sort"
	"strings"
	"testing"
	"testing/synctest"
	"time"

	cluster "github.com/envoyproxy/go-control-plane/envoy/config/cluster/v3"
	core "github.com/envoyproxy/go-control-plane/envoy/config/core/v3"
	discovery "github.com/envoyproxy/go-control-plane/envoy/service/discovery/v3"
	"golang.org/x/time/rate"
	"google.golang.org/grpc"
	"google.golang.org/grpc/credentials"
	"google.golang.org/grpc/peer"
	"google.golang.org/grpc/status"
	"google.golang.org/protobuf/proto"
	"google.golang.org/protobuf/types/known/anypb"
	"google.golang.org/protobuf/types/known/structpb"

	"istio.io/istio/pilot/pkg/features"
	"istio.io/istio/pilot/pkg/model"
	v3 "istio.io/istio/pilot/pkg/xds/v3"
	xdsfake "istio.io/istio/pilot/test/xds"
	"istio.io/istio/pkg/config/mesh"
	"istio.io/istio/pkg/security"
	"istio.io/istio/zz_verif/engine"
)

// ---- the mesh the control plane serves: what a proxy sees in CDS depends on its namespace only

const meshA = `
apiVersion: networking.istio.io/v1
kind: ServiceEntry
metadata: {name: pub, namespace: ns3, creationTimestamp: "2024-01-01T00:00:00Z"}
spec:
  hosts: [pub.example.com]
  ports: [{number: 80, name: http, protocol: HTTP}]
  resolution: DNS
  endpoints: [{address: pub.backend.example.com}]
---
apiVersion: networking.istio.io/v1
kind: ServiceEntry
metadata: {name: priv1, namespace: ns1, creationTimestamp: "2024-01-01T00:00:01Z"}
spec:
  hosts: [priv1.example.com]
  exportTo: ["."]
  ports: [{number: 80, name: http, protocol: HTTP}]
  resolution: DNS
  endpoints: [{address: priv1.backend.example.com}]
---
apiVersion: networking.istio.io/v1
kind: ServiceEntry
metadata: {name: priv2, namespace: ns2, creationTimestamp: "2024-01-01T00:00:02Z"}
spec:
  hosts: [priv2.example.com]
  exportTo: ["."]
  ports: [{number: 80, name: http, protocol: HTTP}]
  resolution: DNS
  endpoints: [{address: priv2.backend.example.com}]
---
apiVersion: networking.istio.io/v1
kind: DestinationRule
metadata: {name: pub-subsets, namespace: ns1, creationTimestamp: "2024-01-01T00:00:03Z"}
spec:
  host: pub.example.com
  exportTo: ["."]
  subsets: [{name: v1, labels: {version: v1}}]
---
apiVersion: networking.istio.io/v1
kind: Sidecar
metadata: {name: default, namespace: ns2, creationTimestamp: "2024-01-01T00:00:04Z"}
spec:
  egress: [{hosts: ["./*"]}]
`

// ---- authenticator outcomes

type stubA struct {
	Err        bool     `json:"err,omitempty"`
	NilCaller  bool     `json:"nil_caller,omitempty"`
	NilList    bool     `json:"nil_list,omitempty"`
	Identities []string `json:"identities"`
}

func (s stubA) Authenticate(security.AuthContext) (*security.Caller, error) {
	switch {
	case s.Err:
		return nil, errors.New("stub: credential rejected")
	case s.NilCaller:
		return nil, nil
	case s.NilList:
		return &security.Caller{AuthSource: security.AuthSourceClientCertificate}, nil
	}
	return &security.Caller{AuthSource: security.AuthSourceClientCertificate, Identities: append([]string{}, s.Identities...)}, nil
}
func (s stubA) AuthenticatorType() string { return "verif-stub" }

type authA struct {
	Label string  `json:"label"`
	Stubs []stubA `json:"authenticators"`
}

func sp(ns, sa string) string { return "spiffe://cluster.local/ns/" + ns + "/sa/" + sa }

func ids(l ...string) []stubA { return []stubA{{Identities: l}} }

func authOutcomes(thorough bool) []authA {
	out := []authA{
		{"no-authenticator-configured", nil},
		{"authenticator-error", []stubA{{Err: true}}},
		{"nil-caller", []stubA{{NilCaller: true}}},
		{"nil-identity-list", []stubA{{NilList: true}}},
		{"empty-identity-list", ids()},
		{"ns1/sa1", ids(sp("ns1", "sa1"))},
		{"ns1/sa2", ids(sp("ns1", "sa2"))},
		{"ns2/sa1", ids(sp("ns2", "sa1"))},
		{"ns2/sa2", ids(sp("ns2", "sa2"))},
		{"ns1/sa1@other-trust-domain", ids("spiffe://other.example/ns/ns1/sa/sa1")},
		{"malformed:no-scheme", ids("cluster.local/ns/ns1/sa/sa1")},
		{"malformed:bare", ids("ns1/sa1")},
		{"malformed:no-sa", ids("spiffe://cluster.local/ns/ns1")},
		{"malformed:extra-segment", ids("spiffe://cluster.local/ns/ns1/sa/sa1/x")},
		{"malformed:swapped-segments", ids("spiffe://cluster.local/sa/sa1/ns/ns1")},
		{"malformed:empty-ns-and-sa", ids("spiffe://cluster.local/ns//sa/")},
		{"malformed:empty-sa", ids("spiffe://cluster.local/ns/ns1/sa/")},
		{"malformed:empty-ns", ids("spiffe://cluster.local/ns//sa/sa1")},
		{"malformed:empty-string", ids("")},
		{"two:ns1/sa1,ns2/sa2", ids(sp("ns1", "sa1"), sp("ns2", "sa2"))},
		{"two:ns2/sa2,ns1/sa1", ids(sp("ns2", "sa2"), sp("ns1", "sa1"))},
		{"two:ns1/sa2,ns2/sa1", ids(sp("ns1", "sa2"), sp("ns2", "sa1"))},
		{"two:ns2/sa1,ns1/sa2", ids(sp("ns2", "sa1"), sp("ns1", "sa2"))},
		{"two:malformed,ns1/sa1", ids("ns1/sa1", sp("ns1", "sa1"))},
		{"two:ns1/sa1,malformed", ids(sp("ns1", "sa1"), "spiffe://cluster.local/ns/ns2")},
		{"two-authenticators:error,ns1/sa1", []stubA{{Err: true}, {Identities: []string{sp("ns1", "sa1")}}}},
		{"two-authenticators:empty,ns2/sa2", []stubA{{Identities: []string{}}, {Identities: []string{sp("ns2", "sa2")}}}},
		{"two-authenticators:ns2/sa2,ns1/sa1", []stubA{{Identities: []string{sp("ns2", "sa2")}}, {Identities: []string{sp("ns1", "sa1")}}}},
	}
	if thorough {
		pool := []string{sp("ns1", "sa1"), sp("ns1", "sa2"), sp("ns2", "sa1"), sp("ns2", "sa2"), "ns1/sa1", "spiffe://cluster.local/ns//sa/", "spiffe://cluster.local/ns/ns1/sa/", "spiffe://other.example/ns/ns2/sa/sa2"}
		for i, a := range pool {
			for j, b := range pool {
				if i != j {
					out = append(out, authA{fmt.Sprintf("pair:%s,%s", short(a), short(b)), ids(a, b)})
				}
			}
		}
		for _, a := range []string{sp("ns1", "sa1"), sp("ns2", "sa2")} {
			for _, b := range []string{sp("ns1", "sa2"), sp("ns2", "sa1")} {
				for _, c := range []string{sp("ns2", "sa2"), "ns1/sa1"} {
					out = append(out, authA{fmt.Sprintf("triple:%s,%s,%s", short(a), short(b), short(c)), ids(b, c, a)})
				}
			}
		}
	}
	return out
}

func short(id string) string {
	if i, ok := parseID(id); ok {
		s := i.NS + "/" + i.SA
		if !strings.HasPrefix(id, "spiffe://cluster.local/") {
			s += "@other"
		}
		return s
	}
	return "malformed(" + id + ")"
}

// decidingIdentities: what security.Authenticate documents to hand to the server.
func (a authA) decidingIdentities() ([]string, bool) {
	for _, s := range a.Stubs {
		if !s.Err && !s.NilCaller && !s.NilList && len(s.Identities) > 0 {
			return s.Identities, true
		}
	}
	return nil, false
}

type identA struct{ NS, SA string }

// permissive on purpose: an identity with an empty namespace or service account segment is taken at
// face value (it proves exactly that empty value); only the shape is required.
var spiffeRe = regexp.MustCompile(`^spiffe://[^/]+/ns/([^/]*)/sa/([^/]*)$`)

func parseID(s string) (identA, bool) {
	m := spiffeRe.FindStringSubmatch(s)
	if m == nil {
		return identA{}, false
	}
	return identA{m[1], m[2]}, true
}

// ---- claims

type claimA struct {
	Type   string `json:"type"`    // sidecar | router
	MetaNS string `json:"meta_ns"` // metadata NAMESPACE
	MetaSA string `json:"meta_sa"` // metadata SERVICE_ACCOUNT
	IDNS   string `json:"id_ns"`   // node id "pod-1.<ns>" ("" : "pod-1")
	Domain string `json:"domain"`  // DNS domain part of the node id
	Delta  bool   `json:"delta"`
	TLS    bool   `json:"tls_peer"`
}

var (
	nsAlphabet  = []string{"ns1", "ns2", ""}
	saAlphabet  = []string{"sa1", "sa2", ""}
	domAlphabet = []string{"ns1.svc.cluster.local", "ns2.svc.cluster.local", "local", ""}
	typAlphabet = []string{"sidecar", "router"}
)

func (c claimA) nodeID() string {
	id := "pod-1"
	if c.IDNS != "" {
		id += "." + c.IDNS
	}
	return c.Type + "~10.9.0.1~" + id + "~" + c.Domain
}

func (c claimA) node() *core.Node {
	m := map[string]any{
		"LABELS":        map[string]any{"app": "x", "istio": "ingressgateway"},
		"ISTIO_VERSION": "1.29.0",
		"CLUSTER_ID":    "Kubernetes",
	}
	if c.MetaNS != "" {
		m["NAMESPACE"] = c.MetaNS
	}
	if c.MetaSA != "" {
		m["SERVICE_ACCOUNT"] = c.MetaSA
	}
	meta, err := structpb.NewStruct(m)
	if err != nil {
		panic(err)
	}
	return &core.Node{Id: c.nodeID(), Metadata: meta}
}

// claimedNS: the namespace the node says it lives in (documented on GetProxyConfigNamespace: the
// metadata NAMESPACE, else - legacy - the namespace label of the node id's DNS domain).
func (c claimA) claimedNS() string {
	if c.MetaNS != "" {
		return c.MetaNS
	}
	if l := strings.Split(c.Domain, "."); len(l) > 1 {
		return l[0]
	}
	return ""
}

func (c claimA) consistent() bool {
	return c.MetaNS != "" && c.MetaSA != "" && c.IDNS == c.MetaNS && c.Domain == c.MetaNS+".svc.cluster.local"
}

func (c claimA) String() string {
	peer := "plaintext"
	if c.TLS {
		peer = "tls"
	}
	proto := "sotw"
	if c.Delta {
		proto = "delta"
	}
	return fmt.Sprintf("%s/%s node=%q NAMESPACE=%q SERVICE_ACCOUNT=%q", peer, proto, c.nodeID(), c.MetaNS, c.MetaSA)
}

// ---- in-memory streams

type streamA struct {
	grpc.ServerStream
	ctx     context.Context
	cancel  context.CancelFunc
	sotwIn  chan *discovery.DiscoveryRequest
	deltaIn chan *discovery.DeltaDiscoveryRequest
	sotw    []*discovery.DiscoveryResponse
	delta   []*discovery.DeltaDiscoveryResponse
}

func newStreamA(tls bool) *streamA {
	p := &peer.Peer{Addr: &net.TCPAddr{IP: net.IPv4(10, 9, 9, 9), Port: 1234}}
	if tls {
		p.AuthInfo = credentials.TLSInfo{}
	}
	ctx, cancel := context.WithCancel(peer.NewContext(context.Background(), p))
	return &streamA{ctx: ctx, cancel: cancel, sotwIn: make(chan *discovery.DiscoveryRequest, 16), deltaIn: make(chan *discovery.DeltaDiscoveryRequest, 16)}
}

func (s *streamA) Context() context.Context { return s.ctx }

type sotwSide struct{ *streamA }

func (s sotwSide) Send(r *discovery.DiscoveryResponse) error {
	if s.ctx.Err() != nil {
		return s.ctx.Err()
	}
	s.sotw = append(s.sotw, r)
	return nil
}

func (s sotwSide) Recv() (*discovery.DiscoveryRequest, error) {
	select {
	case r := <-s.sotwIn:
		return r, nil
	case <-s.ctx.Done():
		return nil, s.ctx.Err()
	}
}

type deltaSide struct{ *streamA }

func (s deltaSide) Send(r *discovery.DeltaDiscoveryResponse) error {
	if s.ctx.Err() != nil {
		return s.ctx.Err()
	}
	s.delta = append(s.delta, r)
	return nil
}

func (s deltaSide) Recv() (*discovery.DeltaDiscoveryRequest, error) {
	select {
	case r := <-s.deltaIn:
		return r, nil
	case <-s.ctx.Done():
		return nil, s.ctx.Err()
	}
}

// ---- one connection attempt

type obsA struct {
	Served     bool     `json:"served"`
	StreamErr  string   `json:"stream_error,omitempty"`
	Code       string   `json:"code,omitempty"`
	Clusters   []string `json:"cds,omitempty"`
	cdsDigest  string
	ServedAs   string `json:"served_as,omitempty"` // which canonical proxy's CDS this equals
	Registered bool   `json:"registered"`          // the connection shows up in DiscoveryServer.AllClients
	Verified   string `json:"verified_identity,omitempty"`
	ConfigNS   string `json:"proxy_config_namespace"`
	SDS        []resB `json:"sds,omitempty"`
	SDSAnswer  bool   `json:"sds_answered"`
}

type serverA struct {
	s    *xdsfake.FakeDiscoveryServer
	refs map[string]string // "<type>/<proto>/<digest>" -> namespace label
}

var sdsNamesA = []string{"kubernetes://s", "kubernetes://ns1/s", "kubernetes://ns2/s", "kubernetes-gateway://ns1/s", "kubernetes-gateway://ns2/s"}

func newServerA(t *testing.T) *serverA {
	model.VerifResetJwksChannels()
	features.EnableXDSIdentityCheck = true
	m := mesh.DefaultMeshConfig()
	m.RootNamespace = "istio-system"
	s := xdsfake.NewFakeDiscoveryServer(t, xdsfake.FakeOptions{
		ConfigString:               meshA,
		KubernetesObjects:          kubeObjects(),
		MeshConfig:                 m,
		DebounceTime:               5 * time.Second,
		DisableSecretAuthorization: true,
	})
	s.Discovery.RequestRateLimit = rate.NewLimiter(0, 1)
	srv := &serverA{s: s, refs: map[string]string{}}
	srv.settle()
	return srv
}

func (srv *serverA) settle() {
	d := srv.s.Discovery
	for i := 0; i < 100; i++ {
		synctest.Wait()
		before := d.InboundUpdates.Load()
		time.Sleep(time.Second)
		synctest.Wait()
		if d.InboundUpdates.Load() == before && d.CommittedUpdates.Load() >= before {
			return
		}
		time.Sleep(5 * time.Second)
	}
	panic("server does not settle")
}

func clusterDigest(resources []*anypb.Any) ([]string, string) {
	var names, parts []string
	for _, a := range resources {
		var c cluster.Cluster
		if err := a.UnmarshalTo(&c); err != nil {
			panic(err)
		}
		b, _ := proto.MarshalOptions{Deterministic: true}.Marshal(&c)
		names = append(names, c.Name)
		parts = append(parts, c.Name+"="+engine.Hash(string(b)))
	}
	sort.Strings(names)
	sort.Strings(parts)
	return names, engine.Hash(parts...)
}

func (srv *serverA) connect(c claimA, a authA) *obsA {
	d := srv.s.Discovery
	d.Authenticators = nil
	for _, st := range a.Stubs {
		d.Authenticators = append(d.Authenticators, st)
	}
	before := map[string]bool{}
	for _, con := range d.AllClients() {
		before[con.ID()] = true
	}
	st := newStreamA(c.TLS)
	done := make(chan error, 1)
	if c.Delta {
		go func() { err := d.StreamDeltas(deltaSide{st}); st.cancel(); done <- err }()
		st.deltaIn <- &discovery.DeltaDiscoveryRequest{Node: c.node(), TypeUrl: v3.ClusterType}
	} else {
		go func() { err := d.Stream(sotwSide{st}); st.cancel(); done <- err }()
		st.sotwIn <- &discovery.DiscoveryRequest{Node: c.node(), TypeUrl: v3.ClusterType}
	}
	synctest.Wait()
	o := &obsA{}
	var cds []*anypb.Any
	if c.Delta {
		for _, r := range st.delta {
			if r.TypeUrl == v3.ClusterType {
				o.Served = true
				for _, x := range r.Resources {
					cds = append(cds, x.Resource)
				}
			}
		}
	} else {
		for _, r := range st.sotw {
			if r.TypeUrl == v3.ClusterType {
				o.Served = true
				cds = append(cds, r.Resources...)
			}
		}
	}
	if o.Served {
		o.Clusters, o.cdsDigest = clusterDigest(cds)
	}
	for _, con := range d.AllClients() {
		if before[con.ID()] {
			continue
		}
		o.Registered = true
		if p := con.Proxy(); p != nil {
			o.ConfigNS = p.ConfigNamespace
			if p.VerifiedIdentity != nil {
				o.Verified = p.VerifiedIdentity.Namespace + "/" + p.VerifiedIdentity.ServiceAccount
			}
		}
	}
	if st.ctx.Err() == nil {
		// the stream is still open: ask for secrets on it
		n0, n1 := len(st.sotw), len(st.delta)
		if c.Delta {
			st.deltaIn <- &discovery.DeltaDiscoveryRequest{TypeUrl: v3.SecretType, ResourceNamesSubscribe: sdsNamesA}
		} else {
			st.sotwIn <- &discovery.DiscoveryRequest{TypeUrl: v3.SecretType, ResourceNames: sdsNamesA}
		}
		synctest.Wait()
		var rs model.Resources
		for _, r := range st.sotw[n0:] {
			if r.TypeUrl == v3.SecretType {
				o.SDSAnswer = true
				for _, x := range r.Resources {
					rs = append(rs, &discovery.Resource{Name: nameOfSecret(x), Resource: x})
				}
			}
		}
		for _, r := range st.delta[n1:] {
			if r.TypeUrl == v3.SecretType {
				o.SDSAnswer = true
				rs = append(rs, r.Resources...)
			}
		}
		o.SDS = observeResources(rs)
	}
	st.cancel()
	synctest.Wait()
	select {
	case err := <-done:
		if err != nil && !errors.Is(err, context.Canceled) {
			o.StreamErr = err.Error()
			o.Code = status.Code(err).String()
		}
	default:
		panic("stream handler did not return after cancel: " + c.String())
	}
	return o
}

// canonical: the well-formed unauthenticated proxy of a namespace.
func canonical(ns, typ string, delta bool) claimA {
	c := claimA{Type: typ, MetaNS: ns, MetaSA: "", IDNS: ns, Domain: ns + ".svc.cluster.local", Delta: delta}
	if ns == "" {
		c.Domain = ""
	}
	return c
}

func (srv *serverA) buildRefs() {
	for _, typ := range typAlphabet {
		for _, delta := range []bool{false, true} {
			for _, ns := range []string{"ns1", "ns2", ""} {
				o := srv.connect(canonical(ns, typ, delta), authA{})
				if !o.Served {
					panic(fmt.Sprintf("canonical proxy of %q not served: %+v", ns, o))
				}
				k := fmt.Sprintf("%s/%v/%s", typ, delta, o.cdsDigest)
				label := labelNS(ns)
				if prev, dup := srv.refs[k]; dup {
					panic(fmt.Sprintf("the mesh does not tell namespaces %q and %q apart for %s: %v", prev, label, typ, o.Clusters))
				}
				srv.refs[k] = label
			}
		}
	}
}

func (srv *serverA) servedAs(c claimA, o *obsA) string {
	if l, ok := srv.refs[fmt.Sprintf("%s/%v/%s", c.Type, c.Delta, o.cdsDigest)]; ok {
		return l
	}
	return "<unlike any canonical proxy>"
}

// ---- judging

type replayA struct {
	Claim claimA `json:"claim"`
	Auth  authA  `json:"auth"`
}

func orNone(s string) string {
	if s == "" {
		return "<empty>"
	}
	return s
}

func judgeA(c claimA, a authA, o *obsA) []findingB {
	var out []findingB
	add := func(key, desc string) { out = append(out, findingB{key, desc}) }
	keyNS := map[string]bool{}
	for _, r := range o.SDS {
		for _, k := range r.Keys {
			ns, _, _ := strings.Cut(strings.TrimSuffix(strings.TrimPrefix(k, "KEY["), "]"), "/")
			keyNS[ns] = true
		}
	}
	if !c.TLS {
		if o.Verified != "" {
			add("a:plaintext-peer-has-verified-identity", "the stream has no TLS peer but Proxy.VerifiedIdentity is "+o.Verified)
		}
		if len(o.SDS) > 0 {
			add("a:sds-answer-to-plaintext-peer", "the unauthenticated stream got secrets: "+brief(&obsB{Resources: o.SDS}))
		}
		return out
	}
	idl, ok := a.decidingIdentities()
	if !ok {
		if o.Served || o.Registered || len(o.SDS) > 0 {
			add("a:served-without-successful-authentication|auth="+a.Label, fmt.Sprintf("TLS peer, no authenticator produced an identity, yet the stream was served (cds=%v registered=%v)", o.Clusters, o.Registered))
		}
		return out
	}
	var proven []identA
	for _, s := range idl {
		if i, ok := parseID(s); ok {
			proven = append(proven, i)
		}
	}
	if !o.Served {
		if len(o.SDS) > 0 {
			add("a:sds-answer-on-refused-stream", "CDS was refused but SDS answered")
		}
		if c.consistent() {
			for _, i := range proven {
				if i.NS == c.MetaNS && i.SA == c.MetaSA {
					add("a:refused-although-proven|auth-shape="+authShape(a), fmt.Sprintf("consistent claim %s/%s is proven by identity list %v but the stream was refused: %s", c.MetaNS, c.MetaSA, idl, o.StreamErr))
				}
			}
		}
		return out
	}
	// served: find the identity that justifies it
	claimNS, claimSA := c.claimedNS(), c.MetaSA
	var why []string
	for _, i := range proven {
		switch {
		case claimNS != "" && claimNS != i.NS:
			why = append(why, fmt.Sprintf("%s/%s does not prove claimed namespace %q", i.NS, i.SA, claimNS))
		case claimSA != "" && claimSA != i.SA:
			why = append(why, fmt.Sprintf("%s/%s does not prove claimed service account %q", i.NS, i.SA, claimSA))
		case o.ServedAs != labelNS(i.NS):
			why = append(why, fmt.Sprintf("%s/%s: the proxy is served as %s, not as %s", i.NS, i.SA, o.ServedAs, i.NS))
		case o.Verified != i.NS+"/"+i.SA:
			why = append(why, fmt.Sprintf("%s/%s: VerifiedIdentity is %q", i.NS, i.SA, o.Verified))
		default:
			// justified by i; the SDS answer must stay inside i.NS
			for ns := range keyNS {
				if ns != i.NS {
					add("a:sds-key-of-unproven-namespace|claimed-namespace="+nsClass(claimNS),
						fmt.Sprintf("identity %s/%s justifies the connection but the SDS answer carries a key of namespace %s: %s", i.NS, i.SA, ns, brief(&obsB{Resources: o.SDS})))
				}
			}
			return out
		}
	}
	// nothing justifies serving: name the first thing that is wrong (namespace, service account, identity recorded)
	provenNS := map[string]bool{}
	nsAndSA := false
	for _, i := range proven {
		provenNS[labelNS(i.NS)] = true
		if (claimNS == "" || claimNS == i.NS) && o.ServedAs == labelNS(i.NS) && (claimSA == "" || claimSA == i.SA) {
			nsAndSA = true
		}
	}
	var key string
	switch {
	case len(proven) == 0:
		key = "a:served-without-any-parseable-identity|auth=" + a.Label
	case !provenNS[o.ServedAs] || (claimNS != "" && !provenNS[claimNS]) || (o.Verified != "" && labelNS(strings.Split(o.Verified, "/")[0]) != o.ServedAs):
		// the namespace served is not a proven one, or not the one of the identity the server recorded
		key = fmt.Sprintf("a:served-as-namespace-not-proven|claimed-namespace=%s(%s)|served-as=%s", nsClass(claimNS), claimSource(c), servedClass(o.ServedAs))
	case !nsAndSA:
		key = fmt.Sprintf("a:served-with-service-account-not-proven|claimed-sa=%s|identities=%s", saClass(claimSA), authShape(a))
	default:
		key = "a:verified-identity-is-not-the-proving-identity|identities=" + authShape(a)
	}
	add(key, fmt.Sprintf("TLS peer with identities %v was served (as %s; CDS %v; VerifiedIdentity %q; proxy ConfigNamespace %q) although no identity proves the claim namespace=%q service account=%q and matches what was served: %s",
		idl, o.ServedAs, o.Clusters, o.Verified, o.ConfigNS, claimNS, claimSA, strings.Join(why, "; ")))
	for ns := range keyNS {
		if !provenNS[labelNS(ns)] {
			add("a:sds-key-of-unproven-namespace|claimed-namespace="+nsClass(claimNS), fmt.Sprintf("the SDS answer carries a key of namespace %s, identities %v: %s", ns, idl, brief(&obsB{Resources: o.SDS})))
		}
	}
	return out
}

func labelNS(ns string) string {
	if ns == "" {
		return "<no namespace>"
	}
	return ns
}

func servedClass(l string) string {
	if l == "ns1" || l == "ns2" {
		return "another-namespace"
	}
	return l
}

func nsClass(ns string) string {
	if ns == "" {
		return "<empty>"
	}
	return "set"
}

func saClass(sa string) string {
	if sa == "" {
		return "<empty>"
	}
	return "set"
}

func claimSource(c claimA) string {
	switch {
	case c.MetaNS != "":
		return "metadata"
	case c.claimedNS() != "":
		return "dns-domain"
	}
	return "nowhere"
}

func authShape(a authA) string {
	if i := strings.Index(a.Label, ":"); i > 0 {
		return a.Label[:i]
	}
	return "single"
}

// ---- enumeration

func TestC11a(t *testing.T) {
	env := engine.GetEnv()
	res := engine.NewResult("C11", "a-identity")
	res.Rule = "case = peer {TLS, plaintext} x authenticator outcome (none configured; error; nil caller; nil / empty identity list; one identity ns1|ns2 x sa1|sa2; other trust domain; 9 malformed identities; two identities in both orders incl. one where namespace and service account are proven by different identities; two authenticators) x node claim (metadata NAMESPACE {ns1,ns2,empty} x SERVICE_ACCOUNT {sa1,sa2,empty} x node-id workload namespace {ns1,ns2,none} x node-id DNS domain {ns1.svc.cluster.local, ns2.svc.cluster.local, local, empty} x {sidecar, router}) x {SotW, delta}; each case opens one in-memory ADS stream on a real control plane (FakeDiscoveryServer in a synctest bubble) with features.EnableXDSIdentityCheck on, sends CDS then SDS; non-trivial = TLS peer with at least one well-formed identity (the comparison of claim and identity decides)"
	defer res.Write(t, env)

	auths := authOutcomes(env.Thorough())
	plainAuths := []authA{auths[0], auths[5], auths[19]}
	run := func(f func(srv *serverA)) {
		synctest.Test(t, func(t *testing.T) {
			srv := newServerA(t)
			srv.buildRefs()
			f(srv)
		})
	}
	one := func(srv *serverA, c claimA, a authA) (*obsA, []findingB) {
		o := srv.connect(c, a)
		if o.Served {
			o.ServedAs = srv.servedAs(c, o)
		}
		return o, judgeA(c, a, o)
	}

	if env.Replay != "" {
		var rp replayA
		if err := engine.ReadReplay(env.Replay, &rp); err != nil {
			t.Fatal(err)
		}
		run(func(srv *serverA) {
			o, fs := one(srv, rp.Claim, rp.Auth)
			res.Evaluations++
			for _, f := range fs {
				res.Violate(f.key, fmt.Sprintf("%s; authenticators %s: %s", rp.Claim, rp.Auth.Label, f.desc), rp)
			}
			b, _ := json.MarshalIndent(o, "", " ")
			t.Logf("%s; authenticators %s\nobserved %s\nfindings %d", rp.Claim, rp.Auth.Label, b, len(fs))
		})
		return
	}

	dims := []int{2, len(auths), len(typAlphabet), 2, len(nsAlphabet), len(saAlphabet), len(nsAlphabet), len(domAlphabet)}
	res.Bounds["dims(peer,auth,type,protocol,meta_ns,meta_sa,id_ns,domain)"] = dims
	res.Bounds["authenticator_outcomes_tls"] = len(auths)
	res.Bounds["authenticator_outcomes_plaintext"] = len(plainAuths)
	run(func(srv *serverA) {
		var n int64
		engine.Product(dims, func(_ int64, i []int) bool {
			tls := i[0] == 0
			if !tls && i[1] >= len(plainAuths) {
				return true
			}
			a := auths[i[1]]
			if !tls {
				a = plainAuths[i[1]]
			}
			ord := n
			n++
			if !env.Mine(ord) {
				return true
			}
			if res.Evaluations%64 == 0 && env.Expired() {
				res.Cap(fmt.Sprintf("deadline at case %d", ord))
				return false
			}
			c := claimA{TLS: tls, Type: typAlphabet[i[2]], Delta: i[3] == 1, MetaNS: nsAlphabet[i[4]], MetaSA: saAlphabet[i[5]], IDNS: nsAlphabet[i[6]], Domain: domAlphabet[i[7]]}
			res.Evaluations++
			o, fs := one(srv, c, a)
			if res.Evaluations%499 == 0 {
				o2, _ := one(srv, c, a)
				b1, _ := json.Marshal(o)
				b2, _ := json.Marshal(o2)
				if string(b1) != string(b2) {
					res.Infra = fmt.Sprintf("nondeterministic observation for %s / %s: %s vs %s", c, a.Label, b1, b2)
					return false
				}
			}
			for _, f := range fs {
				res.Violate(f.key, fmt.Sprintf("%s; authenticators %s: %s", c, a.Label, f.desc), replayA{Claim: c, Auth: a})
			}
			keys := 0
			for _, r := range o.SDS {
				keys += len(r.Keys)
			}
			peer := "plaintext"
			if tls {
				peer = "tls"
			}
			if o.Served {
				res.Outcome(fmt.Sprintf("%s served-as=%s verified=%s sds-keys=%d", peer, o.ServedAs, orNone(o.Verified), keys))
			} else {
				res.Outcome(fmt.Sprintf("%s refused code=%s", peer, o.Code))
			}
			if idl, ok := a.decidingIdentities(); ok && tls {
				for _, s := range idl {
					if _, ok := parseID(s); ok {
						res.Nontrivial++
						break
					}
				}
			}
			if res.Evaluations%401 == 1 {
				res.Sample(map[string]any{"claim": c.String(), "authenticators": a.Label, "observed": o})
			}
			return true
		})
		res.Bounds["cases_total"] = n
	})
}
