// C11 part c: SDS key material when the right to read secrets CHANGES over time. The stack of part b
// (real SecretGen, real XdsCache, real kube CredentialsController with its authorization cache) runs
// inside a testing/synctest bubble, so the clock the authorization cache reads is virtual and a history
// can contain the steps "the RBAC table changes" and "time passes".
//
// History alphabet: ask(proxy, name) | rbac(table) | wait(d), d in {30s, 60s, 2m, 5m, 6m} (on both
// sides of, and exactly on, the two time-to-live values of the authorization cache: 1 minute for a
// negative answer, 5 minutes for a positive one). Two rbac steps or two wait steps never follow each
// other (the first of two rbac steps cannot be observed by anybody; two waits are one wait of the sum,
// and the sums 30s..6m that matter are in the alphabet); a history ends with an ask.
//
// Oracle. The property says key material is returned only for secrets the requester "is authorised to
// read ... independently of what other proxies requested before or what the cache holds". Istio caches
// SubjectAccessReview answers on purpose and documents the bound (a positive answer is reused for at
// most 5 minutes, a negative one for at most 1 minute); the reference therefore accepts every answer
// inside that bound and is definite outside it:
//
//	leak      the response carries a private key of the requester's own namespace although the RBAC
//	          table did not authorise the requester at any moment of the last 5 minutes (closed window),
//	          or a key of another namespace, or anything at all for the unauthenticated stream
//	withheld  (converse, own key prefix, not demanded by the property) on a full push for an existing
//	          secret the key is missing although the RBAC table has authorised the requester without
//	          interruption for more than the last minute
package c11

import (
	"encoding/json"
	"fmt"
	"runtime"
	"strings"
	"testing"
	"testing/synctest"
	"time"

	"istio.io/istio/zz_verif/engine"
)

const (
	allowTTL = 5 * time.Minute // how long a positive SubjectAccessReview answer may be reused
	denyTTL  = time.Minute     // how long a negative one may be reused
)

type stepC struct {
	Kind  string `json:"kind"` // ask | rbac | wait
	Proxy int    `json:"proxy,omitempty"`
	Name  string `json:"name,omitempty"`
	RBAC  *rbacB `json:"rbac,omitempty"`
	WaitS int    `json:"wait_seconds,omitempty"`
}

func (s stepC) String() string {
	switch s.Kind {
	case "ask":
		return fmt.Sprintf("%s asks %q", proxiesB[s.Proxy].Label, s.Name)
	case "rbac":
		return "RBAC becomes " + s.RBAC.Name
	}
	return fmt.Sprintf("%v pass", time.Duration(s.WaitS)*time.Second)
}

type replayC struct {
	Initial rbacB   `json:"initial_rbac"`
	Steps   []stepC `json:"steps"`
}

func describeC(init rbacB, steps []stepC) string {
	s := []string{"RBAC " + init.Name}
	for _, st := range steps {
		s = append(s, st.String())
	}
	return strings.Join(s, "; ")
}

// eraC: table is in force during [from, next era's from] (closed on both sides: an ask that happens at
// the instant of a change may see either table).
type eraC struct {
	from  time.Duration
	table rbacB
}

func allows(t rbacB, p proxyB) bool {
	return p.authenticated() && t.answer(p.user(), p.VNS, "list", "secrets") == sarAllow
}

// authorisedWithin: did some table in force during [now-window, now] authorise p?
func authorisedWithin(eras []eraC, now, window time.Duration, p proxyB) bool {
	for i, e := range eras {
		end := now
		if i+1 < len(eras) {
			end = eras[i+1].from
		}
		if end >= now-window && e.from <= now && allows(e.table, p) {
			return true
		}
	}
	return false
}

// authorisedThroughout: did every table in force during [now-window, now] authorise p?
func authorisedThroughout(eras []eraC, now, window time.Duration, p proxyB) bool {
	for i, e := range eras {
		end := now
		if i+1 < len(eras) {
			end = eras[i+1].from
		}
		if end >= now-window && e.from <= now && !allows(e.table, p) {
			return false
		}
	}
	return p.authenticated()
}

func everAuthorised(eras []eraC, p proxyB) bool {
	for _, e := range eras {
		if allows(e.table, p) {
			return true
		}
	}
	return false
}

type runnerC struct {
	w        *worldB
	res      *engine.Result
	lastFull string // every step's observation of the last history (determinism check)
}

// runC executes one history on one fresh stack inside the bubble.
func (x *runnerC) runC(init rbacB, steps []stepC, verbose func(string)) (outcome string, nontrivial bool) {
	var full string
	defer func() { x.lastFull = full }()
	cfg := configB{RBAC: init, Refs: refsConfigs[0]}
	st := x.w.newStack(cfg)
	start := time.Now()
	var now time.Duration
	eras := []eraC{{0, init}}
	var sig []string
	revoked := false
	for i, s := range steps {
		switch s.Kind {
		case "rbac":
			t := *s.RBAC
			x.w.cur = &t
			eras = append(eras, eraC{now, t})
			sig = append(sig, "rbac")
		case "wait":
			time.Sleep(time.Duration(s.WaitS) * time.Second)
			now += time.Duration(s.WaitS) * time.Second
			if got := time.Since(start); got != now {
				x.res.Infra = fmt.Sprintf("virtual clock at %v, history says %v", got, now)
			}
			sig = append(sig, fmt.Sprintf("+%ds", s.WaitS))
		case "ask":
			p := proxiesB[s.Proxy]
			o := st.request(reqB{Proxy: s.Proxy, Names: []string{s.Name}, Push: pushForced})
			x.res.Transitions++
			may := authorisedWithin(eras, now, allowTTL, p)
			must := authorisedThroughout(eras, now, denyTTL, p)
			cur := allows(eras[len(eras)-1].table, p)
			if everAuthorised(eras, p) && !cur {
				revoked = true
			}
			var fs []findingB
			if o.Panic != "" {
				fs = append(fs, findingB{"c:panic", "SecretGen.Generate panicked: " + o.Panic})
			}
			if !p.authenticated() && len(o.Resources) > 0 {
				fs = append(fs, findingB{"c:response-to-unauthenticated", "the unauthenticated stream got " + brief(o)})
			}
			got := false
			for _, r := range o.Resources {
				for _, k := range r.Keys {
					ns, n, _ := strings.Cut(strings.TrimSuffix(strings.TrimPrefix(k, "KEY["), "]"), "/")
					if r.Name == s.Name && k == keyOf(ns, n) && ns == p.VNS {
						got = true
					}
					switch {
					case ns != p.VNS || !p.authenticated():
						fs = append(fs, findingB{"c:key-leak|secret-in=other-namespace", fmt.Sprintf("%s (verified %s/%s) got %s", p.Label, p.VNS, p.VSA, k)})
					case !may:
						why := "never-authorised"
						if everAuthorised(eras, p) {
							why = "revoked-for-longer-than-the-authorization-ttl"
						}
						fs = append(fs, findingB{
							"c:key-leak|secret-in=own-namespace|requester=" + why,
							fmt.Sprintf("%s (verified %s/%s) got %s at +%v although no RBAC table in force during the last %v authorised it (tables: %s)", p.Label, p.VNS, p.VSA, k, now, allowTTL, erasString(eras)),
						})
					}
				}
			}
			if want := mustHoldKey(configB{RBAC: eras[len(eras)-1].table, Refs: refsConfigs[0]}, p, s.Name); want != "" && must && !got && o.Panic == "" {
				fs = append(fs, findingB{
					"c:key-withheld|authorised-for-longer-than-the-denial-ttl",
					fmt.Sprintf("%s (verified %s/%s) asked for %q at +%v and has been authorised without interruption for more than %v (tables: %s), but the response is %s", p.Label, p.VNS, p.VSA, s.Name, now, denyTTL, erasString(eras), brief(o)),
				})
			}
			for _, f := range fs {
				x.res.Violate(f.key, describeC(init, steps[:i+1])+". "+f.desc, replayC{Initial: init, Steps: steps[:i+1]})
			}
			if verbose != nil {
				b, _ := json.Marshal(o)
				verbose(fmt.Sprintf("+%v %s -> %s (may=%v must=%v findings=%d)", now, s, b, may, must, len(fs)))
			}
			// non-trivial: the answer depends on the history of the RBAC table, not only on the table in force
			if may != cur || must != cur {
				nontrivial = true
			}
			sig = append(sig, fmt.Sprintf("%s:%dkeys(cur=%v,may=%v,must=%v)", p.Short, keyCount(o), cur, may, must))
		}
	}
	_ = revoked
	// outcome: the shape of the history (step kinds) and the verdict of the last ask
	var kinds []string
	for _, st := range steps {
		kinds = append(kinds, st.Kind[:1])
	}
	last := ""
	if len(sig) > 0 {
		last = sig[len(sig)-1]
	}
	full = strings.Join(sig, " ")
	return strings.Join(kinds, "") + " " + last[strings.Index(last, ":")+1:], nontrivial
}

func erasString(eras []eraC) string {
	var s []string
	for _, e := range eras {
		s = append(s, fmt.Sprintf("from +%v %s", e.from, e.table.Name))
	}
	return strings.Join(s, ", ")
}

// ---- enumeration

type spaceC struct {
	initial  []rbacB
	alphabet []stepC
	maxLen   int
	// longer histories under a core of the alphabet
	coreInitial  []rbacB
	coreAlphabet []stepC
	coreLen      int
}

func newSpaceC(thorough bool) *spaceC {
	sp := &spaceC{}
	tables := rbacConfigs(false)
	sp.initial = tables
	names := []string{"kubernetes://s"}
	if thorough {
		names = append(names, "kubernetes://g")
	}
	for p := range proxiesB {
		for _, n := range names {
			sp.alphabet = append(sp.alphabet, stepC{Kind: "ask", Proxy: p, Name: n})
		}
	}
	for i := range tables {
		sp.alphabet = append(sp.alphabet, stepC{Kind: "rbac", RBAC: &tables[i]})
	}
	for _, w := range []int{30, 60, 120, 300, 360} {
		sp.alphabet = append(sp.alphabet, stepC{Kind: "wait", WaitS: w})
	}
	sp.maxLen = 4
	// core: three identities (ns1/sa1 twice: R1 and R1e share a cache entry; ns1/sa3; ns2/sa1 shares the
	// service account name), three tables, three waits
	for _, t := range tables {
		if t.Name == "all-allow" || t.Name == "all-deny" || t.Name == "only-ns1/sa1" {
			sp.coreInitial = append(sp.coreInitial, t)
		}
	}
	for _, p := range []int{1, 3, 5} {
		sp.coreAlphabet = append(sp.coreAlphabet, stepC{Kind: "ask", Proxy: p, Name: "kubernetes://s"})
	}
	for i := range sp.coreInitial {
		sp.coreAlphabet = append(sp.coreAlphabet, stepC{Kind: "rbac", RBAC: &sp.coreInitial[i]})
	}
	for _, w := range []int{60, 300, 360} {
		sp.coreAlphabet = append(sp.coreAlphabet, stepC{Kind: "wait", WaitS: w})
	}
	sp.coreLen = 6
	if thorough {
		sp.maxLen = 5
		sp.coreLen = 7
	}
	return sp
}

// walk enumerates every admissible history over alphabet of length 1..maxLen that ends with an ask
// (and, for minLen > 1, is longer than minLen-1).
func walk(alphabet []stepC, minLen, maxLen int, f func(h []stepC) bool) bool {
	cur := make([]stepC, 0, maxLen)
	var rec func() bool
	rec = func() bool {
		if n := len(cur); n >= minLen && cur[n-1].Kind == "ask" {
			if !f(cur) {
				return false
			}
		}
		if len(cur) == maxLen {
			return true
		}
		for _, s := range alphabet {
			if n := len(cur); n > 0 && s.Kind != "ask" && cur[n-1].Kind == s.Kind {
				continue
			}
			// a history that has to end with an ask cannot spend its last step otherwise
			if len(cur) == maxLen-1 && s.Kind != "ask" {
				continue
			}
			cur = append(cur, s)
			ok := rec()
			cur = cur[:len(cur)-1]
			if !ok {
				return false
			}
		}
		return true
	}
	return rec()
}

func (sp *spaceC) each(f func(ord int64, init rbacB, h []stepC) bool) int64 {
	var ord int64
	for _, init := range sp.initial {
		if !walk(sp.alphabet, 1, sp.maxLen, func(h []stepC) bool {
			ok := f(ord, init, h)
			ord++
			return ok
		}) {
			return ord
		}
	}
	for _, init := range sp.coreInitial {
		if !walk(sp.coreAlphabet, sp.maxLen+1, sp.coreLen, func(h []stepC) bool {
			ok := f(ord, init, h)
			ord++
			return ok
		}) {
			return ord
		}
	}
	return ord
}

func TestC11c(t *testing.T) {
	env := engine.GetEnv()
	res := engine.NewResult("C11", "c-sds-revocation")
	res.Rule = "case = initial RBAC table x a history over {ask(proxy, name), rbac(table), wait(30s|60s|2m|5m|6m)} ending with an ask, no two rbac steps and no two wait steps in a row, run on ONE fresh stack of part b (real SecretGen + XdsCache + kube CredentialsController with its authorization cache) inside a synctest bubble (virtual clock); block 1: all histories up to length 4 (thorough 5) over 6 proxies, 6 tables, 5 waits; block 2: histories of length 5-6 (thorough 6-7) over a core of 3 proxies (ns1/sa1, ns1/sa3, ns2/sa1), 3 tables, waits 60s/5m/6m; every ask is judged against the RBAC tables in force during the last 5 minutes (leak) and the last minute (withheld); non-trivial = for some ask the verdict differs from what the table in force alone would say (the cache bound matters)"
	defer res.Write(t, env)

	synctest.Test(t, func(t *testing.T) {
		w := newWorldB()
		defer func() {
			w.close()
			synctest.Wait()
		}()
		x := &runnerC{w: w, res: res}
		if env.Replay != "" {
			var rp replayC
			if err := engine.ReadReplay(env.Replay, &rp); err != nil {
				t.Fatal(err)
			}
			res.Evaluations++
			out, _ := x.runC(rp.Initial, rp.Steps, func(s string) { t.Log(s) })
			t.Logf("%s\noutcome %s", describeC(rp.Initial, rp.Steps), out)
			return
		}
		sp := newSpaceC(env.Thorough())
		res.Bounds["alphabet(asks+tables+waits)"] = len(sp.alphabet)
		res.Bounds["max_history"] = sp.maxLen
		res.Bounds["core_alphabet"] = len(sp.coreAlphabet)
		res.Bounds["core_max_history"] = sp.coreLen
		res.Bounds["initial_tables"] = len(sp.initial)
		total := sp.each(func(ord int64, init rbacB, h []stepC) bool {
			if !env.Mine(ord) {
				return true
			}
			if res.Evaluations%4096 == 0 {
				runtime.GC()
			}
			if res.Evaluations%256 == 0 && env.Expired() {
				res.Cap(fmt.Sprintf("deadline at ordinal %d", ord))
				return false
			}
			res.Evaluations++
			hh := make([]stepC, len(h))
			copy(hh, h)
			out, nt := x.runC(init, hh, nil)
			if res.Evaluations%2999 == 0 {
				full := x.lastFull
				if x.runC(init, hh, nil); x.lastFull != full {
					res.Infra = "nondeterministic outcome for " + describeC(init, hh)
				}
			}
			if res.Infra != "" {
				return false
			}
			res.Outcome(out)
			if nt {
				res.Nontrivial++
			}
			if res.Evaluations%20011 == 1 {
				res.Sample(map[string]any{"history": describeC(init, hh), "outcome": out})
			}
			return true
		})
		res.Bounds["cases_total"] = total
		res.Count("subject_access_reviews_asked", w.Questions)
	})
}
