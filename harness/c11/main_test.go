package c11

import (
	"os"
	"testing"

	"istio.io/istio/pkg/log"
)

// Denied SDS requests and refused connections are logged as warnings by design; only errors matter here.
func TestMain(m *testing.M) {
	for _, s := range log.Scopes() {
		s.SetOutputLevel(log.NoneLevel)
	}
	os.Exit(m.Run())
}
