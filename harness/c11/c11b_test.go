// C11 part b: gateway TLS key material over SDS. Every history of 1-3 SDS requests from
// differently-privileged proxies against ONE SecretGen (one XdsCache, one credentials controller with
// its authorization cache), for every RBAC table, every set of verified references and an alphabet of
// well-formed, cross-namespace and malformed resource names.
//
// Oracle (written from the property statement, not from sds.go):
//
//	leak        a response to proxy P carries the private key of secret ns/n although P is not entitled
//	            to it: entitled = P's stream was authenticated AND ( ns is P's verified namespace and the
//	            RBAC table lets P's verified service account read secrets there, OR P asked for
//	            kubernetes-gateway://ns/n and that reference is in P's verified references ).
//	unauth      any resource at all is returned to the unauthenticated stream.
//	order       the response to a request differs from the response the same request gets from a cold
//	            stack (fresh cache, fresh controller): what was asked before, and by whom, must not matter.
//	withheld    the converse for well-formed names only (documented grammar of
//	            pilot/pkg/model/credentials/resource.go), on a full push: an entitled proxy asking for an
//	            existing key/cert secret must get its private key. This direction is not demanded by the
//	            property (it only says "only"); it is reported under its own key prefix and keeps the
//	            check from passing vacuously on a SecretGen that never answers.
package c11

import (
	"encoding/json"
	"fmt"
	"regexp"
	"runtime"
	"sort"
	"strings"
	"testing"

	"istio.io/istio/zz_verif/engine"
)

// ---- reference model

var dns1123 = regexp.MustCompile(`^[a-z0-9]([-a-z0-9.]*[a-z0-9])?$`)

// denoted: the secret a well-formed resource name refers to, by the documented grammar
// (kubernetes://name | kubernetes://namespace/name | kubernetes-gateway://namespace/name |
// configmap://namespace/name). ok=false for anything else.
func denoted(name string, p proxyB) (typ, ns, n string, ok bool) {
	for _, t := range []string{"kubernetes", "kubernetes-gateway", "configmap"} {
		rest, has := strings.CutPrefix(name, t+"://")
		if !has {
			continue
		}
		seg := strings.Split(rest, "/")
		for _, s := range seg {
			if !dns1123.MatchString(s) {
				return "", "", "", false
			}
		}
		switch {
		case len(seg) == 1 && t == "kubernetes":
			return t, p.VNS, seg[0], true
		case len(seg) == 2:
			return t, seg[0], seg[1], true
		}
		return "", "", "", false
	}
	return "", "", "", false
}

func contains(l []string, s string) bool {
	for _, x := range l {
		if x == s {
			return true
		}
	}
	return false
}

func authorised(cfg configB, p proxyB) bool {
	return p.authenticated() && cfg.RBAC.answer(p.user(), p.VNS, "list", "secrets") == sarAllow
}

// mayHoldKey: may a response to p, who asked for names, carry the private key of secret ns/n?
func mayHoldKey(cfg configB, p proxyB, names []string, ns, n string) bool {
	if !p.authenticated() {
		return false
	}
	if ns == p.VNS && authorised(cfg, p) {
		return true
	}
	// a verified reference entitles to the secret it names; a reference with the -cacert suffix is a
	// reference to a CA part (credentials.SdsCaSuffix: "the suffix of the sds resource name for root CA")
	// and entitles to no key material at all
	if strings.HasSuffix(n, "-cacert") {
		return false
	}
	ref := "kubernetes-gateway://" + ns + "/" + n
	return contains(names, ref) && contains(cfg.refsOf(p), ref)
}

// mustHoldKey: the secret whose private key the resource called name must carry (well-formed names,
// full push), or "" when nothing is demanded.
func mustHoldKey(cfg configB, p proxyB, name string) string {
	typ, ns, n, ok := denoted(name, p)
	if !ok || !p.authenticated() || strings.HasSuffix(n, "-cacert") || !hasKeyMaterial(ns, n) {
		return ""
	}
	switch typ {
	case "kubernetes":
		if ns == p.VNS && authorised(cfg, p) {
			return keyOf(ns, n)
		}
	case "kubernetes-gateway":
		if contains(cfg.refsOf(p), name) {
			return keyOf(ns, n)
		}
	}
	return ""
}

type findingB struct{ key, desc string }

func relation(p proxyB, ns string) string {
	if ns == p.VNS && ns != "" {
		return "own-namespace"
	}
	return "other-namespace"
}

func sarFor(cfg configB, p proxyB) string {
	if !p.authenticated() {
		return "n/a"
	}
	return cfg.RBAC.answer(p.user(), p.VNS, "list", "secrets")
}

func forms(names []string) string {
	var f []string
	for _, n := range names {
		f = append(f, nameByName(n).Form)
	}
	if len(f) > 2 {
		return fmt.Sprintf("%d-names", len(f))
	}
	return strings.Join(f, "+")
}

// judgeB applies leak / unauth / withheld to one response.
func judgeB(cfg configB, r reqB, o *obsB, history string) []findingB {
	p := proxiesB[r.Proxy]
	var out []findingB
	where := "cold"
	if history != "" {
		where = "after-history"
	}
	if o.Panic != "" {
		out = append(out, findingB{"b:panic|scheme=" + schemes(r.Names), "SecretGen.Generate panicked: " + o.Panic})
	}
	if !p.authenticated() && len(o.Resources) > 0 {
		out = append(out, findingB{
			"b:response-to-unauthenticated|scheme=" + schemes(r.Names) + "|" + where,
			fmt.Sprintf("the unauthenticated stream (VerifiedIdentity nil) got %d resource(s): %s", len(o.Resources), brief(o)),
		})
	}
	got := map[string]map[string]bool{}
	for _, res := range o.Resources {
		if got[res.Name] == nil {
			got[res.Name] = map[string]bool{}
		}
		for _, k := range res.Keys {
			got[res.Name][k] = true
			id := strings.TrimSuffix(strings.TrimPrefix(k, "KEY["), "]")
			ns, n, _ := strings.Cut(id, "/")
			if !mayHoldKey(cfg, p, r.Names, ns, n) {
				out = append(out, findingB{
					leakKey(scheme(res.Name), relation(p, ns), sarFor(cfg, p), contains(cfg.refsOf(p), res.Name), where),
					fmt.Sprintf("resource %q returned to %s (verified %s/%s) carries %s; RBAC %q answers %s for this identity, verified references %v: not entitled",
						res.Name, p.Label, p.VNS, p.VSA, k, cfg.RBAC.Name, sarFor(cfg, p), cfg.refsOf(p)),
				})
			}
		}
	}
	if r.Push == pushForced && o.Panic == "" {
		for _, nm := range r.Names {
			if want := mustHoldKey(cfg, p, nm); want != "" && !got[nm][want] {
				out = append(out, findingB{
					fmt.Sprintf("b:key-withheld|scheme=%s|requester-sar=%s|verified-ref=%v|%s", scheme(nm), sarFor(cfg, p), contains(cfg.refsOf(p), nm), where),
					fmt.Sprintf("%s (verified %s/%s, RBAC %s, verified references %v) asked for %q on a full push and is entitled to %s, but the response is %s",
						p.Label, p.VNS, p.VSA, sarFor(cfg, p), cfg.refsOf(p), nm, want, brief(o)),
				})
			}
		}
	}
	return out
}

// leakKey: the requester's RBAC answer only matters for secrets of its own namespace.
func leakKey(scheme, rel, sar string, ref bool, where string) string {
	if rel != "own-namespace" {
		sar = "any"
	}
	return fmt.Sprintf("b:key-leak|scheme=%s|secret-in=%s|requester-sar=%s|verified-ref=%v|%s", scheme, rel, sar, ref, where)
}

func keyCount(o *obsB) int {
	n := 0
	for _, r := range o.Resources {
		n += len(r.Keys)
	}
	return n
}

func scheme(name string) string {
	if i := strings.Index(name, "://"); i >= 0 {
		return name[:i]
	}
	return "<none>"
}

func schemes(names []string) string {
	set := map[string]bool{}
	for _, n := range names {
		set[scheme(n)] = true
	}
	var l []string
	for k := range set {
		l = append(l, k)
	}
	sort.Strings(l)
	return strings.Join(l, "+")
}

func pushKind(k int) string {
	if k == pushForced {
		return "forced"
	}
	return "incremental"
}

// earlier classifies who asked before p in a history, relative to p.
func earlier(p proxyB, h []reqB) string {
	set := map[string]bool{}
	for _, r := range h {
		q := proxiesB[r.Proxy]
		switch {
		case !q.authenticated():
			set["unauthenticated"] = true
		case q.VNS == p.VNS && q.VSA == p.VSA:
			set["same-identity"] = true
		case q.VNS == p.VNS:
			set["same-namespace"] = true
		case q.VSA == p.VSA:
			set["other-namespace-same-sa-name"] = true
		default:
			set["other-namespace"] = true
		}
	}
	var l []string
	for k := range set {
		l = append(l, k)
	}
	sort.Strings(l)
	return strings.Join(l, "+")
}

func brief(o *obsB) string {
	if len(o.Resources) == 0 {
		return "(no resources)"
	}
	var s []string
	for _, r := range o.Resources {
		s = append(s, fmt.Sprintf("%s{%s keys=%v cas=%v}", r.Name, r.Kind, r.Keys, r.CAs))
	}
	return strings.Join(s, " ")
}

// ---- histories

type replayB struct {
	Config  configB `json:"config"`
	History []reqB  `json:"history"`
}

func describeHistory(h []reqB) string {
	var s []string
	for _, r := range h {
		s = append(s, fmt.Sprintf("%s asks %q (%s)", proxiesB[r.Proxy].Label, r.Names, pushNames[r.Push]))
	}
	return strings.Join(s, "; then ")
}

type runnerB struct {
	w    *worldB
	res  *engine.Result
	cold map[string]*obsB
}

func coldKey(cfg configB, r reqB) string {
	return cfg.RBAC.Name + "|" + cfg.Refs.Name + "|" + fmt.Sprint(r.Proxy, r.Push) + "|" + strings.Join(r.Names, "\x00")
}

// coldAnswer: the same request against a stack nobody has talked to yet.
func (x *runnerB) coldAnswer(cfg configB, r reqB) *obsB {
	k := coldKey(cfg, r)
	if o, ok := x.cold[k]; ok {
		return o
	}
	o := x.w.newStack(cfg).request(r)
	if len(r.Names) == 1 {
		x.cold[k] = o
	}
	return o
}

// runHistory executes one history on one fresh stack and judges every response.
func (x *runnerB) runHistory(cfg configB, h []reqB, verbose func(string)) (outcome string, nontrivial bool) {
	st := x.w.newStack(cfg)
	var sig []string
	hits := false
	for i, r := range h {
		o := st.request(r)
		past := ""
		if i > 0 {
			past = describeHistory(h[:i])
		}
		fs := judgeB(cfg, r, o, past)
		if i > 0 {
			c := x.coldAnswer(cfg, r)
			// what the cold stack gets wrong as well is reported by the single-request block, not per history
			coldKeys := map[string]bool{}
			for _, f := range judgeB(cfg, r, c, "") {
				coldKeys[strings.TrimSuffix(f.key, "|cold")] = true
			}
			kept := fs[:0]
			for _, f := range fs {
				if !coldKeys[strings.TrimSuffix(f.key, "|after-history")] {
					kept = append(kept, f)
				}
			}
			fs = kept
			// a difference that already shows as a leak / withheld key of this response is that finding
			if c.canon() != o.canon() && len(fs) == 0 {
				p := proxiesB[r.Proxy]
				effect := "other-difference"
				switch a, b := keyCount(o), keyCount(c); {
				case a > b:
					effect = "gains-private-key"
				case a < b:
					effect = "loses-private-key"
				}
				fs = append(fs, findingB{
					fmt.Sprintf("b:order-dependent|scheme=%s|push=%s|effect=%s", schemes(r.Names), pushKind(r.Push), effect),
					fmt.Sprintf("after {%s} (earlier requesters: %s), %s asking %q (%s) gets %s, but from a cold stack the same request gets %s", past, earlier(p, h[:i]), p.Label, r.Names, pushNames[r.Push], brief(o), brief(c)),
				})
			}
		}
		for _, f := range fs {
			x.res.Violate(f.key, fmt.Sprintf("RBAC %s; references %s; history: %s. %s", cfg.RBAC.Name, cfg.Refs.Name, describeHistory(h[:i+1]), f.desc), replayB{Config: cfg, History: h[:i+1]})
		}
		if verbose != nil {
			b, _ := json.Marshal(o)
			verbose(fmt.Sprintf("request %d: %s -> %s findings=%d", i, describeHistory(h[i:i+1]), b, len(fs)))
		}
		k := 0
		for _, res := range o.Resources {
			k += len(res.Keys)
		}
		if o.Cached != "" && !strings.HasPrefix(o.Cached, "cached:0/") {
			hits = true
			x.res.Count("requests_answered_from_shared_cache", 1)
		}
		sig = append(sig, fmt.Sprintf("%s:%dres/%dkeys", proxiesB[r.Proxy].Short, len(o.Resources), k))
		// non-trivial: the entitlement decision decides the outcome (a named secret with key material exists)
		for _, nm := range r.Names {
			if _, ns, n, ok := denoted(nm, proxiesB[r.Proxy]); ok && hasKeyMaterial(ns, strings.TrimSuffix(n, "-cacert")) {
				nontrivial = true
			}
		}
	}
	if len(h) > 1 && !hits {
		// in a history the point is the shared state: count it only when the cache was hit or
		// differently-privileged proxies asked for the same name
		same := false
		for i := 1; i < len(h); i++ {
			for j := 0; j < i; j++ {
				if h[i].Proxy != h[j].Proxy && strings.Join(h[i].Names, ",") == strings.Join(h[j].Names, ",") {
					same = true
				}
			}
		}
		nontrivial = nontrivial && same
	}
	return strings.Join(sig, " "), nontrivial
}

// ---- enumeration

type spaceB struct {
	cfgs, cfgs3 []configB
	all, core   []string
	sets1       [][]string
	thorough    bool
	isCore      map[string]bool
	// proxies taking part in the three-request histories
	proxies3 []int
}

func newSpaceB(thorough bool) *spaceB {
	sp := &spaceB{thorough: thorough, isCore: map[string]bool{}, proxies3: []int{0, 1, 2, 3}}
	if thorough {
		sp.proxies3 = []int{0, 1, 2, 3, 5}
	}
	rb := rbacConfigs(thorough)
	for ri, r := range rb {
		for fi, f := range refsConfigs {
			c := configB{RBAC: r, Refs: f}
			sp.cfgs = append(sp.cfgs, c)
			// the three-request histories run under a core of the configurations: quick 3 RBAC tables x
			// {no reference, one grant}; thorough every RBAC table x {no reference, one grant}
			core := r.Name == "all-allow" || r.Name == "all-error" || r.Name == "only-ns1/sa1"
			if fi < 2 && (thorough || core) {
				sp.cfgs3 = append(sp.cfgs3, c)
			}
		}
		if thorough && ri < 6 {
			// every assignment of subsets of {gateway ns1/s, gateway ns2/s} to the two routers
			for _, f := range allRefSets() {
				sp.cfgs = append(sp.cfgs, configB{RBAC: r, Refs: f})
			}
		}
	}
	for _, n := range namesB {
		sp.all = append(sp.all, n.Name)
		if n.Core {
			sp.core = append(sp.core, n.Name)
			sp.isCore[n.Name] = true
		}
	}
	if thorough {
		// longer alphabet for the three-request histories
		sp.core = nil
		for i, n := range namesB {
			if n.Core || i < 12 {
				sp.core = append(sp.core, n.Name)
			}
		}
	}
	for _, n := range sp.all {
		sp.sets1 = append(sp.sets1, []string{n})
	}
	for i := range sp.all {
		for j := i + 1; j < len(sp.all); j++ {
			sp.sets1 = append(sp.sets1, []string{sp.all[i], sp.all[j]})
		}
	}
	sp.sets1 = append(sp.sets1, append([]string(nil), sp.all...))
	return sp
}

func allRefSets() []refsB {
	univ := []string{"kubernetes-gateway://ns1/s", "kubernetes-gateway://ns2/s"}
	var out []refsB
	for m1 := 0; m1 < 4; m1++ {
		for m2 := 0; m2 < 4; m2++ {
			pick := func(m int) []string {
				l := []string{}
				for i, u := range univ {
					if m&(1<<i) != 0 {
						l = append(l, u)
					}
				}
				return l
			}
			r1, r2 := pick(m1), pick(m2)
			if (m1 == 0 && m2 == 0) || (m1 == 2 && m2 == 0) {
				continue // "none" and the single grant are in refsConfigs already
			}
			out = append(out, refsB{
				Name: fmt.Sprintf("subsets:router-ns1-sa1->%v;router-ns2-sa2->%v", r1, r2),
				Refs: map[string][]string{"router-ns1-sa1": r1, "router-ns2-sa2": r2},
			})
		}
	}
	return out
}

// each calls f(ord, cfg, history) for every case: block 1 single requests (all name sets, all push
// kinds), block 2 two requests (all names; the last one with every push kind), block 3 three
// requests (core names, full pushes).
func (sp *spaceB) each(f func(ord int64, block int, cfg configB, h []reqB) bool) int64 {
	var ord int64
	np := len(proxiesB)
	for _, cfg := range sp.cfgs {
		for p := 0; p < np; p++ {
			for push := 0; push < 3; push++ {
				for _, s := range sp.sets1 {
					if !f(ord, 1, cfg, []reqB{{p, s, push}}) {
						return ord
					}
					ord++
				}
			}
		}
	}
	na := len(sp.all)
	for _, cfg := range sp.cfgs {
		stop := false
		engine.Product([]int{np, na, np, na, 3}, func(_ int64, i []int) bool {
			// quick: the incremental push kinds of the second request only between core names
			if i[4] != pushForced && !sp.thorough && !(sp.isCore[sp.all[i[1]]] && sp.isCore[sp.all[i[3]]]) {
				return true
			}
			if !f(ord, 2, cfg, []reqB{{i[0], []string{sp.all[i[1]]}, pushForced}, {i[2], []string{sp.all[i[3]]}, i[4]}}) {
				stop = true
				return false
			}
			ord++
			return true
		})
		if stop {
			return ord
		}
	}
	nc := len(sp.core)
	for _, cfg := range sp.cfgs3 {
		stop := false
		n3 := len(sp.proxies3)
		engine.Product([]int{n3, nc, n3, nc, n3, nc}, func(_ int64, i []int) bool {
			h := []reqB{{sp.proxies3[i[0]], []string{sp.core[i[1]]}, pushForced}, {sp.proxies3[i[2]], []string{sp.core[i[3]]}, pushForced}, {sp.proxies3[i[4]], []string{sp.core[i[5]]}, pushForced}}
			if !f(ord, 3, cfg, h) {
				stop = true
				return false
			}
			ord++
			return true
		})
		if stop {
			return ord
		}
	}
	return ord
}

func TestC11b(t *testing.T) {
	env := engine.GetEnv()
	res := engine.NewResult("C11", "b-sds")
	res.Rule = "case = (RBAC table answering SubjectAccessReviews, verified-reference sets) x a history of 1-3 SDS requests (proxy in {unauthenticated, ns1/sa1 router, ns2/sa2 router, ns1/sa3 sidecar, ns1/sa1 router with empty namespace claim, ns2/sa1 router} x resource name(s) x push kind) run through the real SecretGen.Generate on ONE fresh stack (real XdsCache + real kube CredentialsController with its authorization cache over a fake client holding key material in ns1 and ns2); block 1: every single request with every name, every pair of names and all names at once, 3 push kinds; block 2: every ordered pair of single-name requests over all names (the second one also as incremental push for Secret ns1/s and ns2/s: quick between core names, thorough everywhere); block 3: every ordered triple of full-push requests over the core names (quick: the first 4 proxies, 12 names, 6 configurations; thorough: 5 proxies, 16 names, every RBAC table x {no reference, one grant}); every response is judged (leak / unauthenticated / withheld) and, from the second request on, compared with the cold-stack response to the same request; non-trivial = some requested well-formed name denotes an existing secret with key material, and for histories additionally the shared cache was hit or two different proxies asked for the same name"
	defer res.Write(t, env)
	w := newWorldB()
	defer w.close()
	x := &runnerB{w: w, res: res, cold: map[string]*obsB{}}

	if env.Replay != "" {
		var rp replayB
		if err := engine.ReadReplay(env.Replay, &rp); err != nil {
			t.Fatal(err)
		}
		res.Evaluations++
		out, _ := x.runHistory(rp.Config, rp.History, func(s string) { t.Log(s) })
		t.Logf("RBAC %s; references %s; outcome %s", rp.Config.RBAC.Name, rp.Config.Refs.Name, out)
		return
	}

	sp := newSpaceB(env.Thorough())
	res.Bounds["proxies"] = len(proxiesB)
	res.Bounds["resource_names"] = len(sp.all)
	res.Bounds["resource_names_in_triples"] = len(sp.core)
	res.Bounds["name_sets_single_request"] = len(sp.sets1)
	res.Bounds["configurations(rbac x references)"] = len(sp.cfgs)
	res.Bounds["configurations_for_triples"] = len(sp.cfgs3)
	res.Bounds["max_history"] = 3
	var perBlock [4]int64
	total := sp.each(func(ord int64, block int, cfg configB, h []reqB) bool {
		perBlock[block]++
		if !env.Mine(ord) {
			return true
		}
		if res.Evaluations%4096 == 0 {
			// every stack allocates four fresh XdsCache tables; on a machine where the collector is
			// short of CPU a worker was seen to run into the address-space limit of the driver
			runtime.GC()
		}
		if res.Evaluations%512 == 0 && env.Expired() {
			res.Cap(fmt.Sprintf("deadline at ordinal %d (block %d)", ord, block))
			return false
		}
		res.Evaluations++
		hh := make([]reqB, len(h))
		copy(hh, h)
		out, nt := x.runHistory(cfg, hh, nil)
		res.Transitions += int64(len(h))
		if res.Evaluations%4999 == 0 {
			// determinism: the same history on another fresh stack gives the same outcome
			if out2, _ := x.runHistory(cfg, hh, nil); out2 != out {
				res.Infra = "nondeterministic outcome for " + describeHistory(hh)
				return false
			}
		}
		res.Outcome(fmt.Sprintf("len%d %s", len(h), out))
		if nt {
			res.Nontrivial++
		}
		if res.Evaluations%50021 == 1 {
			res.Sample(map[string]any{"rbac": cfg.RBAC.Name, "references": cfg.Refs.Name, "history": describeHistory(hh), "outcome": out})
		}
		return true
	})
	res.Bounds["cases_total"] = total
	res.Bounds["cases_block1_single_request"] = perBlock[1]
	res.Bounds["cases_block2_two_requests"] = perBlock[2]
	res.Bounds["cases_block3_three_requests"] = perBlock[3]
	res.Count("subject_access_reviews_asked", w.Questions)
}
