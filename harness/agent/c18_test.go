// C18: the node agent's secret cache (secretcache.go compiled against the scheduling sync shim, a
// channel-only fsnotify and a harness-driven math/rand) inside a virtual-time bubble.
package agent

import (
	"bytes"
	"os"
	"crypto/ecdsa"
	"crypto/elliptic"
	"crypto/rand"
	"crypto/x509"
	"crypto/x509/pkix"
	"encoding/pem"
	"errors"
	"fmt"
	"math/big"
	"strings"
	"testing"
	"testing/synctest"
	"time"

	"istio.io/istio/pkg/security"
	"istio.io/istio/pkg/verifshim/sched"
	"istio.io/istio/pkg/verifshim/vrand"
	"istio.io/istio/security/pkg/nodeagent/cache"
	"istio.io/istio/zz_verif/engine"
)

// ---- a CA that really signs (so key/cert matching is checked on parsed certificates)

type root struct {
	key  *ecdsa.PrivateKey
	cert *x509.Certificate
	pem  string
}

var roots = func() []root {
	var out []root
	for i := 0; i < 2; i++ {
		k, _ := ecdsa.GenerateKey(elliptic.P256(), rand.Reader)
		tmpl := &x509.Certificate{
			SerialNumber: big.NewInt(int64(100 + i)), Subject: pkix.Name{CommonName: fmt.Sprintf("root-%d", i)},
			NotBefore: time.Date(1999, 1, 1, 0, 0, 0, 0, time.UTC), NotAfter: time.Date(2100, 1, 1, 0, 0, 0, 0, time.UTC),
			IsCA: true, KeyUsage: x509.KeyUsageCertSign, BasicConstraintsValid: true,
		}
		der, _ := x509.CreateCertificate(rand.Reader, tmpl, tmpl, &k.PublicKey, k)
		c, _ := x509.ParseCertificate(der)
		out = append(out, root{k, c, string(pem.EncodeToMemory(&pem.Block{Type: "CERTIFICATE", Bytes: der}))})
	}
	return out
}()

type caAnswer int

const (
	caOK caAnswer = iota
	caError
	caOKNewRoot
)

type fakeCA struct {
	s        *sched.Sched
	answers  func() caAnswer // draws the answer of the next signing call
	lifetime time.Duration
	signs    int
	ok       int
	curRoot  int
	issued   []*x509.Certificate
	inFlight int
	maxIn    int
	// twoRoots: the CA's bundle holds both roots; bundleFault draws whether a bundle lookup fails
	twoRoots     bool
	bundleFault  func() bool
	bundleFaults int
}

func (f *fakeCA) Close() {}
func (f *fakeCA) GetRootCertBundle() ([]string, error) {
	if f.bundleFault != nil && f.bundleFault() {
		f.bundleFaults++
		return nil, errors.New("root bundle unavailable")
	}
	if f.twoRoots {
		// a CA that publishes several current roots (the signing root last)
		return []string{roots[1-f.curRoot].pem, roots[f.curRoot].pem}, nil
	}
	return []string{roots[f.curRoot].pem}, nil
}

func (f *fakeCA) CSRSign(csrPEM []byte, _ int64) ([]string, error) {
	f.signs++
	f.inFlight++
	if f.inFlight > f.maxIn {
		f.maxIn = f.inFlight
	}
	defer func() { f.inFlight-- }()
	ans := f.answers()
	// the call is a network round trip: other threads may run meanwhile, and time passes
	if f.s != nil && f.s.Managed() {
		f.s.Yield("CSRSign")
	}
	time.Sleep(time.Millisecond)
	if ans == caError {
		return nil, errors.New("ca unavailable")
	}
	if ans == caOKNewRoot {
		f.curRoot = 1
	}
	blk, _ := pem.Decode(csrPEM)
	csr, err := x509.ParseCertificateRequest(blk.Bytes)
	if err != nil {
		return nil, err
	}
	r := roots[f.curRoot]
	now := time.Now()
	tmpl := &x509.Certificate{
		SerialNumber: big.NewInt(int64(1000 + f.signs)), NotBefore: now, NotAfter: now.Add(f.lifetime),
		KeyUsage: x509.KeyUsageDigitalSignature, ExtKeyUsage: []x509.ExtKeyUsage{x509.ExtKeyUsageClientAuth, x509.ExtKeyUsageServerAuth},
	}
	der, err := x509.CreateCertificate(rand.Reader, tmpl, r.cert, csr.PublicKey, r.key)
	if err != nil {
		return nil, err
	}
	c, _ := x509.ParseCertificate(der)
	f.issued = append(f.issued, c)
	f.ok++
	return []string{string(pem.EncodeToMemory(&pem.Block{Type: "CERTIFICATE", Bytes: der})), r.pem}, nil
}

// ---- oracles on a returned item

func checkItem(it *security.SecretItem, ca *fakeCA, bundle []byte) string {
	if it == nil {
		return ""
	}
	if it.ResourceName == security.RootCertReqResourceName {
		if !bytes.Contains(it.RootCert, []byte(strings.TrimSpace(roots[ca.curRoot].pem))) && !bytes.Contains(it.RootCert, []byte(strings.TrimSpace(roots[0].pem))) {
			return "root bundle lacks every CA root"
		}
		if len(bundle) > 0 && !bytes.Contains(it.RootCert, bytes.TrimSpace(bundle)) {
			return "root bundle lacks the configured trust bundle"
		}
		if ca.twoRoots {
			for i := range roots {
				if !bytes.Contains(it.RootCert, []byte(strings.TrimSpace(roots[i].pem))) {
					return fmt.Sprintf("root bundle lacks root #%d the CA currently publishes", i)
				}
			}
		}
		return ""
	}
	blk, _ := pem.Decode(it.CertificateChain)
	if blk == nil {
		return "no certificate in chain"
	}
	c, err := x509.ParseCertificate(blk.Bytes)
	if err != nil {
		return "unparsable leaf: " + err.Error()
	}
	kb, _ := pem.Decode(it.PrivateKey)
	if kb == nil {
		return "no private key"
	}
	var pub any
	if k, err := x509.ParseECPrivateKey(kb.Bytes); err == nil {
		pub = &k.PublicKey
	} else if k8, err := x509.ParsePKCS8PrivateKey(kb.Bytes); err == nil {
		if ek, ok := k8.(*ecdsa.PrivateKey); ok {
			pub = &ek.PublicKey
		}
	}
	cp, ok := c.PublicKey.(*ecdsa.PublicKey)
	pp, ok2 := pub.(*ecdsa.PublicKey)
	if !ok || !ok2 || !cp.Equal(pp) {
		return "private key does not belong to the certificate"
	}
	if !time.Now().Before(c.NotAfter) {
		return fmt.Sprintf("expired certificate served (NotAfter %v, now %v)", c.NotAfter, time.Now())
	}
	return ""
}

func newClient(ca *fakeCA, ratio, jitter float64) *cache.SecretManagerClient {
	sc, err := cache.NewSecretManagerClient(ca, &security.Options{
		TrustDomain: "cluster.local", WorkloadNamespace: "ns", ServiceAccount: "sa", ECCSigAlg: "ECDSA", ECCCurve: "P256",
		SecretTTL: ca.lifetime, SecretRotationGracePeriodRatio: ratio, SecretRotationGracePeriodRatioJitter: jitter,
	})
	if err != nil {
		panic(err)
	}
	return sc
}

// ---------------------------------------------------------------------------------------------
// (a) interleavings

type ascenario struct {
	Threads []string `json:"threads"` // gen-default | gen-root | bundle | rotate
	CA      []int    `json:"ca"`      // answers available to signing calls (indices into caAnswer)
	Warm    bool     `json:"warm"`    // a certificate is already cached when the threads start
	// TwoRoots: the CA publishes two current roots and every bundle lookup may fail (explorer's choice)
	TwoRoots bool `json:"two_roots,omitempty"`
}

func (a ascenario) String() string {
	return fmt.Sprintf("%v ca=%v warm=%v tworoots=%v", a.Threads, a.CA, a.Warm, a.TwoRoots)
}

var bundle2 = []byte(roots[1].pem)

func runA(t *testing.T, sc ascenario, c *sched.Chooser) (vio [][2]string, outcome string, log []string) {
	vrand.Float64Fn = func() float64 { return 0 }
	vrand.IntNFn = func(int) int { return 0 }
	fail := engine.Bubble(t, func() {
		s := sched.New(c)
		defer s.Close()
		ca := &fakeCA{s: s, lifetime: 2 * time.Hour}
		ca.answers = func() caAnswer {
			if len(sc.CA) == 1 {
				return caAnswer(sc.CA[0])
			}
			return caAnswer(sc.CA[s.Choose(len(sc.CA), "ca-answer", func(int) int { return 0 })])
		}
		if sc.TwoRoots {
			ca.twoRoots = true
			ca.bundleFault = func() bool {
				return s.Choose(2, "bundle-lookup", func(int) int { return 0 }) == 1
			}
		}
		m := newClient(ca, 0.5, 0)
		defer m.Close()
		var notes []string
		m.RegisterSecretHandler(func(name string) { notes = append(notes, name) })
		var bundle []byte
		if sc.Warm {
			saved := ca.answers
			savedFault := ca.bundleFault
			ca.bundleFault = nil
			defer func() { _ = savedFault }()
			ca.answers = func() caAnswer { return caOK }
			if _, err := m.GenerateSecret(security.WorkloadKeyCertResourceName); err != nil {
				panic(err)
			}
			ca.answers = saved
			ca.bundleFault = savedFault
			ca.signs, ca.ok = 0, 0
		}
		rootNotesAfterWarmUp := 0 // the first issuance announces the (first) root: not counted below
		for _, n := range notes {
			if n == security.RootCertReqResourceName {
				rootNotesAfterWarmUp++
			}
		}
		type ret struct {
			it  *security.SecretItem
			err error
		}
		rets := make([]ret, len(sc.Threads))
		hasInvalidator := false
		for i, th := range sc.Threads {
			i, th := i, th
			switch th {
			case "gen-default", "gen-root", "gen-default-late", "gen-root-late":
				name := security.WorkloadKeyCertResourceName
				if strings.HasPrefix(th, "gen-root") {
					name = security.RootCertReqResourceName
				}
				late := strings.HasSuffix(th, "-late")
				if late {
					// asks after the rotation timer of the warm certificate has fired (renewal at half of 2h)
					hasInvalidator = true
				}
				s.Go(fmt.Sprintf("T%d(%s)", i, th), func() any {
					if late {
						time.Sleep(61 * time.Minute)
					}
					it, err := m.GenerateSecret(name)
					rets[i] = ret{it, err}
					if err == nil {
						if msg := checkItem(it, ca, nil); msg != "" {
							vio = append(vio, [2]string{"served:" + msg, fmt.Sprintf("%s returned an item: %s", th, msg)})
						}
					}
					return nil
				})
			case "bundle":
				hasInvalidator = true
				s.Go(fmt.Sprintf("T%d(bundle)", i), func() any {
					bundle = bundle2
					_ = m.UpdateConfigTrustBundle(bundle2)
					return nil
				})
			case "rotate":
				hasInvalidator = true
				// the rotation timer fires: let the virtual clock pass the renewal time; the callback
				// runs on the queue's worker goroutine, which the scheduler adopts at its first lock
				s.Go(fmt.Sprintf("T%d(rotate)", i), func() any {
					time.Sleep(61 * time.Minute)
					return nil
				})
			}
		}
		s.EnvStep = func() bool { // nobody can run: let virtual time pass (timers, the CA's latency)
			time.Sleep(time.Minute)
			return true
		}
		done := s.Run()
		log = s.Log
		if !done {
			vio = append(vio, [2]string{"deadlock", s.Deadlock})
			return
		}
		s.Close()
		// single flight: without an invalidation in the scenario, concurrent callers cause at most one
		// successful signing and all successful default callers hold the same pair
		var chains [][]byte
		for i, th := range sc.Threads {
			if th == "gen-default" && rets[i].err == nil && rets[i].it != nil {
				chains = append(chains, rets[i].it.CertificateChain)
			}
		}
		// (a request that failed on the bundle lookup after its signing succeeded legitimately leads to a
		// second signing by the next caller)
		if !hasInvalidator && ca.bundleFaults == 0 {
			if ca.ok > 1 {
				vio = append(vio, [2]string{"single-flight:signed-more-than-once", fmt.Sprintf("%d successful signing requests for concurrent callers", ca.ok)})
			}
			if ca.maxIn > 1 {
				vio = append(vio, [2]string{"single-flight:concurrent-csr", fmt.Sprintf("%d signing requests in flight at once", ca.maxIn)})
			}
			for _, ch := range chains[min(1, len(chains)):] {
				if !bytes.Equal(ch, chains[0]) {
					vio = append(vio, [2]string{"single-flight:different-pairs", "concurrent callers were handed different certificates"})
				}
			}
		}
		// failure is not sticky: once the CA works again the next request succeeds
		ca.answers = func() caAnswer { return caOK }
		ca.bundleFault = nil
		it, err := m.GenerateSecret(security.WorkloadKeyCertResourceName)
		if err != nil {
			vio = append(vio, [2]string{"sticky-failure", "GenerateSecret fails although the CA answers: " + err.Error()})
		} else if msg := checkItem(it, ca, nil); msg != "" {
			vio = append(vio, [2]string{"served:" + msg, "follow-up request: " + msg})
		}
		rt, err := m.GenerateSecret(security.RootCertReqResourceName)
		if err == nil {
			if msg := checkItem(rt, ca, bundle); msg != "" {
				vio = append(vio, [2]string{"served:" + msg, "follow-up root request: " + msg})
			}
		}
		// exactly one renewal for the cached certificate, not after its expiry
		cur, _ := m.GenerateSecret(security.WorkloadKeyCertResourceName)
		before := 0
		for _, n := range notes {
			if n == security.WorkloadKeyCertResourceName {
				before++
			}
		}
		var firedAt time.Time
		for i := 0; i < 6*60 && firedAt.IsZero(); i++ {
			time.Sleep(time.Minute)
			synctest.Wait()
			cnt := 0
			for _, n := range notes {
				if n == security.WorkloadKeyCertResourceName {
					cnt++
				}
			}
			if cnt > before {
				firedAt = time.Now()
				if cnt > before+1 {
					vio = append(vio, [2]string{"renewal:announced-twice", fmt.Sprintf("%d renewal notifications for one certificate", cnt-before)})
				}
			}
		}
		if cur != nil {
			if firedAt.IsZero() {
				vio = append(vio, [2]string{"renewal:never", "no renewal notification within 6h for a 2h certificate"})
			} else if !firedAt.Before(cur.ExpireTime) {
				vio = append(vio, [2]string{"renewal:after-expiry", fmt.Sprintf("renewal announced at %v, certificate expired %v", firedAt, cur.ExpireTime)})
			}
		}
		time.Sleep(3 * time.Hour)
		synctest.Wait()
		after := 0
		for _, n := range notes {
			if n == security.WorkloadKeyCertResourceName {
				after++
			}
		}
		if !firedAt.IsZero() && after > before+1 {
			vio = append(vio, [2]string{"renewal:announced-twice", fmt.Sprintf("%d renewal notifications for one certificate", after-before)})
		}
		// a changed root is announced: the cache was filled under root #0 and the CA has signed under
		// root #1 since. Subscribers ask again after every renewal notification (as the SDS server does);
		// within three further renewals ROOTCA must have been announced at some point.
		if sc.Warm && ca.curRoot == 1 {
			rootAnnounced := func() bool {
				cnt := 0
				for _, n := range notes {
					if n == security.RootCertReqResourceName {
						cnt++
					}
				}
				return cnt > rootNotesAfterWarmUp
			}
			for i := 0; i < 3 && !rootAnnounced(); i++ {
				if _, err := m.GenerateSecret(security.WorkloadKeyCertResourceName); err != nil {
					vio = append(vio, [2]string{"sticky-failure", "GenerateSecret fails although the CA answers: " + err.Error()})
					break
				}
				time.Sleep(2 * time.Hour)
				synctest.Wait()
			}
			if !rootAnnounced() {
				vio = append(vio, [2]string{"root-change:never-announced", "the CA signs under a new root since the scenario, three renewals later ROOTCA was never announced to subscribers"})
			}
		}
		outcome = fmt.Sprintf("signs=%d ok=%d notes=%d", ca.signs, ca.ok, len(notes))
	})
	if fail != "" {
		vio = append(vio, [2]string{"hang-or-panic", fail})
	}
	return
}

func TestC18a(t *testing.T) {
	env := engine.GetEnv()
	res := engine.NewResult("C18", "a-interleavings")
	res.Rule = "scenario = 2-3 threads over {GenerateSecret(default), GenerateSecret(ROOTCA), UpdateConfigTrustBundle, rotation timer fires} x CA behaviour {ok, error, ok with changed root} x cold/warm cache; every interleaving at lock acquisitions and CA round trips within the preemption bound on the real SecretManagerClient under a virtual clock; non-trivial = scenario whose interleavings gave >=2 distinct outcomes"
	defer res.Write(t, env)
	type rp struct {
		Scenario ascenario `json:"scenario"`
		Choices  []int     `json:"choices"`
	}
	if env.Replay != "" {
		var r rp
		if err := engine.ReadReplay(env.Replay, &r); err != nil {
			t.Fatal(err)
		}
		vio, out, log := runA(t, r.Scenario, sched.NewChooser(r.Choices))
		t.Logf("%v -> %s", log, out)
		for _, v := range vio {
			res.Violate(v[0], v[1], r)
		}
		return
	}
	kinds := []string{"gen-default", "gen-root", "bundle", "rotate"}
	var scs []ascenario
	for _, warm := range []bool{false, true} {
		for _, caSet := range [][]int{{0}, {0, 1}, {0, 2}} {
			for a := 0; a < 2; a++ { // first thread always a generator
				for b := 0; b < len(kinds); b++ {
					scs = append(scs, ascenario{Threads: []string{kinds[a], kinds[b]}, CA: caSet, Warm: warm})
					for c := b; c < len(kinds); c++ {
						if env.Thorough() || c < 3 {
							scs = append(scs, ascenario{Threads: []string{kinds[a], kinds[b], kinds[c]}, CA: caSet, Warm: warm})
						}
					}
				}
			}
		}
	}
	// a CA with two current roots whose bundle lookups may fail
	for _, warm := range []bool{false, true} {
		for _, th := range [][]string{{"gen-default"}, {"gen-root"}, {"gen-default", "gen-root"}, {"gen-root", "gen-default"}, {"gen-default", "rotate"}} {
			scs = append(scs, ascenario{Threads: th, CA: []int{0}, Warm: warm, TwoRoots: true})
		}
	}
	// requests that arrive after the rotation timer fired, at a CA that has moved to a new root
	for _, caSet := range [][]int{{2}, {0, 2}} {
		for _, th := range [][]string{{"gen-root-late"}, {"gen-default-late"}, {"gen-root-late", "gen-default-late"}, {"gen-default-late", "gen-root-late"}, {"gen-root-late", "gen-root"}, {"gen-root-late", "bundle"}} {
			scs = append(scs, ascenario{Threads: th, CA: caSet, Warm: true})
		}
	}
	bound := 3
	if env.Thorough() {
		bound = 4
	}
	res.Bounds["preemptions"] = bound
	res.Bounds["scenarios"] = len(scs)
	for i, sc := range scs {
		if !env.Mine(int64(i)) {
			continue
		}
		if env.Expired() {
			res.Cap("deadline")
			break
		}
		outcomes := map[string]bool{}
		st := sched.Explore(sched.ExploreOpts{Bound: bound, Deadline: env.Expired, MaxExec: 200000}, func(c *sched.Chooser, _ bool) bool {
			if os.Getenv("VERIF_VERBOSE") != "" {
				fmt.Fprintf(os.Stderr, "EXEC %s prefix=%v\n", sc.String(), c.Prefix)
			}
			vio, out, log := runA(t, sc, c)
			outcomes[out] = true
			res.Outcome(out)
			for _, v := range vio {
				res.Violate(v[0], v[1]+" in "+sc.String()+" schedule "+strings.Join(log, " "), rp{sc, c.Choices()})
			}
			return true
		})
		if st.Diverged != "" {
			res.Infra = "replay divergence: " + st.Diverged + " in " + sc.String()
			return
		}
		if st.Capped != "" {
			res.Cap(st.Capped + " in " + sc.String())
		}
		res.States++
		res.Evaluations += st.Executions
		res.Traces += st.Executions
		res.Transitions += st.Points
		if len(outcomes) > 1 {
			res.NontrivialCase(sc.String())
		}
		if i%7 == 0 {
			res.Sample(map[string]any{"scenario": sc.String(), "interleavings": st.Executions, "outcomes": len(outcomes)})
		}
	}
}

// ---------------------------------------------------------------------------------------------
// (b) renewal arithmetic: the complete grid

func TestC18b(t *testing.T) {
	env := engine.GetEnv()
	res := engine.NewResult("C18", "b-renewal-arithmetic")
	res.Rule = "complete grid lifetime x elapsed-since-creation x grace ratio x jitter x the two random draws, through the real rotateTime under a virtual clock: delay >= 0, renewal not after expiry, strictly before it whenever ratio > jitter; non-trivial = cell with ratio > jitter and an unexpired certificate"
	defer res.Write(t, env)
	if env.Shard != 0 {
		return
	}
	lifetimes := []time.Duration{time.Second, time.Hour, 24 * time.Hour, 90 * 24 * time.Hour}
	elapsedFrac := []float64{-0.5, 0, 0.25, 0.5, 0.99, 1, 1.5} // negative: created in the future
	ratios := []float64{0, 0.01, 0.25, 0.5, 0.99, 1}
	jitters := []float64{0, 0.01, 0.25, 0.5, 1}
	draws := []float64{0, 0.5, 0.999999}
	engine.Bubble(t, func() {
		engine.Product([]int{len(lifetimes), len(elapsedFrac), len(ratios), len(jitters), len(draws), 2}, func(ord int64, ix []int) bool {
			life, el, ratio, jit, d, sign := lifetimes[ix[0]], elapsedFrac[ix[1]], ratios[ix[2]], jitters[ix[3]], draws[ix[4]], ix[5]
			vrand.Float64Fn = func() float64 { return d }
			vrand.IntNFn = func(int) int { return sign }
			now := time.Now()
			created := now.Add(-time.Duration(el * float64(life)))
			item := security.SecretItem{CreatedTime: created, ExpireTime: created.Add(life)}
			delay := cache.VerifRotateTime(item, ratio, jit)
			res.Evaluations++
			cell := fmt.Sprintf("life=%v elapsed=%v ratio=%v jitter=%v draw=%v sign=%d", life, el, ratio, jit, d, sign)
			fire := now.Add(delay)
			switch {
			case delay < 0:
				res.Violate("arithmetic:negative-delay", cell+fmt.Sprintf(" gives %v", delay), ix)
			case now.Before(item.ExpireTime) && fire.After(item.ExpireTime):
				res.Violate("arithmetic:renewal-after-expiry", cell+fmt.Sprintf(" renews %v after expiry", fire.Sub(item.ExpireTime)), ix)
			case ratio > jit && now.Before(item.ExpireTime) && el >= 0 && !fire.Before(item.ExpireTime) && time.Duration((ratio-jit)*float64(life)) > 0:
				res.Violate("arithmetic:not-strictly-before-expiry", cell+" renews at expiry although ratio > jitter", ix)
			}
			if ratio > jit && now.Before(item.ExpireTime) {
				res.NontrivialCase(cell)
			}
			res.Outcome(fmt.Sprintf("delay>0=%v", delay > 0))
			if ord%500 == 0 {
				res.Sample(cell + fmt.Sprintf(" -> delay %v", delay))
			}
			return true
		})
	})
	vrand.Float64Fn, vrand.IntNFn = nil, nil
}
