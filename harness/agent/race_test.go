package agent

import (
	"fmt"
	"sync"
	"testing"
	"time"

	"istio.io/istio/pkg/security"
	"istio.io/istio/security/pkg/nodeagent/cache"
	"istio.io/istio/zz_verif/engine"
)

// lockedCA serialises the bookkeeping of the fake signing CA (its counters are the harness's, not the
// agent's): the free-running pass must only report the agent's own unsynchronised accesses.
type lockedCA struct {
	mu sync.Mutex
	fakeCA
}

func (l *lockedCA) CSRSign(csr []byte, ttl int64) ([]string, error) {
	l.mu.Lock()
	defer l.mu.Unlock()
	return l.fakeCA.CSRSign(csr, ttl)
}

func (l *lockedCA) GetRootCertBundle() ([]string, error) {
	l.mu.Lock()
	defer l.mu.Unlock()
	return l.fakeCA.GetRootCertBundle()
}

// TestC18Race: free-running pass over the agent's secret cache. The thread bodies of part
// a-interleavings (concurrent GenerateSecret for the workload certificate and the root, a trust-bundle
// update, the rotation callback answering with a new request as the SDS server does) run as real
// goroutines against a CA with short-lived certificates, in a binary built with -race; a race report
// is the violation. Real time is used only to let the rotation timer fire; no oracle depends on it.
func TestC18Race(t *testing.T) {
	env := engine.GetEnv()
	res := engine.NewResult("C18", "c-race-pass")
	res.Rule = "every multiset of 2-4 threads over {gen-default, gen-root, bundle update} x {cold, warm cache} with the rotation callback re-requesting the certificate, run free under -race against a CA issuing 3 s certificates (rotation after 1-1.5 s), repeated; a race report is a violation; non-trivial = run in which a rotation notification was delivered"
	defer res.Write(t, env)
	reps := 1
	if env.Thorough() {
		reps = 6
	}
	res.Bounds["repetitions"] = reps
	kinds := []string{"gen-default", "gen-root", "bundle"}
	var scen [][]string
	var rec func(start int, cur []string)
	rec = func(start int, cur []string) {
		if len(cur) >= 2 {
			scen = append(scen, append([]string(nil), cur...))
		}
		if len(cur) == 4 {
			return
		}
		for i := start; i < len(kinds); i++ {
			rec(i, append(cur, kinds[i]))
		}
	}
	rec(0, nil)
	var ord int64
	for _, threads := range scen {
		for _, warm := range []bool{false, true} {
			ord++
			if !env.Mine(ord) {
				continue
			}
			if env.Expired() {
				res.Cap("deadline")
				return
			}
			rotations := 0
			for r := 0; r < reps; r++ {
				ca := &lockedCA{fakeCA: fakeCA{lifetime: 3 * time.Second}}
				ca.answers = func() caAnswer { return caOK }
				m := newClientOf(ca, ca.lifetime)
				var nmu sync.Mutex
				notes := 0
				m.RegisterSecretHandler(func(name string) {
					nmu.Lock()
					notes++
					nmu.Unlock()
					_, _ = m.GenerateSecret(name) // what the SDS server does on a rotation notification
				})
				if warm {
					_, _ = m.GenerateSecret(security.WorkloadKeyCertResourceName)
				}
				var wg sync.WaitGroup
				for _, th := range threads {
					wg.Add(1)
					go func() {
						defer wg.Done()
						switch th {
						case "gen-default":
							_, _ = m.GenerateSecret(security.WorkloadKeyCertResourceName)
						case "gen-root":
							_, _ = m.GenerateSecret(security.RootCertReqResourceName)
						case "bundle":
							_ = m.UpdateConfigTrustBundle(bundle2)
						}
					}()
				}
				wg.Wait()
				time.Sleep(1800 * time.Millisecond) // the rotation timer fires in here (certificate times have second granularity)
				_, _ = m.GenerateSecret(security.WorkloadKeyCertResourceName)
				m.Close()
				nmu.Lock()
				rotations += notes
				nmu.Unlock()
				res.Evaluations++
			}
			res.States++
			res.Transitions += int64(reps * len(threads))
			if rotations > 0 {
				res.NontrivialCase(fmt.Sprint(threads, warm))
			}
			res.Outcome(fmt.Sprintf("rotations>0=%v", rotations > 0))
		}
	}
	res.Traces = res.Evaluations
	res.Sample(map[string]any{"threads": scen[len(scen)/2], "warm": true})
}

func newClientOf(ca security.Client, lifetime time.Duration) *cache.SecretManagerClient {
	sc, err := cache.NewSecretManagerClient(ca, &security.Options{
		TrustDomain: "cluster.local", WorkloadNamespace: "ns", ServiceAccount: "sa", ECCSigAlg: "ECDSA", ECCCurve: "P256",
		SecretTTL: lifetime, SecretRotationGracePeriodRatio: 0.5, SecretRotationGracePeriodRatioJitter: 0,
	})
	if err != nil {
		panic(err)
	}
	return sc
}
