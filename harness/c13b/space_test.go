// C13 part b: the case space. One service (two ports), two registry shards, an endpoint alphabet in
// which every attribute value occurs against a base endpoint, DestinationRule forms, service
// flavours, the unhealthy-endpoint settings, three proxies and two clusters (plain / subset).
package c13b

import (
	"fmt"
	"strings"

	core "github.com/envoyproxy/go-control-plane/envoy/config/core/v3"
	"google.golang.org/protobuf/types/known/durationpb"
	"google.golang.org/protobuf/types/known/wrapperspb"

	meshconfig "istio.io/api/mesh/v1alpha1"
	networking "istio.io/api/networking/v1alpha3"
	"istio.io/istio/pilot/pkg/features"
	"istio.io/istio/pilot/pkg/model"
	"istio.io/istio/pilot/pkg/serviceregistry/provider"
	"istio.io/istio/pkg/cluster"
	"istio.io/istio/pkg/config"
	"istio.io/istio/pkg/config/host"
	"istio.io/istio/pkg/config/mesh"
	"istio.io/istio/pkg/config/protocol"
	"istio.io/istio/pkg/config/schema/gvk"
	"istio.io/istio/pkg/network"
)

const (
	svcHost = "svc.ns1.svc.cluster.local"
	svcNS   = "ns1"

	netSame  = "n1" // network of cluster c1 and of the proxies living there; has one gateway
	netGw    = "n2" // network of cluster c2; has two gateways
	netNoGw  = "n3" // a network nobody configured a gateway for
	portHTTP = "http"
	portOth  = "other"

	// node names exist once per cluster: c1/node-a and c2/node-a are different machines
	nodeA = "node-a"
	nodeB = "node-b"
)

var clusterIDs = []cluster.ID{"c1", "c2"}

// shardKeys: registry A reports for cluster c1, registry B for cluster c2 (both Kubernetes registries).
var shardKeys = []model.ShardKey{
	{Cluster: "c1", Provider: provider.Kubernetes},
	{Cluster: "c2", Provider: provider.Kubernetes},
}

// gateways per network (address -> network).
var gatewayAddrs = map[string][]string{
	netSame: {"203.0.113.1"},
	netGw:   {"203.0.113.2", "203.0.113.3"},
}

func networkGateways() []model.NetworkGateway {
	return []model.NetworkGateway{
		{Network: netSame, Cluster: "c1", Addr: "203.0.113.1", Port: 15443},
		{Network: netGw, Cluster: "c2", Addr: "203.0.113.2", Port: 15443},
		{Network: netGw, Cluster: "c2", Addr: "203.0.113.3", Port: 15443},
	}
}

// epSpec is one element of the endpoint alphabet (what a registry reports about one endpoint).
type epSpec struct {
	Name            string `json:"name"`
	Class           string `json:"class"` // the alphabet element whose attributes it carries (violation keys)
	Addr            string `json:"addr"`
	Health          int    `json:"health"` // model.HealthStatus
	Version         string `json:"version"`
	DrainLabel      bool   `json:"drain_label,omitempty"`
	Port            string `json:"port"`
	Loc             string `json:"loc"`
	Shard           int    `json:"shard"`
	Weight          uint32 `json:"weight,omitempty"`
	Net             string `json:"net"`
	SameClusterOnly bool   `json:"same_cluster_only,omitempty"`
	Node            string `json:"node"` // Kubernetes node name (node names are per cluster: c1 and c2 both have a node-a and a node-b)
}

func (e epSpec) clusterID() cluster.ID { return clusterIDs[e.Shard] }

func (e epSpec) isHostname() bool { return !strings.ContainsAny(e.Addr[:1], "0123456789") }

func (e epSpec) configuredWeight() uint32 {
	if e.Weight == 0 {
		return 1
	}
	return e.Weight
}

func (e epSpec) String() string {
	h := map[int]string{1: "Healthy", 2: "UnHealthy", 3: "Draining", 4: "Terminating"}[e.Health]
	s := fmt.Sprintf("%s(%s %s version=%q port=%s loc=%q shard=%s net=%s w=%d", e.Name, e.Addr, h, e.Version, e.Port, e.Loc,
		shardKeys[e.Shard].Cluster, e.Net, e.configuredWeight())
	if e.DrainLabel {
		s += " draining-label"
	}
	if e.SameClusterOnly {
		s += " same-cluster-only"
	}
	return s + " node=" + e.Node + ")"
}

// alphabet: element 0 is the base; every other element of shard A changes one attribute of it; the
// shard-B elements are combinations that live in cluster c2.
func alphabet() []epSpec {
	base := epSpec{Name: "base", Class: "base", Addr: "10.1.0.10", Health: int(model.Healthy), Version: "v1", Port: portHTTP, Loc: "r1/z1", Shard: 0, Net: netSame, Node: nodeA}
	mk := func(name, addr string, f func(*epSpec)) epSpec {
		e := base
		e.Name, e.Class, e.Addr = name, name, addr
		f(&e)
		return e
	}
	return []epSpec{
		base,
		mk("unhealthy", "10.1.0.11", func(e *epSpec) { e.Health = int(model.UnHealthy) }),
		mk("draining", "10.1.0.12", func(e *epSpec) { e.Health = int(model.Draining) }),
		mk("terminating", "10.1.0.13", func(e *epSpec) { e.Health = int(model.Terminating) }),
		mk("version-v2", "10.1.0.14", func(e *epSpec) { e.Version = "v2" }),
		mk("no-version", "10.1.0.15", func(e *epSpec) { e.Version = "" }),
		mk("other-port", "10.1.0.16", func(e *epSpec) { e.Port = portOth }),
		mk("zone-r1z2", "10.1.0.17", func(e *epSpec) { e.Loc = "r1/z2" }),
		mk("region-r2z1", "10.1.0.18", func(e *epSpec) { e.Loc = "r2/z1" }),
		mk("no-locality", "10.1.0.19", func(e *epSpec) { e.Loc = "" }),
		mk("weight-3", "10.1.0.20", func(e *epSpec) { e.Weight = 3 }),
		mk("net-with-gateway", "10.1.0.21", func(e *epSpec) { e.Net = netGw }),
		mk("net-without-gateway", "10.1.0.22", func(e *epSpec) { e.Net = netNoGw }),
		mk("same-cluster-only", "10.1.0.23", func(e *epSpec) { e.SameClusterOnly = true }),
		mk("hostname-address", "ep.example.com", func(e *epSpec) {}),
		mk("draining-label", "10.1.0.25", func(e *epSpec) { e.DrainLabel = true }),
		mk("other-node", "10.1.0.26", func(e *epSpec) { e.Node = nodeB }),
		// registry B (cluster c2)
		mk("B-flat", "10.2.0.10", func(e *epSpec) { e.Shard = 1 }),
		mk("B-remote", "10.2.0.11", func(e *epSpec) { e.Shard = 1; e.Net = netGw; e.Loc = "r2/z1"; e.Node = nodeB }),
		mk("B-mixed", "10.2.0.12", func(e *epSpec) {
			e.Shard = 1
			e.Net = netGw
			e.Loc = "r2/z1"
			e.Version = "v2"
			e.Health = int(model.UnHealthy)
			e.Weight = 3
			e.SameClusterOnly = true
		}),
		mk("B-draining", "10.2.0.13", func(e *epSpec) { e.Shard = 1; e.Loc = "r1/z2"; e.Health = int(model.Draining) }),
	}
}

// istioEndpoint is what the registry hands to the endpoint index. SendUnhealthyEndpoints is set the
// way the Kubernetes registry sets it (Service.SupportsUnhealthyEndpoints at report time).
func (e epSpec) istioEndpoint() *model.IstioEndpoint {
	lbl := map[string]string{"app": "svc"}
	if e.Version != "" {
		lbl["version"] = e.Version
	}
	if e.DrainLabel {
		lbl[features.DrainingLabel] = "true"
	}
	port := uint32(8080)
	if e.Port == portOth {
		port = 9090
	}
	var dp model.EndpointDiscoverabilityPolicy = model.AlwaysDiscoverable
	if e.SameClusterOnly {
		dp = model.DiscoverableFromSameCluster
	}
	return &model.IstioEndpoint{
		Labels:                 lbl,
		Addresses:              []string{e.Addr},
		ServicePortName:        e.Port,
		Network:                network.ID(e.Net),
		Locality:               model.Locality{Label: e.Loc, ClusterID: e.clusterID()},
		EndpointPort:           port,
		LbWeight:               e.Weight,
		TLSMode:                model.IstioMutualTLSModeLabel,
		Namespace:              svcNS,
		WorkloadName:           "wl-" + e.Addr,
		NodeName:               e.Node,
		DiscoverabilityPolicy:  dp,
		HealthStatus:           model.HealthStatus(e.Health),
		SendUnhealthyEndpoints: features.GlobalSendUnhealthyEndpoints.Load() || features.DefaultSendUnhealthyEndpoints.Load(),
	}
}

// ---- DestinationRule forms

type drSpec struct {
	Name       string
	None       bool
	Outlier    bool
	MinHealth  int32
	Failover   bool // localityLbSetting.failover r1 -> r2
	Distribute bool // localityLbSetting.distribute from r1/z1/* to {r1/z1/*: 70, r2/z1/*: 30}
	// Subsets, when non-nil, are the subset selectors of the rule in force (DestinationRule
	// histories); nil = the fixed subsets v1/v2 of the forms below.
	Subsets map[string]map[string]string
}

// selector gives the labels a subset selects. defined=false: no rule in force defines the subset (open
// cell); lower=true then still names labels whose bearers every reading includes (the forms below:
// "with or without the label filter").
func (d drSpec) selector(subset string) (sel map[string]string, defined, lower bool) {
	if d.Subsets != nil {
		sel, defined = d.Subsets[subset]
		return sel, defined && !d.None, false
	}
	return subsetLabels[subset], !d.None, true
}

var drForms = []drSpec{
	{Name: "none", None: true},
	{Name: "subsets"},
	{Name: "subsets+outlier", Outlier: true},
	{Name: "subsets+outlier+failover", Outlier: true, Failover: true},
	{Name: "subsets+outlier+distribute", Outlier: true, Distribute: true},
	{Name: "subsets+outlier-minHealthPercent", Outlier: true, MinHealth: 50},
}

const (
	distributeFrom = "r1/z1/*"
	failoverFrom   = "r1"
	failoverTo     = "r2"
)

var distributeTo = map[string]uint32{"r1/z1/*": 70, "r2/z1/*": 30}

func (d drSpec) config() []config.Config {
	if d.None {
		return nil
	}
	dr := &networking.DestinationRule{
		Host: svcHost,
		Subsets: []*networking.Subset{
			{Name: "v1", Labels: map[string]string{"version": "v1"}},
			{Name: "v2", Labels: map[string]string{"version": "v2"}},
		},
	}
	if d.Outlier || d.Failover || d.Distribute {
		dr.TrafficPolicy = &networking.TrafficPolicy{}
	}
	if d.Outlier {
		dr.TrafficPolicy.OutlierDetection = &networking.OutlierDetection{
			Consecutive_5XxErrors: wrapperspb.UInt32(5),
			Interval:              durationpb.New(10e9),
			BaseEjectionTime:      durationpb.New(30e9),
			MinHealthPercent:      d.MinHealth,
		}
	}
	if d.Failover {
		dr.TrafficPolicy.LoadBalancer = &networking.LoadBalancerSettings{
			LocalityLbSetting: &networking.LocalityLoadBalancerSetting{
				Failover: []*networking.LocalityLoadBalancerSetting_Failover{{From: failoverFrom, To: failoverTo}},
			},
		}
	}
	if d.Distribute {
		dr.TrafficPolicy.LoadBalancer = &networking.LoadBalancerSettings{
			LocalityLbSetting: &networking.LocalityLoadBalancerSetting{
				Distribute: []*networking.LocalityLoadBalancerSetting_Distribute{{From: distributeFrom, To: distributeTo}},
			},
		}
	}
	return []config.Config{{
		Meta: config.Meta{GroupVersionKind: gvk.DestinationRule, Name: "svc-dr", Namespace: svcNS},
		Spec: dr,
	}}
}

// ---- service flavours

type flavour struct {
	Name         string
	Sticky       bool // the service asks for persistent sessions (cookie or header form)
	Label        string
	ClusterLocal bool
	NodeLocal    bool // internalTrafficPolicy: Local (ServiceAttributes.NodeLocal, set by the Kubernetes registry)
}

var flavours = []flavour{
	{Name: "plain"},
	{Name: "persistent-session-cookie", Sticky: true, Label: features.PersistentSessionLabel},
	{Name: "persistent-session-header", Sticky: true, Label: features.PersistentSessionHeaderLabel},
	{Name: "cluster-local", ClusterLocal: true},
	{Name: "node-local", NodeLocal: true},
}

func (f flavour) service() *model.Service {
	s := &model.Service{
		Hostname:       host.Name(svcHost),
		DefaultAddress: "10.96.0.10",
		Resolution:     model.ClientSideLB,
		Ports: model.PortList{
			{Name: portHTTP, Port: 80, Protocol: protocol.HTTP},
			{Name: portOth, Port: 9090, Protocol: protocol.TCP},
		},
		Attributes: model.ServiceAttributes{
			Name: "svc", Namespace: svcNS, ServiceRegistry: provider.Kubernetes,
		},
	}
	if f.Label != "" {
		s.Attributes.Labels = map[string]string{f.Label: "x-session"}
	}
	s.Attributes.NodeLocal = f.NodeLocal
	return s
}

func (f flavour) meshConfig() *meshconfig.MeshConfig {
	m := mesh.DefaultMeshConfig()
	if f.ClusterLocal {
		m.ServiceSettings = append(m.ServiceSettings, &meshconfig.MeshConfig_ServiceSettings{
			Settings: &meshconfig.MeshConfig_ServiceSettings_Settings{ClusterLocal: true},
			Hosts:    []string{svcHost},
		})
	}
	return m
}

// ---- unhealthy-endpoint settings (the two process-wide switches of pilot/pkg/features)

type featSpec struct {
	Name    string
	Default bool // PILOT_AUTO_SEND_UNHEALTHY_ENDPOINTS
	Global  bool // PILOT_SEND_UNHEALTHY_ENDPOINTS
}

var featForms = []featSpec{
	{Name: "auto=on,global=off", Default: true},
	{Name: "auto=off,global=off"},
	{Name: "auto=on,global=on", Default: true, Global: true},
	{Name: "auto=off,global=on", Global: true},
}

func (f featSpec) apply() {
	features.DefaultSendUnhealthyEndpoints.Store(f.Default)
	features.GlobalSendUnhealthyEndpoints.Store(f.Global)
}

// ---- proxies

type proxySpec struct {
	Name    string
	Type    model.NodeType
	Cluster cluster.ID
	Net     string
	Loc     string
	Node    string
}

var proxyForms = []proxySpec{
	{Name: "sidecar-c1-n1-r1z1", Type: model.SidecarProxy, Cluster: "c1", Net: netSame, Loc: "r1/z1", Node: nodeA},
	{Name: "sidecar-c2-n2-r2z1", Type: model.SidecarProxy, Cluster: "c2", Net: netGw, Loc: "r2/z1", Node: nodeA},
	{Name: "router-c1-n1-r1z2", Type: model.Router, Cluster: "c1", Net: netSame, Loc: "r1/z2", Node: nodeB},
}

func splitLoc(l string) (region, zone string) {
	p := strings.SplitN(l, "/", 3)
	if len(p) > 0 {
		region = p[0]
	}
	if len(p) > 1 {
		zone = p[1]
	}
	return
}

func (p proxySpec) proxy(i int) *model.Proxy {
	r, z := splitLoc(p.Loc)
	return &model.Proxy{
		Type:            p.Type,
		ID:              p.Name + "." + svcNS,
		ConfigNamespace: svcNS,
		IPAddresses:     []string{fmt.Sprintf("10.9.0.%d", i+1)},
		Locality:        &core.Locality{Region: r, Zone: z},
		Metadata: &model.NodeMetadata{
			Namespace: svcNS,
			ClusterID: p.Cluster,
			Network:   network.ID(p.Net),
			NodeName:  p.Node,
		},
	}
}

// ---- clusters

type clusterSpec struct {
	Name   string
	Subset string
}

var clusterForms = []clusterSpec{
	{Name: model.BuildSubsetKey(model.TrafficDirectionOutbound, "", host.Name(svcHost), 80)},
	{Name: model.BuildSubsetKey(model.TrafficDirectionOutbound, "v1", host.Name(svcHost), 80), Subset: "v1"},
}

var subsetLabels = map[string]map[string]string{"v1": {"version": "v1"}, "v2": {"version": "v2"}}
