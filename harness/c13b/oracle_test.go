// C13 part b: the reference. Written from the property statement and the API documentation
// (DestinationRule LocalityLoadBalancerSetting, OutlierDetection.minHealthPercent, the
// PILOT_*SEND_UNHEALTHY_ENDPOINTS / PILOT_PERSISTENT_SESSION_* / PILOT_DRAINING_LABEL feature texts,
// MeshConfig serviceSettings.clusterLocal, MeshNetworks gateways); it does not look at the endpoint
// builder.
//
// Cells the statement leaves open (every reading accepted):
//   - an endpoint on another network for which no gateway is configured: reachable directly or absent;
//   - an endpoint whose address is not an IP address (EDS cannot carry it): absent or present;
//   - a subset cluster while no DestinationRule defines the subset: with or without the label filter;
//   - which of a network's gateways represent its endpoints, in which locality they are listed and
//     with which weight (only: at least one of them, weight >= 1, counted in the locality weight);
//   - a uniform integer scale factor on all endpoint weights of one ClusterLoadAssignment;
//   - priorities of localities at the same distance; whether failover priorities are used at all
//     unless the DestinationRule configures failover explicitly together with outlier detection;
//     (a node-local service - internalTrafficPolicy: Local - is not an open cell: members are the
//     endpoints on the proxy's own node in the proxy's own cluster)
//   - localities that `distribute` does not name: their endpoints may be absent, or listed in a
//     locality of weight 0 ("any locality not present will receive no traffic").
package c13b

import (
	"fmt"
	"sort"
	"strings"

	"istio.io/istio/pilot/pkg/model"
)

type verdict int

const (
	forbidden verdict = iota
	optional
	required
)

type epVerdict struct {
	V          verdict
	ViaGateway bool   // represented by the gateways of its network instead of its own address
	Why        string // coarse reason; part of violation keys
}

// world is what the registries reported last (nil = the registry has no report for the service).
type world struct {
	Reports [2][]epSpec
}

func (w world) all() []epSpec {
	var out []epSpec
	for _, r := range w.Reports {
		out = append(out, r...)
	}
	return out
}

func (w world) String() string {
	var s []string
	for i, r := range w.Reports {
		var n []string
		for _, e := range r {
			n = append(n, e.Name)
		}
		s = append(s, fmt.Sprintf("%s=[%s]", shardKeys[i].Cluster, strings.Join(n, ",")))
	}
	return strings.Join(s, " ")
}

type viewCtx struct {
	DR   drSpec
	Fl   flavour
	Ft   featSpec
	Px   proxySpec
	Cl   clusterSpec
	What string
}

func labelsOf(e epSpec) map[string]string {
	m := map[string]string{"app": "svc"}
	if e.Version != "" {
		m["version"] = e.Version
	}
	return m
}

func hasGateway(net string) bool { return len(gatewayAddrs[net]) > 0 }

// judge decides membership of one reported endpoint in the cluster as seen by the proxy.
func judge(e epSpec, c viewCtx) epVerdict {
	open := ""
	// service port
	if e.Port != portHTTP {
		return epVerdict{V: forbidden, Why: "other-service-port"}
	}
	// subset labels
	if c.Cl.Subset != "" {
		sel, defined, lower := c.DR.selector(c.Cl.Subset)
		match := true
		for k, v := range sel {
			if labelsOf(e)[k] != v {
				match = false
			}
		}
		switch {
		case defined && !match:
			return epVerdict{V: forbidden, Why: "subset-labels-do-not-match"}
		case !defined && !(lower && match):
			open = "subset-not-defined"
		}
	}
	// health
	draining := model.HealthStatus(e.Health) == model.Draining || e.DrainLabel
	switch {
	case model.HealthStatus(e.Health) == model.Terminating:
		return epVerdict{V: forbidden, Why: "terminating"}
	case draining:
		if !c.Fl.Sticky {
			return epVerdict{V: forbidden, Why: "draining-without-persistent-session"}
		}
	case model.HealthStatus(e.Health) == model.UnHealthy:
		allowed := c.Ft.Global || (c.Ft.Default && c.DR.MinHealth == 0)
		if !allowed {
			return epVerdict{V: forbidden, Why: "unhealthy-not-allowed"}
		}
	}
	// visibility
	if c.Fl.ClusterLocal && e.clusterID() != c.Px.Cluster {
		return epVerdict{V: forbidden, Why: "cluster-local-service-other-cluster"}
	}
	if e.SameClusterOnly && e.clusterID() != c.Px.Cluster {
		return epVerdict{V: forbidden, Why: "discoverable-from-same-cluster-only"}
	}
	// internalTrafficPolicy: Local - only endpoints on the proxy's own node; a node is a machine of
	// one cluster, so an equally named node of another cluster is another node
	if c.Fl.NodeLocal {
		if e.clusterID() != c.Px.Cluster {
			return epVerdict{V: forbidden, Why: "node-local-service-other-cluster"}
		}
		if e.Node != c.Px.Node {
			return epVerdict{V: forbidden, Why: "node-local-service-other-node"}
		}
	}
	// address form
	if e.isHostname() && open == "" {
		open = "non-ip-address"
	}
	// network
	via := false
	if e.Net != c.Px.Net {
		if hasGateway(e.Net) {
			via = true
		} else if open == "" {
			open = "other-network-without-gateway"
		}
	}
	if open != "" {
		return epVerdict{V: optional, ViaGateway: via, Why: open}
	}
	why := "member"
	switch {
	case draining:
		why = "draining-wanted-by-persistent-session-service"
	case model.HealthStatus(e.Health) == model.UnHealthy:
		why = "unhealthy-explicitly-allowed"
	}
	return epVerdict{V: required, ViaGateway: via, Why: why}
}

func localityMatches(loc, rule string) bool {
	lr, lz := splitLoc(loc)
	p := strings.Split(rule, "/")
	get := func(i int) string {
		if i < len(p) {
			return p[i]
		}
		return "*"
	}
	ok := func(have, want string) bool { return want == "*" || want == "" || have == want }
	return (get(0) == "*" || lr == get(0)) && ok(lz, get(1))
}

func distributeApplies(c viewCtx) bool {
	return c.DR.Distribute && localityMatches(c.Px.Loc, distributeFrom)
}

func distributeKeyFor(loc string) string {
	for k := range distributeTo {
		if localityMatches(loc, k) {
			return k
		}
	}
	return ""
}

// distance rank of an endpoint locality from the proxy by the locality failover documentation:
// 0 same zone, 2 same region, 3 other region (the failover target when one is configured for the
// proxy's region), 4 any other region when a failover target is configured for the proxy's region.
func rank(c viewCtx, loc string) int {
	pr, pz := splitLoc(c.Px.Loc)
	r, z := splitLoc(loc)
	switch {
	case r == pr && z == pz:
		return 0
	case r == pr:
		return 2
	}
	if c.DR.Failover && pr == failoverFrom && r != failoverTo {
		return 4
	}
	return 3
}

// ---- observation

type obsEp struct {
	Addr   string `json:"addr"`
	Weight uint32 `json:"w"`
	Health string `json:"health"`
}

type obsLoc struct {
	Loc       string  `json:"loc"`
	Priority  uint32  `json:"prio"`
	Weight    uint32  `json:"w"`
	HasWeight bool    `json:"has_w"`
	Eps       []obsEp `json:"eps"`
}

type obsCLA struct {
	Name string   `json:"name"`
	Locs []obsLoc `json:"locs"`
	Sig  string   `json:"-"`
}

func (o *obsCLA) String() string {
	if o == nil {
		return "<no ClusterLoadAssignment>"
	}
	if o.Sig != "" {
		return o.Sig
	}
	var s []string
	for _, l := range o.Locs {
		var e []string
		for _, x := range l.Eps {
			e = append(e, fmt.Sprintf("%s/w%d/%s", x.Addr, x.Weight, x.Health))
		}
		w := "-"
		if l.HasWeight {
			w = fmt.Sprint(l.Weight)
		}
		s = append(s, fmt.Sprintf("{loc=%q prio=%d w=%s [%s]}", l.Loc, l.Priority, w, strings.Join(e, " ")))
	}
	return strings.Join(s, " ")
}

type finding struct {
	Key  string
	Desc string
}

var gatewayNetOf = func() map[string]string {
	m := map[string]string{}
	for n, as := range gatewayAddrs {
		for _, a := range as {
			m[a] = n
		}
	}
	return m
}()

var healthName = map[int]string{int(model.Healthy): "HEALTHY", int(model.UnHealthy): "UNHEALTHY", int(model.Draining): "DRAINING"}

var suspectOrder = []string{
	"node-local-service-other-cluster", "node-local-service-other-node", "cluster-local-service-other-cluster", "discoverable-from-same-cluster-only",
	"terminating", "draining-without-persistent-session", "unhealthy-not-allowed", "subset-labels-do-not-match", "other-service-port",
}

var alphaIndex map[string]epSpec

func alphaByAddr(alpha []epSpec) map[string]epSpec {
	if alphaIndex == nil {
		alphaIndex = map[string]epSpec{}
		for _, e := range alpha {
			alphaIndex[e.Addr] = e
		}
	}
	return alphaIndex
}

func healthDesc(e epSpec) string {
	h := map[int]string{1: "Healthy", 2: "UnHealthy", 3: "Draining", 4: "Terminating"}[e.Health]
	if e.DrainLabel {
		h += "+draining-label"
	}
	return h
}

// memberKey names the failing shape: the reference's reason first (so that one root cause shares a
// prefix), then the dimensions that reason depends on, then the endpoint attribute that matters.
func memberKey(kind string, e epSpec, v epVerdict, c viewCtx) string {
	k := "membership:" + kind + "|why=" + v.Why
	switch v.Why {
	case "draining-wanted-by-persistent-session-service", "draining-without-persistent-session":
		k += "|svc=" + c.Fl.Name + "|ep=" + healthDesc(e)
	case "unhealthy-explicitly-allowed", "unhealthy-not-allowed":
		k += fmt.Sprintf("|settings=%s,minHealthPercent=%d|ep=%s", c.Ft.Name, c.DR.MinHealth, healthDesc(e))
	case "terminating":
		k += "|ep=" + healthDesc(e)
	case "cluster-local-service-other-cluster", "node-local-service-other-cluster", "node-local-service-other-node", "discoverable-from-same-cluster-only":
		// visibility: which endpoint it is does not matter
	default:
		k += "|ep=" + e.Class
	}
	return k
}

// check compares one observed ClusterLoadAssignment with the reference for the world.
func check(o *obsCLA, w world, c viewCtx, alpha []epSpec) []finding {
	var out []finding
	add := func(key, format string, a ...any) {
		out = append(out, finding{Key: key, Desc: fmt.Sprintf(format, a...)})
	}
	if o == nil {
		add("membership:no-assignment-generated", "no ClusterLoadAssignment was produced for the cluster")
		return out
	}
	reported := map[string]epSpec{}
	for _, e := range w.all() {
		reported[e.Addr] = e
	}
	byAddr := alphaByAddr(alpha)
	dist := distributeApplies(c)

	verdicts := map[string]epVerdict{}
	gwNeed := map[string]verdict{} // network -> required / optional
	gwWhy := map[string]string{}   // network -> key of the first required endpoint behind its gateways
	raddrs := make([]string, 0, len(reported))
	for a := range reported {
		raddrs = append(raddrs, a)
	}
	sort.Strings(raddrs)
	for _, addr := range raddrs {
		e := reported[addr]
		v := judge(e, c)
		if v.V != forbidden && dist && distributeKeyFor(e.Loc) == "" {
			v.V, v.Why = optional, "locality-not-named-by-distribute"
		}
		verdicts[addr] = v
		if v.V != forbidden && v.ViaGateway {
			if cur, ok := gwNeed[e.Net]; !ok || v.V > cur {
				gwNeed[e.Net] = v.V
				gwWhy[e.Net] = memberKey("missing", e, v, c) + "|via=gateways-of-" + e.Net
			}
		}
	}

	// membership: what is there
	seen := map[string]int{}
	for _, l := range o.Locs {
		for _, x := range l.Eps {
			seen[x.Addr]++
			if net, isGw := gatewayNetOf[x.Addr]; isGw {
				if _, ok := gwNeed[net]; !ok {
					// which non-member the gateway stands for cannot be told; the key names one suspect: the
					// reason, first in a fixed order (visibility, health, selection), why a reported endpoint of
					// that network is no member
					suspect := "not-in-the-latest-report"
					best := len(suspectOrder)
					var all []string
					for _, a := range raddrs {
						if e := reported[a]; e.Net == net {
							why := verdicts[a].Why
							all = append(all, e.Name+":"+why)
							for i, w := range suspectOrder {
								if w == why && i < best {
									best, suspect = i, why
								}
							}
						}
					}
					add("membership:unexpected|why="+suspect+"|via=gateways-of-"+net,
						"gateway %s of network %s is listed although no member endpoint lives on that network (reported there: %v)", x.Addr, net, all)
				}
				continue
			}
			e, isReported := reported[x.Addr]
			if !isReported {
				if old, known := byAddr[x.Addr]; known {
					add("membership:unexpected|why=not-in-the-latest-report|ep="+old.Class, "%s is listed but the latest report of registry %s does not contain it", old, shardKeys[old.Shard].Cluster)
				} else {
					add("membership:unexpected|why=not-in-the-latest-report", "address %s is listed but no registry's latest report contains it", x.Addr)
				}
				continue
			}
			v := verdicts[x.Addr]
			switch {
			case v.V == forbidden:
				add(memberKey("unexpected", e, v, c), "%s is listed but must not be (%s)", e, v.Why)
			case v.ViaGateway:
				add("membership:unexpected|why=own-address-instead-of-gateway|ep="+e.Class, "%s lives on network %s, which has gateways %v; its own address is listed for a proxy on network %s",
					e, e.Net, gatewayAddrs[e.Net], c.Px.Net)
			}
		}
	}
	// membership: what is missing
	for _, a := range raddrs {
		v := verdicts[a]
		if v.V == required && !v.ViaGateway && seen[a] == 0 {
			add(memberKey("missing", reported[a], v, c), "%s is a member (%s) but is not listed", reported[a], v.Why)
		}
	}
	for net, need := range gwNeed {
		if need != required {
			continue
		}
		n := 0
		for _, g := range gatewayAddrs[net] {
			n += seen[g]
		}
		if n == 0 {
			add(gwWhy[net], "member endpoints live on network %s (gateways %v) but neither they nor a gateway are listed", net, gatewayAddrs[net])
		}
	}

	// consistency
	// grouping and weights do not depend on the DestinationRule form or the proxy; priorities and
	// distribute weights do
	ckey := func(what string) string { return "consistency:" + what }
	pkey := func(what string) string { return "consistency:" + what + "|dr=" + c.DR.Name + "|proxy=" + c.Px.Name }
	locSeen := map[string]bool{}
	var k uint32
	for _, l := range o.Locs {
		if locSeen[l.Loc] {
			add(ckey("duplicate-locality"), "locality %q occurs more than once", l.Loc)
		}
		locSeen[l.Loc] = true
		var sum uint32
		inLoc := map[string]bool{}
		for _, x := range l.Eps {
			sum += x.Weight
			if inLoc[x.Addr] {
				add(ckey("duplicate-endpoint"), "address %s occurs twice in locality %q", x.Addr, l.Loc)
			}
			inLoc[x.Addr] = true
			if x.Weight == 0 {
				add(ckey("endpoint-weight-zero"), "address %s has no load balancing weight", x.Addr)
			}
			e, direct := reported[x.Addr]
			if !direct || verdicts[x.Addr].V == forbidden {
				continue // not a member: reported above
			}
			if seen[x.Addr] > 1 {
				add(ckey("duplicate-endpoint"), "address %s is listed %d times", x.Addr, seen[x.Addr])
			}
			if e.Loc != l.Loc {
				add(ckey("endpoint-in-wrong-locality"), "%s is listed under locality %q", e, l.Loc)
			}
			cw := e.configuredWeight()
			if x.Weight%cw != 0 || x.Weight == 0 {
				add(ckey("endpoint-weight"), "%s has weight %d, not a multiple of its configured weight %d", e, x.Weight, cw)
			} else if k == 0 {
				k = x.Weight / cw
			} else if x.Weight/cw != k {
				add(ckey("endpoint-weight"), "%s has weight %d = %d x configured, other endpoints of the assignment use factor %d", e, x.Weight, x.Weight/cw, k)
			}
			want := healthName[e.Health]
			if e.DrainLabel {
				want = "DRAINING"
			}
			if x.Health != want && !(want == "HEALTHY" && x.Health == "UNKNOWN") {
				add(ckey("health-mark")+"|ep="+healthDesc(e), "%s is listed with health status %s", e, x.Health)
			}
		}
		if len(l.Eps) == 0 {
			continue
		}
		if !dist {
			if l.Weight != sum {
				add(ckey("locality-weight-is-not-the-sum"), "locality %q has weight %d (set=%v), its endpoints sum to %d", l.Loc, l.Weight, l.HasWeight, sum)
			}
		} else if distributeKeyFor(l.Loc) == "" && l.Weight != 0 {
			add(pkey("distribute-unnamed-locality-gets-traffic"), "locality %q is not named by distribute.to %v but is listed with weight %d and %d endpoints", l.Loc, distributeTo, l.Weight, len(l.Eps))
		}
	}
	if dist {
		for key, pct := range distributeTo {
			var got, n uint32
			for _, l := range o.Locs {
				if len(l.Eps) > 0 && localityMatches(l.Loc, key) {
					got += l.Weight
					n++
				}
			}
			if n > 0 && (got < pct || got > pct+n-1) {
				add(pkey("distribute-weight"), "localities matching %q carry weight %d, configured %d", key, got, pct)
			}
		}
	}
	// priorities
	prios := map[uint32]bool{}
	var maxP uint32
	for _, l := range o.Locs {
		if len(l.Eps) == 0 {
			continue
		}
		prios[l.Priority] = true
		if l.Priority > maxP {
			maxP = l.Priority
		}
	}
	if len(prios) > 0 && int(maxP)+1 != len(prios) {
		add(pkey("priorities-not-contiguous"), "priorities in use %v", keysOf(prios))
	}
	for _, l := range o.Locs {
		if len(l.Eps) > 0 && l.Loc == c.Px.Loc && l.Priority != 0 {
			add(pkey("own-locality-not-priority-0"), "the proxy's own locality %q has priority %d", l.Loc, l.Priority)
		}
	}
	if c.DR.Failover && c.DR.Outlier {
		for _, a := range o.Locs {
			for _, b := range o.Locs {
				if len(a.Eps) == 0 || len(b.Eps) == 0 {
					continue
				}
				if rank(c, a.Loc) < rank(c, b.Loc) && a.Priority >= b.Priority {
					add(pkey("failover-order"), "locality %q (distance rank %d) has priority %d, locality %q (rank %d) has priority %d; failover %s->%s",
						a.Loc, rank(c, a.Loc), a.Priority, b.Loc, rank(c, b.Loc), b.Priority, failoverFrom, failoverTo)
				}
			}
		}
	}
	return out
}

func keysOf(m map[uint32]bool) []int {
	var o []int
	for k := range m {
		o = append(o, int(k))
	}
	sort.Ints(o)
	return o
}

// expectedMembers lists, for descriptions and the non-triviality rule, the addresses the reference
// requires (gateways as "gw:<network>").
func expectedMembers(w world, c viewCtx) (req []string, excluded int) {
	dist := distributeApplies(c)
	gw := map[string]bool{}
	for _, e := range w.all() {
		v := judge(e, c)
		if v.V != forbidden && dist && distributeKeyFor(e.Loc) == "" {
			v.V = optional
		}
		switch {
		case v.V == forbidden:
			excluded++
		case v.V == required && v.ViaGateway:
			gw[e.Net] = true
		case v.V == required:
			req = append(req, e.Addr)
		}
	}
	for n := range gw {
		req = append(req, "gw:"+n)
	}
	sort.Strings(req)
	return req, excluded
}
