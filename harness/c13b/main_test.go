package c13b

import (
	"os"
	"runtime/debug"
	"testing"

	"istio.io/istio/pkg/log"
)

// The control plane logs a few dozen lines per environment built and one line per empty endpoint
// report; only errors are of interest here.
func TestMain(m *testing.M) {
	// short-lived protobuf garbage dominates; the heap stays small, collect less often
	debug.SetGCPercent(400)
	for _, s := range log.Scopes() {
		s.SetOutputLevel(log.ErrorLevel)
	}
	os.Exit(m.Run())
}
