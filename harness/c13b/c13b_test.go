// C13 part b (membership): the real EdsGenerator / EndpointBuilder on a real environment
// (core.NewConfigGenTest: config store, push context, sidecar scopes, network manager, XDS cache
// wired to the EndpointIndex) against the reference of oracle_test.go, exhaustively over the space
// of space_test.go, with a scripted history of registry reports per case.
package c13b

import (
	"encoding/json"
	"fmt"
	"sort"
	"strings"
	"testing"
	"time"

	endpoint "github.com/envoyproxy/go-control-plane/envoy/config/endpoint/v3"

	"istio.io/istio/pilot/pkg/model"
	"istio.io/istio/pilot/pkg/networking/core"
	"istio.io/istio/pilot/pkg/xds"
	v3 "istio.io/istio/pilot/pkg/xds/v3"
	"istio.io/istio/pkg/config/host"
	"istio.io/istio/pkg/config/schema/kind"
	"istio.io/istio/pkg/util/sets"
	"istio.io/istio/zz_verif/engine"
)

// ---- environment (one per DestinationRule form x service flavour, reused by all cases of a worker)

type envT struct {
	cg      *core.ConfigGenTest
	push    *model.PushContext
	idx     *model.EndpointIndex
	cache   model.XdsCache
	gen     *xds.EdsGenerator // the server's generator: shares the XDS cache with the endpoint index
	fresh   *xds.EdsGenerator // same index, no cache: what a cold generation gives
	proxies []*model.Proxy
}

func newEnv(t *testing.T, dr drSpec, fl flavour) *envT {
	cg := core.NewConfigGenTest(t, core.TestOptions{
		Configs:    dr.config(),
		Services:   []*model.Service{fl.service()},
		Gateways:   networkGateways(),
		MeshConfig: fl.meshConfig(),
	})
	env := cg.Env()
	e := &envT{cg: cg, push: cg.PushContext(), idx: env.EndpointIndex, cache: env.Cache}
	if _, disabled := env.Cache.(model.DisabledCache); disabled {
		t.Fatalf("the environment has no XDS cache")
	}
	e.gen = &xds.EdsGenerator{Cache: env.Cache, EndpointIndex: env.EndpointIndex}
	e.fresh = &xds.EdsGenerator{Cache: model.DisabledCache{}, EndpointIndex: env.EndpointIndex}
	for i, p := range proxyForms {
		e.proxies = append(e.proxies, cg.SetupProxy(p.proxy(i)))
	}
	// the environment must be the one the case describes (else: infrastructure error)
	svc := e.push.ServiceForHostname(e.proxies[0], host.Name(svcHost))
	if svc == nil {
		t.Fatalf("service not visible to the proxy")
	}
	if got := e.push.IsClusterLocal(svc); got != fl.ClusterLocal {
		t.Fatalf("cluster-local = %v for flavour %s", got, fl.Name)
	}
	if svc.Attributes.NodeLocal != fl.NodeLocal {
		t.Fatalf("node-local = %v for flavour %s", svc.Attributes.NodeLocal, fl.Name)
	}
	for i, p := range e.proxies {
		if p.GetNodeName() != proxyForms[i].Node {
			t.Fatalf("proxy %s: node name %q", p.ID, p.GetNodeName())
		}
	}
	if !e.push.NetworkManager().IsMultiNetworkEnabled() {
		t.Fatalf("gateways not loaded")
	}
	for _, p := range e.proxies {
		got := p.SidecarScope.DestinationRule(model.TrafficDirectionOutbound, p, host.Name(svcHost)) != nil
		if got == dr.None {
			t.Fatalf("DestinationRule visible = %v for form %s, proxy %s", got, dr.Name, p.ID)
		}
	}
	return e
}

func observe(l *endpoint.ClusterLoadAssignment) *obsCLA {
	o := &obsCLA{Name: l.ClusterName}
	for _, le := range l.Endpoints {
		ol := obsLoc{Priority: le.Priority}
		if lc := le.Locality; lc != nil {
			parts := []string{lc.Region, lc.Zone, lc.SubZone}
			for len(parts) > 0 && parts[len(parts)-1] == "" {
				parts = parts[:len(parts)-1]
			}
			ol.Loc = strings.Join(parts, "/")
		}
		if le.LoadBalancingWeight != nil {
			ol.HasWeight, ol.Weight = true, le.LoadBalancingWeight.Value
		}
		for _, x := range le.LbEndpoints {
			a := x.GetEndpoint().GetAddress()
			addr := a.GetSocketAddress().GetAddress()
			if addr == "" {
				addr = "non-socket:" + a.String()
			}
			ol.Eps = append(ol.Eps, obsEp{Addr: addr, Weight: x.GetLoadBalancingWeight().GetValue(), Health: x.HealthStatus.String()})
		}
		o.Locs = append(o.Locs, ol)
	}
	o.Sig = o.String()
	return o
}

func (e *envT) generate(t *testing.T, g *xds.EdsGenerator, p *model.Proxy, req *model.PushRequest) map[string]*obsCLA {
	names := make([]string, 0, len(clusterForms))
	for _, c := range clusterForms {
		names = append(names, c.Name)
	}
	w := &model.WatchedResource{TypeUrl: v3.EndpointType, ResourceNames: sets.New(names...)}
	if req.Push == nil {
		req.Push = e.push
	}
	rs, _, err := g.Generate(p, w, req)
	if err != nil {
		t.Fatalf("EDS generator: %v", err)
	}
	out := map[string]*obsCLA{}
	for _, r := range rs {
		l := &endpoint.ClusterLoadAssignment{}
		if err := r.GetResource().UnmarshalTo(l); err != nil {
			t.Fatalf("undecodable EDS resource %s: %v", r.GetName(), err)
		}
		out[l.ClusterName] = observe(l)
	}
	return out
}

// ---- cases

type caseT struct {
	DR int `json:"dr"`
	Fl int `json:"flavour"`
	Ft int `json:"unhealthy_settings"`
	// Kind "set": Set lists the alphabet elements reported at first; the scripted history follows.
	// Kind "pair": registry of From reports {From}, then the same address re-reported with the
	// attributes of To (Companion: plus an unchanged second endpoint in both reports).
	Kind      string `json:"kind"`
	Set       []int  `json:"set,omitempty"`
	From      int    `json:"from,omitempty"`
	To        int    `json:"to,omitempty"`
	Companion bool   `json:"companion,omitempty"`
	// Kind "grow": the registry of To reports {companion}, then {companion, To} (a member joins while the
	// others stay as they are), then the same list again (a true no-op).
	// Kind "rules": Rules are the initial states of the four DestinationRules (rules_test.go), RuleOps
	// the moves (level, new state); DR / Fl / Ft are not used (plain service, default switches).
	Rules   []int    `json:"rules,omitempty"`
	RuleOps [][2]int `json:"rule_ops,omitempty"`
}

func (c caseT) String() string {
	if c.Kind == "rules" {
		var ops []string
		for _, op := range c.RuleOps {
			ops = append(ops, ruleLevels[op[0]].Name+"->"+ruleStateName[op[1]])
		}
		return "DestinationRules {" + ruleStates(c.Rules) + "} then " + strings.Join(ops, ", ")
	}
	s := fmt.Sprintf("dr=%s service=%s %s ", drForms[c.DR].Name, flavours[c.Fl].Name, featForms[c.Ft].Name)
	a := alphabet()
	if c.Kind == "pair" {
		return s + fmt.Sprintf("pair %s -> attributes of %s companion=%v", a[c.From].Name, a[c.To].Name, c.Companion)
	}
	if c.Kind == "grow" {
		return s + fmt.Sprintf("grow {companion} -> {companion,%s} -> same again", a[c.To].Name)
	}
	var n []string
	for _, i := range c.Set {
		n = append(n, a[i].Name)
	}
	return s + "set {" + strings.Join(n, ",") + "}"
}

type opKind int

const (
	opReport opKind = iota
	opRemoveShard
	opDeleteService
)

type opT struct {
	Kind  opKind
	Shard int
	Eps   []epSpec
}

type stepT struct {
	Name string
	Ops  []opT
}

func partOf(eps []epSpec, shard int) []epSpec {
	var out []epSpec
	for _, e := range eps {
		if e.Shard == shard {
			out = append(out, e)
		}
	}
	return out
}

// successor of an element within the alphabet of its own registry (cyclic).
func successor(alpha []epSpec, e epSpec) epSpec {
	var own []epSpec
	for _, x := range alpha {
		if x.Shard == e.Shard {
			own = append(own, x)
		}
	}
	for i, x := range own {
		if x.Name == e.Name {
			return own[(i+1)%len(own)]
		}
	}
	panic("not in alphabet")
}

// script: the history of a case.
func script(c caseT, alpha []epSpec) []stepT {
	if c.Kind == "pair" {
		from, to := alpha[c.From], alpha[c.To]
		changed := to
		changed.Name = from.Name + "=>" + to.Name
		changed.Shard = from.Shard
		if !to.isHostname() {
			changed.Addr = from.Addr
		}
		r1, r2 := []epSpec{from}, []epSpec{changed}
		if c.Companion {
			comp := alpha[0]
			comp.Name, comp.Addr, comp.Shard = "companion", "10.3.0.1", from.Shard
			r1, r2 = append([]epSpec{comp}, r1...), append([]epSpec{comp}, r2...)
		}
		return []stepT{
			{Name: "first-report", Ops: []opT{{Kind: opReport, Shard: from.Shard, Eps: r1}}},
			{Name: "re-report-changed", Ops: []opT{{Kind: opReport, Shard: from.Shard, Eps: r2}}},
		}
	}
	if c.Kind == "grow" {
		to := alpha[c.To]
		comp := alpha[0]
		comp.Name, comp.Addr, comp.Shard = "companion", "10.3.0.1", to.Shard
		return []stepT{
			{Name: "first-report", Ops: []opT{{Kind: opReport, Shard: to.Shard, Eps: []epSpec{comp}}}},
			{Name: "member-joins", Ops: []opT{{Kind: opReport, Shard: to.Shard, Eps: []epSpec{comp, to}}}},
			{Name: "re-reported-unchanged", Ops: []opT{{Kind: opReport, Shard: to.Shard, Eps: []epSpec{comp, to}}}},
		}
	}
	var set []epSpec
	for _, i := range c.Set {
		set = append(set, alpha[i])
	}
	x := set[0].Shard // the registry whose report changes
	y := 1 - x
	xs, ys := partOf(set, x), partOf(set, y)
	var rotated []epSpec
	for _, e := range xs {
		rotated = append(rotated, successor(alpha, e))
	}
	first := stepT{Name: "first-report"}
	for sh := 0; sh < 2; sh++ {
		if p := partOf(set, sh); len(p) > 0 {
			first.Ops = append(first.Ops, opT{Kind: opReport, Shard: sh, Eps: p})
		}
	}
	steps := []stepT{
		first,
		{Name: "report-replaced", Ops: []opT{{Kind: opReport, Shard: x, Eps: rotated}}},
		{Name: "empty-report", Ops: []opT{{Kind: opReport, Shard: x, Eps: nil}}},
		{Name: "reported-again", Ops: []opT{{Kind: opReport, Shard: x, Eps: xs}}},
	}
	if len(ys) > 0 {
		steps = append(steps, stepT{Name: "cluster-removed", Ops: []opT{{Kind: opRemoveShard, Shard: y}}})
	} else {
		steps = append(steps, stepT{Name: "service-deleted", Ops: []opT{{Kind: opDeleteService, Shard: x}}})
	}
	return steps
}

// historyHas: some endpoint reported at some step of the case's history satisfies pred.
func historyHas(c caseT, alpha []epSpec, pred func(epSpec) bool) bool {
	for _, st := range script(c, alpha) {
		for _, op := range st.Ops {
			for _, e := range op.Eps {
				if pred(e) {
					return true
				}
			}
		}
	}
	return false
}

// inQuick: the quick tier runs every history with the default unhealthy-endpoint switches, the plain
// and the cluster-local service and all DestinationRule forms; the three non-default switch settings
// are added for every history in which an UnHealthy endpoint is reported at some step, the two
// persistent-session services for every history in which a draining endpoint (status or label) is
// reported at some step, the node-local service for every history in which an endpoint on node-b or
// an endpoint of registry B (cluster c2) is reported at some step. Thorough runs the whole product.
func inQuick(c caseT, alpha []epSpec) bool {
	if c.Ft != 0 && !historyHas(c, alpha, func(e epSpec) bool { return model.HealthStatus(e.Health) == model.UnHealthy }) {
		return false
	}
	if flavours[c.Fl].Sticky && !historyHas(c, alpha, func(e epSpec) bool { return model.HealthStatus(e.Health) == model.Draining || e.DrainLabel }) {
		return false
	}
	if flavours[c.Fl].NodeLocal && !historyHas(c, alpha, func(e epSpec) bool { return e.Node != nodeA || e.Shard != 0 }) {
		return false
	}
	return true
}

type runner struct {
	t       *testing.T
	res     *engine.Result
	alpha   []epSpec
	envs    map[[2]int]*envT
	ruleEnv *ruleEnv
	verbose bool
	// subscriber views identical to the on-request view judged fine at the same step (not judged again)
	identical int64
	// sig, when set, collects every observed assignment (determinism self-check)
	sig *strings.Builder
}

func (r *runner) env(dr, fl int) *envT {
	k := [2]int{dr, fl}
	if e, ok := r.envs[k]; ok {
		return e
	}
	e := newEnv(r.t, drForms[dr], flavours[fl])
	r.envs[k] = e
	return e
}

func istioEndpoints(eps []epSpec) []*model.IstioEndpoint {
	var out []*model.IstioEndpoint
	for _, e := range eps {
		out = append(out, e.istioEndpoint())
	}
	return out
}

// runCase plays the history of one case and judges every view after every step. Two kinds of view:
//
//	on-request:  a proxy that (re)subscribes right after the registries' calls returned, before any
//	             push was processed (request-driven generation: forced, timestamp of the last push);
//	subscriber:  a proxy that stays connected and receives what the update's push decision sends
//	             (NoPush: it keeps what it has; otherwise the affected clusters are regenerated after
//	             the server dropped the cache entries of the updated keys, as DiscoveryServer.Push does).
//
// A failing view is compared with a cold generation (no cache, forced): when that fails the same way
// the violation is one of generation (key without prefix), otherwise the view is stale (key prefixed
// with the view kind and the step).
func (r *runner) runCase(c caseT) (nontrivial bool) {
	if c.Kind == "rules" {
		return r.runRuleCase(c)
	}
	e := r.env(c.DR, c.Fl)
	ft := featForms[c.Ft]
	ft.apply()
	// fresh index state: no registry knows the service's endpoints
	for _, sk := range shardKeys {
		e.idx.DeleteShard(sk)
	}
	e.cache.ClearAll()
	var w world
	views := make([]map[string]*obsCLA, len(e.proxies))
	lastPush := time.Now()
	for si, st := range script(c, r.alpha) {
		pushType := model.NoPush
		forced := false
		for _, op := range st.Ops {
			switch op.Kind {
			case opReport:
				pt := e.idx.UpdateServiceEndpoints(shardKeys[op.Shard], svcHost, svcNS, istioEndpoints(op.Eps), true)
				if pt > pushType {
					pushType = pt
				}
				w.Reports[op.Shard] = op.Eps
				// the index holds the registry's latest report (whatever the push decision was)
				if got, want := storedReport(e.idx, op.Shard), reportSig(op.Eps); got != want {
					r.res.Violate("index-lost-latest-report|after="+st.Name+"|push="+pushTypeName[pt],
						fmt.Sprintf("%s; after step %q registry %d reported [%s] (push decision %s) but the endpoint index holds [%s] for it",
							c, st.Name, op.Shard, want, pushTypeName[pt], got), c)
				}
			case opRemoveShard:
				// Controller.Cleanup -> XDSUpdater.RemoveShard; the multicluster handler follows with a forced full push
				e.idx.DeleteShard(shardKeys[op.Shard])
				w.Reports[op.Shard] = nil
				pushType, forced = model.FullPush, true
			case opDeleteService:
				// DiscoveryServer.SvcUpdate(EventDelete); the registry follows with a full push for the service
				e.idx.DeleteServiceShard(shardKeys[op.Shard], svcHost, svcNS, false)
				w.Reports[op.Shard] = nil
				pushType = model.FullPush
			}
		}
		// on-request views
		judgedOK := map[[2]int]string{} // (proxy, cluster) -> signature of an on-request view judged fine at this step
		for pi, p := range e.proxies {
			got := e.generate(r.t, e.gen, p, &model.PushRequest{Forced: true, Start: lastPush, Reason: model.NewReasonStats(model.ProxyRequest)})
			if si == 0 {
				views[pi] = got
			}
			for ci := range clusterForms {
				o := got[clusterForms[ci].Name]
				nt, ok := r.judgeView(c, e, w, r.ctxOf(c, pi, ci), st.Name, "on-request", pi, o, pushTypeName[pushType])
				if nt {
					nontrivial = true
				}
				if ok && o != nil {
					judgedOK[[2]int{pi, ci}] = o.Sig
				}
			}
		}
		// the push the update asks for
		if pushType != model.NoPush {
			k := kind.Endpoints
			if pushType == model.FullPush {
				k = kind.ServiceEntry
			}
			req := &model.PushRequest{
				ConfigsUpdated: sets.New(model.ConfigKey{Kind: k, Name: svcHost, Namespace: svcNS}),
				Reason:         model.NewReasonStats(model.EndpointUpdate),
				Forced:         forced,
			}
			if forced {
				e.cache.ClearAll()
			} else {
				e.cache.Clear(req.ConfigsUpdated)
			}
			req.Start = time.Now()
			lastPush = req.Start
			for pi, p := range e.proxies {
				for name, o := range e.generate(r.t, e.gen, p, req) {
					views[pi][name] = o
				}
			}
		}
		for pi := range e.proxies {
			for ci := range clusterForms {
				o := views[pi][clusterForms[ci].Name]
				if sig, ok := judgedOK[[2]int{pi, ci}]; ok && o != nil && o.Sig == sig {
					// the same assignment was judged fine a moment ago for the same world and view
					r.identical++
					if r.sig != nil {
						fmt.Fprintf(r.sig, "%s|subscriber|%d|%d|%s\n", st.Name, pi, ci, o.Sig)
					}
					continue
				}
				r.judgeView(c, e, w, r.ctxOf(c, pi, ci), st.Name, "subscriber", pi, o, pushTypeName[pushType])
			}
		}
	}
	return nontrivial
}

// reportSig / storedReport: a registry's report and what the endpoint index holds for that registry,
// as sorted "address:port/health" lists.
func reportSig(eps []epSpec) string {
	var out []string
	for _, e := range eps {
		ie := e.istioEndpoint()
		out = append(out, fmt.Sprintf("%s:%d/%d", ie.FirstAddressOrNil(), ie.EndpointPort, ie.HealthStatus))
	}
	sort.Strings(out)
	return strings.Join(out, " ")
}

func storedReport(idx *model.EndpointIndex, shard int) string {
	es, ok := idx.ShardsForService(svcHost, svcNS)
	if !ok {
		return ""
	}
	es.RLock()
	defer es.RUnlock()
	var out []string
	for _, ie := range es.Shards[shardKeys[shard]] {
		out = append(out, fmt.Sprintf("%s:%d/%d", ie.FirstAddressOrNil(), ie.EndpointPort, ie.HealthStatus))
	}
	sort.Strings(out)
	return strings.Join(out, " ")
}

var pushTypeName = map[model.PushType]string{model.NoPush: "NoPush", model.IncrementalPush: "IncrementalPush", model.FullPush: "FullPush"}

func (r *runner) ctxOf(c caseT, pi, ci int) viewCtx {
	return viewCtx{DR: drForms[c.DR], Fl: flavours[c.Fl], Ft: featForms[c.Ft], Px: proxyForms[pi], Cl: clusterForms[ci]}
}

// staleKey: a stale view is named by the view kind, the step after which it is stale, whether
// membership or grouping differs, and the push decision - not by the endpoint that shows it (the
// description carries that).
func staleKey(viewKind, step, inner, push string) string {
	class := inner
	if i := strings.IndexAny(inner, ":|"); i >= 0 {
		class = inner[:i]
	}
	k := "stale-" + viewKind + "-view|after=" + step + "|" + class
	if viewKind == "subscriber" {
		k += "|push=" + push
	}
	return k
}

func (r *runner) judgeView(c caseT, e *envT, w world, vc viewCtx, step, viewKind string, pi int, o *obsCLA, pushLabel string) (nontrivial, ok bool) {
	r.res.Evaluations++
	if r.sig != nil {
		fmt.Fprintf(r.sig, "%s|%s|%d|%s|%s\n", step, viewKind, pi, vc.Cl.Subset, o)
	}
	fs := check(o, w, vc, r.alpha)
	req, excluded := expectedMembers(w, vc)
	if viewKind == "on-request" {
		n, locs, maxP := 0, 0, uint32(0)
		if o != nil {
			for _, l := range o.Locs {
				if len(l.Eps) > 0 {
					locs++
					n += len(l.Eps)
					if l.Priority > maxP {
						maxP = l.Priority
					}
				}
			}
		}
		r.res.Outcome(fmt.Sprintf("subset=%q %s: listed=%d localities=%d max-priority=%d", vc.Cl.Subset, vc.Px.Name, n, locs, maxP))
		nontrivial = len(req) > 0 && excluded > 0
	}
	if r.verbose {
		r.t.Logf("step %-16s %-10s proxy=%s cluster=%s push=%s\n   reported %s\n   required %v (excluded %d)\n   observed %s\n   findings %d", step, viewKind, vc.Px.Name, vc.Cl.Name,
			pushLabel, w, req, excluded, o, len(fs))
	}
	if len(fs) == 0 {
		return nontrivial, true
	}
	// classify: generation or staleness
	cold := e.generate(r.t, e.fresh, e.proxies[pi], &model.PushRequest{Forced: true, Reason: model.NewReasonStats(model.ProxyRequest)})[vc.Cl.Name]
	coldKeys := map[string]bool{}
	for _, f := range check(cold, w, vc, r.alpha) {
		coldKeys[f.Key] = true
	}
	for _, f := range fs {
		key := f.Key
		if !coldKeys[key] {
			key = staleKey(viewKind, step, f.Key, pushLabel)
		}
		desc := fmt.Sprintf("%s; DestinationRule %s; %s view of proxy %s, cluster %s, after step %q (push decision %s); registries' latest reports: %s; reference requires %v; listed: %s; a cold generation lists: %s :: %s",
			c, vc.DR.Name, viewKind, vc.Px.Name, vc.Cl.Name, step, pushLabel, w, req, o, cold, f.Desc)
		r.res.Violate(key, desc, c)
	}
	return nontrivial, false
}

// ---- enumeration

// subsets of [0,n) of size 1..k in a fixed order (by size, then lexicographic).
func subsetsUpTo(n, k int) [][]int {
	var out [][]int
	var rec func(start int, cur []int, size int)
	rec = func(start int, cur []int, size int) {
		if len(cur) == size {
			out = append(out, append([]int(nil), cur...))
			return
		}
		for i := start; i < n; i++ {
			rec(i+1, append(cur, i), size)
		}
	}
	for size := 1; size <= k; size++ {
		rec(0, nil, size)
	}
	return out
}

func TestC13b(t *testing.T) {
	env := engine.GetEnv()
	res := engine.NewResult("C13", "b-membership")
	res.Rule = "case = DestinationRule form {none, subsets, +outlierDetection, +localityLbSetting.failover r1->r2, +distribute from r1/z1/* to {r1/z1/*:70, r2/z1/*:30}, outlierDetection.minHealthPercent=50} x service {plain, persistent-session cookie label, persistent-session header label, cluster-local, node-local (internalTrafficPolicy Local)} x unhealthy-endpoint switches {PILOT_AUTO_SEND_UNHEALTHY_ENDPOINTS on/off x PILOT_SEND_UNHEALTHY_ENDPOINTS on/off} x history; histories: (I) every subset of size 1..3 (thorough 1..4) of the 21-endpoint alphabet (against a healthy v1 http r1/z1 registry-A network-n1 IP base: UnHealthy, Draining, Terminating, version v2, no version, other service port, locality r1/z2, r2/z1, none, weight 3, network with gateways, network without gateway, discoverable from same cluster only, hostname address, draining label, other node; four registry-B endpoints, node names node-a/node-b exist in both clusters) reported by registries A (cluster c1) and B (cluster c2), then the first element's registry re-reports the successors of its endpoints, reports the empty list, reports the original list again, and finally the other registry's cluster is removed (or, when it reported nothing, the service is deleted in the first registry); (II) every ordered pair (a,b) of alphabet elements: a's registry reports {a}, then the same address with b's attributes, with and without an unchanged companion endpoint; (III) DestinationRule histories on a fixed set of reports (plain service, default switches, proxies in namespace client): four rules for the host at the documented precedence levels (client namespace exact host > client namespace wildcard host > service namespace exported > root namespace exported), each with its own selector for subset v1 and its own traffic policy, each in a state of {absent, present, other selector, other host, exportTo own namespace (quick: only for the service- and root-namespace rules)}: every initial state vector x every move of one rule to another state (thorough: every sequence of two moves, all states for all rules), each move pushed as istiod pushes a DestinationRule event (push context updated from the previous one, cache entries of the key dropped, SetSidecarScope keeping the previous scope, partial non-forced Generate; clusters not sent keep what the subscriber had), judged for the rule the reference says is in force; after every step and for each of 3 proxies (sidecar c1/n1/r1z1 on node-a, sidecar c2/n2/r2z1 on node-a, router c1/n1/r1z2 on node-b) x 2 clusters (outbound|80||svc, outbound|80|v1|svc) the real EdsGenerator output is judged twice: as a proxy subscribing at that moment (request-driven generation through the shared XDS cache) and as a proxy that stayed subscribed and received what the update's push decision sends; one evaluation = one judged ClusterLoadAssignment; non-trivial = a case in which, for some view, the reference both requires and excludes reported endpoints"
	defer res.Write(t, env)
	defer featForms[0].apply()

	alpha := alphabet()
	r := &runner{t: t, res: res, alpha: alpha, envs: map[[2]int]*envT{}}

	if env.Replay != "" {
		var c caseT
		if err := engine.ReadReplay(env.Replay, &c); err != nil {
			t.Fatal(err)
		}
		r.verbose = true
		t.Logf("case %s", c)
		r.runCase(c)
		return
	}

	maxSize := 3
	if env.Thorough() {
		maxSize = 4
	}
	sets := subsetsUpTo(len(alpha), maxSize)
	type pairT struct {
		from, to int
		comp     bool
	}
	var pairs []pairT
	for a := range alpha {
		for b := range alpha {
			if a != b {
				pairs = append(pairs, pairT{a, b, false}, pairT{a, b, true})
			}
		}
	}
	res.Bounds["alphabet"] = len(alpha)
	res.Bounds["max_set_size"] = maxSize
	res.Bounds["endpoint_sets"] = len(sets)
	res.Bounds["transition_pairs"] = len(pairs)
	res.Bounds["grow_histories"] = len(alpha)
	res.Bounds["dims(dr,service,unhealthy_settings,history)"] = []int{len(drForms), len(flavours), len(featForms), len(sets) + len(pairs) + len(alpha)}
	res.Bounds["views_per_step(proxies x clusters x {on-request,subscriber})"] = len(proxyForms) * len(clusterForms) * 2
	total := int64(len(drForms)) * int64(len(flavours)) * int64(len(featForms)) * int64(len(sets)+len(pairs)+len(alpha))
	res.Bounds["cases_total"] = total

	if !env.Thorough() {
		res.Bounds["quick_restriction"] = "non-default unhealthy-endpoint switch settings only for histories that report an UnHealthy endpoint at some step; persistent-session services only for histories that report a draining endpoint at some step; node-local service only for histories that report an endpoint on node-b or from registry B at some step; everything else in full"
	}
	var cases, inTier, seq int64
	engine.Product([]int{len(drForms), len(flavours), len(featForms), len(sets) + len(pairs) + len(alpha)}, func(ord int64, idx []int) bool {
		c := caseT{DR: idx[0], Fl: idx[1], Ft: idx[2]}
		if h := idx[3]; h < len(sets) {
			c.Kind, c.Set = "set", sets[h]
		} else if h >= len(sets)+len(pairs) {
			c.Kind, c.To = "grow", h-len(sets)-len(pairs)
		} else {
			p := pairs[h-len(sets)]
			c.Kind, c.From, c.To, c.Companion = "pair", p.from, p.to, p.comp
		}
		if !env.Thorough() && !inQuick(c, alpha) {
			return true
		}
		inTier++
		seq++
		if !env.Mine(seq) {
			return true
		}
		if cases%64 == 0 && env.Expired() {
			res.Cap(fmt.Sprintf("deadline at case %d/%d", ord, total))
			return false
		}
		cases++
		check2 := cases%499 == 1
		if check2 {
			r.sig = &strings.Builder{}
		}
		if nt := r.runCase(c); nt {
			res.NontrivialCase(fmt.Sprint(ord))
		}
		if check2 {
			// determinism: the same case again must give the same observations
			first := r.sig.String()
			r.sig = &strings.Builder{}
			ev, id := res.Evaluations, r.identical
			r.runCase(c)
			res.Evaluations, r.identical = ev, id
			second := r.sig.String()
			r.sig = nil
			if first != second {
				res.Infra = "nondeterministic: second run of " + c.String() + " observed different assignments"
				return false
			}
			b, _ := json.Marshal(c)
			res.Sample(map[string]any{"case": c.String(), "replay": json.RawMessage(b)})
		}
		return true
	})
	// (III) DestinationRule histories
	depth, allStates := 1, false
	if env.Thorough() {
		depth, allStates = 2, true
	}
	var ruleCases int64
	ruleHistories(depth, allStates, func(init []int, ops [][2]int) bool {
		ruleCases++
		inTier++
		seq++
		if !env.Mine(seq) {
			return true
		}
		if cases%64 == 0 && env.Expired() {
			res.Cap(fmt.Sprintf("deadline at DestinationRule history %d", ruleCases))
			return false
		}
		cases++
		c := caseT{Kind: "rules", Rules: init, RuleOps: ops}
		check2 := cases%499 == 1
		if check2 {
			r.sig = &strings.Builder{}
		}
		if r.runCase(c) {
			res.NontrivialCase(fmt.Sprintf("rules-%d", ruleCases))
		}
		if check2 {
			first := r.sig.String()
			r.sig = &strings.Builder{}
			ev, id := res.Evaluations, r.identical
			r.runCase(c)
			res.Evaluations, r.identical = ev, id
			second := r.sig.String()
			r.sig = nil
			if first != second {
				res.Infra = "nondeterministic: second run of " + c.String() + " observed different assignments"
				return false
			}
			b, _ := json.Marshal(c)
			res.Sample(map[string]any{"case": c.String(), "replay": json.RawMessage(b)})
		}
		return true
	})
	res.Bounds["destination_rule_histories(4 rules; initial states x moves)"] = ruleCases
	res.Bounds["destination_rule_history_depth"] = depth
	res.Bounds["cases_in_tier"] = inTier
	res.Count("cases", cases)
	res.Count("subscriber_views_identical_to_the_on_request_view_just_judged", r.identical)
	var envs []string
	for k := range r.envs {
		envs = append(envs, fmt.Sprint(k))
	}
	sort.Strings(envs)
	res.Count("environments_built", int64(len(envs)))
}
