// C13 part b, DestinationRule histories: the subset labels and the traffic policy that select,
// weight and prioritise the endpoints of a cluster come from the DestinationRule in force for the
// proxy. Up to four rules for the service's host live at the documented precedence levels (proxy
// namespace exact host > proxy namespace wildcard host > service namespace, exported > root
// namespace, exported), each with its own selector for subset v1 and its own traffic policy. A
// history puts the rules into an initial state and then moves one rule at a time to another state
// (created, deleted, selector changed, host changed, exportTo changed); every move is followed by
// what istiod does for a DestinationRule event: a push context updated from the previous one for
// ConfigsUpdated = {that rule}, the XDS cache entries of that key dropped, the proxy's sidecar scope
// recomputed (pushConnection -> computeProxyState -> SetSidecarScope, which keeps the previous
// scope), and a partial (not forced) EdsGenerator.Generate for the watched clusters. The
// subscriber's view (clusters not sent keep what they had) and an on-request view are judged by the
// same reference as everywhere else, for the rule the reference says is in force.
package c13b

import (
	"fmt"
	"strings"
	"testing"
	"time"

	"google.golang.org/protobuf/types/known/durationpb"
	"google.golang.org/protobuf/types/known/wrapperspb"

	networking "istio.io/api/networking/v1alpha3"
	"istio.io/istio/pilot/pkg/model"
	"istio.io/istio/pilot/pkg/networking/core"
	"istio.io/istio/pilot/pkg/xds"
	"istio.io/istio/pkg/config"
	"istio.io/istio/pkg/config/schema/gvk"
	"istio.io/istio/pkg/config/schema/kind"
	"istio.io/istio/pkg/util/sets"
)

const (
	clientNS = "client"       // namespace of the proxies in rule histories
	rootNS   = "istio-system" // mesh root namespace (default mesh config)
)

type ruleLevel struct {
	Name      string
	Namespace string
	Host      string // host in force for the service
	OtherHost string // a host that does not cover the service
	Selector  map[string]string
	Outlier   bool
	Failover  bool
	MinHealth int32
}

// in order of precedence for a proxy of namespace client
var ruleLevels = []ruleLevel{
	{Name: "client-ns-exact-host", Namespace: clientNS, Host: svcHost, OtherHost: "other.ns1.svc.cluster.local",
		Selector: map[string]string{"version": "v1"}, Outlier: true, Failover: true},
	{Name: "client-ns-wildcard-host", Namespace: clientNS, Host: "*.ns1.svc.cluster.local", OtherHost: "*.ns9.svc.cluster.local",
		Selector: map[string]string{"version": "v2"}},
	{Name: "service-ns", Namespace: svcNS, Host: svcHost, OtherHost: "other.ns1.svc.cluster.local",
		Selector: map[string]string{"version": "v1"}, Outlier: true, MinHealth: 50},
	{Name: "root-ns", Namespace: rootNS, Host: svcHost, OtherHost: "other.ns1.svc.cluster.local",
		Selector: map[string]string{"app": "svc"}},
}

// states of one rule
const (
	rsAbsent = iota
	rsPresent
	rsAltSelector // subset v1 selects version=v9 (nothing)
	rsOtherHost   // the rule exists but its host no longer covers the service
	rsPrivate     // exportTo ["."]: visible in its own namespace only
	rsCount
)

var ruleStateName = []string{"absent", "present", "alt-selector", "other-host", "exportTo-own-namespace"}

var altSelector = map[string]string{"version": "v9"}

func (l ruleLevel) config(state int) config.Config {
	dr := &networking.DestinationRule{Host: l.Host}
	sel := l.Selector
	switch state {
	case rsAltSelector:
		sel = altSelector
	case rsOtherHost:
		dr.Host = l.OtherHost
	case rsPrivate:
		dr.ExportTo = []string{"."}
	}
	dr.Subsets = []*networking.Subset{{Name: "v1", Labels: sel}}
	if l.Outlier {
		dr.TrafficPolicy = &networking.TrafficPolicy{OutlierDetection: &networking.OutlierDetection{
			Consecutive_5XxErrors: wrapperspb.UInt32(5), Interval: durationpb.New(10e9), BaseEjectionTime: durationpb.New(30e9),
			MinHealthPercent: l.MinHealth,
		}}
	}
	if l.Failover {
		dr.TrafficPolicy.LoadBalancer = &networking.LoadBalancerSettings{LocalityLbSetting: &networking.LocalityLoadBalancerSetting{
			Failover: []*networking.LocalityLoadBalancerSetting_Failover{{From: failoverFrom, To: failoverTo}},
		}}
	}
	return config.Config{Meta: config.Meta{GroupVersionKind: gvk.DestinationRule, Name: "dr-" + l.Name, Namespace: l.Namespace}, Spec: dr}
}

// ruleInForce is the reference's answer for a proxy of namespace client (documented lookup order:
// the proxy's namespace - most specific host first -, then the service's namespace, then the root
// namespace; rules of other namespaces count only when exported to the proxy's namespace).
func ruleInForce(states []int) drSpec {
	for i, l := range ruleLevels {
		s := states[i]
		if s == rsAbsent || s == rsOtherHost {
			continue
		}
		if s == rsPrivate && l.Namespace != clientNS {
			continue
		}
		sel := l.Selector
		if s == rsAltSelector {
			sel = altSelector
		}
		return drSpec{
			Name: "in-force=" + l.Name + "(" + ruleStateName[s] + ")", Outlier: l.Outlier, Failover: l.Failover, MinHealth: l.MinHealth,
			Subsets: map[string]map[string]string{"v1": sel},
		}
	}
	return drSpec{Name: "in-force=none", None: true, Subsets: map[string]map[string]string{}}
}

// ---- environment

type ruleEnv struct {
	*envT
	cur []int // states of the rules in the config store
}

// the registries' reports are fixed in rule histories
func ruleWorld(alpha []epSpec) world {
	var w world
	for _, e := range alpha {
		switch e.Name {
		case "base", "unhealthy", "version-v2", "no-version", "zone-r1z2", "region-r2z1", "B-flat", "B-remote":
			w.Reports[e.Shard] = append(w.Reports[e.Shard], e)
		}
	}
	return w
}

func newRuleEnv(t *testing.T, alpha []epSpec) *ruleEnv {
	fl := flavours[0]
	cg := core.NewConfigGenTest(t, core.TestOptions{
		Services:   []*model.Service{fl.service()},
		Gateways:   networkGateways(),
		MeshConfig: fl.meshConfig(),
	})
	env := cg.Env()
	e := &envT{cg: cg, push: cg.PushContext(), idx: env.EndpointIndex, cache: env.Cache}
	if _, disabled := env.Cache.(model.DisabledCache); disabled {
		t.Fatalf("the environment has no XDS cache")
	}
	if env.Mesh().RootNamespace != rootNS {
		t.Fatalf("root namespace is %q", env.Mesh().RootNamespace)
	}
	e.gen = &xds.EdsGenerator{Cache: env.Cache, EndpointIndex: env.EndpointIndex}
	e.fresh = &xds.EdsGenerator{Cache: model.DisabledCache{}, EndpointIndex: env.EndpointIndex}
	featForms[0].apply()
	w := ruleWorld(alpha)
	for sh, eps := range w.Reports {
		e.idx.UpdateServiceEndpoints(shardKeys[sh], svcHost, svcNS, istioEndpoints(eps), true)
	}
	return &ruleEnv{envT: e, cur: make([]int, len(ruleLevels))}
}

// sync brings the config store to the given rule states.
func (re *ruleEnv) sync(t *testing.T, states []int) {
	st := re.cg.Store()
	for i, l := range ruleLevels {
		if re.cur[i] == states[i] {
			continue
		}
		if re.cur[i] != rsAbsent {
			if err := st.Delete(gvk.DestinationRule, "dr-"+l.Name, l.Namespace, nil); err != nil {
				t.Fatalf("delete %s: %v", l.Name, err)
			}
		}
		if states[i] != rsAbsent {
			if _, err := st.Create(l.config(states[i])); err != nil {
				t.Fatalf("create %s: %v", l.Name, err)
			}
		}
		re.cur[i] = states[i]
	}
	n := 0
	for _, s := range states {
		if s != rsAbsent {
			n++
		}
	}
	if got := len(st.List(gvk.DestinationRule, "")); got != n {
		t.Fatalf("store holds %d DestinationRules, want %d", got, n)
	}
}

func (p proxySpec) clientProxy(i int) *model.Proxy {
	px := p.proxy(i)
	px.ID = p.Name + "." + clientNS
	px.ConfigNamespace = clientNS
	px.Metadata.Namespace = clientNS
	return px
}

func ruleStates(states []int) string {
	var s []string
	for i, l := range ruleLevels {
		s = append(s, l.Name+"="+ruleStateName[states[i]])
	}
	return strings.Join(s, " ")
}

func opKindName(from, to int) string {
	switch {
	case to == rsAbsent:
		return "rule-deleted"
	case from == rsAbsent:
		return "rule-created"
	}
	return "rule-updated"
}

// runRuleCase plays one DestinationRule history.
func (r *runner) runRuleCase(c caseT) (nontrivial bool) {
	if r.ruleEnv == nil {
		r.ruleEnv = newRuleEnv(r.t, r.alpha)
	}
	re := r.ruleEnv
	e := re.envT
	featForms[0].apply()
	w := ruleWorld(r.alpha)
	states := append([]int(nil), c.Rules...)

	// initial state: a push context built from scratch, proxies connect and subscribe
	re.sync(r.t, states)
	push := model.NewPushContext()
	push.InitContext(e.cg.Env(), nil, nil)
	e.cg.Env().SetPushContext(push)
	e.push = push
	e.cache.ClearAll()
	e.proxies = e.proxies[:0]
	for i, p := range proxyForms {
		e.proxies = append(e.proxies, e.cg.SetupProxy(p.clientProxy(i)))
	}
	lastPush := time.Now()
	views := make([]map[string]*obsCLA, len(e.proxies))
	ctx := func(pi, ci int) viewCtx {
		return viewCtx{DR: ruleInForce(states), Fl: flavours[0], Ft: featForms[0], Px: proxyForms[pi], Cl: clusterForms[ci]}
	}
	for pi, p := range e.proxies {
		views[pi] = e.generate(r.t, e.gen, p, &model.PushRequest{Forced: true, Start: lastPush, Reason: model.NewReasonStats(model.ProxyRequest)})
		for ci := range clusterForms {
			if nt, _ := r.judgeView(c, e, w, ctx(pi, ci), "rules-initial", "on-request", pi, views[pi][clusterForms[ci].Name], "connect"); nt {
				nontrivial = true
			}
		}
	}
	for _, op := range c.RuleOps {
		lvl, to := op[0], op[1]
		from := states[lvl]
		before := ruleInForce(states).Name
		states[lvl] = to
		step := opKindName(from, to)
		if before != ruleInForce(states).Name {
			step += "(rule-in-force-changes)"
		}
		re.sync(r.t, states)
		l := ruleLevels[lvl]
		req := &model.PushRequest{
			ConfigsUpdated: sets.New(model.ConfigKey{Kind: kind.DestinationRule, Name: "dr-" + l.Name, Namespace: l.Namespace}),
			Reason:         model.NewReasonStats(model.ConfigUpdate),
		}
		// DiscoveryServer.Push -> initPushContext
		np := model.NewPushContext()
		np.InitContext(e.cg.Env(), e.push, req)
		e.cache.Clear(req.ConfigsUpdated)
		e.cg.Env().SetPushContext(np)
		e.push = np
		req.Push = np
		req.Start = time.Now()
		// pushConnection per connected proxy
		judgedOK := map[[2]int]string{}
		for pi, p := range e.proxies {
			p.SetSidecarScope(np)
			for name, o := range e.generate(r.t, e.gen, p, req) {
				views[pi][name] = o
			}
		}
		lastPush = req.Start
		// a proxy (re)subscribing now
		for pi, p := range e.proxies {
			got := e.generate(r.t, e.gen, p, &model.PushRequest{Forced: true, Push: np, Start: lastPush, Reason: model.NewReasonStats(model.ProxyRequest)})
			for ci := range clusterForms {
				o := got[clusterForms[ci].Name]
				if nt, ok := r.judgeView(c, e, w, ctx(pi, ci), step, "on-request", pi, o, "PartialPush(DestinationRule)"); ok && o != nil {
					judgedOK[[2]int{pi, ci}] = o.Sig
					if nt {
						nontrivial = true
					}
				}
			}
		}
		for pi := range e.proxies {
			for ci := range clusterForms {
				o := views[pi][clusterForms[ci].Name]
				if sig, ok := judgedOK[[2]int{pi, ci}]; ok && o != nil && o.Sig == sig {
					r.identical++
					if r.sig != nil {
						fmt.Fprintf(r.sig, "%s|subscriber|%d|%d|%s\n", step, pi, ci, o.Sig)
					}
					continue
				}
				r.judgeView(c, e, w, ctx(pi, ci), step, "subscriber", pi, o, "PartialPush(DestinationRule)")
			}
		}
	}
	return nontrivial
}

// ruleHistories enumerates initial state vectors x sequences of depth moves. allStates=false keeps
// the exportTo state to the two levels where it changes visibility (service and root namespace).
func ruleHistories(depth int, allStates bool, f func(init []int, ops [][2]int) bool) {
	statesOf := func(lvl int) []int {
		out := []int{rsAbsent, rsPresent, rsAltSelector, rsOtherHost}
		if allStates || ruleLevels[lvl].Namespace != clientNS {
			out = append(out, rsPrivate)
		}
		return out
	}
	n := len(ruleLevels)
	init := make([]int, n)
	var recInit func(i int) bool
	var recOps func(cur []int, ops [][2]int) bool
	recOps = func(cur []int, ops [][2]int) bool {
		if len(ops) == depth {
			return f(append([]int(nil), init...), append([][2]int(nil), ops...))
		}
		for lvl := 0; lvl < n; lvl++ {
			for _, to := range statesOf(lvl) {
				if to == cur[lvl] {
					continue
				}
				old := cur[lvl]
				cur[lvl] = to
				ok := recOps(cur, append(ops, [2]int{lvl, to}))
				cur[lvl] = old
				if !ok {
					return false
				}
			}
		}
		return true
	}
	recInit = func(i int) bool {
		if i == n {
			return recOps(append([]int(nil), init...), nil)
		}
		for _, s := range statesOf(i) {
			init[i] = s
			if !recInit(i + 1) {
				return false
			}
		}
		return true
	}
	recInit(0)
}
