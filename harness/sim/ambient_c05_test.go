package sim

// C05, ambient part: a ztunnel's stream is cut after the k-th message the control plane sent, for every
// k of a one-operation exchange; while it is away the operation is applied or not (when it was still
// pending); it reconnects - to the same control plane or to a restarted one - presenting what it holds in
// initial_resource_versions, as ztunnel does. Afterwards it must hold what a new connection receives:
// resources removed while it was away have to be removed explicitly, changed ones re-sent.

import (
	"fmt"
	"strings"
	"testing"
	"testing/synctest"

	"istio.io/istio/pilot/pkg/features"
	"istio.io/istio/zz_verif/engine"
)

type zcutCase struct {
	Base    string `json:"base"`
	Ops     []aop  `json:"ops"`
	Client  int    `json:"client"` // index into ztSpecs
	Cut     int    `json:"cut_after_sends"`
	Away    int    `json:"away_mask"`
	Restart bool   `json:"restart"`
	// Variant 1: retained resources are presented with empty versions (a ztunnel that keeps no versions)
	Variant int `json:"variant"`
}

func (c zcutCase) String() string {
	var o []string
	for _, x := range c.Ops {
		o = append(o, x.String())
	}
	return fmt.Sprintf("%s [%s] client=%s cut=%d away=%b restart=%v variant=%d", c.Base, strings.Join(o, " "), ztSpecs[c.Client].Name, c.Cut, c.Away, c.Restart, c.Variant)
}

func runZCut(t *testing.T, cc zcutCase) (cr cutResult, initSends int) {
	spec := ztSpecs[cc.Client]
	engine.GCPoint(1)
	synctest.Test(t, func(t *testing.T) {
		st := abases[cc.Base]()
		srv := newAmbientServer(t, st)
		c1 := newZClient(spec)
		c1.connect(srv.simServer, false, cc.Cut)
		srv.aquiesce([]*zclient{c1}, nil)
		initSends = c1.ds.sends
		applied := 0
		for _, o := range cc.Ops {
			if !c1.alive() {
				break
			}
			next := st.after(o)
			srv.applyA(st, next)
			st = next
			applied++
			srv.aquiesce([]*zclient{c1}, nil)
		}
		cr.totalSends = c1.ds.sends
		if cc.Cut < 0 || c1.alive() {
			// the uncut probe, or the exchange ended before the cut point
			c1.disconnect()
			synctest.Wait()
			return
		}
		cr.cutHit = true
		synctest.Wait()
		rest := cc.Ops[applied:]
		cr.pendingOps = len(rest)
		for i, o := range rest {
			if cc.Away&(1<<i) != 0 {
				next := st.after(o)
				srv.applyA(st, next)
				st = next
			}
		}
		srv.aquiesce(nil, nil)
		target := srv
		if cc.Restart {
			target = newAmbientServer(t, st)
		}
		c2 := newZClient(spec)
		c2.emptyVersions = cc.Variant == 1
		c2.retainFrom(c1)
		for _, ty := range ztTypes {
			cr.retained += len(c2.held[ty])
		}
		c2.connect(target.simServer, true, -1)
		target.aquiesce([]*zclient{c2}, nil)
		if !c2.alive() {
			cr.findings = append(cr.findings, finding{"resync:stream-closed:" + spec.Name, fmt.Sprintf("the control plane closed the reconnected stream: %v", <-c2.done)})
		}
		want := target.zfetch(spec).snapshot()
		if spec.OnDemand {
			all := target.zfetch(ztSpecs[0]).snapshot()
			cr.findings = append(cr.findings, onDemandFindings("resync-ondemand", c2.snapshot(), want, all, "reconnecting", "a new on-demand connection")...)
		} else if d := zdiffSnap(c2.snapshot(), want); d != "" {
			for _, cl := range zdiffClasses(c2.snapshot(), want) {
				cr.findings = append(cr.findings, finding{"resync:ztunnel:" + cl,
					fmt.Sprintf("after reconnecting the ztunnel holds something else than a new connection receives (first=reconnected, second=new): %s", d)})
			}
		}
		for _, ty := range ztTypes {
			cr.removedFor += len(c2.removed[ty])
		}
		if os_verbose() {
			fmt.Printf("--- first stream\n%s\n--- second stream\n%s\n", strings.Join(c1.log, "\n"), strings.Join(c2.log, "\n"))
		}
		c2.disconnect()
		synctest.Wait()
	})
	cr.findings = dedupFindings(cr.findings)
	return cr, initSends
}

func TestC05Ambient(t *testing.T) {
	env := engine.GetEnv()
	res := engine.NewResult("C05", "ambient-reconnect")
	res.Rule = "case = ambient base x one operation x ztunnel {wildcard, on demand} x cut after the k-th server message (every k of the exchange: initial synchronisation of Address and Authorization, on-demand answers, the pushes of the operation) x operation applied while away or not (when still pending) x {same control plane, restarted control plane} x {retained versions presented, empty versions}; non-trivial = case in which the client retained resources and something changed while it was away or the control plane was restarted"
	defer res.Write(t, env)
	quietLogs()
	if !features.EnableAmbient {
		res.Infra = "PILOT_ENABLE_AMBIENT is not set in the worker's environment"
		return
	}
	if env.Replay != "" {
		var cc zcutCase
		if err := engine.ReadReplay(env.Replay, &cc); err != nil {
			t.Fatal(err)
		}
		for i := range cc.Ops {
			cc.Ops[i].resolve()
		}
		cr, _ := runZCut(t, cc)
		for _, f := range cr.findings {
			res.Violate(f.key, f.desc, cc)
		}
		return
	}
	baseList := []string{"waypointed"}
	core := ambientCore
	variants := 1
	if env.Thorough() {
		baseList = abaseNames()
		core = nil
		variants = 2
	}
	res.Bounds["bases"] = fmt.Sprint(baseList)
	res.Bounds["history_depth"] = 1
	res.Bounds["alphabet"] = map[bool]string{true: "full", false: "core"}[core == nil]
	res.Bounds["clients"] = "ztunnel-wildcard, ztunnel-ondemand"
	res.Bounds["version_variants"] = variants
	var ord int64
	cuts := 0
	for _, b := range baseList {
		for _, o := range aEnabledOps(abases[b](), core) {
			for ci := range ztSpecs {
				ord++
				if !env.Mine(ord) {
					continue
				}
				if env.Expired() {
					res.Cap("deadline")
					goto done
				}
				probe, initSends := runZCut(t, zcutCase{Base: b, Ops: []aop{o}, Client: ci, Cut: -1})
				for k := 0; k <= probe.totalSends; k++ {
					for _, restart := range []bool{false, true} {
						for av := 0; av < 2*variants; av++ {
							away, variant := av%2, av/2
							if !env.Thorough() && ci == 0 {
								// quick: the wildcard client alternates the version variant with the cut point
								variant = k % 2
							}
							if away == 1 && k > initSends {
								continue // the operation was applied before the cut: nothing is pending
							}
							cc := zcutCase{Base: b, Ops: []aop{o}, Client: ci, Cut: k, Away: away, Restart: restart, Variant: variant}
							cr, _ := runZCut(t, cc)
							if !cr.cutHit || away >= 1<<cr.pendingOps {
								continue
							}
							cuts++
							res.Evaluations++
							res.Traces++
							res.Transitions += int64(k + 1)
							if cr.retained > 0 && (away != 0 || restart) {
								res.NontrivialCase(cc.String())
							}
							res.Outcome(fmt.Sprintf("findings=%d retained>0=%v removedOnResync>0=%v", len(cr.findings), cr.retained > 0, cr.removedFor > 0))
							for _, f := range cr.findings {
								res.Violate(f.key, f.desc+" [case "+cc.String()+"]", cc)
							}
							if cuts%499 == 0 {
								res.Sample(cc.String())
							}
						}
					}
				}
			}
		}
	}
done:
	res.States = int64(cuts)
	res.Count("cut_points", int64(cuts))
	res.Sample("waypointed [delete(pod-a1#0)] client=ztunnel-wildcard cut=1 away=1 restart=false variant=0")
}
