// Reference xDS client R1 (DESIGN.md section 3) speaking to the real DiscoveryServer through
// in-memory streams; driven entirely by the harness root goroutine (no client goroutine), so the
// exchange is deterministic.
package sim

import (
	"context"
	"fmt"
	"net"
	"sort"
	"strings"

	cluster "github.com/envoyproxy/go-control-plane/envoy/config/cluster/v3"
	core "github.com/envoyproxy/go-control-plane/envoy/config/core/v3"
	listener "github.com/envoyproxy/go-control-plane/envoy/config/listener/v3"
	hcm "github.com/envoyproxy/go-control-plane/envoy/extensions/filters/network/http_connection_manager/v3"
	discovery "github.com/envoyproxy/go-control-plane/envoy/service/discovery/v3"
	"google.golang.org/genproto/googleapis/rpc/status"
	"google.golang.org/grpc"
	"google.golang.org/grpc/peer"
	"google.golang.org/protobuf/proto"
	"google.golang.org/protobuf/types/known/structpb"

	"istio.io/istio/pilot/pkg/model"
	v3 "istio.io/istio/pilot/pkg/xds/v3"
	dnsProto "istio.io/istio/pkg/dns/proto"
)

// ---- in-memory streams

type memStream struct {
	grpc.ServerStream
	ctx      context.Context
	cancel   context.CancelFunc
	toServer chan *discovery.DiscoveryRequest
	inbox    []*discovery.DiscoveryResponse
	sends    int
	// cutAfter >= 0: the stream breaks itself right after the server's cutAfter-th Send
	cutAfter int
}

func newPeerCtx() (context.Context, context.CancelFunc) {
	ctx := peer.NewContext(context.Background(), &peer.Peer{Addr: &net.TCPAddr{IP: net.IPv4(10, 9, 9, 9), Port: 1234}})
	return context.WithCancel(ctx)
}

func (s *memStream) Context() context.Context { return s.ctx }
func (s *memStream) Send(r *discovery.DiscoveryResponse) error {
	if s.cutAfter == 0 {
		s.cancel() // the stream breaks before the first response gets through
	}
	if s.ctx.Err() != nil {
		return s.ctx.Err()
	}
	s.inbox = append(s.inbox, r)
	s.sends++
	if s.cutAfter > 0 && s.sends >= s.cutAfter {
		s.cancel()
	}
	return nil
}

func (s *memStream) Recv() (*discovery.DiscoveryRequest, error) {
	select {
	case r := <-s.toServer:
		return r, nil
	case <-s.ctx.Done():
		return nil, s.ctx.Err()
	}
}

type memDeltaStream struct {
	grpc.ServerStream
	ctx      context.Context
	cancel   context.CancelFunc
	toServer chan *discovery.DeltaDiscoveryRequest
	inbox    []*discovery.DeltaDiscoveryResponse
	sends    int
	cutAfter int
}

func (s *memDeltaStream) Context() context.Context { return s.ctx }
func (s *memDeltaStream) Send(r *discovery.DeltaDiscoveryResponse) error {
	if s.cutAfter == 0 {
		s.cancel() // the stream breaks before the first response gets through
	}
	if s.ctx.Err() != nil {
		return s.ctx.Err()
	}
	s.inbox = append(s.inbox, r)
	s.sends++
	if s.cutAfter > 0 && s.sends >= s.cutAfter {
		s.cancel()
	}
	return nil
}

func (s *memDeltaStream) Recv() (*discovery.DeltaDiscoveryRequest, error) {
	select {
	case r := <-s.toServer:
		return r, nil
	case <-s.ctx.Done():
		return nil, s.ctx.Err()
	}
}

// ---- proxies

type proxySpec struct {
	Name   string
	ID     string
	Labels map[string]string
	NS     string
	IP     string
	Type   string // sidecar | router
}

var proxies = []proxySpec{
	{Name: "sidecar-ns1", ID: "sidecar~10.1.0.1~app1.ns1~ns1.svc.cluster.local", Labels: map[string]string{"app": "app1"}, NS: "ns1", IP: "10.1.0.1", Type: "sidecar"},
	{Name: "sidecar-ns2", ID: "sidecar~10.2.0.1~app2.ns2~ns2.svc.cluster.local", Labels: map[string]string{"app": "app2"}, NS: "ns2", IP: "10.2.0.1", Type: "sidecar"},
	{Name: "router", ID: "router~10.3.0.1~gw.istio-system~istio-system.svc.cluster.local", Labels: map[string]string{"istio": "ingressgateway"}, NS: "istio-system", IP: "10.3.0.1", Type: "router"},
}

func (p proxySpec) node() *core.Node {
	labels := map[string]any{}
	for k, v := range p.Labels {
		labels[k] = v
	}
	meta, _ := structpb.NewStruct(map[string]any{
		"NAMESPACE":     p.NS,
		"LABELS":        labels,
		"ISTIO_VERSION": "1.29.0",
		"CLUSTER_ID":    "Kubernetes",
		"SERVICE_ACCOUNT": "sa-" + p.NS,
		"DNS_CAPTURE":   fmt.Sprint(p.Type == "sidecar"),
	})
	return &core.Node{Id: p.ID, Metadata: meta, Locality: &core.Locality{Region: "region1", Zone: "zone1"}}
}

// ---- the client

// NDS (the agent's DNS name table, one unnamed resource) is subscribed by the sidecars, whose node
// metadata enables DNS capture; the gateway does not ask for it.
var clientTypes = []string{v3.ClusterType, v3.EndpointType, v3.ListenerType, v3.RouteType, v3.NameTableType}

const nameTableName = "nametable"

type typeState struct {
	held      map[string][]byte // resource name -> deterministic bytes
	version   string
	nonce     string
	subs      map[string]bool // explicit subscription (non-wildcard types)
	requested bool
	responses int
	// names asked for and not yet delivered since they were (re)requested ("warming")
	awaiting map[string]bool
}

type client struct {
	spec    proxySpec
	delta   bool
	ss      *memStream
	ds      *memDeltaStream
	done    chan error
	ts      map[string]*typeState
	nacks   int
	log     []string
	removed map[string][]string // delta: names explicitly removed per type (whole session)
	// nackNext, when set, makes the client reject the next response of that type
	nackNext string
	// reconnect variants (C05): edsFirst = on a new stream the retained EDS subscription is re-sent
	// before the CDS request and every cluster of the first CDS response re-warms (Envoy re-requests
	// EDS after a CDS update and keeps the clusters warming until answered, envoy#13009);
	// explicitWildcard = a delta client re-subscribes wildcard types as ["*", <one retained name>]
	// (a wildcard and a named watch coexisting), retained names only in initial_resource_versions
	edsFirst         bool
	explicitWildcard bool
	rewarmOnCDS      bool
	deferred         []string // requests held back until the first EDS response of the stream was ACKed
}

func newClient(spec proxySpec, delta bool) *client {
	c := &client{spec: spec, delta: delta, ts: map[string]*typeState{}, removed: map[string][]string{}}
	for _, t := range clientTypes {
		c.ts[t] = &typeState{held: map[string][]byte{}, subs: map[string]bool{}, awaiting: map[string]bool{}}
	}
	return c
}

func short(t string) string { return v3.GetShortType(t) }

func marshal(m proto.Message) []byte {
	b, err := proto.MarshalOptions{Deterministic: true}.Marshal(m)
	if err != nil {
		panic(err)
	}
	return b
}

// connect opens the stream on the server (in a goroutine, as gRPC would) and sends the initial
// CDS and LDS requests. retained=true re-sends everything the client kept from a previous stream.
func (c *client) connect(srv *simServer, retained bool, cutAfter int) {
	ctx, cancel := newPeerCtx()
	c.done = make(chan error, 1)
	if c.delta {
		c.ds = &memDeltaStream{ctx: ctx, cancel: cancel, toServer: make(chan *discovery.DeltaDiscoveryRequest, 64), cutAfter: cutAfter}
		st := c.ds
		go func() {
			err := srv.s.Discovery.StreamDeltas(st)
			st.cancel()
			c.done <- err
		}()
	} else {
		c.ss = &memStream{ctx: ctx, cancel: cancel, toServer: make(chan *discovery.DiscoveryRequest, 64), cutAfter: cutAfter}
		st := c.ss
		go func() {
			err := srv.s.Discovery.Stream(st)
			st.cancel()
			c.done <- err
		}()
	}
	first := true
	order := []string{v3.ClusterType, v3.ListenerType}
	if c.spec.Type == "sidecar" {
		order = append(order, v3.NameTableType)
	}
	if retained {
		order = []string{v3.ClusterType, v3.EndpointType, v3.ListenerType, v3.RouteType, v3.NameTableType}
		if c.edsFirst && !c.delta {
			order = []string{v3.EndpointType, v3.ClusterType, v3.ListenerType, v3.RouteType, v3.NameTableType}
			c.rewarmOnCDS = true
		}
	}
	for i, t := range order {
		ts := c.ts[t]
		if retained && !ts.requested {
			continue
		}
		c.request(t, first, retained)
		first = false
		if c.rewarmOnCDS && i == 0 && t == v3.EndpointType && len(ts.subs) > 0 {
			// Envoy's (delayed) CDS request follows the EDS exchange
			c.deferred = append([]string(nil), order[1:]...)
			break
		}
	}
}

func (c *client) sendDeferred() {
	d := c.deferred
	c.deferred = nil
	for _, t := range d {
		if c.ts[t].requested && c.alive() {
			c.request(t, false, true)
		}
	}
}

func (c *client) alive() bool {
	if c.delta {
		return c.ds != nil && c.ds.ctx.Err() == nil
	}
	return c.ss != nil && c.ss.ctx.Err() == nil
}

func (c *client) disconnect() {
	if c.delta && c.ds != nil {
		c.ds.cancel()
	} else if c.ss != nil {
		c.ss.cancel()
	}
}

func isWildcard(t string) bool {
	return t == v3.ClusterType || t == v3.ListenerType || t == v3.NameTableType
}

// request sends the client's current subscription for a type. On a fresh stream (reconnect) the
// client presents what it retained: version + nonce (sotw) or initial_resource_versions (delta).
func (c *client) request(t string, withNode, reconnect bool) {
	ts := c.ts[t]
	ts.requested = true
	if t == v3.NameTableType {
		// the agent (not Envoy) owns this subscription; on a new stream it sends its initial request
		// again and presents nothing retained
		reconnect = false
	}
	var node *core.Node
	if withNode {
		node = c.spec.node()
	}
	names := sortedKeys(ts.subs)
	if c.delta {
		req := &discovery.DeltaDiscoveryRequest{Node: node, TypeUrl: t}
		if !isWildcard(t) {
			req.ResourceNamesSubscribe = names
		}
		if reconnect {
			req.InitialResourceVersions = map[string]string{}
			for n := range ts.held {
				req.InitialResourceVersions[n] = "retained"
			}
			if c.explicitWildcard && isWildcard(t) && t != v3.NameTableType && len(ts.held) > 0 {
				req.ResourceNamesSubscribe = []string{"*", sortedKeys(ts.held)[0]}
			}
		}
		for _, n := range names {
			if _, ok := ts.held[n]; !ok {
				ts.awaiting[n] = true
			}
		}
		c.log = append(c.log, fmt.Sprintf("-> %s delta sub=%v init=%d", short(t), req.ResourceNamesSubscribe, len(req.InitialResourceVersions)))
		c.ds.toServer <- req
		return
	}
	req := &discovery.DiscoveryRequest{Node: node, TypeUrl: t}
	if !isWildcard(t) {
		req.ResourceNames = names
	}
	if reconnect {
		req.VersionInfo, req.ResponseNonce = ts.version, ts.nonce
	}
	for _, n := range names {
		if _, ok := ts.held[n]; !ok || reconnect {
			ts.awaiting[n] = true
		}
	}
	c.log = append(c.log, fmt.Sprintf("-> %s names=%v nonce=%q", short(t), req.ResourceNames, req.ResponseNonce))
	c.ss.toServer <- req
}

func sortedKeys[V any](m map[string]V) []string {
	out := make([]string, 0, len(m))
	for k := range m {
		out = append(out, k)
	}
	sort.Strings(out)
	return out
}

// pump processes every response in the inbox (ACK + follow-up subscriptions); returns whether
// anything was processed.
func (c *client) pump() bool {
	progress := false
	if c.delta {
		for len(c.ds.inbox) > 0 {
			r := c.ds.inbox[0]
			c.ds.inbox = c.ds.inbox[1:]
			c.handleDelta(r)
			progress = true
		}
		return progress
	}
	for len(c.ss.inbox) > 0 {
		r := c.ss.inbox[0]
		c.ss.inbox = c.ss.inbox[1:]
		c.handleSotw(r)
		progress = true
	}
	return progress
}

func (c *client) handleSotw(r *discovery.DiscoveryResponse) {
	t := r.TypeUrl
	ts, ok := c.ts[t]
	if !ok {
		return
	}
	ts.responses++
	if c.nackNext == t {
		c.nackNext = ""
		c.nacks++
		ts.nonce = r.Nonce
		c.log = append(c.log, fmt.Sprintf("<- %s n=%d NACK", short(t), len(r.Resources)))
		if c.alive() {
			req := &discovery.DiscoveryRequest{TypeUrl: t, VersionInfo: ts.version, ResponseNonce: r.Nonce, ErrorDetail: &status.Status{Code: 3, Message: "rejected by harness"}}
			if !isWildcard(t) {
				req.ResourceNames = sortedKeys(ts.subs)
			}
			c.ss.toServer <- req
		}
		return
	}
	if isWildcard(t) {
		ts.held = map[string][]byte{}
	}
	for _, a := range r.Resources {
		name := resourceName(t, a.Value)
		ts.held[name] = canonical(t, a.Value)
		delete(ts.awaiting, name)
	}
	ts.version, ts.nonce = r.VersionInfo, r.Nonce
	c.log = append(c.log, fmt.Sprintf("<- %s n=%d nonce=%s", short(t), len(r.Resources), r.Nonce))
	if !c.alive() {
		return
	}
	// ACK
	ack := &discovery.DiscoveryRequest{TypeUrl: t, VersionInfo: r.VersionInfo, ResponseNonce: r.Nonce}
	if !isWildcard(t) {
		ack.ResourceNames = sortedKeys(ts.subs)
	}
	c.ss.toServer <- ack
	c.followUp(t)
	if t == v3.EndpointType && len(c.deferred) > 0 {
		c.sendDeferred()
	}
}

func (c *client) handleDelta(r *discovery.DeltaDiscoveryResponse) {
	t := r.TypeUrl
	ts, ok := c.ts[t]
	if !ok {
		return
	}
	ts.responses++
	for _, res := range r.Resources {
		name := res.Name
		if t == v3.NameTableType {
			name = nameTableName
		}
		ts.held[name] = canonical(t, res.Resource.GetValue())
		delete(ts.awaiting, name)
	}
	for _, n := range r.RemovedResources {
		if t == v3.NameTableType {
			n = nameTableName
		}
		delete(ts.held, n)
		delete(ts.awaiting, n)
		c.removed[t] = append(c.removed[t], n)
	}
	ts.nonce = r.Nonce
	c.log = append(c.log, fmt.Sprintf("<- %s delta n=%d removed=%v", short(t), len(r.Resources), r.RemovedResources))
	if !c.alive() {
		return
	}
	c.ds.toServer <- &discovery.DeltaDiscoveryRequest{TypeUrl: t, ResponseNonce: r.Nonce}
	c.followUp(t)
}

// followUp derives the dependent subscriptions (CDS -> EDS names, LDS -> RDS names) as Envoy does.
func (c *client) followUp(t string) {
	var dep string
	var want map[string]bool
	switch t {
	case v3.ClusterType:
		dep, want = v3.EndpointType, edsNames(c.ts[t].held)
	case v3.ListenerType:
		dep, want = v3.RouteType, rdsNames(c.ts[t].held)
	default:
		return
	}
	ds := c.ts[dep]
	added, removed := []string{}, []string{}
	for n := range want {
		if !ds.subs[n] {
			added = append(added, n)
		}
	}
	for n := range ds.subs {
		if !want[n] {
			removed = append(removed, n)
		}
	}
	sort.Strings(added)
	sort.Strings(removed)
	rewarm := t == v3.ClusterType && c.rewarmOnCDS
	if rewarm {
		c.rewarmOnCDS = false
	}
	if len(added) == 0 && len(removed) == 0 && ds.requested && !rewarm {
		return
	}
	if len(want) == 0 && !ds.requested {
		return
	}
	ds.subs = want
	// Envoy drops resources of a dependent type that are no longer referenced (implicit deletion)
	for _, n := range removed {
		delete(ds.held, n)
		delete(ds.awaiting, n)
	}
	ds.requested = true
	if c.delta {
		for _, n := range added {
			ds.awaiting[n] = true
		}
		c.log = append(c.log, fmt.Sprintf("-> %s delta sub=%v unsub=%v", short(dep), added, removed))
		c.ds.toServer <- &discovery.DeltaDiscoveryRequest{TypeUrl: dep, ResourceNamesSubscribe: added, ResourceNamesUnsubscribe: removed}
		return
	}
	for _, n := range added {
		ds.awaiting[n] = true
	}
	if rewarm {
		for n := range want {
			ds.awaiting[n] = true
		}
	}
	c.log = append(c.log, fmt.Sprintf("-> %s names=%v", short(dep), sortedKeys(want)))
	c.ss.toServer <- &discovery.DiscoveryRequest{TypeUrl: dep, ResourceNames: sortedKeys(want), VersionInfo: ds.version, ResponseNonce: ds.nonce}
}

func resourceName(t string, b []byte) string {
	switch t {
	case v3.ClusterType:
		var m cluster.Cluster
		if proto.Unmarshal(b, &m) == nil {
			return m.Name
		}
	case v3.ListenerType:
		var m listener.Listener
		if proto.Unmarshal(b, &m) == nil {
			return m.Name
		}
	case v3.EndpointType:
		return claName(b)
	case v3.RouteType:
		return rcName(b)
	case v3.NameTableType:
		return nameTableName
	}
	return fmt.Sprintf("?%x", b[:min(8, len(b))])
}

// canonical re-marshals resources whose wire form depends on map iteration order (the name table is
// one proto map) so that byte comparison means equality.
func canonical(t string, b []byte) []byte {
	if t != v3.NameTableType {
		return b
	}
	var m dnsProto.NameTable
	if proto.Unmarshal(b, &m) != nil {
		return b
	}
	return marshal(&m)
}

func edsNames(clusters map[string][]byte) map[string]bool {
	out := map[string]bool{}
	for _, b := range clusters {
		var m cluster.Cluster
		if proto.Unmarshal(b, &m) != nil {
			continue
		}
		if m.GetType() == cluster.Cluster_EDS {
			n := m.GetEdsClusterConfig().GetServiceName()
			if n == "" {
				n = m.Name
			}
			out[n] = true
		}
	}
	return out
}

func rdsNames(listeners map[string][]byte) map[string]bool {
	out := map[string]bool{}
	for _, b := range listeners {
		var l listener.Listener
		if proto.Unmarshal(b, &l) != nil {
			continue
		}
		chains := append([]*listener.FilterChain{}, l.FilterChains...)
		if l.DefaultFilterChain != nil {
			chains = append(chains, l.DefaultFilterChain)
		}
		for _, fc := range chains {
			for _, f := range fc.Filters {
				tc := f.GetTypedConfig()
				if tc == nil || !strings.HasSuffix(tc.TypeUrl, "HttpConnectionManager") {
					continue
				}
				var h hcm.HttpConnectionManager
				if proto.Unmarshal(tc.Value, &h) == nil {
					if r := h.GetRds(); r != nil {
						out[r.RouteConfigName] = true
					}
				}
			}
		}
	}
	return out
}

// snapshot is what the client holds, restricted to what it is still subscribed to.
func (c *client) snapshot() map[string]map[string][]byte {
	out := map[string]map[string][]byte{}
	for _, t := range clientTypes {
		m := map[string][]byte{}
		for n, b := range c.ts[t].held {
			if !isWildcard(t) && !c.ts[t].subs[n] {
				continue
			}
			m[n] = b
		}
		out[t] = m
	}
	return out
}

func (c *client) warming() []string {
	var w []string
	for _, t := range clientTypes {
		for n := range c.ts[t].awaiting {
			w = append(w, short(t)+"/"+n)
		}
	}
	sort.Strings(w)
	return w
}

// retainFrom copies what an old client retained (for reconnect experiments).
func (c *client) retainFrom(o *client) {
	for t, ts := range o.ts {
		n := &typeState{held: map[string][]byte{}, subs: map[string]bool{}, awaiting: map[string]bool{}, version: ts.version, nonce: ts.nonce, requested: ts.requested}
		for k, v := range ts.held {
			n.held[k] = v
		}
		for k := range ts.subs {
			n.subs[k] = true
		}
		c.ts[t] = n
	}
}

var _ = model.Healthy
