package sim

// Ambient-mode universe for the C01 / C05 ambient parts (ztunnel and waypoint xDS paths).
//
// Unlike `universe`, every object here is a Kubernetes object (the ambient index reads Pods, Services,
// EndpointSlices, Namespaces, Gateways and the istio CRDs from the Kubernetes client); istio CRDs are
// additionally written to the configuration store, because in a real istiod both the CRD client
// (store -> PushContext) and the ambient index are informers on the same API object.
// EndpointSlices of selector services are not part of the alphabet: they are a function of the
// Services and Pods present (what the Kubernetes endpoint-slice controller maintains), recomputed
// by the harness after every operation and written in the same debounce batch.

import (
	"fmt"
	"reflect"
	"sort"
	"strings"
	"time"

	corev1 "k8s.io/api/core/v1"
	discoveryv1 "k8s.io/api/discovery/v1"
	metav1 "k8s.io/apimachinery/pkg/apis/meta/v1"
	"k8s.io/apimachinery/pkg/labels"
	"k8s.io/apimachinery/pkg/runtime"

	networking "istio.io/api/networking/v1alpha3"
	"istio.io/istio/pilot/pkg/config/kube/crd"
	"istio.io/istio/pkg/config"
	kubelib "istio.io/istio/pkg/kube"
)

// aobj: one Kubernetes object, plus its configuration-store twin when it is an istio CRD.
type aobj struct {
	Kube runtime.Object
	Cfg  *config.Config
}

func (o aobj) meta() metav1.Object { return o.Kube.(metav1.Object) }

func (o aobj) key() string {
	m := o.meta()
	return fmt.Sprintf("%s/%s/%s", kindOf(o.Kube), m.GetNamespace(), m.GetName())
}

func kindOf(o runtime.Object) string {
	t := reflect.TypeOf(o)
	for t.Kind() == reflect.Pointer {
		t = t.Elem()
	}
	return t.Name()
}

// auobj: a universe object = a name and its variants; a variant may consist of several Kubernetes
// objects that only exist together (selector-less Service + its hand-written EndpointSlice).
type auobj struct {
	Name     string
	Variants [][]aobj
	// Pinned: present in every base state, never deleted (the Namespace: Kubernetes does not remove
	// it while it contains objects); only its updates are operations.
	Pinned bool
	// Static: present in every state, never operated (nodes, the other namespaces, the waypoint's own
	// Service and Pod: the waypoint proxy that is connected throughout runs in that Pod).
	Static bool
}

type aop struct {
	Verb    string `json:"verb"`
	Name    string `json:"name"` // universe object (what a replay file identifies it by)
	ObjIdx  int    `json:"-"`
	Variant int    `json:"variant"`
}

func (o *aop) resolve() { o.ObjIdx = aIndex(o.Name) }

func (o aop) String() string {
	return fmt.Sprintf("%s(%s#%d)", o.Verb, auniverse[o.ObjIdx].Name, o.Variant)
}

var auniverse []auobj

var istioCRDKinds = map[string]bool{"ServiceEntry": true, "WorkloadEntry": true, "AuthorizationPolicy": true, "PeerAuthentication": true}

// parseA decodes one YAML document into the typed Kubernetes object (and the store config for
// istio CRDs); ord gives it its explicit creation time.
func parseA(ord int, y string) aobj {
	o, _, err := kubelib.IstioCodec.UniversalDeserializer().Decode([]byte(y), nil, nil)
	if err != nil {
		panic(fmt.Sprintf("bad ambient universe yaml (%v): %s", err, y))
	}
	ts := epoch.Add(time.Duration(ord) * time.Minute)
	o.(metav1.Object).SetCreationTimestamp(metav1.NewTime(ts))
	out := aobj{Kube: o}
	if istioCRDKinds[kindOf(o)] {
		cfgs, _, err := crd.ParseInputs(y)
		if err != nil || len(cfgs) != 1 {
			panic(fmt.Sprintf("bad ambient universe yaml for the store (%v): %s", err, y))
		}
		c := cfgs[0]
		c.CreationTimestamp = ts
		out.Cfg = &c
	}
	return out
}

func addA(name string, flags string, variants ...[]string) {
	u := auobj{Name: name, Pinned: strings.Contains(flags, "pinned"), Static: strings.Contains(flags, "static")}
	ord := len(auniverse) + 1
	for _, ys := range variants {
		var v []aobj
		for _, y := range ys {
			v = append(v, parseA(ord, y))
		}
		u.Variants = append(u.Variants, v)
	}
	auniverse = append(auniverse, u)
}

func one(y string) []string { return []string{y} }

const (
	ambNS       = "amb"
	ztunnelNode = "node1"
	wpPodIP     = "10.0.2.9"
)

func init() {
	// ---- static environment
	addA("ns-plain", "static", one(`
apiVersion: v1
kind: Namespace
metadata: {name: plain}
`))
	addA("ns-warm", "static", one(`
apiVersion: v1
kind: Namespace
metadata: {name: warm}
`))
	addA("ns-istio-system", "static", one(`
apiVersion: v1
kind: Namespace
metadata: {name: istio-system}
`))
	addA("node1", "static", one(`
apiVersion: v1
kind: Node
metadata: {name: node1, labels: {topology.kubernetes.io/region: region1, topology.kubernetes.io/zone: zone1}}
`))
	addA("node2", "static", one(`
apiVersion: v1
kind: Node
metadata: {name: node2, labels: {topology.kubernetes.io/region: region1, topology.kubernetes.io/zone: zone2}}
`))
	// the waypoint's own Service and Pod (what the deployment controller creates for Gateway wp); the
	// Gateway object itself, which makes them a waypoint for the ambient index, is in the alphabet
	addA("wp-svc", "static", one(`
apiVersion: v1
kind: Service
metadata:
  name: wp
  namespace: amb
  labels: {gateway.istio.io/managed: istio.io-mesh-controller, gateway.networking.k8s.io/gateway-name: wp, istio.io/gateway-name: wp}
spec:
  clusterIP: 10.96.2.1
  selector: {gateway.networking.k8s.io/gateway-name: wp}
  ports: [{name: mesh, port: 15008, targetPort: 15008, protocol: TCP, appProtocol: hbone}]
`))
	addA("wp-pod", "static", one(`
apiVersion: v1
kind: Pod
metadata:
  name: wp-pod
  namespace: amb
  labels: {gateway.istio.io/managed: istio.io-mesh-controller, gateway.networking.k8s.io/gateway-name: wp, service.istio.io/canonical-name: wp}
spec: {serviceAccountName: wp-sa, nodeName: node2}
status: {phase: Running, podIP: 10.0.2.9, podIPs: [{ip: 10.0.2.9}], conditions: [{type: Ready, status: "True"}]}
`))
	// ---- the ambient namespace: pinned, its use-waypoint label is a variant
	addA("ns-amb", "pinned", one(`
apiVersion: v1
kind: Namespace
metadata: {name: amb, labels: {istio.io/dataplane-mode: ambient}}
`), one(`
apiVersion: v1
kind: Namespace
metadata: {name: amb, labels: {istio.io/dataplane-mode: ambient, istio.io/use-waypoint: wp}}
`))
	// ---- workloads
	pod := func(name, ns, node, ip, sa, labels, annotations, ready string) string {
		return fmt.Sprintf(`
apiVersion: v1
kind: Pod
metadata: {name: %s, namespace: %s, labels: {%s}, annotations: {%s}}
spec: {serviceAccountName: %s, nodeName: %s, containers: [{name: app, ports: [{name: http-c, containerPort: 8080}]}]}
status: {phase: Running, podIP: %s, podIPs: [{ip: %s}], conditions: [{type: Ready, status: "%s"}]}
`, name, ns, labels, annotations, sa, node, ip, ip, ready)
	}
	const captured = "ambient.istio.io/redirection: enabled"
	// on the ztunnel's node; variants: labels + service account, moved to another service
	addA("pod-a1", "",
		one(pod("a1", "amb", "node1", "10.0.1.1", "sa-a", "app: a", captured, "True")),
		one(pod("a1", "amb", "node1", "10.0.1.1", "sa-a2", "app: a, version: v2", captured, "True")),
		one(pod("a1", "amb", "node1", "10.0.1.1", "sa-a", "app: b", captured, "True")))
	// on the other node; variants: not captured (no redirection annotation), not ready
	addA("pod-a2", "",
		one(pod("a2", "amb", "node2", "10.0.2.1", "sa-a", "app: a", captured, "True")),
		one(pod("a2", "amb", "node2", "10.0.2.1", "sa-a", "app: a", "", "True")),
		one(pod("a2", "amb", "node2", "10.0.2.1", "sa-a", "app: a", captured, "False")))
	// outside the mesh, on the ztunnel's node
	addA("pod-p", "", one(pod("p1", "plain", "node1", "10.0.1.5", "sa-p", "app: p", "", "True")))
	// ---- services
	svc := func(name, ns, ip, selector, labels, ports string) string {
		return fmt.Sprintf(`
apiVersion: v1
kind: Service
metadata: {name: %s, namespace: %s, labels: {%s}}
spec:
  clusterIP: %s
  selector: {%s}
  ports: [%s]
`, name, ns, labels, ip, selector, ports)
	}
	const pHTTP = "{name: http, port: 80, targetPort: 8080, protocol: TCP}"
	const pTCP = "{name: tcp-x, port: 9000, targetPort: 9000, protocol: TCP}"
	addA("svc-a", "",
		one(svc("svc-a", "amb", "10.96.1.1", "app: a", "", pHTTP)),
		one(svc("svc-a", "amb", "10.96.1.1", "app: a", "", pHTTP+", "+pTCP)),
		one(svc("svc-a", "amb", "10.96.1.1", "app: a", "istio.io/use-waypoint: wp", pHTTP)))
	addA("svc-b", "",
		one(svc("svc-b", "amb", "10.96.1.2", "app: b", "", pHTTP+", "+pTCP)),
		one(svc("svc-b", "amb", "10.96.1.2", "app: a", "", pHTTP+", "+pTCP)))
	addA("svc-p", "", one(svc("svc-p", "plain", "10.96.3.1", "app: p", "", pHTTP)))
	// selector-less Service with a hand-written EndpointSlice (no pod behind the address)
	ext := func(addr string) []string {
		return []string{`
apiVersion: v1
kind: Service
metadata: {name: ext, namespace: amb}
spec:
  clusterIP: 10.96.1.9
  ports: [{name: tcp, port: 5000, targetPort: 5000, protocol: TCP}]
`, fmt.Sprintf(`
apiVersion: discovery.k8s.io/v1
kind: EndpointSlice
metadata: {name: ext-1, namespace: amb, labels: {kubernetes.io/service-name: ext}}
addressType: IPv4
endpoints: [{addresses: ["%s"], conditions: {ready: true}}]
ports: [{name: tcp, port: 5000, protocol: TCP}]
`, addr)}
	}
	addA("svc-ext", "", ext("10.9.9.1"), ext("10.9.9.2"))
	// ---- ServiceEntry / WorkloadEntry in the ambient namespace
	addA("se-ext", "", one(`
apiVersion: networking.istio.io/v1
kind: ServiceEntry
metadata: {name: se-ext, namespace: amb}
spec:
  hosts: [ext.example.com]
  addresses: [240.240.0.1]
  ports: [{number: 80, name: http, protocol: HTTP}]
  resolution: STATIC
  endpoints: [{address: 1.1.1.1, serviceAccount: sa-ext}]
`), one(`
apiVersion: networking.istio.io/v1
kind: ServiceEntry
metadata: {name: se-ext, namespace: amb}
spec:
  hosts: [ext.example.com]
  addresses: [240.240.0.1]
  ports: [{number: 80, name: http, protocol: HTTP}, {number: 8443, name: tcp, protocol: TCP}]
  resolution: STATIC
  workloadSelector: {labels: {app: vm}}
`), one(`
apiVersion: networking.istio.io/v1
kind: ServiceEntry
metadata: {name: se-ext, namespace: amb, labels: {istio.io/use-waypoint: wp}}
spec:
  hosts: [ext.example.com]
  addresses: [240.240.0.1]
  ports: [{number: 80, name: http, protocol: HTTP}]
  resolution: STATIC
  endpoints: [{address: 1.1.1.1, serviceAccount: sa-ext}]
`))
	we := func(addr, sa, labels string) string {
		return fmt.Sprintf(`
apiVersion: networking.istio.io/v1
kind: WorkloadEntry
metadata: {name: we-vm, namespace: amb, labels: {%s}, annotations: {ambient.istio.io/redirection: enabled}}
spec:
  address: %s
  labels: {%s}
  serviceAccount: %s
`, labels, addr, labels, sa)
	}
	addA("we-vm", "",
		one(we("10.0.3.1", "sa-vm", "app: vm")),
		one(we("10.0.3.2", "sa-vm2", "app: vm")),
		one(we("10.0.3.1", "sa-vm", "app: a")))
	// ---- L4 authorization policies
	addA("ap-ns", "", one(`
apiVersion: security.istio.io/v1
kind: AuthorizationPolicy
metadata: {name: ap-ns, namespace: amb}
spec:
  action: DENY
  rules: [{from: [{source: {principals: ["cluster.local/ns/plain/sa/sa-p"]}}]}]
`), one(`
apiVersion: security.istio.io/v1
kind: AuthorizationPolicy
metadata: {name: ap-ns, namespace: amb}
spec:
  action: ALLOW
  rules: [{from: [{source: {namespaces: ["amb"]}}]}]
`))
	addA("ap-sel", "", one(`
apiVersion: security.istio.io/v1
kind: AuthorizationPolicy
metadata: {name: ap-sel, namespace: amb}
spec:
  selector: {matchLabels: {app: a}}
  action: ALLOW
  rules: [{from: [{source: {principals: ["cluster.local/ns/amb/sa/sa-a"]}}], to: [{operation: {ports: ["8080"]}}]}]
`), one(`
apiVersion: security.istio.io/v1
kind: AuthorizationPolicy
metadata: {name: ap-sel, namespace: amb}
spec:
  selector: {matchLabels: {app: b}}
  action: DENY
  rules: [{from: [{source: {notNamespaces: ["amb"]}}]}]
`), one(`
apiVersion: security.istio.io/v1
kind: AuthorizationPolicy
metadata: {name: ap-sel, namespace: amb}
spec:
  selector: {matchLabels: {app: a}}
  action: DENY
  rules: [{from: [{source: {ipBlocks: ["10.0.1.0/24"]}}]}]
`))
	// bound to the waypoint (Gateway targetRef) or to a Service behind it: enforced by the waypoint, not by ztunnel
	addA("ap-wp", "", one(`
apiVersion: security.istio.io/v1
kind: AuthorizationPolicy
metadata: {name: ap-wp, namespace: amb}
spec:
  targetRefs: [{group: gateway.networking.k8s.io, kind: Gateway, name: wp}]
  action: DENY
  rules: [{to: [{operation: {paths: ["/admin"]}}]}]
`), one(`
apiVersion: security.istio.io/v1
kind: AuthorizationPolicy
metadata: {name: ap-wp, namespace: amb}
spec:
  targetRefs: [{group: "", kind: Service, name: svc-a}]
  action: ALLOW
  rules: [{to: [{operation: {methods: ["GET"]}}]}]
`))
	// ---- peer authentication
	addA("pa-ns", "", one(`
apiVersion: security.istio.io/v1
kind: PeerAuthentication
metadata: {name: default, namespace: amb}
spec:
  mtls: {mode: STRICT}
`), one(`
apiVersion: security.istio.io/v1
kind: PeerAuthentication
metadata: {name: default, namespace: amb}
spec:
  mtls: {mode: PERMISSIVE}
`))
	addA("pa-sel", "", one(`
apiVersion: security.istio.io/v1
kind: PeerAuthentication
metadata: {name: pa-sel, namespace: amb}
spec:
  selector: {matchLabels: {app: a}}
  mtls: {mode: STRICT}
  portLevelMtls: {8080: {mode: PERMISSIVE}}
`), one(`
apiVersion: security.istio.io/v1
kind: PeerAuthentication
metadata: {name: pa-sel, namespace: amb}
spec:
  selector: {matchLabels: {app: a}}
  mtls: {mode: PERMISSIVE}
  portLevelMtls: {8080: {mode: STRICT}}
`), one(`
apiVersion: security.istio.io/v1
kind: PeerAuthentication
metadata: {name: pa-sel, namespace: amb}
spec:
  selector: {matchLabels: {app: b}}
  mtls: {mode: STRICT}
  portLevelMtls: {9000: {mode: DISABLE}}
`), one(`
apiVersion: security.istio.io/v1
kind: PeerAuthentication
metadata: {name: pa-sel, namespace: amb}
spec:
  selector: {matchLabels: {app: a}}
  portLevelMtls: {8080: {mode: STRICT}}
`))
	addA("pa-root", "", one(`
apiVersion: security.istio.io/v1
kind: PeerAuthentication
metadata: {name: default, namespace: istio-system}
spec:
  mtls: {mode: STRICT}
`))
	// ---- the waypoint: Gateway API Gateway of class istio-waypoint
	gw := func(labels, addrType, addr string) string {
		return fmt.Sprintf(`
apiVersion: gateway.networking.k8s.io/v1
kind: Gateway
metadata: {name: wp, namespace: amb, labels: {%s}}
spec:
  gatewayClassName: istio-waypoint
  listeners: [{name: mesh, port: 15008, protocol: HBONE}]
status:
  addresses: [{type: %s, value: %s}]
`, labels, addrType, addr)
	}
	addA("gw-wp", "",
		one(gw("", "Hostname", "wp.amb.svc.cluster.local")),
		one(gw("istio.io/waypoint-for: all", "Hostname", "wp.amb.svc.cluster.local")),
		one(gw("", "IPAddress", "10.96.2.1")))
}

// ambientCore3: the depth-3 core of the thorough tier
var ambientCore3 = map[string]bool{"pod-a1": true, "svc-a": true, "we-vm": true, "pa-sel": true, "gw-wp": true, "ns-amb": true}

var ambientCore = map[string]bool{"pod-a1": true, "svc-a": true, "se-ext": true, "we-vm": true, "ap-sel": true, "pa-sel": true, "gw-wp": true, "ns-amb": true}

// ---- state

// astate: for each universe object -1 (absent) or the variant present
type astate []int

func (s astate) key() string {
	var p []string
	for i, v := range s {
		if v >= 0 && !auniverse[i].Static {
			p = append(p, fmt.Sprintf("%s#%d", auniverse[i].Name, v))
		}
	}
	return strings.Join(p, ",")
}

func aIndex(name string) int {
	for i, u := range auniverse {
		if u.Name == name {
			return i
		}
	}
	panic("unknown ambient universe object " + name)
}

func aEmpty() astate {
	s := make(astate, len(auniverse))
	for i, u := range auniverse {
		s[i] = -1
		if u.Static || u.Pinned {
			s[i] = 0
		}
	}
	return s
}

func aWith(variants map[string]int, names ...string) astate {
	s := aEmpty()
	for _, n := range names {
		s[aIndex(n)] = 0
	}
	for n, v := range variants {
		s[aIndex(n)] = v
	}
	return s
}

var richNames = []string{"pod-a1", "pod-a2", "pod-p", "svc-a", "svc-b", "svc-p", "svc-ext", "se-ext", "we-vm", "ap-ns", "ap-sel", "ap-wp", "pa-ns", "pa-sel", "pa-root", "gw-wp"}

var abases = map[string]func() astate{
	// only the pinned and static environment
	"empty": aEmpty,
	// one of everything, nothing attached to the waypoint
	"rich": func() astate { return aWith(nil, richNames...) },
	// rich, with the namespace, svc-a and se-ext pointing at a waypoint that accepts workloads and services,
	// and a port-level PeerAuthentication that inherits its mode from the mesh-wide policy (no namespace-wide one)
	"waypointed": func() astate {
		return aWith(map[string]int{"ns-amb": 1, "svc-a": 2, "gw-wp": 1, "se-ext": 2, "pa-sel": 3, "pa-ns": -1}, richNames...)
	},
}

func abaseNames() []string {
	var n []string
	for k := range abases {
		n = append(n, k)
	}
	sort.Strings(n)
	return n
}

func (s astate) after(o aop) astate {
	n := append(astate(nil), s...)
	if o.Verb == "delete" {
		n[o.ObjIdx] = -1
	} else {
		n[o.ObjIdx] = o.Variant
	}
	return n
}

func aEnabledOps(s astate, core map[string]bool) []aop {
	var out []aop
	for i, u := range auniverse {
		if u.Static || core != nil && !core[u.Name] {
			continue
		}
		if s[i] < 0 {
			for v := range u.Variants {
				out = append(out, aop{Verb: "create", Name: u.Name, ObjIdx: i, Variant: v})
			}
			continue
		}
		for v := range u.Variants {
			if v != s[i] {
				out = append(out, aop{Verb: "update", Name: u.Name, ObjIdx: i, Variant: v})
			}
		}
		if !u.Pinned {
			out = append(out, aop{Verb: "delete", Name: u.Name, ObjIdx: i, Variant: s[i]})
		}
	}
	return out
}

// objects lists what the Kubernetes API holds in this state: the variants present, then the
// EndpointSlices the endpoint-slice controller derives from the selector Services and Pods.
func (s astate) objects() []aobj {
	var out []aobj
	for i, v := range s {
		if v >= 0 {
			out = append(out, auniverse[i].Variants[v]...)
		}
	}
	return append(out, derivedSlices(out)...)
}

// derivedSlices is the harness's endpoint-slice controller: one slice per (selector Service, Pod of
// the same namespace whose labels the selector matches), carrying the pod's address, readiness and a
// Pod targetRef, and the Service's ports resolved to numbers.
func derivedSlices(objs []aobj) []aobj {
	var out []aobj
	for _, so := range objs {
		svc, ok := so.Kube.(*corev1.Service)
		if !ok || len(svc.Spec.Selector) == 0 {
			continue
		}
		sel := labels.SelectorFromSet(svc.Spec.Selector)
		for _, po := range objs {
			pod, ok := po.Kube.(*corev1.Pod)
			if !ok || pod.Namespace != svc.Namespace || !sel.Matches(labels.Set(pod.Labels)) || pod.Status.PodIP == "" {
				continue
			}
			ready := false
			for _, c := range pod.Status.Conditions {
				if c.Type == corev1.PodReady && c.Status == corev1.ConditionTrue {
					ready = true
				}
			}
			var ports []discoveryv1.EndpointPort
			for _, p := range svc.Spec.Ports {
				name, num, proto := p.Name, p.TargetPort.IntVal, p.Protocol
				if num == 0 {
					num = p.Port
				}
				ep := discoveryv1.EndpointPort{Name: &name, Port: &num, Protocol: &proto}
				if p.AppProtocol != nil {
					ap := *p.AppProtocol
					ep.AppProtocol = &ap
				}
				ports = append(ports, ep)
			}
			node := pod.Spec.NodeName
			ts := svc.CreationTimestamp
			if pod.CreationTimestamp.After(ts.Time) {
				ts = pod.CreationTimestamp
			}
			out = append(out, aobj{Kube: &discoveryv1.EndpointSlice{
				TypeMeta:    metav1.TypeMeta{Kind: "EndpointSlice", APIVersion: "discovery.k8s.io/v1"},
				ObjectMeta:  metav1.ObjectMeta{Name: svc.Name + "-" + pod.Name, Namespace: svc.Namespace, Labels: map[string]string{discoveryv1.LabelServiceName: svc.Name}, CreationTimestamp: ts},
				AddressType: discoveryv1.AddressTypeIPv4,
				Endpoints: []discoveryv1.Endpoint{{
					Addresses:  []string{pod.Status.PodIP},
					Conditions: discoveryv1.EndpointConditions{Ready: &ready},
					NodeName:   &node,
					TargetRef:  &corev1.ObjectReference{Kind: "Pod", Name: pod.Name, Namespace: pod.Namespace},
				}},
				Ports: ports,
			}})
		}
	}
	return out
}

// ---- reference knowledge about names (independent of istio's index): which on-demand names exist

// workloadIPs / serviceKeys of a state, read off the universe objects.
func (s astate) addressFacts() (ips map[string]bool, hostnames map[string]bool) {
	ips, hostnames = map[string]bool{}, map[string]bool{}
	for _, o := range s.objects() {
		switch x := o.Kube.(type) {
		case *corev1.Pod:
			if x.Status.PodIP != "" {
				ips[x.Status.PodIP] = true
			}
		case *corev1.Service:
			hostnames[x.Namespace+"/"+x.Name+"."+x.Namespace+".svc.cluster.local"] = true
			ips[x.Spec.ClusterIP] = true
		case *discoveryv1.EndpointSlice:
			for _, e := range x.Endpoints {
				if e.TargetRef == nil {
					ips[e.Addresses[0]] = true
				}
			}
		}
		if o.Cfg != nil {
			switch spec := o.Cfg.Spec.(type) {
			case *networking.ServiceEntry:
				for _, h := range spec.Hosts {
					hostnames[o.Cfg.Namespace+"/"+h] = true
				}
				for _, a := range spec.Addresses {
					ips[a] = true
				}
				for _, e := range spec.Endpoints {
					ips[e.Address] = true
				}
			case *networking.WorkloadEntry:
				ips[spec.Address] = true
			}
		}
	}
	return ips, hostnames
}

// warmupObjects: created one per virtual second right after a control plane starts, then removed again
// in reverse order (see newAmbientServer for why). They live in their own namespace and exercise every
// builder of the ambient index once: pod, selector service + slice, selector-less service + hand-written
// slice, WorkloadEntry, ServiceEntry with inline endpoints / with a selector, authorization policies
// (namespace-wide, selector, waypoint-bound), peer authentications (namespace-wide first, then selector +
// port level), a waypoint Gateway and a service pointing at it.
var warmupObjects = func() []aobj {
	var out []aobj
	for _, y := range []string{`
apiVersion: v1
kind: Pod
metadata: {name: wpod, namespace: warm, labels: {app: w}, annotations: {ambient.istio.io/redirection: enabled}}
spec: {serviceAccountName: wsa, nodeName: node2}
status: {phase: Running, podIP: 10.0.9.1, podIPs: [{ip: 10.0.9.1}], conditions: [{type: Ready, status: "True"}]}
`, `
apiVersion: v1
kind: Service
metadata: {name: wsvc, namespace: warm}
spec:
  clusterIP: 10.96.9.1
  selector: {app: w}
  ports: [{name: http, port: 80, targetPort: 8080, protocol: TCP}]
`, `
apiVersion: discovery.k8s.io/v1
kind: EndpointSlice
metadata: {name: wsvc-wpod, namespace: warm, labels: {kubernetes.io/service-name: wsvc}}
addressType: IPv4
endpoints: [{addresses: ["10.0.9.1"], conditions: {ready: true}, targetRef: {kind: Pod, name: wpod, namespace: warm}}]
ports: [{name: http, port: 8080, protocol: TCP}]
`, `
apiVersion: v1
kind: Service
metadata: {name: wext, namespace: warm}
spec:
  clusterIP: 10.96.9.2
  ports: [{name: tcp, port: 5000, targetPort: 5000, protocol: TCP}]
`, `
apiVersion: discovery.k8s.io/v1
kind: EndpointSlice
metadata: {name: wext-1, namespace: warm, labels: {kubernetes.io/service-name: wext}}
addressType: IPv4
endpoints: [{addresses: ["10.9.8.1"], conditions: {ready: true}}]
ports: [{name: tcp, port: 5000, protocol: TCP}]
`, `
apiVersion: networking.istio.io/v1
kind: WorkloadEntry
metadata: {name: wwe, namespace: warm, labels: {app: w}}
spec: {address: 10.0.9.2, labels: {app: w}, serviceAccount: wsa}
`, `
apiVersion: networking.istio.io/v1
kind: ServiceEntry
metadata: {name: wse, namespace: warm}
spec:
  hosts: [w.example.com]
  addresses: [240.240.9.1]
  ports: [{number: 80, name: http, protocol: HTTP}]
  resolution: STATIC
  endpoints: [{address: 9.9.9.1}]
`, `
apiVersion: networking.istio.io/v1
kind: ServiceEntry
metadata: {name: wse2, namespace: warm}
spec:
  hosts: [w2.example.com]
  addresses: [240.240.9.2]
  ports: [{number: 80, name: http, protocol: HTTP}]
  resolution: STATIC
  workloadSelector: {labels: {app: w}}
`, `
apiVersion: security.istio.io/v1
kind: AuthorizationPolicy
metadata: {name: wap-ns, namespace: warm}
spec:
  action: DENY
  rules: [{from: [{source: {principals: ["cluster.local/ns/x/sa/y"]}}]}]
`, `
apiVersion: security.istio.io/v1
kind: AuthorizationPolicy
metadata: {name: wap-sel, namespace: warm}
spec:
  selector: {matchLabels: {app: w}}
  action: ALLOW
  rules: [{from: [{source: {namespaces: ["warm"]}}]}]
`, `
apiVersion: security.istio.io/v1
kind: PeerAuthentication
metadata: {name: default, namespace: warm}
spec:
  mtls: {mode: PERMISSIVE}
`, `
apiVersion: security.istio.io/v1
kind: PeerAuthentication
metadata: {name: wpa, namespace: warm}
spec:
  selector: {matchLabels: {app: w}}
  mtls: {mode: PERMISSIVE}
  portLevelMtls: {8080: {mode: STRICT}}
`, `
apiVersion: gateway.networking.k8s.io/v1
kind: Gateway
metadata: {name: wgw, namespace: warm, labels: {istio.io/waypoint-for: all}}
spec:
  gatewayClassName: istio-waypoint
  listeners: [{name: mesh, port: 15008, protocol: HBONE}]
status:
  addresses: [{type: Hostname, value: wgw.warm.svc.cluster.local}]
`, `
apiVersion: security.istio.io/v1
kind: AuthorizationPolicy
metadata: {name: wap-wp, namespace: warm}
spec:
  targetRefs: [{group: gateway.networking.k8s.io, kind: Gateway, name: wgw}]
  action: DENY
  rules: [{to: [{operation: {paths: ["/x"]}}]}]
`, `
apiVersion: v1
kind: Service
metadata: {name: wsvc2, namespace: warm, labels: {istio.io/use-waypoint: wgw}}
spec:
  clusterIP: 10.96.9.3
  selector: {app: w}
  ports: [{name: http, port: 80, targetPort: 8080, protocol: TCP}]
`, `
apiVersion: v1
kind: Pod
metadata: {name: wpod2, namespace: warm, labels: {app: w2, istio.io/use-waypoint: wgw}, annotations: {ambient.istio.io/redirection: enabled}}
spec: {serviceAccountName: wsa, nodeName: node1}
status: {phase: Running, podIP: 10.0.9.3, podIPs: [{ip: 10.0.9.3}], conditions: [{type: Ready, status: "True"}]}
`} {
		out = append(out, parseA(0, y))
	}
	return out
}()
