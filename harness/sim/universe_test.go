package sim

import (
	"fmt"
	"sort"
	"strings"
	"time"

	corev1 "k8s.io/api/core/v1"
	discoveryv1 "k8s.io/api/discovery/v1"
	metav1 "k8s.io/apimachinery/pkg/apis/meta/v1"
	"k8s.io/apimachinery/pkg/util/intstr"

	"istio.io/istio/pilot/pkg/config/kube/crd"
	"istio.io/istio/pkg/config"
)

// Every object carries an explicit creationTimestamp (part of its identity), so that a live and a
// cold control plane agree on "oldest wins".
var epoch = time.Date(2024, 1, 1, 0, 0, 0, 0, time.UTC)

func parseCfg(ord int, yaml string) *config.Config {
	cfgs, _, err := crd.ParseInputs(yaml)
	if err != nil || len(cfgs) != 1 {
		panic(fmt.Sprintf("bad universe yaml (%v): %s", err, yaml))
	}
	c := cfgs[0]
	c.CreationTimestamp = epoch.Add(time.Duration(ord) * time.Minute)
	return &c
}

// uobj is one universe object with its variants.
type uobj struct {
	Name     string
	Variants []object
	// Static objects are part of base states but not of the operation alphabet (the Pod behind the
	// EndpointSlice: deleting it while the slice still references it is a cluster state Kubernetes
	// itself does not keep; arrival orders of Pod/EndpointSlice are C15's subject).
	Static bool
}

type op struct {
	Verb    string `json:"verb"`
	ObjIdx  int    `json:"obj"`
	Variant int    `json:"variant"`
	Obj     object `json:"-"`
}

func (o op) String() string {
	return fmt.Sprintf("%s(%s#%d)", o.Verb, universe[o.ObjIdx].Name, o.Variant)
}

var universe []uobj

func addCfg(name string, yamls ...string) {
	u := uobj{Name: name}
	ord := len(universe) + 1
	for _, y := range yamls {
		u.Variants = append(u.Variants, object{Cfg: parseCfg(ord, y)})
	}
	universe = append(universe, u)
}

func init() {
	addCfg("se-a", `
apiVersion: networking.istio.io/v1
kind: ServiceEntry
metadata: {name: se-a, namespace: ns1}
spec:
  hosts: [a.example.com]
  addresses: [240.1.1.1]
  ports: [{number: 80, name: http, protocol: HTTP}]
  resolution: STATIC
  endpoints: [{address: 1.1.1.1, labels: {version: v1}, locality: region1/zone1}, {address: 1.1.1.9, labels: {version: v1}, locality: region2/zone2}]
`, `
apiVersion: networking.istio.io/v1
kind: ServiceEntry
metadata: {name: se-a, namespace: ns1}
spec:
  hosts: [a.example.com]
  addresses: [240.1.1.2]
  ports: [{number: 80, name: http, protocol: HTTP}]
  resolution: STATIC
  endpoints: [{address: 1.1.1.2, labels: {version: v1}, locality: region1/zone1}, {address: 1.1.1.9, labels: {version: v1}, locality: region2/zone2}]
`, `
apiVersion: networking.istio.io/v1
kind: ServiceEntry
metadata: {name: se-a, namespace: ns1}
spec:
  hosts: [a.example.com]
  ports: [{number: 80, name: http, protocol: HTTP}, {number: 8080, name: tcp, protocol: TCP}]
  resolution: STATIC
  endpoints: [{address: 1.1.1.1, labels: {version: v1}}]
`)
	addCfg("se-a2", `
apiVersion: networking.istio.io/v1
kind: ServiceEntry
metadata: {name: se-a2, namespace: ns2}
spec:
  hosts: [a.example.com]
  ports: [{number: 80, name: http, protocol: HTTP}]
  resolution: STATIC
  endpoints: [{address: 2.2.2.2}]
`, `
apiVersion: networking.istio.io/v1
kind: ServiceEntry
metadata: {name: se-a2, namespace: ns2}
spec:
  hosts: [a.example.com]
  exportTo: ["."]
  ports: [{number: 80, name: http, protocol: HTTP}]
  resolution: STATIC
  endpoints: [{address: 2.2.2.2}]
`)
	addCfg("se-b", `
apiVersion: networking.istio.io/v1
kind: ServiceEntry
metadata: {name: se-b, namespace: ns1}
spec:
  hosts: [b.example.com]
  addresses: [240.1.2.1]
  exportTo: ["."]
  ports: [{number: 80, name: http, protocol: HTTP}]
  resolution: DNS
`, `
apiVersion: networking.istio.io/v1
kind: ServiceEntry
metadata: {name: se-b, namespace: ns1}
spec:
  hosts: [b.example.com]
  addresses: [240.1.2.1]
  ports: [{number: 80, name: http, protocol: HTTP}]
  resolution: DNS
`)
	addCfg("vs-a", `
apiVersion: networking.istio.io/v1
kind: VirtualService
metadata: {name: vs-a, namespace: ns1}
spec:
  hosts: [a.example.com]
  http:
  - route: [{destination: {host: a.example.com, port: {number: 80}}}]
    timeout: 3s
`, `
apiVersion: networking.istio.io/v1
kind: VirtualService
metadata: {name: vs-a, namespace: ns1}
spec:
  hosts: [a.example.com]
  http:
  - route: [{destination: {host: b.example.com, port: {number: 80}}}]
`)
	addCfg("dr-a", `
apiVersion: networking.istio.io/v1
kind: DestinationRule
metadata: {name: dr-a, namespace: ns1}
spec:
  host: a.example.com
  subsets: [{name: v1, labels: {version: v1}}]
`, `
apiVersion: networking.istio.io/v1
kind: DestinationRule
metadata: {name: dr-a, namespace: ns1}
spec:
  host: a.example.com
  trafficPolicy: {loadBalancer: {simple: ROUND_ROBIN}, tls: {mode: ISTIO_MUTUAL}}
`, `
apiVersion: networking.istio.io/v1
kind: DestinationRule
metadata: {name: dr-a, namespace: ns1}
spec:
  host: a.example.com
  trafficPolicy: {loadBalancer: {consistentHash: {httpHeaderName: x-user}}}
`, `
apiVersion: networking.istio.io/v1
kind: DestinationRule
metadata: {name: dr-a, namespace: ns1}
spec:
  host: b.example.com
  subsets: [{name: v1, labels: {version: v1}}]
`)
	addCfg("dr-a-root", `
apiVersion: networking.istio.io/v1
kind: DestinationRule
metadata: {name: dr-a-root, namespace: istio-system}
spec:
  host: a.example.com
  trafficPolicy:
    outlierDetection: {consecutive5xxErrors: 3, interval: 10s, baseEjectionTime: 30s}
    loadBalancer: {localityLbSetting: {enabled: true}}
`)
	addCfg("dr-w", `
apiVersion: networking.istio.io/v1
kind: DestinationRule
metadata: {name: dr-w, namespace: ns1}
spec:
  host: w.example.com
  trafficPolicy: {loadBalancer: {consistentHash: {httpHeaderName: x-a}}}
`, `
apiVersion: networking.istio.io/v1
kind: DestinationRule
metadata: {name: dr-w, namespace: ns1}
spec:
  host: w.example.com
  trafficPolicy: {loadBalancer: {consistentHash: {httpHeaderName: x-b}}}
`)
	addCfg("tel-otel", `
apiVersion: telemetry.istio.io/v1
kind: Telemetry
metadata: {name: tel-otel, namespace: ns1}
spec:
  accessLogging:
  - providers: [{name: otel}]
`)
	addCfg("se-otel", `
apiVersion: networking.istio.io/v1
kind: ServiceEntry
metadata: {name: se-otel, namespace: ns1}
spec:
  hosts: [otel.example.com]
  ports: [{number: 4317, name: grpc-otel, protocol: GRPC}]
  resolution: STATIC
  endpoints: [{address: 4.4.4.4}]
`)
	addCfg("sidecar-ns1", `
apiVersion: networking.istio.io/v1
kind: Sidecar
metadata: {name: default, namespace: ns1}
spec:
  egress: [{hosts: ["./*"]}]
`, `
apiVersion: networking.istio.io/v1
kind: Sidecar
metadata: {name: default, namespace: ns1}
spec:
  egress: [{hosts: ["*/a.example.com"]}]
`)
	addCfg("gateway", `
apiVersion: networking.istio.io/v1
kind: Gateway
metadata: {name: gw, namespace: istio-system}
spec:
  selector: {istio: ingressgateway}
  servers: [{port: {number: 80, name: http, protocol: HTTP}, hosts: ["*.example.com"]}]
`, `
apiVersion: networking.istio.io/v1
kind: Gateway
metadata: {name: gw, namespace: istio-system}
spec:
  selector: {istio: ingressgateway}
  servers: [{port: {number: 8081, name: http, protocol: HTTP}, hosts: ["a.example.com"]}]
`)
	addCfg("vs-gw", `
apiVersion: networking.istio.io/v1
kind: VirtualService
metadata: {name: vs-gw, namespace: istio-system}
spec:
  hosts: [a.example.com]
  gateways: [gw]
  http:
  - route: [{destination: {host: a.example.com, port: {number: 80}}}]
`, `
apiVersion: networking.istio.io/v1
kind: VirtualService
metadata: {name: vs-gw, namespace: istio-system}
spec:
  hosts: [a.example.com]
  gateways: [gw]
  http:
  - match: [{uri: {prefix: /x}}]
    route: [{destination: {host: b.example.com, port: {number: 80}}}]
`)
	addCfg("pa-ns1", `
apiVersion: security.istio.io/v1
kind: PeerAuthentication
metadata: {name: default, namespace: ns1}
spec:
  mtls: {mode: STRICT}
`, `
apiVersion: security.istio.io/v1
kind: PeerAuthentication
metadata: {name: default, namespace: ns1}
spec:
  mtls: {mode: DISABLE}
`)
	addCfg("pa-root", `
apiVersion: security.istio.io/v1
kind: PeerAuthentication
metadata: {name: default, namespace: istio-system}
spec:
  mtls: {mode: STRICT}
`)
	addCfg("authz", `
apiVersion: security.istio.io/v1
kind: AuthorizationPolicy
metadata: {name: ap, namespace: ns1}
spec:
  action: DENY
  rules: [{to: [{operation: {paths: ["/admin"]}}]}]
`, `
apiVersion: security.istio.io/v1
kind: AuthorizationPolicy
metadata: {name: ap, namespace: ns1}
spec:
  action: ALLOW
  rules: [{from: [{source: {namespaces: ["ns2"]}}]}]
`)
	addCfg("envoyfilter", `
apiVersion: networking.istio.io/v1alpha3
kind: EnvoyFilter
metadata: {name: ef, namespace: ns1}
spec:
  configPatches:
  - applyTo: CLUSTER
    match: {context: SIDECAR_OUTBOUND}
    patch: {operation: MERGE, value: {connect_timeout: 7s}}
`, `
apiVersion: networking.istio.io/v1alpha3
kind: EnvoyFilter
metadata: {name: ef, namespace: ns1}
spec:
  configPatches:
  - applyTo: LISTENER
    match: {context: SIDECAR_OUTBOUND}
    patch: {operation: MERGE, value: {per_connection_buffer_limit_bytes: 12345}}
`)
	addCfg("reqauth", `
apiVersion: security.istio.io/v1
kind: RequestAuthentication
metadata: {name: ra, namespace: ns1}
spec:
  jwtRules:
  - issuer: "issuer-1"
    jwks: '{"keys":[{"kty":"RSA","e":"AQAB","kid":"k1","n":"xAE7eB6qugXyCAG3yhh7pkDkT65pHymX-P7KfIupjf59vsdo91bSP9C8H07pSAGQO1MV_xFj9VswgsCg4R6otmg5PV2He95lZdHtOcU5DXIg_pbhLdKXbi66GlVeK6ABZOUW3WYtnNHD-91gVuoeJT_DwtGGcp4ignkgXfkiEm4sw-4sfb4qdt5oLbyVpmW6x9cfa7vs2WTfURiCrBoUqgBo_-4WTiULmmHSGZHOjzwa8WtrtOQGsAFjIbno85jp6MnGGGZPYZbDAa_b3y5u-YpW7ypZrvD8BgtKVjgtQgZhLAGezMt0ua3DRrWnKqTZ0BJ_EyxOGuHJrLsn00fnMQ"}]}'
`, `
apiVersion: security.istio.io/v1
kind: RequestAuthentication
metadata: {name: ra, namespace: ns1}
spec:
  jwtRules:
  - issuer: "issuer-2"
    fromHeaders: [{name: x-jwt}]
    jwks: '{"keys":[{"kty":"RSA","e":"AQAB","kid":"k1","n":"xAE7eB6qugXyCAG3yhh7pkDkT65pHymX-P7KfIupjf59vsdo91bSP9C8H07pSAGQO1MV_xFj9VswgsCg4R6otmg5PV2He95lZdHtOcU5DXIg_pbhLdKXbi66GlVeK6ABZOUW3WYtnNHD-91gVuoeJT_DwtGGcp4ignkgXfkiEm4sw-4sfb4qdt5oLbyVpmW6x9cfa7vs2WTfURiCrBoUqgBo_-4WTiULmmHSGZHOjzwa8WtrtOQGsAFjIbno85jp6MnGGGZPYZbDAa_b3y5u-YpW7ypZrvD8BgtKVjgtQgZhLAGezMt0ua3DRrWnKqTZ0BJ_EyxOGuHJrLsn00fnMQ"}]}'
`)
	addCfg("telemetry", `
apiVersion: telemetry.istio.io/v1
kind: Telemetry
metadata: {name: tel, namespace: ns1}
spec:
  accessLogging:
  - providers: [{name: envoy}]
`, `
apiVersion: telemetry.istio.io/v1
kind: Telemetry
metadata: {name: tel, namespace: ns1}
spec:
  accessLogging:
  - providers: [{name: envoy}]
    disabled: true
`)
	addCfg("se-w", `
apiVersion: networking.istio.io/v1
kind: ServiceEntry
metadata: {name: se-w, namespace: ns1}
spec:
  hosts: [w.example.com]
  ports: [{number: 80, name: http, protocol: HTTP}]
  resolution: STATIC
  workloadSelector: {labels: {app: w}}
`, `
apiVersion: networking.istio.io/v1
kind: ServiceEntry
metadata: {name: se-w, namespace: ns1}
spec:
  hosts: [w.example.com]
  ports: [{number: 80, name: http, protocol: HTTP}]
  resolution: DNS
  workloadSelector: {labels: {app: w}}
`)
	addCfg("we-w", `
apiVersion: networking.istio.io/v1
kind: WorkloadEntry
metadata: {name: we-w, namespace: ns1}
spec:
  address: 3.3.3.3
  labels: {app: w}
  serviceAccount: w
`, `
apiVersion: networking.istio.io/v1
kind: WorkloadEntry
metadata: {name: we-w, namespace: ns1}
spec:
  address: 3.3.3.4
  labels: {app: w}
  serviceAccount: w2
`)
	// Kubernetes service kb.ns1 with one pod behind it
	ts := func(ord int) metav1.Time { return metav1.NewTime(epoch.Add(time.Duration(ord) * time.Minute)) }
	svc := func(ports ...corev1.ServicePort) object {
		return object{Kube: &corev1.Service{
			ObjectMeta: metav1.ObjectMeta{Name: "kb", Namespace: "ns1", CreationTimestamp: ts(40)},
			Spec:       corev1.ServiceSpec{ClusterIP: "10.96.0.10", Selector: map[string]string{"app": "kb"}, Ports: ports},
		}}
	}
	universe = append(universe, uobj{Name: "k8s-svc", Variants: []object{
		svc(corev1.ServicePort{Name: "http", Port: 80, TargetPort: intstr.FromInt32(8080), Protocol: corev1.ProtocolTCP}),
		svc(corev1.ServicePort{Name: "http", Port: 80, TargetPort: intstr.FromInt32(8080), Protocol: corev1.ProtocolTCP},
			corev1.ServicePort{Name: "tcp-x", Port: 9000, TargetPort: intstr.FromInt32(9000), Protocol: corev1.ProtocolTCP}),
	}})
	pod := func(name, ip, sa string) object {
		return object{Kube: &corev1.Pod{
			ObjectMeta: metav1.ObjectMeta{Name: name, Namespace: "ns1", Labels: map[string]string{"app": "kb"}, CreationTimestamp: ts(41)},
			Spec:       corev1.PodSpec{ServiceAccountName: sa, NodeName: "node1"},
			Status: corev1.PodStatus{PodIP: ip, PodIPs: []corev1.PodIP{{IP: ip}}, Phase: corev1.PodRunning,
				Conditions: []corev1.PodCondition{{Type: corev1.PodReady, Status: corev1.ConditionTrue}}},
		}}
	}
	universe = append(universe, uobj{Name: "k8s-pod", Variants: []object{pod("kb-1", "10.1.1.1", "kb-sa")}, Static: true})
	universe = append(universe, uobj{Name: "k8s-pod2", Variants: []object{pod("kb-2", "10.1.1.2", "kb-sa2")}, Static: true})
	t, http := true, "http"
	p8080 := int32(8080)
	tcp := corev1.ProtocolTCP
	slice := func(ips ...string) object {
		var eps []discoveryv1.Endpoint
		for _, ip := range ips {
			eps = append(eps, discoveryv1.Endpoint{Addresses: []string{ip}, Conditions: discoveryv1.EndpointConditions{Ready: &t},
				TargetRef: &corev1.ObjectReference{Kind: "Pod", Name: map[string]string{"10.1.1.1": "kb-1", "10.1.1.2": "kb-2"}[ip], Namespace: "ns1"}})
		}
		return object{Kube: &discoveryv1.EndpointSlice{
			ObjectMeta:  metav1.ObjectMeta{Name: "kb-s1", Namespace: "ns1", Labels: map[string]string{discoveryv1.LabelServiceName: "kb"}, CreationTimestamp: ts(42)},
			AddressType: discoveryv1.AddressTypeIPv4,
			Endpoints:   eps,
			Ports:       []discoveryv1.EndpointPort{{Name: &http, Port: &p8080, Protocol: &tcp}},
		}}
	}
	universe = append(universe, uobj{Name: "k8s-slice", Variants: []object{slice("10.1.1.1"), slice(), slice("10.1.1.1", "10.1.1.2")}})
	// headless Kubernetes service hl.ns1 (pure HTTP, or HTTP + TCP) whose endpoints feed the DNS name table;
	// its slice's endpoints carry no pod reference
	hl := func(ports ...corev1.ServicePort) object {
		return object{Kube: &corev1.Service{
			ObjectMeta: metav1.ObjectMeta{Name: "hl", Namespace: "ns1", CreationTimestamp: ts(43)},
			Spec:       corev1.ServiceSpec{ClusterIP: corev1.ClusterIPNone, Selector: map[string]string{"app": "hl"}, Ports: ports},
		}}
	}
	universe = append(universe, uobj{Name: "k8s-hl", Variants: []object{
		hl(corev1.ServicePort{Name: "http", Port: 80, TargetPort: intstr.FromInt32(8080), Protocol: corev1.ProtocolTCP}),
		hl(corev1.ServicePort{Name: "http", Port: 80, TargetPort: intstr.FromInt32(8080), Protocol: corev1.ProtocolTCP},
			corev1.ServicePort{Name: "tcp-y", Port: 9100, TargetPort: intstr.FromInt32(9100), Protocol: corev1.ProtocolTCP}),
	}})
	hlSlice := func(ips ...string) object {
		var eps []discoveryv1.Endpoint
		for _, ip := range ips {
			eps = append(eps, discoveryv1.Endpoint{Addresses: []string{ip}, Conditions: discoveryv1.EndpointConditions{Ready: &t}})
		}
		return object{Kube: &discoveryv1.EndpointSlice{
			ObjectMeta:  metav1.ObjectMeta{Name: "hl-s1", Namespace: "ns1", Labels: map[string]string{discoveryv1.LabelServiceName: "hl"}, CreationTimestamp: ts(44)},
			AddressType: discoveryv1.AddressTypeIPv4,
			Endpoints:   eps,
			Ports:       []discoveryv1.EndpointPort{{Name: &http, Port: &p8080, Protocol: &tcp}},
		}}
	}
	universe = append(universe, uobj{Name: "k8s-hl-slice", Variants: []object{hlSlice("10.1.2.1"), hlSlice("10.1.2.1", "10.1.2.2"), hlSlice()}})
	// a second, younger DestinationRule for a.example.com in the same namespace: istio merges it into dr-a
	// (subsets are added up); it contributes its own subset, which changes name between the variants
	addCfg("dr-a2", `
apiVersion: networking.istio.io/v1
kind: DestinationRule
metadata: {name: dr-a2, namespace: ns1}
spec:
  host: a.example.com
  subsets: [{name: v2, labels: {version: v2}}]
`, `
apiVersion: networking.istio.io/v1
kind: DestinationRule
metadata: {name: dr-a2, namespace: ns1}
spec:
  host: a.example.com
  subsets: [{name: v3, labels: {version: v3}}]
`)
	// a second WorkloadEntry behind se-w that registers with health checks enabled and no health condition
	// yet (= unhealthy: stored, but no push is due for a not-ready newcomer), or without health checks
	addCfg("we-w2", `
apiVersion: networking.istio.io/v1
kind: WorkloadEntry
metadata:
  name: we-w2
  namespace: ns1
  annotations: {proxy.istio.io/health-checks-enabled: "true"}
spec:
  address: 3.3.3.9
  labels: {app: w}
  serviceAccount: w
`, `
apiVersion: networking.istio.io/v1
kind: WorkloadEntry
metadata: {name: we-w2, namespace: ns1}
spec:
  address: 3.3.3.9
  labels: {app: w}
  serviceAccount: w
`)
}

// state: for each universe object -1 (absent) or the variant present
type ustate []int

func (s ustate) key() string {
	var p []string
	for i, v := range s {
		if v >= 0 {
			p = append(p, fmt.Sprintf("%s#%d", universe[i].Name, v))
		}
	}
	return strings.Join(p, ",")
}

func (s ustate) objects() []object {
	var out []object
	for i, v := range s {
		if v >= 0 {
			out = append(out, universe[i].Variants[v])
		}
	}
	return out
}

func emptyState() ustate {
	s := make(ustate, len(universe))
	for i := range s {
		s[i] = -1
	}
	return s
}

func stateWith(names ...string) ustate {
	s := emptyState()
	for _, n := range names {
		found := false
		for i, u := range universe {
			if u.Name == n {
				s[i] = 0
				found = true
			}
		}
		if !found {
			panic("unknown universe object " + n)
		}
	}
	return s
}

// enabledOps lists the operations possible in a state, simplest first; core restricts the
// alphabet to the collision core.
func enabledOps(s ustate, core map[string]bool) []op {
	var out []op
	for i, u := range universe {
		if u.Static || core != nil && !core[u.Name] {
			continue
		}
		if s[i] < 0 {
			for v := range u.Variants {
				out = append(out, op{Verb: "create", ObjIdx: i, Variant: v, Obj: u.Variants[v]})
			}
		} else {
			for v := range u.Variants {
				if v != s[i] {
					out = append(out, op{Verb: "update", ObjIdx: i, Variant: v, Obj: u.Variants[v]})
				}
			}
			out = append(out, op{Verb: "delete", ObjIdx: i, Variant: s[i], Obj: u.Variants[s[i]]})
		}
	}
	return out
}

func (s ustate) after(o op) ustate {
	n := append(ustate(nil), s...)
	if o.Verb == "delete" {
		n[o.ObjIdx] = -1
	} else {
		n[o.ObjIdx] = o.Variant
	}
	return n
}

var bases = map[string]func() ustate{
	"empty": emptyState,
	"rich": func() ustate {
		// (without dr-a2: deleting dr-a hands a.example.com over to the root-namespace rule; the scoped base
		// has the merged pair dr-a + dr-a2)
		return stateWith("se-a", "se-a2", "se-b", "vs-a", "dr-a", "dr-a-root", "dr-w", "tel-otel", "gateway", "vs-gw", "pa-ns1", "authz", "reqauth", "telemetry", "envoyfilter", "se-w", "we-w", "k8s-svc", "k8s-pod", "k8s-pod2", "k8s-slice", "k8s-hl", "k8s-hl-slice")
	},
	"scoped": func() ustate {
		return stateWith("se-a", "se-a2", "se-b", "vs-a", "dr-a", "dr-a-root", "dr-w", "tel-otel", "sidecar-ns1", "gateway", "vs-gw", "pa-ns1", "authz", "reqauth", "telemetry", "envoyfilter", "se-w", "we-w", "k8s-svc", "k8s-pod", "k8s-pod2", "k8s-slice", "k8s-hl", "k8s-hl-slice", "dr-a2")
	},
}

func baseNames() []string {
	var n []string
	for k := range bases {
		n = append(n, k)
	}
	sort.Strings(n)
	return n
}
