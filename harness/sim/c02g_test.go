package sim

import (
	"fmt"
	"testing"
	"testing/synctest"

	"istio.io/istio/pilot/pkg/features"
	"istio.io/istio/zz_verif/engine"
)

// C02 part g: a client whose stream fails at any moment of a push releases everything it held. The
// control plane runs with a push concurrency of 1, so that one leaked push slot (or a connection left
// in the queue's "processing" set) starves every other client. Client A's stream breaks after the k-th
// message the server sends it, for every k from the end of its initial synchronisation to the end of
// the push of one operation; two more changes follow (an endpoint-only and a full one); observer B, on
// the same control plane, must afterwards hold what a new connection receives.
type failCase struct {
	Base  string `json:"base"`
	Op    op     `json:"op"`
	Proxy int    `json:"proxy"`
	Delta bool   `json:"delta"`
	Cut   int    `json:"cut_after_sends"`
}

func (c failCase) String() string {
	return fmt.Sprintf("%s: stream of %s (delta=%v) breaks after server message %d, around the push of %v", c.Base, proxies[c.Proxy].Name, c.Delta, c.Cut, c.Op)
}

type failResult struct {
	findings  []finding
	n0, total int
	broke     bool
	followUps int
}

func runPushFailure(t *testing.T, fc failCase) (fr failResult) {
	saved := features.PushThrottle
	features.PushThrottle = 1
	defer func() { features.PushThrottle = saved }()
	defer func() {
		// a starved dispatcher leaves goroutines blocked when the bubble ends: that is the finding,
		// reported below through B's state; the bubble's own complaint is not an infrastructure error
		if r := recover(); r != nil && len(fr.findings) == 0 {
			fr.findings = append(fr.findings, finding{"push-failure:hang-or-panic", fmt.Sprint(r)})
		}
	}()
	st := bases[fc.Base]()
	engine.GCPoint(1)
	synctest.Test(t, func(t *testing.T) {
		srv := newServer(t, st.objects())
		a := newClient(proxies[fc.Proxy], fc.Delta)
		a.connect(srv, false, fc.Cut)
		b := newClient(proxies[(fc.Proxy+1)%len(proxies)], false)
		b.connect(srv, false, -1)
		sends := func() int {
			if fc.Delta {
				return a.ds.sends
			}
			return a.ss.sends
		}
		srv.quiesce(a, b)
		fr.n0 = sends()
		srv.apply(fc.Op)
		st = st.after(fc.Op)
		if a.alive() {
			srv.quiesce(a, b)
		} else {
			srv.quiesce(b)
		}
		fr.total = sends()
		fr.broke = !a.alive()
		if fc.Cut >= 0 {
			for _, name := range []string{"we-w", "vs-a"} {
				for _, o := range enabledOps(st, nil) {
					if universe[o.ObjIdx].Name == name && o.Verb != "delete" {
						srv.apply(o)
						st = st.after(o)
						fr.followUps++
						if a.alive() {
							srv.quiesce(a, b)
						} else {
							srv.quiesce(b)
						}
						break
					}
				}
			}
			fresh := srv.fetch(b.spec, false)
			if d := diffSnap(b.snapshot(), fresh.snapshot()); d != "" {
				for _, cl := range diffClasses(b.snapshot(), fresh.snapshot()) {
					fr.findings = append(fr.findings, finding{"push-failure:held-vs-new-connection:" + cl,
						fmt.Sprintf("%s: afterwards %s holds something else than a new connection receives (first=held, second=new): %s", fc, b.spec.Name, d)})
				}
			}
		}
		a.disconnect()
		b.disconnect()
		synctest.Wait()
	})
	return fr
}

func TestC02g(t *testing.T) {
	env := engine.GetEnv()
	res := engine.NewResult("C02", "g-push-failure-releases")
	res.Rule = "control plane with push concurrency 1; for every operation of the alphabet, both protocol flavours of client A and every k from the end of A's initial synchronisation to the end of the operation's push: A's stream breaks after the k-th server message; an endpoint-only and a full change follow; observer B must hold what a new connection receives; non-trivial = case in which the stream broke while the push had more to send"
	defer res.Write(t, env)
	if env.Replay != "" {
		var fc failCase
		if err := engine.ReadReplay(env.Replay, &fc); err != nil {
			t.Fatal(err)
		}
		fc.Op.Obj = universe[fc.Op.ObjIdx].Variants[fc.Op.Variant]
		for _, f := range runPushFailure(t, fc).findings {
			res.Violate(f.key, f.desc, fc)
		}
		return
	}
	core := coreObjs
	proxyList := []int{0}
	if env.Thorough() {
		core = nil
		proxyList = []int{0, 1, 2}
	}
	var ord int64
	for _, o := range enabledOps(bases["rich"](), core) {
		for _, pi := range proxyList {
			for _, delta := range []bool{false, true} {
				ord++
				if !env.Mine(ord) {
					continue
				}
				if env.Expired() {
					res.Cap("deadline")
					return
				}
				probe := runPushFailure(t, failCase{"rich", o, pi, delta, -1})
				for k := probe.n0; k <= probe.total; k++ {
					if k == 0 {
						continue
					}
					fc := failCase{"rich", o, pi, delta, k}
					fr := runPushFailure(t, fc)
					res.Evaluations++
					res.Traces++
					res.States++
					res.Transitions += int64(1 + fr.followUps)
					if fr.broke && k < probe.total {
						res.NontrivialCase(fc.String())
					}
					res.Outcome(fmt.Sprintf("broke=%v findings=%d", fr.broke, len(fr.findings)))
					for _, f := range fr.findings {
						res.Violate(f.key, f.desc, fc)
					}
				}
				if ord%11 == 0 {
					res.Sample(failCase{"rich", o, pi, delta, probe.total - 1}.String())
				}
			}
		}
	}
}
