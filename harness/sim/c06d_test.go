package sim

import (
	"fmt"
	"os"
	"testing"
	"testing/synctest"

	"istio.io/istio/pilot/pkg/model"
	"istio.io/istio/pkg/util/sets"
	"istio.io/istio/zz_verif/engine"
)

// C06 (d): traces of the cache interleaving model (part b) replayed on the real control plane.
// The model's generator of "push" flavour (snapshot taken, then start time stamped) that is
// concurrent with a configuration push exists in the code as DiscoveryServer.ProxyUpdate (called by
// the registries on pod / workload-entry events). The schedule "ProxyUpdate and the push it
// enqueues run entirely between the cache invalidation and the publication of the new snapshot" is
// realised without a scheduler: the push goroutine holds no lock in that window, so running the
// other thread to completion inside it (from a wrapper around DiscoveryServer.Cache.Clear) is one
// legal interleaving of the two.
type windowCache struct {
	model.XdsCache
	armed bool
	after func()
}

func (w *windowCache) Clear(k sets.Set[model.ConfigKey]) {
	w.XdsCache.Clear(k)
	w.fire()
}

func (w *windowCache) ClearAll() {
	w.XdsCache.ClearAll()
	w.fire()
}

func (w *windowCache) fire() {
	if w.armed {
		w.armed = false
		w.after()
	}
}

type windowCase struct {
	Base  string `json:"base"`
	Op    op     `json:"op"`
	Proxy int    `json:"proxy"` // the proxy whose ProxyUpdate lands in the window
}

func (c windowCase) String() string {
	return fmt.Sprintf("%s: %v with ProxyUpdate(%s) between cache clear and snapshot publication", c.Base, c.Op, proxies[c.Proxy].Name)
}

func runWindow(t *testing.T, wc windowCase, inject bool) (fs []finding, fired bool) {
	st := bases[wc.Base]()
	var snaps []snapshot
	engine.GCPoint(1)
	synctest.Test(t, func(t *testing.T) {
		srv := newServer(t, st.objects())
		var cls []*client
		for _, p := range proxies {
			c := newClient(p, false)
			c.connect(srv, false, -1)
			cls = append(cls, c)
		}
		srv.quiesce(cls...)
		wcache := &windowCache{XdsCache: srv.s.Discovery.Cache}
		wcache.after = func() {
			fired = true
			srv.s.Discovery.ProxyUpdate("Kubernetes", proxies[wc.Proxy].IP)
			// let the dispatcher hand the request to the proxy's stream goroutine and that push finish,
			// while the configuration push is still between Clear and SetPushContext
			synctest.Wait()
		}
		srv.s.Discovery.Cache = wcache
		srv.apply(wc.Op)
		st = st.after(wc.Op)
		srv.settle()
		wcache.armed = inject
		srv.quiesce(cls...)
		// what every proxy is served now (possibly from the cache) ...
		for _, c := range cls {
			fresh := srv.fetch(c.spec, false)
			snaps = append(snaps, fresh.snapshot())
			if d := diffSnap(c.snapshot(), fresh.snapshot()); d != "" {
				for _, cl := range diffClasses(c.snapshot(), fresh.snapshot()) {
					fs = append(fs, finding{"window:held-vs-new-connection:" + cl, fmt.Sprintf("%s: connected %s differs from a new connection: %s", wc, c.spec.Name, d)})
				}
			}
		}
		// ... against a fresh generation at the same moment on the same control plane (cache emptied)
		wcache.XdsCache.ClearAll()
		for ci, c := range cls {
			regen := srv.fetch(c.spec, false).snapshot()
			if d := diffSnap(snaps[ci], regen); d != "" {
				for _, cl := range diffClasses(snaps[ci], regen) {
					fs = append(fs, finding{"window:served-vs-regenerated:" + cl, fmt.Sprintf("%s: what %s is served with the cache (first) differs from a fresh generation at the same moment (second): %s", wc, c.spec.Name, d)})
				}
			}
		}
		for _, c := range cls {
			c.disconnect()
		}
		synctest.Wait()
	})
	_ = st
	return fs, fired
}

func TestC06d(t *testing.T) {
	env := engine.GetEnv()
	res := engine.NewResult("C06", "d-proxyupdate-window")
	res.Rule = "model trace replay on the real control plane: for every configuration operation of the alphabet from the rich/scoped base and every proxy, DiscoveryServer.ProxyUpdate(proxy) and the push it triggers run to completion in the window between the cache invalidation and the publication of the new snapshot of the operation's push; afterwards what every proxy is served must equal a fresh generation on the same control plane with the cache emptied; non-trivial = case in which the window was reached (a push invalidated the cache)"
	defer res.Write(t, env)
	if env.Replay != "" {
		var wc windowCase
		if err := engine.ReadReplay(env.Replay, &wc); err != nil {
			t.Fatal(err)
		}
		wc.Op.Obj = universe[wc.Op.ObjIdx].Variants[wc.Op.Variant]
		fs, _ := runWindow(t, wc, os.Getenv("VERIF_NO_INJECT") == "")
		for _, f := range fs {
			res.Violate(f.key, f.desc, wc)
		}
		return
	}
	baseList := []string{"rich"}
	// every configuration kind whose change must invalidate cached clusters / routes / endpoints
	core := map[string]bool{"dr-w": true, "dr-a-root": true, "vs-gw": true, "envoyfilter": true, "authz": true}
	for k := range coreObjs {
		core[k] = true
	}
	if env.Thorough() {
		baseList = []string{"rich", "scoped"}
		core = nil
	}
	var ord int64
	for _, b := range baseList {
		for _, o := range enabledOps(bases[b](), core) {
			for pi := range proxies {
				ord++
				if !env.Mine(ord) {
					continue
				}
				if env.Expired() {
					res.Cap("deadline")
					return
				}
				wc := windowCase{b, o, pi}
				// control: the same history without the injected thread must be clean, so that what
				// the injected run shows is due to the interleaving alone
				ctl, _ := runWindow(t, wc, false)
				fs, fired := runWindow(t, wc, true)
				res.Evaluations++
				res.Traces++
				res.States++
				res.Transitions += 2
				if fired {
					res.NontrivialCase(wc.String())
				}
				known := map[string]bool{}
				for _, f := range ctl {
					known[f.key] = true
					// without any injected thread the served state must equal the cold one as well
					res.Violate("no-injection:"+f.key, f.desc, wc)
				}
				res.Outcome(fmt.Sprintf("fired=%v findings=%d control=%d", fired, len(fs), len(ctl)))
				for _, f := range fs {
					if !known[f.key] {
						res.Violate(f.key, f.desc, wc)
					}
				}
				if ord%11 == 0 {
					res.Sample(wc.String())
				}
			}
		}
	}
}
