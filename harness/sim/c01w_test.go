package sim

import (
	"fmt"
	"testing"
	"testing/synctest"
	"time"

	discovery "github.com/envoyproxy/go-control-plane/envoy/service/discovery/v3"

	"istio.io/istio/pilot/pkg/bootstrap"
	"istio.io/istio/pilot/pkg/model"
	"istio.io/istio/pilot/pkg/networking/core"
	"istio.io/istio/zz_verif/engine"
)

// Cache write window (C01 part w, C06 part h): a generator that missed the cache builds its value
// from the snapshot of push 1 and inserts it only after a further change to the same object has been
// accepted, invalidated and pushed (push 2). The schedule is realised without a scheduler: the
// generator holds no lock between building and inserting, so letting the second change run to
// completion inside a wrapper around XdsCache.Add is one legal interleaving. Afterwards every
// connected proxy must hold what a new connection receives and what a cold control plane serves.
type writeWindowCache struct {
	model.XdsCache
	armed  bool
	count  int
	target int
	inject func()
}

func (w *writeWindowCache) Add(e model.XdsCacheEntry, req *model.PushRequest, v *discovery.Resource) {
	if w.armed && req != nil && !req.Start.IsZero() {
		w.count++
		if w.count == w.target {
			w.armed = false
			w.inject()
		}
	}
	w.XdsCache.Add(e, req, v)
}

type writeCase struct {
	Base string `json:"base"`
	Op1  op     `json:"op1"`
	Op2  op     `json:"op2"`
	Nth  int    `json:"nth_insertion"` // the insertion of push 1 that is delayed (0 = probe: none)
}

func (c writeCase) String() string {
	return fmt.Sprintf("%s: %v pushed; insertion #%d of that push is delayed until %v has been pushed", c.Base, c.Op1, c.Nth, c.Op2)
}

func runWriteWindow(t *testing.T, wc writeCase, prefix string) (fs []finding, fired bool, inserts int) {
	st := bases[wc.Base]()
	var snaps []snapshot
	var final ustate
	engine.GCPoint(1)
	synctest.Test(t, func(t *testing.T) {
		srv := newServer(t, st.objects())
		wcache := &writeWindowCache{XdsCache: srv.s.Discovery.Cache, target: wc.Nth}
		// the generators keep the cache they were built with: build them again around the wrapper (what
		// the fake server itself does after creating the DiscoveryServer)
		srv.s.Discovery.Cache = wcache
		model.VerifSetEndpointIndexCache(srv.s.Discovery.Env.EndpointIndex, wcache)
		secretGen := srv.s.Discovery.Generators["type.googleapis.com/envoy.extensions.transport_sockets.tls.v3.Secret"]
		bootstrap.InitGenerators(srv.s.Discovery, core.NewConfigGenerator(wcache), "istio-system", "", nil)
		if secretGen != nil {
			srv.s.Discovery.Generators["type.googleapis.com/envoy.extensions.transport_sockets.tls.v3.Secret"] = secretGen
		}
		var cls []*client
		for _, p := range proxies {
			c := newClient(p, false)
			c.connect(srv, false, -1)
			cls = append(cls, c)
		}
		srv.quiesce(cls...)
		closed := false
		wcache.inject = func() {
			fired = true
			defer func() { closed = true }()
			srv.apply(wc.Op2)
			st = st.after(wc.Op2)
			// virtual time passes until the second change has been debounced, invalidated and fanned out
			for i := 0; i < 20; i++ {
				time.Sleep(debounce)
				if srv.s.Discovery.CommittedUpdates.Load() >= srv.s.Discovery.InboundUpdates.Load() && i > 1 {
					break
				}
			}
		}
		srv.apply(wc.Op1)
		st = st.after(wc.Op1)
		srv.settle()
		wcache.count = 0
		wcache.armed = true
		synctest.Wait()
		for i := 0; i < 1000; i++ {
			srv.quiesce(cls...)
			if !fired || closed {
				break
			}
			time.Sleep(time.Second)
			synctest.Wait()
		}
		wcache.armed = false
		inserts = wcache.count
		if !fired && wc.Nth > 0 {
			// the push had fewer insertions: apply the second change afterwards (plain history)
			srv.apply(wc.Op2)
			st = st.after(wc.Op2)
		}
		srv.quiesce(cls...)
		final = append(ustate(nil), st...)
		for _, c := range cls {
			snaps = append(snaps, c.snapshot())
			fresh := srv.fetch(c.spec, false)
			if d := diffSnap(c.snapshot(), fresh.snapshot()); d != "" {
				for _, cl := range diffClasses(c.snapshot(), fresh.snapshot()) {
					fs = append(fs, finding{prefix + ":held-vs-new-connection:" + cl, fmt.Sprintf("%s: connected %s differs from a new connection (first=held, second=new): %s", wc, c.spec.Name, d)})
				}
			}
		}
		for _, c := range cls {
			c.disconnect()
		}
		synctest.Wait()
	})
	if wc.Nth > 0 {
		cold := coldSnapshots(t, final)
		for ci := range proxies {
			if d := diffSnap(snaps[ci], cold[ci]); d != "" {
				for _, cl := range diffClasses(snaps[ci], cold[ci]) {
					fs = append(fs, finding{prefix + ":live-vs-cold:" + cl, fmt.Sprintf("%s: connected %s differs from a cold control plane on the same objects (first=live, second=cold): %s", wc, proxies[ci].Name, d)})
				}
			}
		}
	}
	return fs, fired, inserts
}

func writeWindowTest(t *testing.T, res *engine.Result, prefix string) {
	env := engine.GetEnv()
	defer res.Write(t, env)
	if env.Replay != "" {
		var wc writeCase
		if err := engine.ReadReplay(env.Replay, &wc); err != nil {
			t.Fatal(err)
		}
		wc.Op1.Obj = universe[wc.Op1.ObjIdx].Variants[wc.Op1.Variant]
		wc.Op2.Obj = universe[wc.Op2.ObjIdx].Variants[wc.Op2.Variant]
		fs, _, _ := runWriteWindow(t, wc, prefix)
		for _, f := range fs {
			res.Violate(f.key, f.desc, wc)
		}
		return
	}
	coreSet := coreObjs
	if env.Thorough() {
		coreSet = nil
	}
	var ord int64
	for _, o1 := range enabledOps(bases["rich"](), coreSet) {
		st1 := bases["rich"]().after(o1)
		for _, o2 := range enabledOps(st1, nil) {
			if o2.ObjIdx != o1.ObjIdx {
				continue // the second change is a further change to the same object
			}
			ord++
			if !env.Mine(ord) {
				continue
			}
			if env.Expired() {
				res.Cap("deadline")
				return
			}
			// probe: how many insertions does the push of op1 make?
			_, _, n := runWriteWindow(t, writeCase{"rich", o1, o2, 0}, prefix)
			for k := 1; k <= n; k++ {
				wc := writeCase{"rich", o1, o2, k}
				fs, fired, _ := runWriteWindow(t, wc, prefix)
				res.Evaluations++
				res.Traces++
				res.States++
				res.Transitions += 2
				if fired {
					res.NontrivialCase(wc.String())
				}
				res.Outcome(fmt.Sprintf("fired=%v findings=%d", fired, len(fs)))
				for _, f := range fs {
					res.Violate(f.key, f.desc, wc)
				}
			}
			if ord%7 == 0 {
				res.Sample(writeCase{"rich", o1, o2, 1}.String())
			}
		}
	}
}

func TestC01w(t *testing.T) {
	res := engine.NewResult("C01", "w-cache-write-window")
	res.Rule = "for every operation of the alphabet from the rich base, every further operation on the same object and every cache insertion k made by the first operation's push: insertion k is delayed until the second operation has been accepted, invalidated and pushed; afterwards every connected proxy holds what a new connection receives and what a cold control plane serves; non-trivial = case in which the window was reached"
	writeWindowTest(t, res, "write-window")
}

func TestC06h(t *testing.T) {
	res := engine.NewResult("C06", "h-cache-write-window")
	res.Rule = "as C01 part w: a generator's cache insertion delayed past a further change, its invalidation and its push, on the real control plane; non-trivial = case in which the window was reached"
	writeWindowTest(t, res, "write-window")
}
