package sim

import (
	"fmt"
	"testing"
	"testing/synctest"
	"time"

	"istio.io/istio/pilot/pkg/model"
	"istio.io/istio/pkg/config/labels"
	"istio.io/istio/zz_verif/engine"
)

// C02 (e): a configuration push that fans out while a connection is between its registration
// (addCon) and the end of its initialisation. The schedule "the whole push - store change, debounce,
// snapshot, StartPush - runs inside that window" is realised without a scheduler: the initialising
// stream goroutine holds no lock the push needs while it looks up the proxy's workload labels
// (computeProxyState -> Environment.GetProxyWorkloadLabels), so letting it wait there (virtual time)
// until the push has fanned out is one legal interleaving of the two goroutines. The notification
// must still reach the new connection once it is initialised.
type initWindowSD struct {
	model.ServiceDiscovery
	armed  bool
	inject func()
}

func (w *initWindowSD) GetProxyWorkloadLabels(p *model.Proxy) labels.Instance {
	if w.armed {
		w.armed = false
		w.inject()
	}
	return w.ServiceDiscovery.GetProxyWorkloadLabels(p)
}

type initCase struct {
	Base  string `json:"base"`
	Op    op     `json:"op"`
	Proxy int    `json:"proxy"`
	Delta bool   `json:"delta"`
	// Reconnect (C05): the connection that initialises during the push is a reconnecting one, presenting
	// what an earlier connection of the same proxy retained
	Reconnect bool `json:"reconnect,omitempty"`
}

func (c initCase) String() string {
	return fmt.Sprintf("%s: %v pushed while %s (delta=%v) is initialising", c.Base, c.Op, proxies[c.Proxy].Name, c.Delta)
}

func runInitWindow(t *testing.T, ic initCase) (fs []finding, fired bool) {
	st := bases[ic.Base]()
	var held snapshot
	engine.GCPoint(1)
	synctest.Test(t, func(t *testing.T) {
		srv := newServer(t, st.objects())
		env := srv.s.Env()
		w := &initWindowSD{ServiceDiscovery: env.ServiceDiscovery}
		windowClosed := false
		w.inject = func() {
			fired = true
			defer func() { windowClosed = true }()
			srv.apply(ic.Op)
			// wait (virtual time) until the debouncer has fired and the push has fanned out
			for i := 0; i < 20; i++ {
				time.Sleep(debounce)
				if srv.s.Discovery.CommittedUpdates.Load() >= srv.s.Discovery.InboundUpdates.Load() && i > 1 {
					break
				}
			}
		}
		c := newClient(proxies[ic.Proxy], ic.Delta)
		if ic.Reconnect {
			c1 := newClient(proxies[ic.Proxy], ic.Delta)
			c1.connect(srv, false, -1)
			srv.quiesce(c1)
			c1.disconnect()
			synctest.Wait()
			c.retainFrom(c1)
		}
		env.ServiceDiscovery = w
		w.armed = true
		c.connect(srv, ic.Reconnect, -1)
		st = st.after(ic.Op)
		synctest.Wait()
		for i := 0; fired && !windowClosed && i < 1000; i++ {
			time.Sleep(time.Second)
			synctest.Wait()
		}
		srv.quiesce(c)
		env.ServiceDiscovery = w.ServiceDiscovery
		held = c.snapshot()
		fresh := srv.fetch(c.spec, ic.Delta)
		if d := diffSnap(held, fresh.snapshot()); d != "" {
			for _, cl := range diffClasses(held, fresh.snapshot()) {
				fs = append(fs, finding{"init-window:held-vs-new-connection:" + cl,
					fmt.Sprintf("%s: the connection that was initialising during the push holds something else than a new connection receives (first=held, second=new): %s", ic, d)})
			}
		}
		if wm := c.warming(); len(wm) > 0 {
			fs = append(fs, finding{"init-window:warming", fmt.Sprintf("%s: still waiting for %v", ic, wm)})
		}
		c.disconnect()
		synctest.Wait()
	})
	return fs, fired
}

func TestC02e(t *testing.T) {
	res := engine.NewResult("C02", "e-push-during-connection-init")
	res.Rule = "for every operation of the alphabet from the rich/scoped base, every proxy and both protocol flavours: the operation's whole push (store change, debounce, snapshot, fan-out) runs while a new connection of that proxy is between registration and the end of its initialisation; afterwards the connection must hold what a new connection receives; non-trivial = case in which the window was reached"
	initWindowTest(t, res, false)
}

// TestC05e: the same window for a reconnecting proxy (C05: "fully resynchronised ... whatever happened while it was away" includes a change published while it is being registered again).
func TestC05e(t *testing.T) {
	res := engine.NewResult("C05", "e-reconnect-during-push")
	res.Rule = "for every operation of the alphabet from the rich base, every proxy and both protocol flavours: a proxy that was connected and synchronised reconnects, presenting what it retained; the operation's whole push runs while the new connection is between registration and the end of its initialisation; afterwards it must hold what a new connection receives; non-trivial = case in which the window was reached"
	initWindowTest(t, res, true)
}

func initWindowTest(t *testing.T, res *engine.Result, reconnect bool) {
	env := engine.GetEnv()
	defer res.Write(t, env)
	if env.Replay != "" {
		var ic initCase
		if err := engine.ReadReplay(env.Replay, &ic); err != nil {
			t.Fatal(err)
		}
		ic.Op.Obj = universe[ic.Op.ObjIdx].Variants[ic.Op.Variant]
		fs, _ := runInitWindow(t, ic)
		for _, f := range fs {
			res.Violate(f.key, f.desc, ic)
		}
		return
	}
	baseList := []string{"rich"}
	core := coreObjs
	if env.Thorough() {
		baseList = []string{"rich", "scoped", "empty"}
		core = nil
	}
	var ord int64
	for _, b := range baseList {
		for _, o := range enabledOps(bases[b](), core) {
			for pi := range proxies {
				for _, delta := range []bool{false, true} {
					ord++
					if !env.Mine(ord) {
						continue
					}
					if env.Expired() {
						res.Cap("deadline")
						return
					}
					ic := initCase{b, o, pi, delta, reconnect}
					fs, fired := runInitWindow(t, ic)
					res.Evaluations++
					res.Traces++
					res.States++
					res.Transitions += 2
					if fired {
						res.NontrivialCase(ic.String())
					}
					res.Outcome(fmt.Sprintf("fired=%v findings=%d", fired, len(fs)))
					for _, f := range fs {
						res.Violate(f.key, f.desc, ic)
					}
					if ord%23 == 0 {
						res.Sample(ic.String())
					}
				}
			}
		}
	}
}
