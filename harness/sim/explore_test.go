package sim

import (
	"fmt"
	"os"
	"sort"
	"strings"
	"testing"
	"testing/synctest"

	"istio.io/istio/zz_verif/engine"
)

// history = base state + operations + where the harness lets the debounce interval elapse
type history struct {
	Base  string `json:"base"`
	Ops   []op   `json:"ops"`
	Flush int    `json:"flush_mask"` // bit i set: quiesce (and check) after op i; the last op always is
}

func (h history) String() string {
	var s []string
	for i, o := range h.Ops {
		x := o.String()
		if h.Flush&(1<<i) != 0 || i == len(h.Ops)-1 {
			x += " |"
		}
		s = append(s, x)
	}
	return h.Base + ": " + strings.Join(s, " ")
}

func (h *history) resolve() {
	for i := range h.Ops {
		h.Ops[i].Obj = universe[h.Ops[i].ObjIdx].Variants[h.Ops[i].Variant]
	}
}

var coreObjs = map[string]bool{"se-a": true, "se-a2": true, "vs-a": true, "dr-a": true, "sidecar-ns1": true, "k8s-slice": true, "pa-ns1": true, "we-w": true, "k8s-hl-slice": true, "we-w2": true}

// coldMemo: per worker process, cold-server results per object set
var coldMemo = map[string][]snapshot{}

func coldSnapshots(t *testing.T, st ustate) []snapshot {
	k := st.key()
	if s, ok := coldMemo[k]; ok {
		return s
	}
	var out []snapshot
	engine.GCPoint(1)
	synctest.Test(t, func(t *testing.T) {
		cold := newServer(t, st.objects())
		for _, p := range proxies {
			out = append(out, cold.fetch(p, false).snapshot())
		}
	})
	coldMemo[k] = out
	return out
}

type finding struct {
	key, desc string
}

type runStats struct {
	checks        int
	skippedPushes int // (proxy,type) pairs that got no response in a batch in which something changed
	narrowed      int // non-wildcard partial responses
}

// runHistory executes one history on a fresh live server with all clients attached and evaluates
// the oracles at every quiescent point. mode: "c01" (sotw clients: live = fresh = cold) or "c03"
// (adds delta twins: delta = sotw).
func runHistory(t *testing.T, h history, mode string) (fs []finding, rs runStats) {
	st := bases[h.Base]()
	type point struct {
		state ustate
		snaps []snapshot // sotw client snapshots per proxy
		label string
	}
	var points []point
	engine.GCPoint(1)
	synctest.Test(t, func(t *testing.T) {
		srv := newServer(t, st.objects())
		var sotw, delta, all []*client
		for _, p := range proxies {
			c := newClient(p, false)
			c.connect(srv, false, -1)
			sotw = append(sotw, c)
			all = append(all, c)
			if mode == "c03" {
				d := newClient(p, true)
				d.connect(srv, false, -1)
				delta = append(delta, d)
				all = append(all, d)
			}
		}
		srv.quiesce(all...)
		var batch []string
		before := make([]map[string]int, len(sotw))
		for i, o := range h.Ops {
			if len(batch) == 0 {
				for ci, c := range sotw {
					before[ci] = map[string]int{}
					for _, ty := range clientTypes {
						before[ci][ty] = c.ts[ty].responses
					}
				}
			}
			srv.apply(o)
			st = st.after(o)
			batch = append(batch, o.String())
			if h.Flush&(1<<i) == 0 && i != len(h.Ops)-1 {
				// no flush: only let the registries' own notifications settle into the debouncer
				srv.settle()
				continue
			}
			srv.quiesce(all...)
			label := strings.Join(batch, "+")
			rs.checks++
			for ci, c := range sotw {
				for _, ty := range clientTypes {
					if c.ts[ty].requested && c.ts[ty].responses == before[ci][ty] {
						rs.skippedPushes++
					}
				}
				if w := c.warming(); len(w) > 0 {
					fs = append(fs, finding{fmt.Sprintf("warming:%s", strings.Join(w, ",")), fmt.Sprintf("after %s client %s still waits for %v", label, c.spec.Name, w)})
				}
				if mode == "c06" {
					continue
				}
				// O1: what a new connection of the same node gets from the same live server
				fresh := srv.fetch(c.spec, false)
				if d := diffSnap(c.snapshot(), fresh.snapshot()); d != "" {
					if os.Getenv("VERIF_DUMP_FRESH") != "" {
						fmt.Printf("DUMP-FRESH %s after %s alive=%v warming=%v\n--- held\n%s\n--- fresh\n%s\n", h.String(), label, fresh.alive(), fresh.warming(), strings.Join(c.log, "\n"), strings.Join(fresh.log, "\n"))
					}
					for _, cl := range diffClasses(c.snapshot(), fresh.snapshot()) {
						fs = append(fs, finding{"held-vs-new-connection:" + cl,
							fmt.Sprintf("after %s the connected %s holds something else than a new connection receives (first=held, second=new connection): %s", label, c.spec.Name, d)})
					}
				}
			}
			if mode == "c06" && i == len(h.Ops)-1 {
				// (only at the last point of a history: emptying the cache is part of the oracle and would
				// disturb the rest of the history; every prefix is a history of its own)
				// the cache must be invisible at every quiescent point of every history: what a new
				// connection is served now (possibly from the cache) equals a fresh generation at the same
				// moment on the same control plane (cache emptied)
				var served []snapshot
				for _, c := range sotw {
					served = append(served, srv.fetch(c.spec, false).snapshot())
				}
				srv.s.Discovery.Cache.ClearAll()
				for ci, c := range sotw {
					regen := srv.fetch(c.spec, false).snapshot()
					if d := diffSnap(served[ci], regen); d != "" {
						for _, cl := range diffClasses(served[ci], regen) {
							fs = append(fs, finding{"history:served-vs-regenerated:" + cl,
								fmt.Sprintf("after %s what %s is served with the cache (first) differs from a fresh generation at the same moment (second): %s", label, c.spec.Name, d)})
						}
					}
				}
			}
			if mode == "c03" {
				for ci, d := range delta {
					if w := d.warming(); len(w) > 0 {
						fs = append(fs, finding{fmt.Sprintf("delta-warming:%s", strings.Join(w, ",")), fmt.Sprintf("after %s delta client %s still waits for %v", label, d.spec.Name, w)})
					}
					if df := diffSnap(sotw[ci].snapshot(), d.snapshot()); df != "" {
						for _, cl := range diffClasses(sotw[ci].snapshot(), d.snapshot()) {
							fs = append(fs, finding{"sotw-vs-delta:" + cl,
								fmt.Sprintf("after %s the delta client of %s differs from its state-of-the-world twin (first=sotw, second=delta): %s", label, d.spec.Name, df)})
						}
					}
				}
			}
			var snaps []snapshot
			for _, c := range sotw {
				snaps = append(snaps, c.snapshot())
			}
			points = append(points, point{append(ustate(nil), st...), snaps, label})
			batch = nil
		}
		if n := os.Getenv("VERIF_DUMP_RESOURCE"); n != "" {
			for _, ty := range clientTypes {
				if b, ok := sotw[0].snapshot()[ty][n]; ok {
					fmt.Printf("DUMP %s %s held by %s:\n%s\n", short(ty), n, sotw[0].spec.Name, textOf(ty, b))
				}
			}
		}
		if os.Getenv("VERIF_VERBOSE") != "" {
			for _, c := range all {
				fmt.Printf("--- client %s delta=%v\n%s\n", c.spec.Name, c.delta, strings.Join(c.log, "\n"))
			}
		}
		for _, c := range all {
			c.disconnect()
		}
		synctest.Wait()
	})
	// O2: cold server on the objects of each quiescent point (outside the live bubble)
	if mode == "c01" {
		for _, p := range points {
			cold := coldSnapshots(t, p.state)
			for ci := range proxies {
				if d := diffSnap(p.snaps[ci], cold[ci]); d != "" {
					for _, cl := range diffClasses(p.snaps[ci], cold[ci]) {
						fs = append(fs, finding{"live-vs-cold:" + cl,
							fmt.Sprintf("after %s the connected %s differs from a cold control plane on the same objects (first=live, second=cold): %s", p.label, proxies[ci].Name, d)})
					}
				}
			}
		}
	}
	return fs, rs
}

func diffTypes(a, b snapshot) string {
	var ts []string
	for _, t := range clientTypes {
		if diffSnap(snapshot{t: a[t]}, snapshot{t: b[t]}) != "" {
			ts = append(ts, short(t))
		}
	}
	return strings.Join(ts, "+")
}

// enumerate calls f with every history: all op sequences of length d from each base over the
// alphabet (core or full), times every flush partition.
func enumerate(d int, core map[string]bool, f func(h history) bool) {
	for _, b := range baseNames() {
		var rec func(st ustate, ops []op) bool
		rec = func(st ustate, ops []op) bool {
			if len(ops) == d {
				for mask := 0; mask < 1<<(d-1); mask++ {
					if !f(history{Base: b, Ops: append([]op(nil), ops...), Flush: mask}) {
						return false
					}
				}
				return true
			}
			for _, o := range enabledOps(st, core) {
				if !rec(st.after(o), append(ops, o)) {
					return false
				}
			}
			return true
		}
		if !rec(bases[b](), nil) {
			return
		}
	}
}

func explore(t *testing.T, property, part, mode string) {
	env := engine.GetEnv()
	res := engine.NewResult(property, part)
	res.Rule = "history = base state (empty/rich/scoped) x every sequence of create/update/delete operations of the stated length over the object universe x every partition into debounce batches, run on a real control plane in a virtual-time bubble with 3 proxies attached; non-trivial = history in which some (proxy, type) push was skipped or the clients' held state changed"
	defer res.Write(t, env)
	if env.Replay != "" {
		var h history
		if err := engine.ReadReplay(env.Replay, &h); err != nil {
			t.Fatal(err)
		}
		h.resolve()
		fs, _ := runHistory(t, h, mode)
		for _, f := range fs {
			res.Violate(f.key, f.desc, h)
		}
		return
	}
	type plan struct {
		d    int
		core map[string]bool
	}
	plans := []plan{{1, nil}, {2, coreObjs}}
	if env.Thorough() {
		plans = []plan{{1, nil}, {2, nil}, {3, coreObjs}}
	}
	var bounds []string
	for _, p := range plans {
		bounds = append(bounds, fmt.Sprintf("depth %d over %s alphabet", p.d, map[bool]string{true: "full", false: "core"}[p.core == nil]))
	}
	res.Bounds["histories"] = strings.Join(bounds, "; ")
	res.Bounds["universe_objects"] = len(universe)
	res.Bounds["proxies"] = len(proxies)
	// determinism probe: one history twice
	probe := history{Base: "rich", Ops: enabledOps(bases["rich"](), nil)[:2], Flush: 1}
	f1, _ := runHistory(t, probe, mode)
	f2, _ := runHistory(t, probe, mode)
	if fmt.Sprint(f1) != fmt.Sprint(f2) {
		res.Infra = "history execution is not deterministic"
		return
	}
	states := map[string]bool{}
	var ord int64
	// debugging aid: VERIF_ORDS=lo-hi restricts a run to a window of history ordinals
	var ordLo, ordHi int64
	fmt.Sscanf(os.Getenv("VERIF_ORDS"), "%d-%d", &ordLo, &ordHi)
	for _, p := range plans {
		enumerate(p.d, p.core, func(h history) bool {
			ord++
			if !env.Mine(ord) {
				return true
			}
			if ordLo > 0 && (ord < ordLo || ord > ordHi) {
				return true
			}
			if os.Getenv("VERIF_ORD_FIND") != "" {
				if h.String() == os.Getenv("VERIF_ORD_FIND") {
					fmt.Printf("ORD %d %s\n", ord, h.String())
				}
				return true
			}
			if env.Expired() {
				res.Cap(fmt.Sprintf("deadline during depth %d", p.d))
				return false
			}
			fs, rs := runHistory(t, h, mode)
			res.Evaluations++
			res.Traces++
			res.Transitions += int64(len(h.Ops))
			st := bases[h.Base]()
			for _, o := range h.Ops {
				st = st.after(o)
			}
			states[st.key()] = true
			if rs.skippedPushes > 0 {
				res.NontrivialCase(h.String())
			}
			res.Count("quiescent_points_checked", int64(rs.checks))
			res.Count("skipped_proxy_type_pushes", int64(rs.skippedPushes))
			res.Outcome(fmt.Sprintf("findings=%d skipped=%d", len(fs), rs.skippedPushes))
			for _, f := range fs {
				res.Violate(f.key, fmt.Sprintf("%s [history %s; ordinal %d]", f.desc, h.String(), ord), h)
			}
			if ord%401 == 0 {
				res.Sample(h.String())
			}
			return true
		})
	}
	res.States = int64(len(states))
	var ks []string
	for k := range states {
		ks = append(ks, k)
	}
	sort.Strings(ks)
	if len(ks) > 0 {
		res.Sample(map[string]any{"a_final_object_set": ks[len(ks)/2]})
	}
}

func TestC01(t *testing.T) { explore(t, "C01", "histories", "c01") }
func TestC03(t *testing.T) { explore(t, "C03", "delta-twin", "c03") }
func TestC06e(t *testing.T) { explore(t, "C06", "e-histories-cache-off", "c06") }
