package sim

// C01, ambient part: histories over the ambient universe on a real control plane with
// PILOT_ENABLE_AMBIENT=true (process environment of the worker), three long-lived clients attached:
// a wildcard ztunnel, an on-demand ztunnel (both on node1, delta xDS: Address + Authorization) and
// the waypoint proxy (reference Envoy client: CDS/EDS/LDS/RDS).

import (
	"fmt"
	"net/netip"
	"os"
	"reflect"
	"strconv"
	"strings"
	"testing"
	"testing/synctest"

	"google.golang.org/protobuf/proto"
	corev1 "k8s.io/api/core/v1"
	discoveryv1 "k8s.io/api/discovery/v1"
	metav1 "k8s.io/apimachinery/pkg/apis/meta/v1"
	"k8s.io/apimachinery/pkg/runtime"
	gatewayv1 "sigs.k8s.io/gateway-api/apis/v1"

	networkingclient "istio.io/client-go/pkg/apis/networking/v1"
	securityclient "istio.io/client-go/pkg/apis/security/v1"
	"istio.io/istio/pilot/pkg/features"
	v3 "istio.io/istio/pilot/pkg/xds/v3"
	kubelib "istio.io/istio/pkg/kube"
	"istio.io/istio/pkg/kube/controllers"
	"istio.io/istio/pkg/kube/kclient"
	istiolog "istio.io/istio/pkg/log"
	"istio.io/istio/pkg/workloadapi"
	"istio.io/istio/zz_verif/engine"
)

type ahistory struct {
	Base  string `json:"base"`
	Ops   []aop  `json:"ops"`
	Flush int    `json:"flush_mask"` // bit i set: quiesce (and check) after op i; the last op always is
}

func (h ahistory) String() string {
	var s []string
	for i, o := range h.Ops {
		x := o.String()
		if h.Flush&(1<<i) != 0 || i == len(h.Ops)-1 {
			x += " |"
		}
		s = append(s, x)
	}
	return h.Base + ": " + strings.Join(s, " ")
}

// ---- the control plane on an ambient state

type ambServer struct {
	*simServer
	rv int // resourceVersion counter: every write gets a new one, as from the API server
}

// newAmbientServer starts a control plane on the static environment (namespaces, nodes, the waypoint's
// own Service and Pod), runs the warm-up, and then lets the objects of the state arrive, one universe
// object per virtual second in universe order, before the first debounce interval that matters elapses.
//
// Why not start it on all objects at once: inside a virtual-time bubble a krt collection that registers
// a new dependency on an informer-backed collection polls for the registration to sync with a 1 ms sleep
// while holding its mutex (pkg/kube/krt collection.go, registerDependency); any goroutine that wants
// that mutex meanwhile is blocked on a sync.Mutex, which a bubble does not count as idle, so virtual time
// never advances and the process dies with "all goroutines are asleep" (not an istio defect: with a real
// clock the sleep simply ends). The registration happens the first time a collection's builder reads the
// other collection while objects of that kind exist. The warm-up makes every collection do that once, in
// isolation: objects in namespace `warm`, created one per virtual second in an order that never makes two
// collections react to the same event while one of them registers (e.g. the namespace-wide
// PeerAuthentication before the one with a selector), then removed again in reverse order. Afterwards no
// registration is left to happen, whatever the history does.
// Consequence for oracle O2: the cold control plane is built the same way, so "cold" means: started on an
// empty cluster, warmed up in another namespace, then saw exactly the final objects being created, nothing
// else. (A control plane started with the objects already present is out of reach of a bubble without a
// runtime change: engine feature request reported.)
func newAmbientServer(t *testing.T, st astate) *ambServer {
	cur := aEmpty()
	var objs []object
	for _, o := range cur.objects() {
		k := o.Kube.DeepCopyObject()
		k.(metav1.Object).SetResourceVersion("1")
		objs = append(objs, object{Kube: k})
		if o.Cfg != nil {
			objs = append(objs, object{Cfg: o.Cfg})
		}
	}
	s := &ambServer{simServer: newServer(t, objs), rv: 1}
	for _, o := range warmupObjects {
		s.write("create", o)
		s.settle()
	}
	for i := len(warmupObjects) - 1; i >= 0; i-- {
		s.write("delete", warmupObjects[i])
		s.settle()
	}
	for i, v := range st {
		if v == cur[i] {
			continue
		}
		next := append(astate(nil), cur...)
		next[i] = v
		s.applyA(cur, next)
		s.settle()
		cur = next
	}
	s.flushServer()
	return s
}

func kwrite[T controllers.ComparableObject](c kubelib.Client, verb string, o runtime.Object) error {
	w := kclient.NewWriteClient[T](c)
	obj := o.(T)
	var err error
	switch verb {
	case "create":
		_, err = w.Create(obj)
	case "update":
		_, err = w.Update(obj)
	case "delete":
		err = w.Delete(obj.GetName(), obj.GetNamespace())
	}
	return err
}

func (s *ambServer) write(verb string, o aobj) {
	s.rv++
	k := o.Kube.DeepCopyObject()
	k.(metav1.Object).SetResourceVersion(strconv.Itoa(s.rv))
	c := s.s.KubeClient()
	var err error
	switch k.(type) {
	case *corev1.Namespace:
		err = kwrite[*corev1.Namespace](c, verb, k)
	case *corev1.Pod:
		err = kwrite[*corev1.Pod](c, verb, k)
	case *corev1.Service:
		err = kwrite[*corev1.Service](c, verb, k)
	case *discoveryv1.EndpointSlice:
		err = kwrite[*discoveryv1.EndpointSlice](c, verb, k)
	case *networkingclient.ServiceEntry:
		err = kwrite[*networkingclient.ServiceEntry](c, verb, k)
	case *networkingclient.WorkloadEntry:
		err = kwrite[*networkingclient.WorkloadEntry](c, verb, k)
	case *securityclient.AuthorizationPolicy:
		err = kwrite[*securityclient.AuthorizationPolicy](c, verb, k)
	case *securityclient.PeerAuthentication:
		err = kwrite[*securityclient.PeerAuthentication](c, verb, k)
	case *gatewayv1.Gateway:
		err = kwrite[*gatewayv1.Gateway](c, verb, k)
	default:
		panic(fmt.Sprintf("unsupported ambient object %T", k))
	}
	if err != nil {
		panic(fmt.Sprintf("%s %s: %v", verb, o.key(), err))
	}
	if o.Cfg != nil {
		// the same API object as the CRD client's store sees it
		s.simServer.apply(op{Verb: verb, Obj: object{Cfg: o.Cfg}})
	}
}

// applyA moves the Kubernetes API from one state to the next: every object that differs is written,
// created ones and changed ones in listing order (the operation's own object before the slices
// derived from it), removed ones afterwards in reverse order. All writes of one operation happen at
// the same virtual instant.
func (s *ambServer) applyA(before, after astate) {
	old := map[string]aobj{}
	for _, o := range before.objects() {
		old[o.key()] = o
	}
	now := map[string]bool{}
	for _, o := range after.objects() {
		now[o.key()] = true
		p, ok := old[o.key()]
		switch {
		case !ok:
			s.write("create", o)
		case !reflect.DeepEqual(p.Kube, o.Kube):
			s.write("update", o)
		}
	}
	bo := before.objects()
	for i := len(bo) - 1; i >= 0; i-- {
		if !now[bo[i].key()] {
			s.write("delete", bo[i])
		}
	}
}

// aquiesce = flush + run every client until nobody has anything left to say.
func (s *ambServer) aquiesce(zs []*zclient, cs []*client) {
	for round := 0; round < 200; round++ {
		s.settle()
		s.flushServer()
		synctest.Wait()
		progress := false
		for _, z := range zs {
			if z.pump() {
				progress = true
			}
		}
		for _, c := range cs {
			if c.pump() {
				progress = true
			}
		}
		synctest.Wait()
		if progress || s.s.Discovery.CommittedUpdates.Load() < s.s.Discovery.InboundUpdates.Load() {
			continue
		}
		again := false
		for _, z := range zs {
			if len(z.ds.inbox) > 0 {
				again = true
			}
		}
		for _, c := range cs {
			if c.ss != nil && len(c.ss.inbox) > 0 || c.ds != nil && len(c.ds.inbox) > 0 {
				again = true
			}
		}
		if !again {
			return
		}
	}
	panic("aquiesce: exchange does not die out")
}

func (s *ambServer) zfetch(spec ztSpec) *zclient {
	z := newZClient(spec)
	z.connect(s.simServer, false, -1)
	s.aquiesce([]*zclient{z}, nil)
	z.disconnect()
	synctest.Wait()
	return z
}

// ---- cold control planes, memoised per object set

type coldResult struct {
	zt []zsnap
	wp snapshot
}

var ambColdMemo = map[string]coldResult{}

func ambientCold(t *testing.T, st astate) coldResult {
	k := st.key()
	if r, ok := ambColdMemo[k]; ok {
		return r
	}
	var r coldResult
	engine.GCPoint(1)
	synctest.Test(t, func(t *testing.T) {
		cold := newAmbientServer(t, st)
		for _, sp := range ztSpecs {
			r.zt = append(r.zt, cold.zfetch(sp).snapshot())
		}
		r.wp = cold.fetch(waypointSpec, false).snapshot()
	})
	ambColdMemo[k] = r
	return r
}

// ---- oracles

// onDemandFindings compares what a long-lived on-demand ztunnel holds with a reference on-demand
// answer (new connection, or cold control plane) and with the complete current Address set `all`
// (what a wildcard connection to the same control plane receives).
// The on-demand protocol lets the server send more than was asked for (every workload of the node,
// the workloads of a subscribed service), so a resource the long-lived client holds beyond the
// reference is accepted as long as it is the current one; it is a violation when the control plane
// no longer has it or has another content (nobody will ever correct it).
func onDemandFindings(oracle string, held, ref, all zsnap, label, who string) []finding {
	var fs []finding
	t := v3.AddressType
	trimmed := zsnap{t: map[string][]byte{}, v3.WorkloadAuthorizationType: held[v3.WorkloadAuthorizationType]}
	for n, b := range held[t] {
		if _, ok := ref[t][n]; ok {
			trimmed[t][n] = b
			continue
		}
		cur, ok := all[t][n]
		switch {
		case !ok:
			fs = append(fs, finding{oracle + ":WDS:" + zclass(t, n) + ":held-but-gone",
				fmt.Sprintf("after %s the on-demand ztunnel still holds %s, which the control plane no longer has (%s)", label, n, who)})
		case string(cur) != string(b):
			fs = append(fs, finding{oracle + ":WDS:" + zclass(t, n) + ":held-extra-stale@" + firstDiffPath(zmsg(t, b), zmsg(t, cur)),
				fmt.Sprintf("after %s the on-demand ztunnel holds an outdated %s (%s)", label, n, who)})
		}
	}
	if d := zdiffSnap(trimmed, ref); d != "" {
		// what the reference has and the long-lived client lacks is keyed by why the reference has it
		for n, b := range ref[t] {
			if _, ok := trimmed[t][n]; !ok {
				fs = append(fs, finding{oracle + ":WDS:" + zclass(t, n) + ":missing:" + onDemandReason(b, ref[t]),
					fmt.Sprintf("after %s the on-demand ztunnel lacks %s, which %s receives: %s", label, n, who, d)})
			}
		}
		withRef := zsnap{t: map[string][]byte{}, v3.WorkloadAuthorizationType: ref[v3.WorkloadAuthorizationType]}
		for n, b := range ref[t] {
			if _, ok := trimmed[t][n]; ok {
				withRef[t][n] = b
			}
		}
		for _, cl := range zdiffClasses(trimmed, withRef) {
			fs = append(fs, finding{oracle + ":" + cl, fmt.Sprintf("after %s the on-demand ztunnel differs from %s (first=held, second=%s): %s", label, who, who, d)})
		}
	}
	return fs
}

// onDemandReason says why an on-demand connection with the fixed subscription receives a resource:
// it answers a name subscribed by address or by hostname, it is a member of a subscribed service, or it
// runs on the ztunnel's node.
func onDemandReason(b []byte, ref map[string][]byte) string {
	var a workloadapi.Address
	if proto.Unmarshal(b, &a) != nil {
		return "unreadable"
	}
	byAddr, byHost := map[string]bool{}, map[string]bool{}
	for _, n := range onDemandNames {
		if strings.HasPrefix(n, "/") {
			byAddr[n] = true
		} else {
			byHost[n] = true
		}
	}
	addrName := func(network string, ip []byte) string {
		x, _ := netip.AddrFromSlice(ip)
		return network + "/" + x.String()
	}
	if s := a.GetService(); s != nil {
		for _, na := range s.Addresses {
			if byAddr[addrName(na.Network, na.Address)] {
				return "subscribed-by-address"
			}
		}
		if byHost[s.Namespace+"/"+s.Hostname] {
			return "subscribed-by-hostname"
		}
		return "other"
	}
	w := a.GetWorkload()
	for _, ip := range w.GetAddresses() {
		if byAddr[addrName(w.Network, ip)] {
			return "subscribed-by-address"
		}
	}
	// services subscribed by hostname, or by one of their addresses
	for _, rb := range ref {
		var ra workloadapi.Address
		if proto.Unmarshal(rb, &ra) != nil || ra.GetService() == nil {
			continue
		}
		s := ra.GetService()
		for _, na := range s.Addresses {
			if byAddr[addrName(na.Network, na.Address)] {
				byHost[s.Namespace+"/"+s.Hostname] = true
			}
		}
	}
	for k := range w.GetServices() {
		if byHost[k] {
			return "member-of-subscribed-service"
		}
	}
	if w.GetNode() == ztunnelNode {
		return "same-node"
	}
	return "other"
}

// namesFindings: every subscribed name that exists is answered by something held, every subscribed
// name that does not exist by nothing. Existence is read off the universe objects, not off istio.
func namesFindings(st astate, z *zclient, label string) []finding {
	var fs []finding
	ips, hosts := st.addressFacts()
	for _, n := range z.spec.Names {
		_, rest, _ := strings.Cut(n, "/")
		exists := hosts[n] || ips[rest]
		hits := heldFor(z.held[v3.AddressType], n)
		kind := "address"
		if hosts[n] || !strings.HasPrefix(n, "/") {
			kind = "hostname"
		}
		switch {
		case exists && len(hits) == 0:
			fs = append(fs, finding{"ondemand-names:WDS:" + kind + ":exists-but-not-held",
				fmt.Sprintf("after %s the on-demand ztunnel is subscribed to %s, which exists, and holds nothing for it", label, n)})
		case !exists && len(hits) > 0:
			fs = append(fs, finding{"ondemand-names:WDS:" + kind + ":held-but-does-not-exist",
				fmt.Sprintf("after %s the on-demand ztunnel holds %v for %s, which does not exist", label, hits, n)})
		}
	}
	return fs
}

// runAmbientHistory executes one history with the three clients attached and evaluates the oracles
// at every quiescent point.
func runAmbientHistory(t *testing.T, h ahistory) (fs []finding, rs runStats) {
	st := abases[h.Base]()
	type point struct {
		state astate
		zt    []zsnap
		wp    snapshot
		label string
	}
	var points []point
	engine.GCPoint(1)
	synctest.Test(t, func(t *testing.T) {
		srv := newAmbientServer(t, st)
		var zs []*zclient
		for _, sp := range ztSpecs {
			z := newZClient(sp)
			z.connect(srv.simServer, false, -1)
			zs = append(zs, z)
		}
		wp := newClient(waypointSpec, false)
		wp.connect(srv.simServer, false, -1)
		cs := []*client{wp}
		srv.aquiesce(zs, cs)
		var batch []string
		zBefore := make([]map[string]int, len(zs))
		wpBefore := map[string]int{}
		var snapBefore []string
		digest := func() []string {
			var d []string
			for _, z := range zs {
				d = append(d, fmt.Sprint(z.held))
			}
			return append(d, fmt.Sprint(wp.snapshot()))
		}
		for i, o := range h.Ops {
			if len(batch) == 0 {
				for zi, z := range zs {
					zBefore[zi] = map[string]int{}
					for _, ty := range ztTypes {
						zBefore[zi][ty] = z.responses[ty]
					}
				}
				for _, ty := range clientTypes {
					wpBefore[ty] = wp.ts[ty].responses
				}
				snapBefore = digest()
			}
			next := st.after(o)
			srv.applyA(st, next)
			st = next
			batch = append(batch, o.String())
			if h.Flush&(1<<i) == 0 && i != len(h.Ops)-1 {
				srv.settle()
				continue
			}
			srv.aquiesce(zs, cs)
			label := strings.Join(batch, "+")
			rs.checks++
			for zi, z := range zs {
				for _, ty := range ztTypes {
					if z.responses[ty] == zBefore[zi][ty] {
						rs.skippedPushes++
					}
				}
			}
			for _, ty := range clientTypes {
				if wp.ts[ty].requested && wp.ts[ty].responses == wpBefore[ty] {
					rs.skippedPushes++
				}
			}
			if fmt.Sprint(digest()) != fmt.Sprint(snapBefore) {
				rs.narrowed++ // (used as: the batch changed what some client holds)
			}
			// O1: a new connection of the same node with the same subscription on the same control plane
			wild := srv.zfetch(ztSpecs[0]).snapshot()
			for _, z := range zs {
				if !z.alive() {
					fs = append(fs, finding{"stream-closed:" + z.spec.Name, fmt.Sprintf("after %s the stream of %s was closed by the control plane: %v", label, z.spec.Name, <-z.done)})
					continue
				}
				if z.spec.OnDemand {
					fresh := srv.zfetch(z.spec).snapshot()
					fs = append(fs, onDemandFindings("ondemand-held-vs-new-connection", z.snapshot(), fresh, wild, label, "a new on-demand connection")...)
					fs = append(fs, namesFindings(st, z, label)...)
					continue
				}
				if d := zdiffSnap(z.snapshot(), wild); d != "" {
					if os.Getenv("VERIF_DUMP_FRESH") != "" {
						fmt.Printf("DUMP %s after %s\n--- held\n%s\n", h.String(), label, strings.Join(z.log, "\n"))
					}
					for _, cl := range zdiffClasses(z.snapshot(), wild) {
						fs = append(fs, finding{"held-vs-new-connection:" + cl,
							fmt.Sprintf("after %s the connected %s holds something else than a new connection receives (first=held, second=new connection): %s", label, z.spec.Name, d)})
					}
				}
			}
			if w := wp.warming(); len(w) > 0 {
				fs = append(fs, finding{"warming:waypoint:" + strings.Join(w, ","), fmt.Sprintf("after %s the waypoint still waits for %v", label, w)})
			}
			freshWp := srv.fetch(waypointSpec, false).snapshot()
			if d := diffSnap(wp.snapshot(), freshWp); d != "" {
				for _, cl := range diffClasses(wp.snapshot(), freshWp) {
					fs = append(fs, finding{"held-vs-new-connection:waypoint:" + cl,
						fmt.Sprintf("after %s the connected waypoint holds something else than a new connection receives (first=held, second=new connection): %s", label, d)})
				}
			}
			var zsn []zsnap
			for _, z := range zs {
				zsn = append(zsn, z.snapshot())
			}
			points = append(points, point{append(astate(nil), st...), zsn, wp.snapshot(), label})
			batch = nil
		}
		if os_verbose() {
			for _, z := range zs {
				fmt.Printf("--- client %s\n%s\n", z.spec.Name, strings.Join(z.log, "\n"))
			}
			fmt.Printf("--- client waypoint\n%s\n", strings.Join(wp.log, "\n"))
		}
		for _, z := range zs {
			z.disconnect()
		}
		wp.disconnect()
		synctest.Wait()
	})
	// O2: a cold control plane started on the objects of each quiescent point
	for _, p := range points {
		cold := ambientCold(t, p.state)
		for zi, sp := range ztSpecs {
			if sp.OnDemand {
				fs = append(fs, onDemandFindings("ondemand-live-vs-cold", p.zt[zi], cold.zt[zi], cold.zt[0], p.label, "a cold control plane on the same objects")...)
				continue
			}
			if d := zdiffSnap(p.zt[zi], cold.zt[zi]); d != "" {
				for _, cl := range zdiffClasses(p.zt[zi], cold.zt[zi]) {
					fs = append(fs, finding{"live-vs-cold:" + cl,
						fmt.Sprintf("after %s the connected %s differs from a cold control plane on the same objects (first=live, second=cold): %s", p.label, sp.Name, d)})
				}
			}
		}
		if d := diffSnap(p.wp, cold.wp); d != "" {
			for _, cl := range diffClasses(p.wp, cold.wp) {
				fs = append(fs, finding{"live-vs-cold:waypoint:" + cl,
					fmt.Sprintf("after %s the connected waypoint differs from a cold control plane on the same objects (first=live, second=cold): %s", p.label, d)})
			}
		}
	}
	return dedupFindings(fs), rs
}

// quietLogs: the control plane's informational log (tens of lines per control plane instance) is only
// kept when a case is looked at by hand.
func quietLogs() {
	if os_verbose() {
		istiolog.FindScope("push").SetOutputLevel(istiolog.DebugLevel)
		return
	}
	for _, sc := range istiolog.Scopes() {
		sc.SetOutputLevel(istiolog.NoneLevel)
	}
}

func dedupFindings(fs []finding) []finding {
	seen := map[string]bool{}
	var out []finding
	for _, f := range fs {
		if !seen[f.key] {
			seen[f.key] = true
			out = append(out, f)
		}
	}
	return out
}

// ambientEnumerate calls f with every history: all op sequences of length d from each base over the
// alphabet (core or full), times every flush partition.
func ambientEnumerate(d int, core map[string]bool, f func(h ahistory) bool) {
	for _, b := range abaseNames() {
		var rec func(st astate, ops []aop) bool
		rec = func(st astate, ops []aop) bool {
			if len(ops) == d {
				for mask := 0; mask < 1<<(d-1); mask++ {
					if !f(ahistory{Base: b, Ops: append([]aop(nil), ops...), Flush: mask}) {
						return false
					}
				}
				return true
			}
			for _, o := range aEnabledOps(st, core) {
				if !rec(st.after(o), append(ops, o)) {
					return false
				}
			}
			return true
		}
		if !rec(abases[b](), nil) {
			return
		}
	}
}

func TestC01Ambient(t *testing.T) {
	env := engine.GetEnv()
	res := engine.NewResult("C01", "ambient-histories")
	res.Rule = "history = ambient base state (empty/rich/waypointed) x every sequence of create/update/delete operations of the stated length over the ambient object universe (Kubernetes objects + istio CRDs; EndpointSlices of selector services derived) x every partition into debounce batches, run on a real control plane with PILOT_ENABLE_AMBIENT=true in a virtual-time bubble with a wildcard ztunnel, an on-demand ztunnel and a waypoint proxy attached; non-trivial = history in which some (client, type) push was skipped or narrowed while something the clients hold changed"
	defer res.Write(t, env)
	quietLogs()
	if !features.EnableAmbient {
		res.Infra = "PILOT_ENABLE_AMBIENT is not set in the worker's environment"
		return
	}
	if env.Replay != "" {
		var h ahistory
		if err := engine.ReadReplay(env.Replay, &h); err != nil {
			t.Fatal(err)
		}
		for i := range h.Ops {
			h.Ops[i].resolve()
		}
		fs, _ := runAmbientHistory(t, h)
		for _, f := range fs {
			res.Violate(f.key, f.desc, h)
		}
		return
	}
	type plan struct {
		d    int
		core map[string]bool
	}
	plans := []plan{{1, nil}, {2, ambientCore}}
	if env.Thorough() {
		plans = []plan{{1, nil}, {2, nil}, {3, ambientCore3}}
	}
	var bounds []string
	for _, p := range plans {
		what := "the full alphabet"
		if p.core != nil {
			what = "the core " + strings.Join(sortedKeys(p.core), ",")
		}
		bounds = append(bounds, fmt.Sprintf("depth %d over %s", p.d, what))
	}
	alphabet, coreN := 0, 0
	for _, u := range auniverse {
		if !u.Static {
			alphabet++
			if ambientCore[u.Name] {
				coreN++
			}
		}
	}
	res.Bounds["histories"] = strings.Join(bounds, "; ")
	res.Bounds["bases"] = strings.Join(abaseNames(), ",")
	res.Bounds["universe_objects"] = len(auniverse)
	res.Bounds["alphabet_objects"] = alphabet
	res.Bounds["core_objects"] = coreN
	res.Bounds["clients"] = "ztunnel-wildcard, ztunnel-ondemand, waypoint"
	res.Bounds["ondemand_names"] = strings.Join(onDemandNames, " ")
	// determinism probe: one history twice
	probe := ahistory{Base: "rich", Ops: aEnabledOps(abases["rich"](), nil)[:2], Flush: 1}
	f1, _ := runAmbientHistory(t, probe)
	f2, _ := runAmbientHistory(t, probe)
	if fmt.Sprint(f1) != fmt.Sprint(f2) {
		res.Infra = "history execution is not deterministic"
		return
	}
	states := map[string]bool{}
	var ord int64
	var ordLo, ordHi int64
	fmt.Sscanf(os.Getenv("VERIF_ORDS"), "%d-%d", &ordLo, &ordHi)
	for _, p := range plans {
		ambientEnumerate(p.d, p.core, func(h ahistory) bool {
			ord++
			if !env.Mine(ord) {
				return true
			}
			if ordLo > 0 && (ord < ordLo || ord > ordHi) {
				return true
			}
			if only := os.Getenv("VERIF_AMB_ONLY"); only != "" && h.String() != only {
				return true
			}
			if env.Expired() {
				res.Cap(fmt.Sprintf("deadline during depth %d", p.d))
				return false
			}
			fs, rs := runAmbientHistory(t, h)
			res.Evaluations++
			res.Traces++
			res.Transitions += int64(len(h.Ops))
			st := abases[h.Base]()
			for _, o := range h.Ops {
				st = st.after(o)
			}
			states[st.key()] = true
			if rs.skippedPushes > 0 && rs.narrowed > 0 {
				res.NontrivialCase(h.String())
			}
			res.Count("quiescent_points_checked", int64(rs.checks))
			res.Count("skipped_client_type_pushes", int64(rs.skippedPushes))
			res.Outcome(fmt.Sprintf("findings=%d skipped=%d changed=%v", len(fs), rs.skippedPushes, rs.narrowed > 0))
			for _, f := range fs {
				res.Violate(f.key, fmt.Sprintf("%s [history %s; ordinal %d]", f.desc, h.String(), ord), h)
			}
			if ord%211 == 0 {
				res.Sample(h.String())
			}
			return true
		})
	}
	res.States = int64(len(states))
	ks := sortedKeys(states)
	if len(ks) > 0 {
		res.Sample(map[string]any{"a_final_object_set": ks[len(ks)/2]})
	}
}
