package sim

import (
	"bytes"
	"os"
	"context"
	"fmt"
	"sort"
	"strings"
	"testing"
	"testing/synctest"
	"time"

	clusterv3 "github.com/envoyproxy/go-control-plane/envoy/config/cluster/v3"
	endpoint "github.com/envoyproxy/go-control-plane/envoy/config/endpoint/v3"
	listenerv3 "github.com/envoyproxy/go-control-plane/envoy/config/listener/v3"
	route "github.com/envoyproxy/go-control-plane/envoy/config/route/v3"
	"golang.org/x/time/rate"
	"google.golang.org/protobuf/encoding/prototext"
	"google.golang.org/protobuf/proto"
	corev1 "k8s.io/api/core/v1"
	discoveryv1 "k8s.io/api/discovery/v1"
	metav1 "k8s.io/apimachinery/pkg/apis/meta/v1"
	"k8s.io/apimachinery/pkg/runtime"

	meshconfig "istio.io/api/mesh/v1alpha1"
	"istio.io/istio/pilot/pkg/model"
	v3types "istio.io/istio/pilot/pkg/xds/v3"
	xdsfake "istio.io/istio/pilot/test/xds"
	"istio.io/istio/pkg/config"
	"istio.io/istio/pkg/config/mesh"
	dnsProto "istio.io/istio/pkg/dns/proto"
	"istio.io/istio/pkg/kube/krt"
)

const debounce = 5 * time.Second

func claName(b []byte) string {
	var m endpoint.ClusterLoadAssignment
	if proto.Unmarshal(b, &m) == nil {
		return m.ClusterName
	}
	return "?"
}

func rcName(b []byte) string {
	var m route.RouteConfiguration
	if proto.Unmarshal(b, &m) == nil {
		return m.Name
	}
	return "?"
}

// simServer is one real control plane (pilot/test/xds FakeDiscoveryServer) inside the current bubble.
type simServer struct {
	t *testing.T
	s *xdsfake.FakeDiscoveryServer
}

// object is one element of the universe: either an istio config or a Kubernetes object.
type object struct {
	Cfg  *config.Config
	Kube runtime.Object
}

func (o object) key() string {
	if o.Cfg != nil {
		return o.Cfg.GroupVersionKind.Kind + "/" + o.Cfg.Namespace + "/" + o.Cfg.Name
	}
	m := o.Kube.(metav1.Object)
	return fmt.Sprintf("%T/%s/%s", o.Kube, m.GetNamespace(), m.GetName())
}

func newServer(t *testing.T, objs []object) *simServer {
	model.VerifResetJwksChannels()
	// every krt collection of every control plane registers itself in this process-global handler and is
	// never removed: a fresh handler per instance keeps a worker's memory flat over 10^5 instances
	krt.GlobalDebugHandler = new(krt.DebugHandler)
	var cfgs []config.Config
	var kobjs []runtime.Object
	for _, o := range objs {
		if o.Cfg != nil {
			cfgs = append(cfgs, o.Cfg.DeepCopy())
		} else {
			kobjs = append(kobjs, o.Kube.DeepCopyObject())
		}
	}
	m := mesh.DefaultMeshConfig()
	m.RootNamespace = "istio-system"
	m.ExtensionProviders = append(m.ExtensionProviders, &meshconfig.MeshConfig_ExtensionProvider{
		Name: "otel",
		Provider: &meshconfig.MeshConfig_ExtensionProvider_EnvoyOtelAls{
			EnvoyOtelAls: &meshconfig.MeshConfig_ExtensionProvider_EnvoyOpenTelemetryLogProvider{Service: "ns1/otel.example.com", Port: 4317},
		},
	})
	s := xdsfake.NewFakeDiscoveryServer(t, xdsfake.FakeOptions{
		Configs:           cfgs,
		KubernetesObjects: kobjs,
		MeshConfig:        m,
		DebounceTime:      debounce,
	})
	s.Discovery.RequestRateLimit = rate.NewLimiter(0, 1)
	// production wiring: one cache for the server, its generators and the endpoint index (the fake leaves
	// the endpoint index with the cache of an Environment nobody reads)
	model.VerifSetEndpointIndexCache(s.Discovery.Env.EndpointIndex, s.Discovery.Cache)
	srv := &simServer{t: t, s: s}
	srv.settle()
	srv.flushServer()
	return srv
}

// settle waits until every notification caused by what was applied so far has reached the
// debouncer (work-queue rate limiters deliver some a few virtual milliseconds late).
func (s *simServer) settle() {
	for i := 0; i < 50; i++ {
		synctest.Wait()
		before := s.s.Discovery.InboundUpdates.Load()
		time.Sleep(time.Second)
		synctest.Wait()
		if s.s.Discovery.InboundUpdates.Load() == before {
			return
		}
	}
	panic("settle: notifications keep arriving")
}

// flushServer lets the debounce interval elapse until every notification is committed to a push.
func (s *simServer) flushServer() {
	for i := 0; i < 50; i++ {
		synctest.Wait()
		if s.s.Discovery.CommittedUpdates.Load() >= s.s.Discovery.InboundUpdates.Load() {
			return
		}
		time.Sleep(debounce)
	}
	panic("flush: pushes never commit")
}

// quiesce = flush + run every client until nobody has anything left to say.
func (s *simServer) quiesce(clients ...*client) {
	for round := 0; round < 200; round++ {
		s.settle()
		s.flushServer()
		synctest.Wait()
		progress := false
		for _, c := range clients {
			if c.pump() {
				progress = true
			}
		}
		synctest.Wait()
		if !progress && s.s.Discovery.CommittedUpdates.Load() >= s.s.Discovery.InboundUpdates.Load() {
			// one more look: responses may have been produced by the last ACKs
			again := false
			for _, c := range clients {
				if c.delta && c.ds != nil && len(c.ds.inbox) > 0 || !c.delta && c.ss != nil && len(c.ss.inbox) > 0 {
					again = true
				}
			}
			if !again {
				return
			}
		}
	}
	panic("quiesce: exchange does not die out")
}

// fetch connects a fresh client of the given flavour, runs it to quiescence and disconnects it.
func (s *simServer) fetch(spec proxySpec, delta bool) *client {
	c := newClient(spec, delta)
	c.connect(s, false, -1)
	s.quiesce(c)
	c.disconnect()
	synctest.Wait()
	return c
}

// ---- operations on the stores

func (s *simServer) apply(o op) {
	ctx := context.Background()
	switch {
	case o.Obj.Cfg != nil:
		c := o.Obj.Cfg.DeepCopy()
		store := s.s.Store()
		switch o.Verb {
		case "create":
			if _, err := store.Create(c); err != nil {
				panic(fmt.Sprintf("create %s: %v", o.Obj.key(), err))
			}
		case "update":
			cur := store.Get(c.GroupVersionKind, c.Name, c.Namespace)
			if cur == nil {
				panic("update of missing " + o.Obj.key())
			}
			c.ResourceVersion = cur.ResourceVersion
			if _, err := store.Update(c); err != nil {
				panic(fmt.Sprintf("update %s: %v", o.Obj.key(), err))
			}
		case "delete":
			if err := store.Delete(c.GroupVersionKind, c.Name, c.Namespace, nil); err != nil {
				panic(fmt.Sprintf("delete %s: %v", o.Obj.key(), err))
			}
		}
	default:
		kc := s.s.KubeClient().Kube()
		var err error
		switch obj := o.Obj.Kube.DeepCopyObject().(type) {
		case *corev1.Service:
			switch o.Verb {
			case "create":
				_, err = kc.CoreV1().Services(obj.Namespace).Create(ctx, obj, metav1.CreateOptions{})
			case "update":
				_, err = kc.CoreV1().Services(obj.Namespace).Update(ctx, obj, metav1.UpdateOptions{})
			case "delete":
				err = kc.CoreV1().Services(obj.Namespace).Delete(ctx, obj.Name, metav1.DeleteOptions{})
			}
		case *corev1.Pod:
			switch o.Verb {
			case "create":
				_, err = kc.CoreV1().Pods(obj.Namespace).Create(ctx, obj, metav1.CreateOptions{})
			case "update":
				_, err = kc.CoreV1().Pods(obj.Namespace).Update(ctx, obj, metav1.UpdateOptions{})
			case "delete":
				err = kc.CoreV1().Pods(obj.Namespace).Delete(ctx, obj.Name, metav1.DeleteOptions{})
			}
		case *discoveryv1.EndpointSlice:
			switch o.Verb {
			case "create":
				_, err = kc.DiscoveryV1().EndpointSlices(obj.Namespace).Create(ctx, obj, metav1.CreateOptions{})
			case "update":
				_, err = kc.DiscoveryV1().EndpointSlices(obj.Namespace).Update(ctx, obj, metav1.UpdateOptions{})
			case "delete":
				err = kc.DiscoveryV1().EndpointSlices(obj.Namespace).Delete(ctx, obj.Name, metav1.DeleteOptions{})
			}
		default:
			panic(fmt.Sprintf("unsupported kube object %T", obj))
		}
		if err != nil {
			panic(fmt.Sprintf("%s %s: %v", o.Verb, o.Obj.key(), err))
		}
	}
}

// ---- comparison

type snapshot = map[string]map[string][]byte

func diffSnap(a, b snapshot) string {
	var out []string
	for _, t := range clientTypes {
		ma, mb := a[t], b[t]
		names := map[string]bool{}
		for n := range ma {
			names[n] = true
		}
		for n := range mb {
			names[n] = true
		}
		var ns []string
		for n := range names {
			ns = append(ns, n)
		}
		sort.Strings(ns)
		for _, n := range ns {
			x, okx := ma[n]
			y, oky := mb[n]
			switch {
			case okx && !oky:
				out = append(out, fmt.Sprintf("%s/%s only in first", short(t), n))
			case !okx && oky:
				out = append(out, fmt.Sprintf("%s/%s only in second", short(t), n))
			case !bytes.Equal(x, y):
				out = append(out, fmt.Sprintf("%s/%s differs", short(t), n))
				if os.Getenv("VERIF_VERBOSE") != "" {
					fmt.Printf("=== %s/%s first:\n%s\n=== second:\n%s\n", short(t), n, textOf(t, x), textOf(t, y))
				}
			}
		}
	}
	if len(out) > 6 {
		out = append(out[:6], fmt.Sprintf("... %d more", len(out)-6))
	}
	return strings.Join(out, "; ")
}

// diffClasses groups the differences of two snapshots into root-cause-shaped classes:
// "<type>:<resource>:only-in-first|only-in-second|differs@<field path>".
func diffClasses(a, b snapshot) []string {
	set := map[string]bool{}
	for _, t := range clientTypes {
		ma, mb := a[t], b[t]
		for n, x := range ma {
			y, ok := mb[n]
			switch {
			case !ok:
				set[fmt.Sprintf("%s:%s:only-in-first", short(t), n)] = true
			case !bytes.Equal(x, y) && t == v3types.NameTableType:
				for _, cl := range nameTableClasses(x, y) {
					set[cl] = true
				}
			case !bytes.Equal(x, y):
				set[fmt.Sprintf("%s:%s:differs@%s", short(t), n, firstDiffPath(msgOf(t, x), msgOf(t, y)))] = true
			}
		}
		for n := range mb {
			if _, ok := ma[n]; !ok {
				set[fmt.Sprintf("%s:%s:only-in-second", short(t), n)] = true
			}
		}
	}
	out := sortedKeys(set)
	return out
}

// nameTableClasses: one class per host name of the DNS name table that is missing on one side or
// resolves differently.
func nameTableClasses(x, y []byte) []string {
	var a, b dnsProto.NameTable
	if proto.Unmarshal(x, &a) != nil || proto.Unmarshal(y, &b) != nil {
		return []string{"NDS:nametable:unreadable"}
	}
	var out []string
	for h, ia := range a.Table {
		ib, ok := b.Table[h]
		switch {
		case !ok:
			out = append(out, "NDS:host="+h+":only-in-first")
		case !proto.Equal(ia, ib):
			out = append(out, "NDS:host="+h+":differs@"+firstDiffPath(ia, ib))
		}
	}
	for h := range b.Table {
		if _, ok := a.Table[h]; !ok {
			out = append(out, "NDS:host="+h+":only-in-second")
		}
	}
	sort.Strings(out)
	return out
}

func msgOf(t string, b []byte) proto.Message {
	var m proto.Message
	switch t {
	case v3types.ClusterType:
		m = &clusterv3.Cluster{}
	case v3types.EndpointType:
		m = &endpoint.ClusterLoadAssignment{}
	case v3types.ListenerType:
		m = &listenerv3.Listener{}
	case v3types.RouteType:
		m = &route.RouteConfiguration{}
	case v3types.NameTableType:
		m = &dnsProto.NameTable{}
	}
	if proto.Unmarshal(b, m) != nil {
		return nil
	}
	return m
}

func textOf(t string, b []byte) string {
	var m proto.Message
	switch t {
	case v3types.ClusterType:
		m = &clusterv3.Cluster{}
	case v3types.EndpointType:
		m = &endpoint.ClusterLoadAssignment{}
	case v3types.ListenerType:
		m = &listenerv3.Listener{}
	case v3types.RouteType:
		m = &route.RouteConfiguration{}
	case v3types.NameTableType:
		m = &dnsProto.NameTable{}
	}
	if proto.Unmarshal(b, m) != nil {
		return "?"
	}
	return prototext.MarshalOptions{Multiline: true}.Format(m)
}

func snapDigest(s snapshot) string {
	var b strings.Builder
	for _, t := range clientTypes {
		fmt.Fprintf(&b, "%s=%d ", short(t), len(s[t]))
	}
	return b.String()
}

func os_verbose() bool { return os.Getenv("VERIF_VERBOSE") != "" }
