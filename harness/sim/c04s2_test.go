package sim

import (
	"fmt"
	"sort"
	"strings"
	"testing"
	"testing/synctest"

	core "github.com/envoyproxy/go-control-plane/envoy/config/core/v3"
	discovery "github.com/envoyproxy/go-control-plane/envoy/service/discovery/v3"
	"google.golang.org/genproto/googleapis/rpc/status"

	"istio.io/istio/pilot/pkg/model"
	v3 "istio.io/istio/pilot/pkg/xds/v3"
	pkgxds "istio.io/istio/pkg/xds"
	"istio.io/istio/zz_verif/engine"
)

// C04 stage 2: the request alphabet of stage 1 replayed on the stream path of a live control plane
// (DiscoveryServer.Stream -> processRequest -> pushXds -> Send). A shadow proxy runs the same
// requests through xds.ShouldRespond directly with the nonces the real server issued, i.e. it is the
// stage-1 model bound to this execution; the two must agree step by step: no response when the model
// is silent, the same recorded subscription after every step, and no request sequence, conformant or
// not, may break the stream handler.
type s2req struct {
	Type  int      `json:"type"`  // 0 CDS, 1 EDS
	Nonce string   `json:"nonce"` // empty | last | stale | bogus
	Names []string `json:"names"`
	Err   bool     `json:"err"`
}

func (r s2req) String() string {
	s := fmt.Sprintf("%s(nonce=%s names=%v", []string{"CDS", "EDS"}[r.Type], r.Nonce, r.Names)
	if r.Err {
		s += " NACK"
	}
	return s + ")"
}

var s2types = []string{v3.ClusterType, v3.EndpointType}

func s2alphabet() []s2req {
	var out []s2req
	names := [][]string{nil, {"outbound|80||a.example.com"}, {"outbound|80||a.example.com", "outbound|80||nosuch.example.com"}}
	for t := 0; t < 2; t++ {
		for _, n := range []string{"empty", "last", "stale", "bogus"} {
			for _, nm := range names {
				if t == 0 && len(nm) > 1 {
					continue
				}
				for _, e := range []bool{false, true} {
					out = append(out, s2req{t, n, nm, e})
				}
			}
		}
	}
	return out
}

func runS2(t *testing.T, seq []s2req) (fs []finding, responded int) {
	fail := engine.Bubble(t, func() {})
	_ = fail
	engine.GCPoint(1)
	synctest.Test(t, func(t *testing.T) {
		srv := newServer(t, stateWith("se-a", "se-b").objects())
		ctx, cancel := newPeerCtx()
		st := &memStream{ctx: ctx, cancel: cancel, toServer: make(chan *discovery.DiscoveryRequest, 16), cutAfter: -1}
		done := make(chan error, 1)
		go func() {
			err := srv.s.Discovery.Stream(st)
			st.cancel()
			done <- err
		}()
		shadow := &model.Proxy{ID: "shadow", WatchedResources: map[string]*model.WatchedResource{}}
		nonces := map[string][]string{}
		var nd *core.Node = proxies[0].node()
		for i, r := range seq {
			ty := s2types[r.Type]
			nonce := ""
			switch r.Nonce {
			case "last":
				if n := nonces[ty]; len(n) > 0 {
					nonce = n[len(n)-1]
				}
			case "stale":
				if n := nonces[ty]; len(n) > 1 {
					nonce = n[len(n)-2]
				} else {
					nonce = "stale-from-another-stream"
				}
			case "bogus":
				nonce = "never-issued"
			}
			req := &discovery.DiscoveryRequest{TypeUrl: ty, ResponseNonce: nonce, ResourceNames: r.Names, Node: nd}
			nd = nil
			if r.Err {
				req.ErrorDetail = &status.Status{Code: 3, Message: "rejected"}
			}
			shadowReq := &discovery.DiscoveryRequest{TypeUrl: ty, ResponseNonce: nonce, ResourceNames: r.Names, ErrorDetail: req.ErrorDetail}
			modelResponds, _ := pkgxds.ShouldRespond(shadow, "shadow", shadowReq)
			before := len(st.inbox)
			st.toServer <- req
			srv.quiesce()
			synctest.Wait()
			select {
			case err := <-done:
				fs = append(fs, finding{"stage2:stream-ended", fmt.Sprintf("after %v (step %d) the stream handler returned: %v", seq[:i+1], i, err)})
				return
			default:
			}
			got := st.inbox[before:]
			sentThisType := 0
			for _, resp := range got {
				nonces[resp.TypeUrl] = append(nonces[resp.TypeUrl], resp.Nonce)
				if resp.TypeUrl == ty {
					sentThisType++
				}
				// the shadow's Send bookkeeping
				wr := shadow.WatchedResources[resp.TypeUrl]
				if wr == nil {
					wr = &model.WatchedResource{TypeUrl: resp.TypeUrl}
					shadow.WatchedResources[resp.TypeUrl] = wr
				}
				wr.NonceSent = resp.Nonce
			}
			responded += sentThisType
			if !modelResponds && sentThisType > 0 {
				fs = append(fs, finding{"stage2:responds-where-model-is-silent:" + []string{"CDS", "EDS"}[r.Type], fmt.Sprintf("%v (step %d of %v): the stream path sent %d response(s), ShouldRespond is silent", r, i, seq, sentThisType)})
			}
			if modelResponds && sentThisType == 0 && r.Type == 0 {
				fs = append(fs, finding{"stage2:silent-where-model-responds:CDS", fmt.Sprintf("%v (step %d of %v): ShouldRespond answers, the stream path sent nothing", r, i, seq)})
			}
			// recorded subscription: real connection vs shadow
			var real *model.Proxy
			for _, c := range srv.s.Discovery.Clients() {
				real = c.Proxy()
			}
			if real == nil {
				fs = append(fs, finding{"stage2:connection-lost", fmt.Sprintf("after %v no connection is registered", seq[:i+1])})
				return
			}
			for _, tt := range s2types {
				a, b := real.GetWatchedResource(tt), shadow.WatchedResources[tt]
				na, nb := "<none>", "<none>"
				if a != nil {
					na = fmt.Sprint(sortedSet(a.ResourceNames))
				}
				if b != nil {
					nb = fmt.Sprint(sortedSet(b.ResourceNames))
				}
				if na != nb {
					fs = append(fs, finding{"stage2:subscription-record-differs:" + v3.GetShortType(tt), fmt.Sprintf("after %v: stream path records %s, model records %s", seq[:i+1], na, nb)})
				}
			}
		}
		st.cancel()
		synctest.Wait()
	})
	return
}

func sortedSet(s map[string]struct{}) []string {
	var out []string
	for k := range s {
		out = append(out, k)
	}
	sort.Strings(out)
	return out
}

func TestC04Stage2(t *testing.T) {
	env := engine.GetEnv()
	res := engine.NewResult("C04", "stage2-stream-replay")
	res.Rule = "every request sequence up to the depth bound over the stage-1 alphabet (type x nonce in empty/last/stale/never-issued x names x error_detail) is sent on an in-memory stream to a live control plane; after each request the responses written and the recorded subscription are compared with a shadow proxy driven through ShouldRespond/Send bookkeeping (the stage-1 model instantiated with the real nonces); non-trivial = sequence in which at least one response was written"
	defer res.Write(t, env)
	type rp struct {
		Seq []s2req `json:"seq"`
	}
	if env.Replay != "" {
		var r rp
		if err := engine.ReadReplay(env.Replay, &r); err != nil {
			t.Fatal(err)
		}
		fs, _ := runS2(t, r.Seq)
		for _, f := range fs {
			res.Violate(f.key, f.desc, r)
		}
		return
	}
	alpha := s2alphabet()
	depth := 2
	if env.Thorough() {
		depth = 3
	}
	res.Bounds["alphabet"] = len(alpha)
	res.Bounds["depth"] = depth
	var ord int64
	for n := 1; n <= depth; n++ {
		engine.Sequences(len(alpha), n, func(_ int64, ix []int) bool {
			ord++
			if !env.Mine(ord) {
				return true
			}
			if env.Expired() {
				res.Cap(fmt.Sprintf("deadline at length %d", n))
				return false
			}
			seq := make([]s2req, n)
			var names []string
			for i, x := range ix {
				seq[i] = alpha[x]
				names = append(names, alpha[x].String())
			}
			fs, responded := runS2(t, seq)
			res.Evaluations++
			res.Traces++
			res.States++
			res.Transitions += int64(n)
			if responded > 0 {
				res.NontrivialCase(strings.Join(names, " "))
			}
			res.Outcome(fmt.Sprintf("findings=%d responded=%d", len(fs), responded))
			for _, f := range fs {
				res.Violate(f.key, f.desc, rp{seq})
			}
			if ord%503 == 0 {
				res.Sample(strings.Join(names, " "))
			}
			return true
		})
	}
}
