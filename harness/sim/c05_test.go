package sim

import (
	"fmt"
	"strings"
	"testing"
	"testing/synctest"

	v3 "istio.io/istio/pilot/pkg/xds/v3"
	"istio.io/istio/zz_verif/engine"
)

// C05: fault enumeration on top of the C01 machinery. One client exchange (connect, initial
// synchronisation, one configuration change pushed) is cut after the k-th message the server sends,
// for every k; while the client is away every subset of the not-yet-applied operations is applied;
// the client then reconnects - to the same control plane or to a restarted one - presenting what it
// retained (versions, nonces, resource names; initial_resource_versions for delta).
type cutCase struct {
	Base    string `json:"base"`
	Ops     []op   `json:"ops"`
	Proxy   int    `json:"proxy"`
	Delta   bool   `json:"delta"`
	Cut     int    `json:"cut_after_sends"`
	Away    int    `json:"away_mask"` // which of the ops not applied before the cut are applied while away
	Restart bool   `json:"restart"`
	// Variant 1: sotw - EDS re-sent before CDS with re-warming; delta - explicit "*" plus a named watch.
	// Variant 2 (sotw): as 1, and an endpoint-only change is pushed between the CDS response and the
	// client's EDS re-request
	Variant int `json:"variant"`
}

func (c cutCase) String() string {
	var o []string
	for _, x := range c.Ops {
		o = append(o, x.String())
	}
	return fmt.Sprintf("%s [%s] proxy=%s delta=%v cut=%d away=%b restart=%v variant=%d", c.Base, strings.Join(o, " "), proxies[c.Proxy].Name, c.Delta, c.Cut, c.Away, c.Restart, c.Variant)
}

type cutResult struct {
	findings   []finding
	totalSends int // sends of the uncut exchange (only meaningful when Cut < 0)
	cutHit     bool
	pendingOps int // ops not yet applied when the cut happened
	retained   int
	removedFor int
	midPush    bool // variant 2: the endpoint-only push was placed
}

func runCut(t *testing.T, cc cutCase) (cr cutResult) {
	spec := proxies[cc.Proxy]
	engine.GCPoint(1)
	synctest.Test(t, func(t *testing.T) {
		st := bases[cc.Base]()
		srv := newServer(t, st.objects())
		c1 := newClient(spec, cc.Delta)
		c1.connect(srv, false, cc.Cut)
		sends := func() int {
			if cc.Delta {
				return c1.ds.sends
			}
			return c1.ss.sends
		}
		srv.quiesce(c1)
		applied := 0
		for _, o := range cc.Ops {
			if !c1.alive() {
				break
			}
			srv.apply(o)
			st = st.after(o)
			applied++
			srv.quiesce(c1)
		}
		cr.totalSends = sends()
		if cc.Cut < 0 {
			c1.disconnect()
			synctest.Wait()
			return
		}
		if c1.alive() {
			// the exchange ended before the cut point: nothing to do for this k
			c1.disconnect()
			synctest.Wait()
			return
		}
		cr.cutHit = true
		synctest.Wait()
		// while away: the chosen subset of the remaining operations
		rest := cc.Ops[applied:]
		cr.pendingOps = len(rest)
		for i, o := range rest {
			if cc.Away&(1<<i) != 0 {
				srv.apply(o)
				st = st.after(o)
			}
		}
		srv.quiesce()
		target := srv
		if cc.Restart {
			target = newServer(t, st.objects())
		}
		c2 := newClient(spec, cc.Delta)
		c2.edsFirst, c2.explicitWildcard = cc.Variant >= 1, cc.Variant == 1
		c2.retainFrom(c1)
		for _, ty := range clientTypes {
			cr.retained += len(c2.ts[ty].held)
		}
		c2.connect(target, true, -1)
		if cc.Variant == 2 {
			// an endpoint-only change is pushed between the server's CDS response and the moment the
			// client has read it (and re-requests EDS for the clusters that warm again): the push's EDS
			// response supersedes the nonce the re-request will carry
			injected := false
			for round := 0; round < 50 && !injected; round++ {
				target.settle()
				target.flushServer()
				synctest.Wait()
				if len(c2.ss.inbox) > 0 && c2.ss.inbox[0].TypeUrl == v3.ClusterType {
					for _, o := range enabledOps(st, nil) {
						if n := universe[o.ObjIdx].Name; (n == "we-w" || n == "k8s-slice") && o.Verb == "update" {
							target.apply(o)
							st = st.after(o)
							target.settle()
							target.flushServer()
							synctest.Wait()
							cr.midPush = true
							break
						}
					}
					injected = true
					break
				}
				if !c2.pump() {
					break
				}
			}
		}
		target.quiesce(c2)
		want := target.fetch(spec, cc.Delta)
		if d := diffSnap(c2.snapshot(), want.snapshot()); d != "" {
			for _, cl := range diffClasses(c2.snapshot(), want.snapshot()) {
				cr.findings = append(cr.findings, finding{"resync:" + flavour(cc.Delta) + ":" + cl,
					fmt.Sprintf("after reconnecting the client holds something else than a new connection receives (first=reconnected, second=new): %s", d)})
			}
		}
		if w := c2.warming(); len(w) > 0 {
			types := map[string]bool{}
			for _, n := range w {
				types[strings.SplitN(n, "/", 2)[0]] = true
			}
			cr.findings = append(cr.findings, finding{"resync-warming:" + flavour(cc.Delta) + ":" + strings.Join(sortedKeys(types), "+"), fmt.Sprintf("re-sent subscriptions never answered: %v", w)})
		}
		for _, ty := range clientTypes {
			cr.removedFor += len(c2.removed[ty])
		}
		if os_verbose() {
			fmt.Printf("--- first stream\n%s\n--- second stream\n%s\n", strings.Join(c1.log, "\n"), strings.Join(c2.log, "\n"))
		}
		c2.disconnect()
		synctest.Wait()
	})
	return cr
}

func flavour(delta bool) string {
	if delta {
		return "delta"
	}
	return "sotw"
}

func TestC05(t *testing.T) {
	env := engine.GetEnv()
	res := engine.NewResult("C05", "reconnect")
	res.Rule = "case = base x operation history x proxy x {sotw, delta} x cut after the k-th server message (every k of the exchange) x subset of the remaining operations applied while away x {same control plane, restarted control plane} x reconnect variant {CDS first; EDS re-sent first with re-warming (sotw) / explicit '*' plus a named watch (delta); sotw: as before with an endpoint-only push between the CDS response and the EDS re-request}; non-trivial = case in which the client retained resources and something changed while it was away, or the cut fell inside a multi-message exchange"
	defer res.Write(t, env)
	if env.Replay != "" {
		var cc cutCase
		if err := engine.ReadReplay(env.Replay, &cc); err != nil {
			t.Fatal(err)
		}
		for i := range cc.Ops {
			cc.Ops[i].Obj = universe[cc.Ops[i].ObjIdx].Variants[cc.Ops[i].Variant]
		}
		for _, f := range runCut(t, cc).findings {
			res.Violate(f.key, f.desc, cc)
		}
		return
	}
	baseList := []string{"rich", "scoped"}
	proxyList := []int{0, 2}
	core := coreObjs
	if env.Thorough() {
		baseList = baseNames()
		proxyList = []int{0, 1, 2}
		core = nil
	}
	res.Bounds["bases"] = fmt.Sprint(baseList)
	res.Bounds["history_depth"] = 1
	res.Bounds["alphabet"] = map[bool]string{true: "full", false: "core"}[core == nil]
	var ord int64
	cuts := 0
	for _, b := range baseList {
		for _, o := range enabledOps(bases[b](), core) {
			for _, pi := range proxyList {
				for _, delta := range []bool{false, true} {
					ord++
					if !env.Mine(ord) {
						continue
					}
					if env.Expired() {
						res.Cap("deadline")
						goto done
					}
					probe := runCut(t, cutCase{Base: b, Ops: []op{o}, Proxy: pi, Delta: delta, Cut: -1})
					for k := 0; k <= probe.totalSends; k++ {
						for _, restart := range []bool{false, true} {
							for av := 0; av < 6; av++ {
								away, variant := av%2, av/2
								if variant == 2 && delta {
									continue
								}
								cc := cutCase{Base: b, Ops: []op{o}, Proxy: pi, Delta: delta, Cut: k, Away: away, Restart: restart, Variant: variant}
								if k == 0 {
									cc.Cut = 0
								}
								cr := runCut(t, cc)
								if !cr.cutHit {
									continue
								}
								if away >= 1<<cr.pendingOps {
									continue // nothing left to apply while away: same case as away=0
								}
								cuts++
								res.Evaluations++
								res.Traces++
								res.Transitions += int64(k + 1)
								if cr.retained > 0 && (away != 0 || restart) {
									res.NontrivialCase(cc.String())
								}
								res.Outcome(fmt.Sprintf("findings=%d retained>0=%v removedOnResync>0=%v", len(cr.findings), cr.retained > 0, cr.removedFor > 0))
								for _, f := range cr.findings {
									res.Violate(f.key, f.desc+" [case "+cc.String()+"]", cc)
								}
								if cuts%997 == 0 {
									res.Sample(cc.String())
								}
							}
						}
					}
				}
			}
		}
	}
done:
	res.States = int64(cuts)
	res.Count("cut_points", int64(cuts))
	res.Sample("rich [update(se-a#1)] proxy=sidecar-ns1 delta=true cut=3 away=1 restart=true")
}
