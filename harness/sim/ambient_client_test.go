package sim

// Reference ztunnel (delta xDS only): subscribes to workload Addresses - wildcard or on demand - and to
// workload Authorizations (wildcard), honours removed_resources, ACKs every response, and on a new
// stream presents what it kept in initial_resource_versions. Like the Envoy reference client it has
// no goroutine of its own: the harness root goroutine pumps it.

import (
	"fmt"
	"net/netip"
	"sort"
	"strings"

	core "github.com/envoyproxy/go-control-plane/envoy/config/core/v3"
	discovery "github.com/envoyproxy/go-control-plane/envoy/service/discovery/v3"
	"google.golang.org/protobuf/proto"
	"google.golang.org/protobuf/types/known/structpb"

	v3 "istio.io/istio/pilot/pkg/xds/v3"
	"istio.io/istio/pkg/workloadapi"
	"istio.io/istio/pkg/workloadapi/security"
)

var ztTypes = []string{v3.AddressType, v3.WorkloadAuthorizationType}

type ztSpec struct {
	Name     string
	ID       string
	Node     string
	OnDemand bool
	// Names: what the on-demand client asks for, one request per name, right after its initial
	// (subscribe "*" + unsubscribe "*") request
	Names []string
}

// The names an on-demand ztunnel resolves: "<network>/<ip>" for a destination address,
// "<namespace>/<hostname>" for a service. Some exist only in some states.
var onDemandNames = []string{
	"/10.0.1.1",                           // pod a1 (ztunnel's own node)
	"/10.0.2.1",                           // pod a2 (other node)
	"/10.0.3.2",                           // WorkloadEntry we-vm, only in its variant 1
	"/10.96.1.2",                          // svc-b's cluster IP
	"amb/svc-a.amb.svc.cluster.local",     // Kubernetes service by name
	"amb/ext.example.com",                 // ServiceEntry host
	"plain/svc-p.plain.svc.cluster.local", // service outside the mesh
}

var ztSpecs = []ztSpec{
	{Name: "ztunnel-wildcard", ID: "ztunnel~10.0.1.250~ztunnel-n1.istio-system~istio-system.svc.cluster.local", Node: ztunnelNode},
	{Name: "ztunnel-ondemand", ID: "ztunnel~10.0.1.251~ztunnel-od.istio-system~istio-system.svc.cluster.local", Node: ztunnelNode, OnDemand: true, Names: onDemandNames},
}

// the waypoint proxy running in Pod wp-pod (reference Envoy client, state of the world)
var waypointSpec = proxySpec{
	Name:   "waypoint",
	ID:     "waypoint~" + wpPodIP + "~wp-pod.amb~amb.svc.cluster.local",
	Labels: map[string]string{"gateway.networking.k8s.io/gateway-name": "wp", "gateway.istio.io/managed": "istio.io-mesh-controller"},
	NS:     ambNS,
	IP:     wpPodIP,
	Type:   "waypoint",
}

func (z ztSpec) node() *core.Node {
	meta, _ := structpb.NewStruct(map[string]any{
		"NAMESPACE":       "istio-system",
		"ISTIO_VERSION":   "1.29.0",
		"CLUSTER_ID":      "Kubernetes",
		"SERVICE_ACCOUNT": "ztunnel",
		"NODE_NAME":       z.Node,
	})
	return &core.Node{Id: z.ID, Metadata: meta}
}

type zsnap = map[string]map[string][]byte

type zclient struct {
	spec      ztSpec
	ds        *memDeltaStream
	done      chan error
	held      zsnap                        // type -> resource name -> deterministic bytes
	vers      map[string]map[string]string // type -> resource name -> version the server gave
	responses map[string]int
	removed   map[string][]string
	requested map[string]bool
	// emptyVersions: present retained resources with empty versions (ztunnel releases that do not
	// keep versions) instead of the versions received
	emptyVersions bool
	log           []string
}

func newZClient(spec ztSpec) *zclient {
	z := &zclient{spec: spec, held: zsnap{}, vers: map[string]map[string]string{}, responses: map[string]int{}, removed: map[string][]string{}, requested: map[string]bool{}}
	for _, t := range ztTypes {
		z.held[t] = map[string][]byte{}
		z.vers[t] = map[string]string{}
	}
	return z
}

func (z *zclient) alive() bool { return z.ds != nil && z.ds.ctx.Err() == nil }

func (z *zclient) disconnect() {
	if z.ds != nil {
		z.ds.cancel()
	}
}

// connect opens a delta stream and sends the initial requests as ztunnel does: Address first (with
// the node), then Authorization; retained=true: both carry initial_resource_versions of what is held.
func (z *zclient) connect(srv *simServer, retained bool, cutAfter int) {
	ctx, cancel := newPeerCtx()
	z.done = make(chan error, 1)
	z.ds = &memDeltaStream{ctx: ctx, cancel: cancel, toServer: make(chan *discovery.DeltaDiscoveryRequest, 64), cutAfter: cutAfter}
	st := z.ds
	done := z.done
	go func() {
		err := srv.s.Discovery.StreamDeltas(st)
		st.cancel()
		done <- err
	}()
	for i, t := range ztTypes {
		req := &discovery.DeltaDiscoveryRequest{TypeUrl: t}
		if i == 0 {
			req.Node = z.spec.node()
		}
		if t == v3.AddressType && z.spec.OnDemand {
			// "subscribe to nothing": xDS has no other way to say it
			req.ResourceNamesSubscribe = []string{"*"}
			req.ResourceNamesUnsubscribe = []string{"*"}
		}
		if retained && len(z.held[t]) > 0 {
			req.InitialResourceVersions = map[string]string{}
			for n := range z.held[t] {
				if z.emptyVersions {
					req.InitialResourceVersions[n] = ""
				} else {
					req.InitialResourceVersions[n] = z.vers[t][n]
				}
			}
		}
		z.requested[t] = true
		z.log = append(z.log, fmt.Sprintf("-> %s sub=%v unsub=%v init=%d", short(t), req.ResourceNamesSubscribe, req.ResourceNamesUnsubscribe, len(req.InitialResourceVersions)))
		z.ds.toServer <- req
	}
	if z.spec.OnDemand {
		for _, n := range z.spec.Names {
			z.log = append(z.log, fmt.Sprintf("-> %s sub=[%s]", short(v3.AddressType), n))
			z.ds.toServer <- &discovery.DeltaDiscoveryRequest{TypeUrl: v3.AddressType, ResourceNamesSubscribe: []string{n}}
		}
	}
}

// pump handles every response in the inbox; returns whether there was one.
func (z *zclient) pump() bool {
	progress := false
	for len(z.ds.inbox) > 0 {
		r := z.ds.inbox[0]
		z.ds.inbox = z.ds.inbox[1:]
		z.handle(r)
		progress = true
	}
	return progress
}

func (z *zclient) handle(r *discovery.DeltaDiscoveryResponse) {
	t := r.TypeUrl
	if _, ok := z.held[t]; !ok {
		return
	}
	z.responses[t]++
	var names []string
	for _, res := range r.Resources {
		z.held[t][res.Name] = zcanonical(t, res.Resource.GetValue())
		z.vers[t][res.Name] = res.Version
		names = append(names, res.Name)
	}
	for _, n := range r.RemovedResources {
		// (for an on-demand request the name asked for comes back here when nothing has it: there is
		// nothing to drop then)
		delete(z.held[t], n)
		delete(z.vers[t], n)
		z.removed[t] = append(z.removed[t], n)
	}
	z.log = append(z.log, fmt.Sprintf("<- %s %v removed=%v", short(t), names, r.RemovedResources))
	if !z.alive() {
		return
	}
	z.ds.toServer <- &discovery.DeltaDiscoveryRequest{TypeUrl: t, ResponseNonce: r.Nonce}
}

func (z *zclient) snapshot() zsnap {
	out := zsnap{}
	for _, t := range ztTypes {
		m := map[string][]byte{}
		for n, b := range z.held[t] {
			m[n] = b
		}
		out[t] = m
	}
	return out
}

func (z *zclient) retainFrom(o *zclient) {
	for _, t := range ztTypes {
		for n, b := range o.held[t] {
			z.held[t][n] = b
			z.vers[t][n] = o.vers[t][n]
		}
	}
}

// zcanonical re-marshals deterministically: Workload.services is a proto map, whose wire order is
// not defined.
func zcanonical(t string, b []byte) []byte {
	m := zmsg(t, b)
	if m == nil {
		return b
	}
	return marshal(m)
}

func zmsg(t string, b []byte) proto.Message {
	var m proto.Message
	switch t {
	case v3.AddressType:
		m = &workloadapi.Address{}
	case v3.WorkloadAuthorizationType:
		m = &security.Authorization{}
	default:
		return nil
	}
	if proto.Unmarshal(b, m) != nil {
		return nil
	}
	return m
}

// zclass maps a resource name to the kind of thing it stands for (violation keys are per kind, not
// per object).
func zclass(t, name string) string {
	if t == v3.WorkloadAuthorizationType {
		_, n, _ := strings.Cut(name, "/")
		switch {
		case n == "istio_converted_static_strict":
			return "static-strict-policy"
		case strings.HasPrefix(n, "converted_peer_authentication_"):
			return "converted-peerauthentication"
		case strings.HasPrefix(n, "istio_allow_waypoint_"):
			return "implicit-waypoint-policy"
		}
		return "authorizationpolicy"
	}
	switch {
	case strings.Contains(name, "//Pod/"):
		return "pod"
	case strings.Contains(name, "/networking.istio.io/WorkloadEntry/"):
		return "workloadentry"
	case strings.Contains(name, "/networking.istio.io/ServiceEntry/"):
		return "serviceentry-endpoint"
	case strings.Contains(name, "/discovery.k8s.io/EndpointSlice/"):
		return "endpointslice-endpoint"
	case strings.HasSuffix(name, ".svc.cluster.local"):
		return "service"
	case strings.Count(name, "/") == 1:
		return "serviceentry-host"
	}
	return "other"
}

// zdiffClasses: "<type>:<kind of resource>:only-in-first|only-in-second|differs@<field path>"
func zdiffClasses(a, b zsnap, types ...string) []string {
	set := map[string]bool{}
	if len(types) == 0 {
		types = ztTypes
	}
	for _, t := range types {
		ma, mb := a[t], b[t]
		for n, x := range ma {
			y, ok := mb[n]
			switch {
			case !ok:
				set[fmt.Sprintf("%s:%s:only-in-first", short(t), zclass(t, n))] = true
			case string(x) != string(y):
				set[fmt.Sprintf("%s:%s:differs@%s", short(t), zclass(t, n), firstDiffPath(zmsg(t, x), zmsg(t, y)))] = true
			}
		}
		for n := range mb {
			if _, ok := ma[n]; !ok {
				set[fmt.Sprintf("%s:%s:only-in-second", short(t), zclass(t, n))] = true
			}
		}
	}
	return sortedKeys(set)
}

func zdiffSnap(a, b zsnap, types ...string) string {
	var out []string
	if len(types) == 0 {
		types = ztTypes
	}
	for _, t := range types {
		names := map[string]bool{}
		for n := range a[t] {
			names[n] = true
		}
		for n := range b[t] {
			names[n] = true
		}
		for _, n := range sortedKeys(names) {
			x, okx := a[t][n]
			y, oky := b[t][n]
			switch {
			case okx && !oky:
				out = append(out, fmt.Sprintf("%s/%s only in first", short(t), n))
			case !okx && oky:
				out = append(out, fmt.Sprintf("%s/%s only in second", short(t), n))
			case string(x) != string(y):
				out = append(out, fmt.Sprintf("%s/%s differs at %s", short(t), n, firstDiffPath(zmsg(t, x), zmsg(t, y))))
				if os_verbose() {
					fmt.Printf("=== %s/%s first:\n%v\n=== second:\n%v\n", short(t), n, zmsg(t, x), zmsg(t, y))
				}
			}
		}
	}
	if len(out) > 6 {
		out = append(out[:6], fmt.Sprintf("... %d more", len(out)-6))
	}
	return strings.Join(out, "; ")
}

// heldFor says whether some held Address resource answers the on-demand name: a workload with that
// address / a service with that VIP for "<network>/<ip>", a service of that namespace and hostname
// for "<namespace>/<hostname>".
func heldFor(held map[string][]byte, name string) []string {
	var hits []string
	nsOrNet, rest, _ := strings.Cut(name, "/")
	ip, ipErr := netip.ParseAddr(rest)
	for rn, b := range held {
		var a workloadapi.Address
		if proto.Unmarshal(b, &a) != nil {
			continue
		}
		if ipErr == nil {
			if w := a.GetWorkload(); w != nil && w.Network == nsOrNet {
				for _, ab := range w.Addresses {
					if x, ok := netip.AddrFromSlice(ab); ok && x == ip {
						hits = append(hits, rn)
					}
				}
			}
			if s := a.GetService(); s != nil {
				for _, na := range s.Addresses {
					if x, ok := netip.AddrFromSlice(na.Address); ok && x == ip && na.Network == nsOrNet {
						hits = append(hits, rn)
					}
				}
			}
			continue
		}
		if s := a.GetService(); s != nil && s.Namespace == nsOrNet && s.Hostname == rest {
			hits = append(hits, rn)
		}
	}
	sort.Strings(hits)
	return hits
}
