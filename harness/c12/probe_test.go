package c12

import (
	"fmt"
	"os"
	"testing"
	"time"

	"google.golang.org/protobuf/encoding/protojson"

	"istio.io/istio/pilot/pkg/model"
	"istio.io/istio/pilot/pkg/networking/core"
)

const probeCfg = `
apiVersion: networking.istio.io/v1
kind: ServiceEntry
metadata: {name: a, namespace: default}
spec:
  hosts: [a.example.com]
  location: MESH_INTERNAL
  resolution: STATIC
  ports:
  - {number: 80, name: http, protocol: HTTP}
  - {number: 8080, name: http-alt, protocol: HTTP}
  endpoints: [{address: 10.0.0.1}]
---
apiVersion: networking.istio.io/v1
kind: ServiceEntry
metadata: {name: d1, namespace: default}
spec:
  hosts: [d1.dest.test]
  location: MESH_INTERNAL
  resolution: STATIC
  ports:
  - {number: 80, name: http, protocol: HTTP}
  endpoints: [{address: 10.0.0.2}]
---
apiVersion: networking.istio.io/v1
kind: ServiceEntry
metadata: {name: d2, namespace: default}
spec:
  hosts: [d2.dest.test]
  location: MESH_INTERNAL
  resolution: STATIC
  ports:
  - {number: 80, name: http, protocol: HTTP}
  - {number: 8080, name: http-alt, protocol: HTTP}
  endpoints: [{address: 10.0.0.3}]
---
apiVersion: networking.istio.io/v1
kind: Gateway
metadata: {name: gw, namespace: default}
spec:
  selector: {istio: ingressgateway}
  servers:
  - port: {number: 80, name: http, protocol: HTTP}
    hosts: ["*"]
---
apiVersion: networking.istio.io/v1
kind: VirtualService
metadata: {name: vs-a, namespace: default}
spec:
  hosts: ["*.example.com"]
  gateways: [mesh, gw]
  http:
  - name: r0
    match:
    - name: m0
      uri: {prefix: /foo}
      withoutHeaders: {x-h: {exact: v1}}
    route:
    - destination: {host: d1.dest.test}
  - name: r1
    route:
    - destination: {host: d2.dest.test, port: {number: 8080}, subset: v1}
      weight: 80
    - destination: {host: d1.dest.test}
      weight: 20
`

func TestProbe(t *testing.T) {
	if os.Getenv("C12_PROBE") == "" {
		t.Skip()
	}
	t0 := time.Now()
	cg := core.NewConfigGenTest(t, core.TestOptions{ConfigString: probeCfg})
	fmt.Println("env", time.Since(t0))
	sc := cg.SetupProxy(&model.Proxy{Labels: map[string]string{"app": "client"}, Metadata: &model.NodeMetadata{Labels: map[string]string{"app": "client"}}})
	gw := cg.SetupProxy(&model.Proxy{Type: model.Router, Labels: map[string]string{"istio": "ingressgateway"}, Metadata: &model.NodeMetadata{Labels: map[string]string{"istio": "ingressgateway"}}})
	t1 := time.Now()
	for _, p := range []*model.Proxy{sc, gw} {
		for _, rc := range cg.Routes(p) {
			fmt.Println("=====", p.Type, rc.Name)
			fmt.Println(protojson.MarshalOptions{Multiline: true}.Format(rc))
		}
	}
	fmt.Println("routes", time.Since(t1))
}
