// C12: generated routes send each request where the VirtualService says.
//
// For every configuration of the rule grammar (grammar_test.go) the REAL istio code builds a full
// environment (core.NewConfigGenTest) and the RDS output of a sidecar proxy (listeners 80, 8080) and
// of a gateway proxy (server port 80). For every request of the request alphabet the reference Envoy
// interpreter (envoy_test.go) evaluates that output and the reference VirtualService evaluator
// (vseval_test.go) says what the API text defines; the two decisions must agree. In addition the
// generated route list of the VirtualService's virtual host must keep rule order and may only lack a
// rule after a route that matches everything by syntax.
package c12

import (
	"fmt"
	"regexp"
	"sort"
	"strings"
	"testing"

	route "github.com/envoyproxy/go-control-plane/envoy/config/route/v3"
	"google.golang.org/protobuf/encoding/prototext"

	"istio.io/istio/pilot/pkg/model"
	"istio.io/istio/pilot/pkg/networking/core"
	"istio.io/istio/pkg/config/schema/gvk"
	"istio.io/istio/pkg/config/validation"
	"istio.io/istio/pkg/kube/krt"
	"istio.io/istio/pkg/log"
	"istio.io/istio/zz_verif/engine"
)

// caseT is the test.Failer handed to istio's test helper for one case: cleanups run when the case
// ends (not when the whole test ends), any failure of the helper is an infrastructure error.
type caseT struct {
	name     string
	cleanups []func()
}

func (c *caseT) Fail()                      { panic("c12 infrastructure: Fail in " + c.name) }
func (c *caseT) FailNow()                   { panic("c12 infrastructure: FailNow in " + c.name) }
func (c *caseT) Fatal(args ...any)          { panic("c12 infrastructure: " + fmt.Sprint(args...) + " in " + c.name) }
func (c *caseT) Fatalf(f string, a ...any)  { panic("c12 infrastructure: " + fmt.Sprintf(f, a...) + " in " + c.name) }
func (c *caseT) Log(args ...any)            {}
func (c *caseT) Logf(f string, args ...any) {}
func (c *caseT) TempDir() string            { panic("c12 infrastructure: TempDir") }
func (c *caseT) Helper()                    {}
func (c *caseT) Cleanup(f func())           { c.cleanups = append(c.cleanups, f) }
func (c *caseT) Skip(args ...any)           { panic("c12 infrastructure: Skip") }
func (c *caseT) done() {
	for i := len(c.cleanups) - 1; i >= 0; i-- {
		c.cleanups[i]()
	}
	c.cleanups = nil
}

func silenceLogs() {
	for _, s := range log.Scopes() {
		s.SetOutputLevel(log.NoneLevel)
	}
}

// generate runs the real istio code on a case: route configurations by proxy kind and RDS name.
func generate(c caseSpec) map[string]map[string]*route.RouteConfiguration {
	ct := &caseT{name: c.String()}
	defer ct.done()
	// the helper registers every environment's collections in a process-global debug registry;
	// give each case its own so that memory stays bounded
	krt.GlobalDebugHandler = new(krt.DebugHandler)
	cg := core.NewConfigGenTest(ct, core.TestOptions{Configs: c.configs()})
	out := map[string]map[string]*route.RouteConfiguration{}
	for _, p := range proxies {
		node := &model.Proxy{
			Labels:          p.Labels,
			ConfigNamespace: p.Namespace,
			Metadata:        &model.NodeMetadata{Labels: p.Labels, Namespace: p.Namespace},
		}
		if p.Kind == "gateway" {
			node.Type = model.Router
		}
		node = cg.SetupProxy(node)
		byName := map[string]*route.RouteConfiguration{}
		for _, rc := range cg.Routes(node) {
			byName[rc.GetName()] = rc
		}
		out[p.Kind] = byName
	}
	return out
}

func dumpRoutes(m map[string]map[string]*route.RouteConfiguration) string {
	var b strings.Builder
	for _, p := range proxies {
		var names []string
		for n := range m[p.Kind] {
			names = append(names, n)
		}
		sort.Strings(names)
		for _, n := range names {
			fmt.Fprintf(&b, "== %s %s\n%s\n", p.Kind, n, prototext.MarshalOptions{Multiline: true}.Format(m[p.Kind][n]))
		}
	}
	return b.String()
}

// ---- attribution of generated routes ----------------------------------------------------------

var routeNameRe = regexp.MustCompile(`^r(\d+)(?:\.m(\d+))?$`)

// routeVS returns the VirtualService a generated route says it comes from ("" = none: default
// route, passthrough, ...). Only used to label violations and for the rule-order clause.
func routeVS(r *route.Route) string {
	cfg := r.GetMetadata().GetFilterMetadata()["istio"].GetFields()["config"].GetStringValue()
	if i := strings.LastIndex(cfg, "/virtual-service/"); i >= 0 {
		return cfg[i+len("/virtual-service/"):]
	}
	return ""
}

func (c caseSpec) vsByName(name string) *vsSpec {
	for _, v := range c.virtualServices() {
		if v.Name == name {
			return &v
		}
	}
	return nil
}

// describeGot labels the route Envoy selected.
func (c caseSpec) describeGot(rc *route.RouteConfiguration, ev envoyVerdict) (desc, vsRule string) {
	if ev.RouteIdx < 0 {
		if ev.VHost == "" {
			return "none(no-vhost)", ""
		}
		return "none(vhost)", ""
	}
	var r *route.Route
	for _, vh := range rc.GetVirtualHosts() {
		if vh.GetName() == ev.VHost {
			r = vh.GetRoutes()[ev.RouteIdx]
		}
	}
	vsn := routeVS(r)
	if vsn == "" {
		switch {
		case strings.HasPrefix(ev.Decision, "route{PassthroughCluster"), strings.HasPrefix(ev.Decision, "route{BlackHoleCluster"):
			return "passthrough", ""
		case r.GetName() == "default":
			return "default", ""
		}
		return "route[" + r.GetName() + "]", ""
	}
	m := routeNameRe.FindStringSubmatch(r.GetName())
	v := c.vsByName(vsn)
	if m == nil || v == nil {
		return "rule[?" + vsn + "/" + r.GetName() + "]", ""
	}
	var i int
	fmt.Sscan(m[1], &i)
	if i >= len(v.Rules) {
		return "rule[?" + vsn + "/" + r.GetName() + "]", ""
	}
	return "rule[" + vsn + ":" + matchAlphabet[v.Rules[i].Match].Name + "]", vsn + "/" + r.GetName()
}

func authClass(a string) string {
	switch strings.ToLower(stripPort(a)) {
	case hostA:
		return "a"
	case hostC:
		return "c"
	case hostKLong:
		return "k8s-fqdn"
	case "api.internal.svc":
		return "k8s-short-form"
	case hostKShort:
		return "service-named-like-a-short-form"
	case "b.example.com":
		return "b(under-wildcard,not-in-registry)"
	case hostD1:
		return "d1(service-without-vs)"
	}
	return "other"
}

func unmanagedOK(d string) bool {
	return d == decNone || strings.HasPrefix(d, "route{PassthroughCluster=") || strings.HasPrefix(d, "route{BlackHoleCluster=") ||
		strings.HasPrefix(d, "direct{status=502")
}

type replayC12 struct {
	Case    caseSpec `json:"case"`
	Proxy   string   `json:"proxy,omitempty"`
	Port    int      `json:"port,omitempty"`
	Request *request `json:"request,omitempty"`
}

// runCase checks one configuration; verbose prints the evidence of every disagreement.
func runCase(t *testing.T, res *engine.Result, c caseSpec, verbose bool) {
	for _, v := range c.configs() {
		if v.GroupVersionKind == gvk.VirtualService {
			if _, err := validation.ValidateVirtualService(v); err != nil {
				t.Fatalf("grammar produced a VirtualService istio's validation rejects (%s): %v", c, err)
			}
		}
	}
	gen := generate(c)
	if verbose {
		t.Logf("case %s\n%s", c, dumpRoutes(gen))
	}
	reqs := c.requests()
	rel := c.relevantReadings()
	decisions := map[string]map[string]bool{}
	for _, p := range proxies {
		if (c.Split > 0 || c.Shape == shapeG2 || c.Shape == shapeS2) && p.Kind != "gateway" {
			// a host defined by several VirtualServices is only defined for gateways
			continue
		}
		for _, l := range p.Listeners {
			rc := gen[p.Kind][l.RouteName]
			if rc == nil {
				// no such listener: nothing is routed there; only demanded when the reference expects a
				// VirtualService or service route on that port, which the loop below decides with an empty table
				rc = &route.RouteConfiguration{Name: l.RouteName}
			}
			if bad := validateRouteConfig(rc); bad != "" {
				res.Violate(fmt.Sprintf("invalid-rds|%s:%d|%s", p.Kind, l.Port, c.shapeKey()), "Envoy would reject the route configuration: "+bad+" in "+c.String(),
					replayC12{Case: c, Proxy: p.Kind, Port: l.Port})
				continue
			}
			r := rel
			if p.Kind != "gateway" {
				r.SrcVacuousAtGw = false
			}
			if p.Kind != "sidecar" || l.Port == 80 {
				r.NonRegistryAnyPort = false
			}
			readings := allReadings(r)
			// rule order first: disagreements of single requests inside a virtual host whose route list
			// is already reported as reordered / truncated are consequences, not separate findings
			badOrder := c.checkOrder(res, p, l, rc, readings, verbose, t)
			bestFit := -1
			var bestFitReading reading
			for ri := range reqs {
				req := reqs[ri]
				res.Evaluations++
				got, err := envoyEval(rc, req)
				if err != nil {
					t.Fatalf("R3-Envoy cannot interpret the route configuration (%s, %s:%d, %s): %v", c, p.Kind, l.Port, req, err)
				}
				ok := false
				usedOpen := -1
			search:
				for i, rd := range readings {
					for _, w := range c.evalVSAll(p, l.Port, req, rd) {
						if w.Decision == got.Decision || (w.Decision == decUnmanaged && unmanagedOK(got.Decision)) {
							ok = true
							usedOpen = i
							break search
						}
					}
				}
				if req.Authority == hostA || req.Authority == hostKLong {
					lk := fmt.Sprintf("%s:%d", p.Kind, l.Port)
					if decisions[lk] == nil {
						decisions[lk] = map[string]bool{}
					}
					decisions[lk][got.Decision] = true
				}
				gotDesc, gotRule := c.describeGot(rc, got)
				res.Outcome(p.Kind + ":" + gotDesc[:strings.IndexAny(gotDesc+"[", "[(")] + "/" + decisionKind(got.Decision))
				if usedOpen > 0 {
					res.Count("accepted_only_under_an_alternative_reading", 1)
					res.Count("open-cell:"+readings[usedOpen].String(), 1)
				}
				if ok {
					continue
				}
				if badOrder[got.VHost] {
					res.Count("disagreements_inside_a_virtual_host_reported_for_rule_order", 1)
					continue
				}
				pk := p.Kind
				if c.Shape == shapeG2 {
					pk = "gateway(" + c.gatewayFor(strings.ToLower(stripPort(req.Authority))) + ")"
				}
				if c.Shape == shapeS2 {
					pk = "gateway(two-servers)"
				}
				// label the disagreement: prefer the reading under which the reference picks the very
				// rule Envoy picked (then only the action differs)
				// (otherwise the reading that agrees with the generated table on most requests of this
				// listener: the one istio most plausibly implements)
				if bestFit < 0 {
					bestN := -1
					bestFit = 0
					for i, rd := range readings {
						n := 0
						for _, q := range reqs {
							g, _ := envoyEval(rc, q)
							for _, w := range c.evalVSAll(p, l.Port, q, rd) {
								if w.Decision == g.Decision || (w.Decision == decUnmanaged && unmanagedOK(g.Decision)) {
									n++
									break
								}
							}
						}
						// ties: prefer the readings under which the unchanged tree is known to pass
						// (labelling only; acceptance never depends on this)
						n *= 8
						for _, b := range []bool{rd.AbsentIsEmpty, rd.GwIgnoresSource, rd.PortIsSelector} {
							if b {
								n++
							}
						}
						if n > bestN {
							bestFit, bestN = i, n
						}
					}
					bestFitReading = readings[bestFit]
				}
				rep := c.evalVS(p, l.Port, req, bestFitReading)
				if gotRule != "" {
					// a host defined by several VirtualServices: compare within the VirtualService whose
					// route Envoy selected
					for _, w := range c.evalVSAll(p, l.Port, req, bestFitReading) {
						if sameVS(w.Why, gotRule) {
							rep = w
							break
						}
					}
				pick:
					for _, rd := range readings {
						for _, w := range c.evalVSAll(p, l.Port, req, rd) {
							if w.Why == gotRule {
								rep = w
								break pick
							}
						}
					}
				}
				wantClass := strings.SplitN(strings.SplitN(rep.Why, "(", 2)[0], "/", 2)[0]
				wantDesc := wantClass
				if rep.MatchName != "" {
					wantClass = "rule"
					wantDesc = "rule[" + strings.SplitN(rep.Why, "/", 2)[0] + ":" + rep.MatchName + "]"
				}
				var key string
				switch {
				case gotRule != "" && rep.Why == gotRule:
					// same rule, different action
					key = fmt.Sprintf("action|%s:%d|%s|want=%s|got=%s", pk, l.Port, rep.ActionName, rep.Decision, got.Decision)
				case (gotRule != "" || gotDesc == "none(vhost)") && rep.MatchName == "" && (rep.Why == "default" || rep.Why == "unmanaged" || strings.HasPrefix(rep.Why, "none(no ")):
					// a VirtualService's virtual host took a request that no VirtualService covers
					key = fmt.Sprintf("vhost|%s:%d|svc=%v|auth=%s|want=%s|got=virtual-service", pk, l.Port, c.Svc, authClass(req.Authority), wantClass)
				case gotRule == "" && gotDesc != "none(vhost)":
					// the VirtualService's virtual host was not reached at all (or one was reached that should not exist)
					if wantClass == "rule" || wantClass == "none" {
						wantClass = "virtual-service"
					}
					key = fmt.Sprintf("vhost|%s:%d|svc=%v|auth=%s|want=%s|got=%s", pk, l.Port, c.Svc, authClass(req.Authority), wantClass, gotDesc)
				default:
					// name the match shape that misbehaves: the generated route that took a request its
					// rule does not cover (over-match), else the rule whose request was not taken (under-match)
					if gotRule != "" && (rep.MatchName == "" || !sameVS(rep.Why, gotRule) || ruleBefore(gotRule, rep.Why)) {
						key = fmt.Sprintf("selection|%s:%d|over-match|%s", pk, l.Port, dropVS(gotDesc))
					} else {
						key = fmt.Sprintf("selection|%s:%d|under-match|%s", pk, l.Port, dropVS(wantDesc))
					}
				}
				var alts []string
				for _, rd := range readings {
					alts = append(alts, c.evalVS(p, l.Port, req, rd).Decision)
				}
				desc := fmt.Sprintf("case {%s}; %s listener %d; request %s: the VirtualService semantics give %s (%s), the generated route table %q gives %s (vhost %q route %q)%s",
					c, p.Kind, l.Port, req, rep.Decision, rep.Why, rc.GetName(), got.Decision, got.VHost, got.Route, altText(alts))
				res.Violate(key, desc, replayC12{Case: c, Proxy: p.Kind, Port: l.Port, Request: &req})
				if verbose {
					t.Logf("VIOLATION %s\n  %s", key, desc)
				}
			}
		}
	}
	// the rule list discriminates: on some listener the requests addressed to a.example.com received
	// at least two different decisions
	for _, ds := range decisions {
		if len(ds) >= 2 {
			res.NontrivialCase(c.String())
			break
		}
	}
}

// dropVS turns "rule[<vs>:<match>]" into "rule[<match>]" (keys name the match shape only).
func dropVS(d string) string {
	if i, j := strings.Index(d, "["), strings.Index(d, ":"); i >= 0 && j > i {
		return d[:i+1] + d[j+1:]
	}
	return d
}

// sameVS / ruleBefore compare two attributions of the form "<vs>/r<i>[.m<j>]".
func sameVS(a, b string) bool {
	return strings.SplitN(a, "/", 2)[0] == strings.SplitN(b, "/", 2)[0]
}

func ruleBefore(a, b string) bool {
	pa := routeNameRe.FindStringSubmatch(strings.SplitN(a+"/", "/", 3)[1])
	pb := routeNameRe.FindStringSubmatch(strings.SplitN(b+"/", "/", 3)[1])
	if pa == nil || pb == nil {
		return false
	}
	var ia, ja, ib, jb int
	fmt.Sscan(pa[1], &ia)
	fmt.Sscan(pb[1], &ib)
	fmt.Sscan(pa[2], &ja)
	fmt.Sscan(pb[2], &jb)
	return ia < ib || (ia == ib && ja < jb)
}

func altText(alts []string) string {
	if len(alts) == 0 {
		return ""
	}
	seen := map[string]bool{}
	var u []string
	for _, a := range alts {
		if !seen[a] {
			seen[a] = true
			u = append(u, a)
		}
	}
	return "; other admitted readings give " + strings.Join(u, " | ")
}

func decisionKind(d string) string {
	if i := strings.IndexByte(d, '{'); i >= 0 {
		return d[:i]
	}
	return d
}

func (c caseSpec) shapeKey() string {
	if c.Shape >= shapeG2 {
		return shapeNames[c.Shape]
	}
	return fmt.Sprintf("%s,svc=%v,bind=%s", shapeNames[c.Shape], c.Svc, bindNames[c.Bind])
}

// checkOrder is the second clause of the property: in the virtual host generated for the
// VirtualService, routes appear in rule order, none is alien, and a selected rule is missing only
// after a generated route that matches everything by syntax.
func (c caseSpec) checkOrder(res *engine.Result, p proxySpec, l listenerSpec, rc *route.RouteConfiguration, readings []reading, verbose bool, t *testing.T) map[string]bool {
	bad := map[string]bool{}
	for _, vh := range rc.GetVirtualHosts() {
		if len(vh.GetRoutes()) == 0 {
			continue
		}
		if p.Kind == "gateway" {
			// the rules selected for a virtual host are those of the Gateway serving its domain
			p.Gateway = c.gatewayFor(strings.ToLower(vh.GetDomains()[0]))
			if p.Gateway == "" {
				continue
			}
		}
		// routes grouped by the VirtualService they come from (several only when a host is defined by
		// several VirtualServices); each group is checked against its own rule order
		var order []string
		groups := map[string][]*route.Route{}
		for _, r := range vh.GetRoutes() {
			n := routeVS(r)
			if _, seen := groups[n]; !seen {
				order = append(order, n)
			}
			groups[n] = append(groups[n], r)
		}
		okSome := true
		why, vsn := "", ""
		var gotNames []string
		for _, n := range order {
			v := c.vsByName(n)
			if v == nil {
				continue // default / passthrough routes
			}
			covers := false
			for _, d := range vh.GetDomains() {
				for _, hh := range v.Hosts {
					if ok, _ := hostMatch(hh, strings.TrimSuffix(strings.ToLower(d), ".")); ok {
						covers = true
					}
				}
			}
			if !covers && okSome {
				okSome, vsn = false, n
				why = "alien-virtual-service:" + n + ": the virtual host (domains " + strings.Join(vh.GetDomains(), ",") + ") holds routes of " + n + " whose hosts " + strings.Join(v.Hosts, ",") + " cover none of its domains"
				for _, r := range groups[n] {
					gotNames = append(gotNames, r.GetName())
				}
				continue
			}
			var names []string
			for _, r := range groups[n] {
				names = append(names, r.GetName())
			}
			okVS := false
			w1 := ""
			for _, rd := range readings {
				exp := v.expectedEntries(p, l.Port, rd)
				if w := orderProblem(exp, names, groups[n]); w == "" {
					okVS = true
					break
				} else if w1 == "" {
					w1 = w
				}
			}
			if !okVS && okSome {
				okSome, why, vsn, gotNames = false, w1, n, names
			}
		}
		if p.Kind == "gateway" && okSome {
			// a gateway virtual host is built per host name: every VirtualService bound to the gateway
			// with exactly that host and some rule selected for it (under every reading) contributes routes
			for _, v := range c.virtualServices() {
				named := false
				for _, hh := range v.Hosts {
					for _, d := range vh.GetDomains() {
						named = named || strings.EqualFold(hh, d)
					}
				}
				if !named || groups[v.Name] != nil {
					continue
				}
				must := true
				for _, rd := range readings {
					if len(v.expectedEntries(p, l.Port, rd)) == 0 {
						must = false
					}
				}
				if must {
					okSome, vsn = false, v.Name
					why = "dropped-virtual-service:" + v.Name + ": " + v.Name + " (hosts " + strings.Join(v.Hosts, ",") + ") has rules selected for this gateway but no route of it is in the virtual host with domains " + strings.Join(vh.GetDomains(), ",")
					for _, r := range vh.GetRoutes() {
						gotNames = append(gotNames, routeVS(r)+"/"+r.GetName())
					}
					break
				}
			}
		}
		if len(order) > 1 || c.vsByName(order[0]) != nil {
			res.Count("vhosts_checked_for_rule_order", 1)
		}
		if okSome {
			continue
		}
		bad[vh.GetName()] = true
		// key: kind of problem + the match shape of the route at which it shows
		parts := strings.SplitN(why, ":", 3)
		at := "start"
		if parts[0] == "alien-virtual-service" || parts[0] == "dropped-virtual-service" {
			at = parts[1]
		} else if m := routeNameRe.FindStringSubmatch(strings.TrimSpace(parts[1])); m != nil {
			var i int
			fmt.Sscan(m[1], &i)
			if v := c.vsByName(vsn); v != nil && i < len(v.Rules) {
				at = matchAlphabet[v.Rules[i].Match].Name
			}
		}
		pk := p.Kind
		if c.Shape == shapeG2 {
			pk = "gateway(" + p.Gateway + ")"
		}
		if c.Shape == shapeS2 {
			pk = "gateway(two-servers)"
		}
		key := fmt.Sprintf("order|%s:%d|%s|at=%s", pk, l.Port, parts[0], at)
		desc := fmt.Sprintf("case {%s}; %s listener %d; virtual host %q of %s has routes %v: %s", c, p.Kind, l.Port, vh.GetName(), vsn, gotNames, why)
		res.Violate(key, desc, replayC12{Case: c, Proxy: p.Kind, Port: l.Port})
		if verbose {
			t.Logf("VIOLATION %s\n  %s", key, desc)
		}
	}
	return bad
}

func orderProblem(exp, got []string, routes []*route.Route) string {
	pos := map[string]int{}
	for i, e := range exp {
		pos[e] = i
	}
	last := -1
	present := map[string]bool{}
	for _, g := range got {
		i, ok := pos[g]
		if !ok {
			return "alien-route:" + g + ": the route does not come from a rule selected for this proxy (selected: " + strings.Join(exp, ",") + ")"
		}
		if i <= last {
			return "reordered:" + g + ": the route appears after a later rule (rule order: " + strings.Join(exp, ",") + ")"
		}
		last = i
		present[g] = true
	}
	for i, e := range exp {
		if present[e] {
			continue
		}
		covered := false
		lastBefore := "start"
		for gi, g := range got {
			if pos[g] < i {
				lastBefore = g
				if provablyCatchAll(routes[gi]) {
					covered = true
				}
			}
		}
		if !covered {
			return "dropped-rule:" + lastBefore + ": " + e + " is selected for this proxy but absent, and no earlier generated route (last one before it: " + lastBefore +
				") matches everything (rule order: " + strings.Join(exp, ",") + ")"
		}
	}
	return ""
}

// ---- the enumerated space ---------------------------------------------------------------------

func coreMatches() []int {
	var out []int
	for i, m := range matchAlphabet {
		if m.Core {
			out = append(out, i)
		}
	}
	return out
}

// couldBeCatchAll: match alternatives that translate to a match-everything route for some proxy
// (the length-3 lists are enumerated when some rule is one of these).
func couldBeCatchAll(i int) bool {
	alt := matchAlphabet[i]
	if len(alt.Entries) == 0 {
		return true
	}
	for _, m := range alt.Entries {
		uriAll := m.URI == nil || (m.URI.Kind == "prefix" && m.URI.Val == "/") || (m.URI.Kind == "regex" && m.URI.Val == ".*")
		nh := 0
		for k := range m.Headers {
			if !reservedHeaderKey(k) {
				nh++
			}
		}
		if uriAll && nh == 0 && len(m.WithoutHeaders) == 0 && len(m.QueryParams) == 0 && m.Method == nil && m.Authority == nil {
			return true
		}
	}
	return false
}

// enumerate lists every case of the tier, in a fixed order.
func enumerate(thorough bool) (cases []caseSpec, spaces map[string]int) {
	spaces = map[string]int{}
	add := func(space string, c caseSpec) {
		cases = append(cases, c)
		spaces[space]++
	}
	nM := 0 // the alternatives that name the second Gateway (appended last) only occur in shape G2
	for nM < len(matchAlphabet) && !matchAlphabet[nM].Extra {
		nM++
	}
	nA := quickActions
	if thorough {
		nA = len(actionAlphabet)
	}
	bools := []bool{true, false}

	// (1) all single rules x host shape x service present/absent x DestinationRule present/absent
	//     (+ the top-level gateways binding variants on the plain shapes)
	for m := 0; m < nM; m++ {
		for a := 0; a < len(actionAlphabet); a++ {
			if !thorough && a >= quickActions && m >= 5 {
				// quick: the three extra actions only with the first few matches (they only differ in
				// the action translation)
				continue
			}
			for sh := 0; sh < nShapes; sh++ {
				for _, svc := range bools {
					for _, dr := range bools {
						if !thorough && !dr && !(sh == shapeA && svc) {
							continue
						}
						add("single", caseSpec{Shape: sh, Svc: svc, DR: dr, Bind: bindBoth, Rules: []ruleSpec{{m, a}}})
					}
					for _, b := range []int{bindMesh, bindGw} {
						if !thorough && !(sh == shapeA || sh == shapeAW) {
							continue
						}
						if !thorough && !svc {
							continue
						}
						add("single-binding", caseSpec{Shape: sh, Svc: svc, DR: true, Bind: b, Rules: []ruleSpec{{m, a}}})
					}
				}
			}
		}
	}

	// (2) all rule pairs. quick: every pair of matches, actions fixed by a rotation so that the two
	//     rules always differ in action and every action kind occurs in both positions; thorough: all
	//     action pairs.
	for m1 := 0; m1 < nM; m1++ {
		for m2 := 0; m2 < nM; m2++ {
			for sh := 0; sh < nShapes; sh++ {
				for _, svc := range bools {
					ra1 := m1 % quickActions
					ra2 := (ra1 + 1 + m2%(quickActions-1)) % quickActions
					if sh == shapeA && svc && (thorough || matchAlphabet[m1].Core || matchAlphabet[m2].Core) {
						// the same two rules as two VirtualServices on one host (gateway merge)
						add("split-pair", caseSpec{Shape: sh, Svc: svc, DR: true, Bind: bindBoth, Rules: []ruleSpec{{m1, ra1}, {m2, ra2}}, Split: 1})
					}
					if thorough {
						for a1 := 0; a1 < nA; a1++ {
							for a2 := 0; a2 < nA; a2++ {
								if a1 == a2 && m1 != m2 {
									// identical actions cannot show which rule was taken; kept only for
									// the duplicate-rule diagonal
									continue
								}
								if (a1 >= quickActions || a2 >= quickActions) && !(sh == shapeA && svc && m1 == m2) {
									// the three extra actions differ from the first four only in the action
									// translation: all singles, and the duplicate-rule diagonal here
									continue
								}
								add("pair", caseSpec{Shape: sh, Svc: svc, DR: true, Bind: bindBoth, Rules: []ruleSpec{{m1, a1}, {m2, a2}}})
							}
						}
						continue
					}
					if sh >= shapeAW && !(matchAlphabet[m1].Core || matchAlphabet[m2].Core) {
						// quick: the two-VirtualService shapes only with a core match in the pair
						continue
					}
					add("pair", caseSpec{Shape: sh, Svc: svc, DR: true, Bind: bindBoth, Rules: []ruleSpec{{m1, ra1}, {m2, ra2}}})
				}
			}
		}
	}

	// (3) length 3 where some rule could be a catch-all (truncation and catch-all sorting).
	//     quick: the core match alphabet; thorough: the full one. Actions by position.
	ms := coreMatches()
	if thorough {
		ms = ms[:0]
		for i := 0; i < nM; i++ {
			ms = append(ms, i)
		}
	}
	for _, m1 := range ms {
		for _, m2 := range ms {
			for _, m3 := range ms {
				if !couldBeCatchAll(m1) && !couldBeCatchAll(m2) && !couldBeCatchAll(m3) {
					continue
				}
				rot := (m1 + m2 + m3) % quickActions
				rules := []ruleSpec{{m1, rot}, {m2, (rot + 1) % quickActions}, {m3, (rot + 2) % quickActions}}
				add("triple", caseSpec{Shape: shapeA, Svc: true, DR: true, Bind: bindBoth, Rules: rules})
				add("split-triple", caseSpec{Shape: shapeA, Svc: true, DR: true, Bind: bindBoth, Rules: rules, Split: 1})
				if thorough && matchAlphabet[m1].Core && matchAlphabet[m2].Core && matchAlphabet[m3].Core {
					add("split-triple", caseSpec{Shape: shapeA, Svc: true, DR: true, Bind: bindBoth, Rules: rules, Split: 2})
				}
				if thorough {
					add("triple", caseSpec{Shape: shapeW, Svc: false, DR: true, Bind: bindBoth, Rules: rules})
				}
			}
		}
	}

	// (4) two Gateways of one workload on one port, ONE VirtualService bound to both (shape G2): rule
	//     lists of length 1..3 over the G2 alphabet (rules restricted to gw, to gw2, to both, to neither),
	//     both age orders of the Gateways; thorough adds all action pairs and the pairs of a
	//     second-Gateway alternative with every other match.
	var g2, g2only []int
	for i, m := range matchAlphabet {
		if m.G2 {
			g2 = append(g2, i)
		}
		if m.Extra {
			g2only = append(g2only, i)
		}
	}
	g2case := func(first bool, rules ...ruleSpec) caseSpec {
		return caseSpec{Shape: shapeG2, Svc: true, DR: true, Bind: bindBoth, Rules: rules, Gw2First: first}
	}
	for _, first := range bools {
		for _, m1 := range g2 {
			for a := 0; a < quickActions; a++ {
				add("g2-single", g2case(first, ruleSpec{m1, a}))
			}
			for _, m2 := range g2 {
				ra1 := m1 % quickActions
				ra2 := (ra1 + 1 + m2%(quickActions-1)) % quickActions
				if !thorough {
					add("g2-pair", g2case(first, ruleSpec{m1, ra1}, ruleSpec{m2, ra2}))
				} else {
					for a1 := 0; a1 < quickActions; a1++ {
						for a2 := 0; a2 < quickActions; a2++ {
							if a1 != a2 {
								add("g2-pair", g2case(first, ruleSpec{m1, a1}, ruleSpec{m2, a2}))
							}
						}
					}
				}
				if first && !thorough {
					continue
				}
				for _, m3 := range g2 {
					rot := (m1 + m2 + m3) % quickActions
					add("g2-triple", g2case(first, ruleSpec{m1, rot}, ruleSpec{m2, (rot + 1) % quickActions}, ruleSpec{m3, (rot + 2) % quickActions}))
				}
			}
		}
		if thorough {
			for _, m1 := range g2only {
				for m2 := 0; m2 < nM; m2++ {
					if matchAlphabet[m2].G2 {
						continue
					}
					add("g2-pair", g2case(first, ruleSpec{m1, 0}, ruleSpec{m2, 3}))
					add("g2-pair", g2case(first, ruleSpec{m2, 3}, ruleSpec{m1, 0}))
				}
			}
		}
	}

	// (5) one Gateway with two servers on one port, the enumerated VirtualService spanning one host of
	//     each and older than the per-host VirtualServices (shape S2): lists of length 1..3.
	var s2 []int
	for i, m := range matchAlphabet {
		if m.S2 {
			s2 = append(s2, i)
		}
	}
	s2case := func(rules ...ruleSpec) caseSpec {
		return caseSpec{Shape: shapeS2, Svc: true, DR: true, Bind: bindBoth, Rules: rules}
	}
	for _, m1 := range s2 {
		for a := 0; a < quickActions; a++ {
			add("s2-single", s2case(ruleSpec{m1, a}))
		}
		for _, m2 := range s2 {
			ra1 := m1 % quickActions
			ra2 := (ra1 + 1 + m2%(quickActions-1)) % quickActions
			add("s2-pair", s2case(ruleSpec{m1, ra1}, ruleSpec{m2, ra2}))
			if thorough {
				for a1 := 0; a1 < quickActions; a1++ {
					for a2 := 0; a2 < quickActions; a2++ {
						if a1 != a2 && !(a1 == ra1 && a2 == ra2) {
							add("s2-pair", s2case(ruleSpec{m1, a1}, ruleSpec{m2, a2}))
						}
					}
				}
			}
			for _, m3 := range s2 {
				rot := (m1 + m2 + m3) % quickActions
				add("s2-triple", s2case(ruleSpec{m1, rot}, ruleSpec{m2, (rot + 1) % quickActions}, ruleSpec{m3, (rot + 2) % quickActions}))
			}
		}
	}

	// (6) a registry service whose name equals a Kubernetes short form of another service (shape K):
	//     all single rules, pairs over the core alphabet (thorough: all pairs), the VirtualService on
	//     either of the two services.
	for _, short := range []bool{false, true} {
		kcase := func(rules ...ruleSpec) caseSpec {
			return caseSpec{Shape: shapeK, Svc: false, DR: true, Bind: bindBoth, Rules: rules, KShort: short}
		}
		for m1 := 0; m1 < nM; m1++ {
			for a := 0; a < quickActions; a++ {
				add("k-single", kcase(ruleSpec{m1, a}))
			}
			for m2 := 0; m2 < nM; m2++ {
				if !thorough && !(matchAlphabet[m1].Core && matchAlphabet[m2].Core) {
					continue
				}
				ra1 := m1 % quickActions
				ra2 := (ra1 + 1 + m2%(quickActions-1)) % quickActions
				add("k-pair", kcase(ruleSpec{m1, ra1}, ruleSpec{m2, ra2}))
			}
		}
	}
	return cases, spaces
}

func TestC12(t *testing.T) {
	env := engine.GetEnv()
	res := engine.NewResult("C12", "routes")
	res.Rule = "case = (host shape A|W|AW|WA, service present/absent, DestinationRule present/absent, top-level gateways binding, rule list over match alphabet x action alphabet); " +
		"every case is built by the real istio code and every request of the product of the request dimensions its literals touch is evaluated on the sidecar (listeners 80, 8080) and gateway (80) route tables; " +
		"non-trivial = case in which the requests addressed to a.example.com received >= 2 different routing decisions on one listener (the rule list discriminates)"
	defer res.Write(t, env)
	silenceLogs()

	if env.Replay != "" {
		var rp replayC12
		if err := engine.ReadReplay(env.Replay, &rp); err != nil {
			t.Fatal(err)
		}
		runCase(t, res, rp.Case, true)
		return
	}

	cases, spaces := enumerate(env.Thorough())
	res.Bounds["match_alphabet"] = len(matchAlphabet)
	res.Bounds["two_gateway_shape"] = "G2: one VirtualService [a.example.com, c.example.com] bound to Gateways gw (serves a.example.com) and gw2 (serves c.example.com), same workload, same port 80; gateway proxy only"
	res.Bounds["action_alphabet"] = map[bool]int{false: quickActions, true: len(actionAlphabet)}[env.Thorough()]
	res.Bounds["host_shapes"] = shapeNames
	res.Bounds["cases_total"] = len(cases)
	res.Bounds["cases_by_space"] = spaces
	res.Bounds["rule_list_length"] = "1, 2, and 3 where some rule could be a catch-all"
	res.Bounds["request_alphabet"] = map[string]int{"authorities": len(authoritiesAll), "paths": len(pathsAll), "header_values": len(hdrValsAll), "queries": len(queriesAll), "methods": len(methodsAll)}
	res.Bounds["proxies"] = "sidecar (listeners 80, 8080), gateway (server port 80)"

	first := true
	for i, c := range cases {
		if !env.Mine(int64(i)) {
			continue
		}
		if env.Expired() {
			res.Cap(fmt.Sprintf("deadline at case %d/%d", i, len(cases)))
			break
		}
		if first {
			// determinism: the same case generated twice gives identical route tables
			first = false
			if a, b := dumpRoutes(generate(c)), dumpRoutes(generate(c)); a != b {
				res.Infra = "nondeterministic generation for case " + c.String()
				return
			}
		}
		res.States++
		runCase(t, res, c, false)
		if i%4099 == 0 {
			res.Sample(map[string]any{"case": c.String(), "requests": len(c.requests()), "first_request": c.requests()[0].String()})
		}
	}
}
