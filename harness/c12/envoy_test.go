// R3-Envoy: reference interpreter of an Envoy RouteConfiguration, written from the Envoy API
// documentation (config.route.v3 RouteConfiguration / VirtualHost / RouteMatch / HeaderMatcher /
// QueryParameterMatcher comments). It implements exactly the matchers listed below and returns an
// error for anything else, so that an unimplemented construct can never be silently "not matched".
package c12

import (
	"fmt"
	"strings"

	route "github.com/envoyproxy/go-control-plane/envoy/config/route/v3"
	matcher "github.com/envoyproxy/go-control-plane/envoy/type/matcher/v3"
)

type envoyVerdict struct {
	Decision string
	VHost    string // name of the selected virtual host ("" = none)
	Route    string // name of the selected route ("" = none)
	RouteIdx int
}

// selectVHost implements the documented domain search order: exact domain names; suffix domain
// wildcards (*.foo.com, *-bar.foo.com); prefix domain wildcards (foo.*, foo-*); the special wildcard
// "*"; the longest wildcards match first. Host names are compared case-insensitively; with
// ignore_port_in_host_matching the port of the Host / :authority value is removed first.
func selectVHost(rc *route.RouteConfiguration, authority string) (*route.VirtualHost, error) {
	host := strings.ToLower(authority)
	if rc.GetIgnorePortInHostMatching() {
		host = stripPort(host)
	}
	if rc.GetVhds() != nil {
		return nil, fmt.Errorf("vhds not implemented")
	}
	var exactVH, suffixVH, prefixVH, starVH *route.VirtualHost
	suffixLen, prefixLen := -1, -1
	for _, vh := range rc.GetVirtualHosts() {
		for _, d := range vh.GetDomains() {
			d = strings.ToLower(d)
			switch {
			case d == "*":
				if starVH == nil {
					starVH = vh
				}
			case strings.HasPrefix(d, "*"):
				s := d[1:]
				if strings.HasSuffix(host, s) && len(host) > len(s) && len(s) > suffixLen {
					suffixVH, suffixLen = vh, len(s)
				}
			case strings.HasSuffix(d, "*"):
				s := d[:len(d)-1]
				if strings.HasPrefix(host, s) && len(host) > len(s) && len(s) > prefixLen {
					prefixVH, prefixLen = vh, len(s)
				}
			case d == host:
				if exactVH == nil {
					exactVH = vh
				}
			}
		}
	}
	switch {
	case exactVH != nil:
		return exactVH, nil
	case suffixVH != nil:
		return suffixVH, nil
	case prefixVH != nil:
		return prefixVH, nil
	}
	return starVH, nil
}

// validateRouteConfig reports what would make Envoy reject the configuration (duplicate domain,
// route without action, weighted clusters summing to zero, uncompilable regex).
func validateRouteConfig(rc *route.RouteConfiguration) string {
	seen := map[string]string{}
	for _, vh := range rc.GetVirtualHosts() {
		if len(vh.GetDomains()) == 0 {
			return "virtual host " + vh.GetName() + " has no domains"
		}
		for _, d := range vh.GetDomains() {
			k := strings.ToLower(d)
			if o, dup := seen[k]; dup {
				return fmt.Sprintf("domain %q appears in virtual hosts %q and %q", d, o, vh.GetName())
			}
			seen[k] = vh.GetName()
		}
		for _, r := range vh.GetRoutes() {
			if r.GetAction() == nil {
				return fmt.Sprintf("route %q of %q has no action", r.GetName(), vh.GetName())
			}
			if wc := r.GetRoute().GetWeightedClusters(); wc != nil {
				var total uint32
				for _, c := range wc.GetClusters() {
					total += c.GetWeight().GetValue()
				}
				if total == 0 {
					return fmt.Sprintf("route %q of %q: weighted clusters sum to 0", r.GetName(), vh.GetName())
				}
			}
		}
	}
	return ""
}

func regexOK(re string) (err error) {
	defer func() {
		if r := recover(); r != nil {
			err = fmt.Errorf("regex %q does not compile: %v", re, r)
		}
	}()
	fullMatch(re, "")
	return nil
}

func envoyStringMatch(m *matcher.StringMatcher, v string) (bool, error) {
	ic := m.GetIgnoreCase()
	fold := func(s string) string {
		if ic {
			return strings.ToLower(s)
		}
		return s
	}
	switch p := m.GetMatchPattern().(type) {
	case *matcher.StringMatcher_Exact:
		return fold(v) == fold(p.Exact), nil
	case *matcher.StringMatcher_Prefix:
		return strings.HasPrefix(fold(v), fold(p.Prefix)), nil
	case *matcher.StringMatcher_Suffix:
		return strings.HasSuffix(fold(v), fold(p.Suffix)), nil
	case *matcher.StringMatcher_Contains:
		return strings.Contains(fold(v), fold(p.Contains)), nil
	case *matcher.StringMatcher_SafeRegex:
		// "ignore_case ... has no effect for the safe_regex match"
		if err := regexOK(p.SafeRegex.GetRegex()); err != nil {
			return false, err
		}
		return fullMatch(p.SafeRegex.GetRegex(), v), nil
	}
	return false, fmt.Errorf("string matcher %T not implemented", m.GetMatchPattern())
}

// requestHeader returns the value of a request header, pseudo-headers included.
func requestHeader(req request, name string) (string, bool) {
	switch strings.ToLower(name) {
	case ":method":
		return req.Method, true
	case ":authority", "host":
		return req.Authority, true
	case ":scheme":
		return "http", true
	case ":path":
		p := req.Path
		if req.Query != nil {
			p += "?" + *req.Query
		}
		return p, true
	}
	v, ok := req.Headers[strings.ToLower(name)]
	return v, ok
}

// headerMatches implements HeaderMatcher: present_match decides on presence alone; every other
// specifier needs a value -- a missing header "will be ignored so it will not match" (also when
// invert_match is set) unless treat_missing_header_as_empty is set, in which case it is matched as
// the empty string; invert_match inverts the result of a performed match.
func headerMatches(hm *route.HeaderMatcher, req request) (bool, error) {
	v, ok := requestHeader(req, hm.GetName())
	if hm.GetTreatMissingHeaderAsEmpty() && !ok {
		v, ok = "", true
	}
	var res bool
	switch s := hm.GetHeaderMatchSpecifier().(type) {
	case nil:
		// "If header_match_specifier is absent, a request that has the name header will match"
		res = ok
		return res != hm.GetInvertMatch(), nil
	case *route.HeaderMatcher_PresentMatch:
		res = ok == s.PresentMatch
		return res != hm.GetInvertMatch(), nil
	}
	if !ok {
		return false, nil
	}
	switch s := hm.GetHeaderMatchSpecifier().(type) {
	case *route.HeaderMatcher_StringMatch:
		r, err := envoyStringMatch(s.StringMatch, v)
		if err != nil {
			return false, err
		}
		res = r
	case *route.HeaderMatcher_ExactMatch:
		res = v == s.ExactMatch
	case *route.HeaderMatcher_PrefixMatch:
		res = strings.HasPrefix(v, s.PrefixMatch)
	case *route.HeaderMatcher_SuffixMatch:
		res = strings.HasSuffix(v, s.SuffixMatch)
	case *route.HeaderMatcher_ContainsMatch:
		res = strings.Contains(v, s.ContainsMatch)
	case *route.HeaderMatcher_SafeRegexMatch:
		if err := regexOK(s.SafeRegexMatch.GetRegex()); err != nil {
			return false, err
		}
		res = fullMatch(s.SafeRegexMatch.GetRegex(), v)
	default:
		return false, fmt.Errorf("header matcher %T not implemented", s)
	}
	return res != hm.GetInvertMatch(), nil
}

func queryParamMatches(qm *route.QueryParameterMatcher, req request) (bool, error) {
	v, ok := parseQuery(req.Query)[qm.GetName()]
	switch s := qm.GetQueryParameterMatchSpecifier().(type) {
	case nil:
		return ok, nil
	case *route.QueryParameterMatcher_PresentMatch:
		return ok == s.PresentMatch, nil
	case *route.QueryParameterMatcher_StringMatch:
		if !ok {
			return false, nil
		}
		return envoyStringMatch(s.StringMatch, v)
	default:
		return false, fmt.Errorf("query parameter matcher %T not implemented", s)
	}
}

// routeMatches implements RouteMatch for the path specifiers prefix / path / safe_regex /
// path_separated_prefix (path = :path without query string; case_sensitive applies to prefix and
// path, "ignored for safe_regex matching"), headers and query_parameters (all must hold).
func routeMatches(m *route.RouteMatch, req request) (bool, error) {
	if m == nil {
		return false, fmt.Errorf("route without match")
	}
	if m.GetRuntimeFraction() != nil || m.GetGrpc() != nil || m.GetTlsContext() != nil || len(m.GetDynamicMetadata()) > 0 || len(m.GetFilterState()) > 0 {
		return false, fmt.Errorf("route match uses runtime_fraction/grpc/tls_context/dynamic_metadata/filter_state: not implemented")
	}
	cs := true
	if m.GetCaseSensitive() != nil {
		cs = m.GetCaseSensitive().GetValue()
	}
	fold := func(s string) string {
		if cs {
			return s
		}
		return strings.ToLower(s)
	}
	path := req.Path
	switch p := m.GetPathSpecifier().(type) {
	case *route.RouteMatch_Prefix:
		if strings.ContainsAny(p.Prefix, "?#") {
			return false, fmt.Errorf("prefix with query/fragment not implemented")
		}
		if !strings.HasPrefix(fold(path), fold(p.Prefix)) {
			return false, nil
		}
	case *route.RouteMatch_Path:
		if fold(path) != fold(p.Path) {
			return false, nil
		}
	case *route.RouteMatch_SafeRegex:
		if err := regexOK(p.SafeRegex.GetRegex()); err != nil {
			return false, err
		}
		if !fullMatch(p.SafeRegex.GetRegex(), path) {
			return false, nil
		}
	case *route.RouteMatch_PathSeparatedPrefix:
		pp, fp := fold(p.PathSeparatedPrefix), fold(path)
		if !(fp == pp || strings.HasPrefix(fp, pp+"/")) {
			return false, nil
		}
	default:
		return false, fmt.Errorf("path specifier %T not implemented", p)
	}
	for _, hm := range m.GetHeaders() {
		ok, err := headerMatches(hm, req)
		if err != nil || !ok {
			return false, err
		}
	}
	for _, qm := range m.GetQueryParameters() {
		ok, err := queryParamMatches(qm, req)
		if err != nil || !ok {
			return false, err
		}
	}
	return true, nil
}

var redirectCodes = map[route.RedirectAction_RedirectResponseCode]int{
	route.RedirectAction_MOVED_PERMANENTLY:  301,
	route.RedirectAction_FOUND:              302,
	route.RedirectAction_SEE_OTHER:          303,
	route.RedirectAction_TEMPORARY_REDIRECT: 307,
	route.RedirectAction_PERMANENT_REDIRECT: 308,
}

func actionOf(r *route.Route) (string, error) {
	switch a := r.GetAction().(type) {
	case *route.Route_Route:
		switch cs := a.Route.GetClusterSpecifier().(type) {
		case *route.RouteAction_Cluster:
			return routeDecision(map[string]float64{cs.Cluster: 1}), nil
		case *route.RouteAction_WeightedClusters:
			w := map[string]float64{}
			for _, c := range cs.WeightedClusters.GetClusters() {
				if c.GetWeight().GetValue() > 0 {
					w[c.GetName()] += float64(c.GetWeight().GetValue())
				}
			}
			if len(w) == 0 {
				return "", fmt.Errorf("weighted clusters sum to zero")
			}
			return routeDecision(w), nil
		default:
			return "", fmt.Errorf("cluster specifier %T not implemented", cs)
		}
	case *route.Route_Redirect:
		rd := a.Redirect
		code, ok := redirectCodes[rd.GetResponseCode()]
		if !ok {
			return "", fmt.Errorf("redirect code %v", rd.GetResponseCode())
		}
		extra := ""
		if rd.GetPrefixRewrite() != "" {
			extra += " prefix_rewrite=" + rd.GetPrefixRewrite()
		}
		if rd.GetRegexRewrite() != nil {
			extra += " regex_rewrite"
		}
		if rd.GetSchemeRedirect() != "" {
			extra += " scheme=" + rd.GetSchemeRedirect()
		}
		if rd.GetHttpsRedirect() {
			extra += " https"
		}
		if rd.GetPortRedirect() != 0 {
			extra += fmt.Sprintf(" port=%d", rd.GetPortRedirect())
		}
		if rd.GetStripQuery() {
			extra += " strip_query"
		}
		return redirectDecision(rd.GetHostRedirect(), rd.GetPathRedirect(), code, extra), nil
	case *route.Route_DirectResponse:
		body := ""
		if a.DirectResponse.GetBody() != nil {
			switch {
			case a.DirectResponse.GetBody().GetInlineString() != "":
				body = a.DirectResponse.GetBody().GetInlineString()
			case len(a.DirectResponse.GetBody().GetInlineBytes()) > 0:
				body = string(a.DirectResponse.GetBody().GetInlineBytes())
			case a.DirectResponse.GetBody().GetFilename() != "" || a.DirectResponse.GetBody().GetEnvironmentVariable() != "":
				return "", fmt.Errorf("direct response body source not implemented")
			}
		}
		return directDecision(int(a.DirectResponse.GetStatus()), body), nil
	case nil:
		return "", fmt.Errorf("route %q has no action", r.GetName())
	}
	return "", fmt.Errorf("route action %T not implemented", r.GetAction())
}

// envoyEval is R3-Envoy: virtual host by authority, then the first route whose match holds.
func envoyEval(rc *route.RouteConfiguration, req request) (envoyVerdict, error) {
	vh, err := selectVHost(rc, req.Authority)
	if err != nil {
		return envoyVerdict{}, err
	}
	if vh == nil {
		return envoyVerdict{Decision: decNone, RouteIdx: -1}, nil
	}
	if vh.GetMatcher() != nil {
		return envoyVerdict{}, fmt.Errorf("virtual host matcher tree not implemented")
	}
	if vh.GetRequireTls() != route.VirtualHost_NONE {
		return envoyVerdict{}, fmt.Errorf("require_tls not implemented")
	}
	for i, r := range vh.GetRoutes() {
		ok, err := routeMatches(r.GetMatch(), req)
		if err != nil {
			return envoyVerdict{}, fmt.Errorf("vhost %s route %s: %v", vh.GetName(), r.GetName(), err)
		}
		if !ok {
			continue
		}
		d, err := actionOf(r)
		if err != nil {
			return envoyVerdict{}, fmt.Errorf("vhost %s route %s: %v", vh.GetName(), r.GetName(), err)
		}
		return envoyVerdict{Decision: d, VHost: vh.GetName(), Route: r.GetName(), RouteIdx: i}, nil
	}
	return envoyVerdict{Decision: decNone, VHost: vh.GetName(), RouteIdx: -1}, nil
}

// provablyCatchAll: an Envoy route that matches every request by syntax alone (path prefix "/" or
// "" or regex ".*", no other condition). This is the harness's own definition, used for the
// clause "no rule is dropped unless an earlier rule provably matches everything".
func provablyCatchAll(r *route.Route) bool {
	m := r.GetMatch()
	if m == nil || len(m.GetHeaders()) > 0 || len(m.GetQueryParameters()) > 0 || len(m.GetDynamicMetadata()) > 0 ||
		m.GetGrpc() != nil || m.GetTlsContext() != nil || m.GetRuntimeFraction() != nil || len(m.GetFilterState()) > 0 {
		return false
	}
	switch p := m.GetPathSpecifier().(type) {
	case *route.RouteMatch_Prefix:
		return p.Prefix == "/" || p.Prefix == ""
	case *route.RouteMatch_PathSeparatedPrefix:
		return p.PathSeparatedPrefix == "/"
	case *route.RouteMatch_SafeRegex:
		return p.SafeRegex.GetRegex() == ".*"
	}
	return false
}
