// R3-VS: reference evaluator of VirtualService semantics, written from the API documentation
// (istio.io/api networking/v1alpha3/virtual_service.proto comments), not from istio's translation.
//
// Given the case (VirtualServices + registry), a proxy, the listener port the request arrived on
// and a request, it says which action the API text defines. Where the API text leaves a cell open
// the evaluator is parameterised by a `reading`; the check accepts the generated route table if it
// agrees with the evaluator under some combination of readings (HARNESS_GUIDE rule 3), and counts
// how often that latitude was needed.
package c12

import (
	"fmt"
	"regexp"
	"sort"
	"strings"
)

// reading fixes the cells the API documentation leaves open.
type reading struct {
	// "Names of gateways where the rule should be applied. ... The gateway match is independent of
	// sourceLabels." -- read either as "a match that lists gateways disregards sourceLabels /
	// sourceNamespace" (true) or as "all source conditions are conjunctive" (false).
	GwIgnoresSource bool
	// sourceLabels / sourceNamespace "constrain the applicability of a rule to source (client)
	// workloads"; the text does not say what they mean on a gateway: compared with the gateway
	// workload's own labels / namespace (false) or vacuous there (true).
	SrcVacuousAtGw bool
	// withoutHeaders: "If a header is matched with a matching rule among withoutHeader, the traffic
	// becomes not matched one." -- silent on an absent header whose pattern accepts the empty
	// string: absent is never "matched" (false) or absent counts as the empty value (true).
	AbsentIsEmpty bool
	// match.port "Specifies the ports on the host that is being addressed": when it differs from the
	// listener's port the rule is either removed like a selector (true: a VirtualService left without
	// rules does not apply, the service's default route is used) or simply does not match (false: 404).
	PortIsSelector bool
	// "Gateway names in the top-level gateways field of the VirtualService (if any) are overridden":
	// a match that lists a gateway (or mesh) the top-level field does not list either binds the rule
	// there (true) or cannot widen the top-level binding (false).
	MatchGwWidens bool
	// A VirtualService host that is not a registry service has no known ports; the text does not
	// say on which outbound listeners of a sidecar it applies other than the HTTP default 80:
	// every listener (true) or only 80 (false).
	NonRegistryAnyPort bool
	// The most specific VirtualService for the authority has no rule addressed to this proxy
	// (all de-selected by sourceLabels / sourceNamespace / gateways / port): the next most specific
	// VirtualService applies (true) or none does (false). The text does not say.
	FallThrough bool
}

func (r reading) String() string {
	var on []string
	for _, f := range []struct {
		b bool
		n string
	}{
		{r.GwIgnoresSource, "match.gateways-disregards-sourceLabels"}, {r.SrcVacuousAtGw, "sourceLabels-vacuous-on-gateway"},
		{r.AbsentIsEmpty, "withoutHeaders-absent-is-empty"}, {r.PortIsSelector, "match.port-is-selector"},
		{r.MatchGwWidens, "match.gateways-widens-binding"}, {r.NonRegistryAnyPort, "non-registry-host-any-port"},
		{r.FallThrough, "fall-through-to-less-specific-vs"},
	} {
		if f.b {
			on = append(on, f.n)
		}
	}
	return strings.Join(on, "+")
}

// allReadings enumerates the readings that can matter for a case (flags whose feature the case does
// not contain are held false).
func allReadings(relevant reading) []reading {
	out := []reading{{}}
	add := func(on bool, set func(*reading)) {
		if !on {
			return
		}
		n := len(out)
		for i := 0; i < n; i++ {
			r := out[i]
			set(&r)
			out = append(out, r)
		}
	}
	add(relevant.GwIgnoresSource, func(r *reading) { r.GwIgnoresSource = true })
	add(relevant.SrcVacuousAtGw, func(r *reading) { r.SrcVacuousAtGw = true })
	add(relevant.AbsentIsEmpty, func(r *reading) { r.AbsentIsEmpty = true })
	add(relevant.PortIsSelector, func(r *reading) { r.PortIsSelector = true })
	add(relevant.MatchGwWidens, func(r *reading) { r.MatchGwWidens = true })
	add(relevant.NonRegistryAnyPort, func(r *reading) { r.NonRegistryAnyPort = true })
	add(relevant.FallThrough, func(r *reading) { r.FallThrough = true })
	return out
}

// relevantReadings says which open cells a case can touch at all.
func (c caseSpec) relevantReadings() reading {
	var r reading
	for _, v := range c.virtualServices() {
		for _, rule := range v.Rules {
			for _, m := range matchAlphabet[rule.Match].Entries {
				src := len(m.SourceLabels) > 0 || m.SourceNamespace != ""
				if src && len(m.Gateways) > 0 {
					r.GwIgnoresSource = true
				}
				if src {
					r.SrcVacuousAtGw = true
				}
				for _, s := range m.WithoutHeaders {
					if s.Kind != "present" && matchString(s, "") {
						r.AbsentIsEmpty = true
					}
				}
				if m.Port != 0 {
					r.PortIsSelector = true
				}
				if len(m.Gateways) > 0 {
					r.MatchGwWidens = true
				}
			}
		}
	}
	// hosts outside the registry are always among the requests (b.example.com, or a.example.com
	// when its ServiceEntry is absent)
	r.NonRegistryAnyPort = true
	r.FallThrough = len(c.virtualServices()) > 1 && (r.SrcVacuousAtGw || r.PortIsSelector || r.MatchGwWidens)
	return r
}

var reCache = map[string]*regexp.Regexp{}

// fullMatch: RE2 full match ("regex: value for RE2 style regex-based match"; a route / header regex
// must match the whole value).
func fullMatch(re, s string) bool {
	r, ok := reCache[re]
	if !ok {
		r = regexp.MustCompile(`^(?:` + re + `)$`)
		reCache[re] = r
	}
	return r.MatchString(s)
}

func matchString(m *strMatch, v string) bool {
	switch m.Kind {
	case "exact":
		return v == m.Val
	case "prefix":
		return strings.HasPrefix(v, m.Val)
	case "regex":
		return fullMatch(m.Val, v)
	case "present":
		return true
	}
	panic("c12: strMatch kind")
}

func stripPort(authority string) string {
	if i := strings.LastIndexByte(authority, ':'); i >= 0 && !strings.Contains(authority[i:], "]") {
		return authority[:i]
	}
	return authority
}

// hostMatch: does VirtualService host h (exact or "*.suffix" / "*") cover request host r; returns a
// specificity rank (higher = more specific).
func hostMatch(h, r string) (bool, int) {
	h, r = strings.ToLower(h), strings.ToLower(r)
	if !strings.HasPrefix(h, "*") {
		return h == r, 1 << 20
	}
	suffix := h[1:]
	if strings.HasSuffix(r, suffix) && len(r) > len(suffix) {
		return true, len(suffix)
	}
	return false, 0
}

// parseQuery: "?key=true" -> key:"true"; "?key" -> key:"" (API examples); first occurrence wins.
func parseQuery(q *string) map[string]string {
	out := map[string]string{}
	if q == nil {
		return out
	}
	for _, kv := range strings.Split(*q, "&") {
		if kv == "" {
			continue
		}
		k, v, _ := strings.Cut(kv, "=")
		if _, dup := out[k]; !dup {
			out[k] = v
		}
	}
	return out
}

func subset(a, b map[string]string) bool {
	for k, v := range a {
		if b[k] != v {
			return false
		}
	}
	return true
}

func contains(l []string, s string) bool {
	for _, x := range l {
		if x == s {
			return true
		}
	}
	return false
}

// proxyGatewayName is how a proxy is called in `gateways` lists.
func (p proxySpec) gatewayName() string {
	if p.Kind == "sidecar" {
		return "mesh"
	}
	return p.Gateway
}

// topBound: is the VirtualService bound to the proxy by its top-level gateways field ("When this
// field is omitted, the default gateway (mesh) will be used").
func (v vsSpec) topBound(p proxySpec) bool {
	if len(v.Gateways) == 0 {
		return p.Kind == "sidecar"
	}
	return contains(v.Gateways, p.gatewayName())
}

// selected: the selector-like conditions of a match entry (they say where the rule applies, "not a
// runtime match").
func (v vsSpec) selected(m matchSpec, p proxySpec, port int, rd reading) bool {
	if len(m.Gateways) > 0 {
		if !contains(m.Gateways, p.gatewayName()) {
			return false
		}
		if !v.topBound(p) && !rd.MatchGwWidens {
			return false
		}
	} else if !v.topBound(p) {
		return false
	}
	src := subset(m.SourceLabels, p.Labels) && (m.SourceNamespace == "" || m.SourceNamespace == p.Namespace)
	if p.Kind == "gateway" && rd.SrcVacuousAtGw {
		src = true
	}
	if len(m.Gateways) > 0 && rd.GwIgnoresSource {
		src = true
	}
	if !src {
		return false
	}
	if rd.PortIsSelector && m.Port != 0 && int(m.Port) != port {
		return false
	}
	return true
}

// holds: the run-time conditions of a match entry on a request ("all conditions inside a single
// match block have AND semantics").
func holds(m matchSpec, req request, port int, rd reading) bool {
	if !rd.PortIsSelector && m.Port != 0 && int(m.Port) != port {
		return false
	}
	if m.URI != nil {
		val, path := m.URI.Val, req.Path
		switch m.URI.Kind {
		case "exact":
			if m.IgnoreURICase {
				val, path = strings.ToLower(val), strings.ToLower(path)
			}
			if path != val {
				return false
			}
		case "prefix":
			if m.IgnoreURICase {
				val, path = strings.ToLower(val), strings.ToLower(path)
			}
			if !strings.HasPrefix(path, val) {
				return false
			}
		case "regex": // ignoreUriCase: "only in the case of exact and prefix URI matches"
			if !fullMatch(val, path) {
				return false
			}
		}
	}
	for name, s := range m.Headers {
		if reservedHeaderKey(name) {
			continue // "The keys uri, scheme, method, and authority will be ignored."
		}
		v, ok := req.Headers[name]
		if !ok || !matchString(s, v) {
			return false
		}
	}
	for name, s := range m.WithoutHeaders {
		v, ok := req.Headers[name]
		switch {
		case ok && matchString(s, v):
			return false
		case !ok && s.Kind != "present" && rd.AbsentIsEmpty && matchString(s, ""):
			return false
		}
	}
	if len(m.QueryParams) > 0 {
		qp := parseQuery(req.Query)
		for name, s := range m.QueryParams {
			v, ok := qp[name]
			if !ok || !matchString(s, v) {
				return false
			}
		}
	}
	if m.Method != nil && !matchString(m.Method, req.Method) {
		return false
	}
	if m.Authority != nil && !matchString(m.Authority, req.Authority) {
		return false
	}
	return true
}

// ---- decisions (canonical strings shared with the Envoy interpreter) -------------------------

func clusterName(host string, port int, subset string) string {
	return fmt.Sprintf("outbound|%d|%s|%s", port, subset, host)
}

func routeDecision(w map[string]float64) string {
	var names []string
	total := 0.0
	for n, x := range w {
		names = append(names, n)
		total += x
	}
	sort.Strings(names)
	var parts []string
	for _, n := range names {
		parts = append(parts, fmt.Sprintf("%s=%.4f", n, w[n]/total))
	}
	return "route{" + strings.Join(parts, ",") + "}"
}

func redirectDecision(host, path string, code int, extra string) string {
	return fmt.Sprintf("redirect{host=%s path=%s code=%d%s}", host, path, code, extra)
}

func directDecision(status int, body string) string {
	return fmt.Sprintf("direct{status=%d body=%q}", status, body)
}

const (
	decNone      = "none"      // no route: Envoy answers 404
	decUnmanaged = "unmanaged" // neither a VirtualService nor a registry service covers the request
)

func (c caseSpec) actionDecision(a actionSpec) string {
	switch {
	case a.Redirect != nil:
		code := int(a.Redirect.Code)
		if code == 0 {
			code = 301 // "redirectCode ... The default response code is MOVED_PERMANENTLY (301)"
		}
		return redirectDecision(a.Redirect.Authority, a.Redirect.URI, code, "")
	case a.Direct != nil:
		return directDecision(int(a.Direct.Status), a.Direct.Body)
	}
	ports := c.servicePorts()
	w := map[string]float64{}
	for _, d := range a.Route {
		port := int(d.Port)
		if port == 0 {
			// "If a service exposes only a single port it is not required to explicitly select the port."
			sp := ports[d.Host]
			if len(sp) != 1 {
				panic("c12 grammar: destination without port must target a single-port service: " + d.Host)
			}
			port = sp[0]
		}
		weight := float64(d.Weight)
		if len(a.Route) == 1 {
			weight = 1 // "If there is only one destination in a rule, it will receive all traffic."
		}
		if weight == 0 {
			continue // "Otherwise, if weight is 0, the destination will not receive any traffic."
		}
		w[clusterName(d.Host, port, d.Subset)] += weight
	}
	return routeDecision(w)
}

// verdict of the reference evaluator for one request.
type verdict struct {
	Decision string
	// Why attributes the decision: "<vs>/r<i>[.m<j>]", "default", "unmanaged", "none(<vs>)".
	Why string
	// MatchName is the match-alphabet name of the rule that decided ("" otherwise).
	MatchName  string
	ActionName string
}

// evalVS is R3-VS for cases with one applicable VirtualService per authority.
func (c caseSpec) evalVS(p proxySpec, port int, req request, rd reading) verdict {
	return c.evalVSAll(p, port, req, rd)[0]
}

// evalVSAll is R3-VS: the admitted answers under one reading (more than one only when several
// VirtualServices define the same host).
func (c caseSpec) evalVSAll(p proxySpec, port int, req request, rd reading) []verdict {
	host := strings.ToLower(stripPort(req.Authority))
	if p.Kind == "gateway" {
		// a gateway proxy may serve several Gateway resources: the request belongs to the one whose
		// server admits the host, and `gateways` lists are matched against that name
		p.Gateway = c.gatewayFor(host)
		if p.Gateway == "" {
			return []verdict{{Decision: decNone, Why: "none(no gateway server for the host)"}}
		}
	}
	ports := c.servicePorts()
	if p.Kind == "sidecar" {
		host = canonicalHost(host, p.Namespace, ports)
	}
	_, inRegistry := ports[host]

	noVS := func() verdict {
		if p.Kind == "gateway" {
			return verdict{Decision: decNone, Why: "none(no virtual service)"}
		}
		for _, sp := range ports[host] {
			if sp == port {
				return verdict{Decision: routeDecision(map[string]float64{clusterName(host, port, ""): 1}), Why: "default"}
			}
		}
		return verdict{Decision: decUnmanaged, Why: "unmanaged"}
	}

	// candidates: VirtualServices bound to this proxy whose hosts cover the authority, most specific
	// host first (exact before wildcard, longer wildcard before shorter; equal rank: older first)
	type cand struct {
		vs   vsSpec
		rank int
	}
	var cands []cand
	for _, v := range c.virtualServices() {
		if !v.bound(p, rd) {
			continue
		}
		best := -1
		for _, h := range v.Hosts {
			if ok, rank := hostMatch(h, host); ok && rank > best {
				best = rank
			}
		}
		if best >= 0 {
			cands = append(cands, cand{v, best})
		}
	}
	sort.SliceStable(cands, func(i, j int) bool { return cands[i].rank > cands[j].rank })
	if len(cands) == 0 {
		return []verdict{noVS()}
	}
	if p.Kind == "sidecar" && !inRegistry && port != 80 && !rd.NonRegistryAnyPort {
		return []verdict{noVS()}
	}
	if p.Kind == "sidecar" && inRegistry {
		// "HTTP routes will be applied to platform service ports": a registry service is only
		// addressed on the ports it has
		has := false
		for _, sp := range ports[host] {
			has = has || sp == port
		}
		if !has {
			return []verdict{noVS()}
		}
	}

	// VirtualServices of equal specificity (the same host in several VirtualServices, only generated
	// for gateways: "the traffic properties of a host can be defined using more than one
	// VirtualService, with certain caveats" -- the order between the fragments is not defined) each
	// contribute their own first matching rule; any of them is an admitted answer.
	for ci := 0; ci < len(cands); {
		if ci > 0 && !rd.FallThrough {
			break
		}
		cj := ci
		for cj < len(cands) && cands[cj].rank == cands[ci].rank {
			cj++
		}
		var matched []verdict
		anySelected := false
		var names []string
		for _, cd := range cands[ci:cj] {
			v, sel := c.firstMatch(cd.vs, p, port, req, rd)
			anySelected = anySelected || sel
			names = append(names, cd.vs.Name)
			if v != nil {
				matched = append(matched, *v)
			}
		}
		if len(matched) > 0 {
			return matched
		}
		if anySelected {
			return []verdict{{Decision: decNone, Why: "none(" + strings.Join(names, "+") + ")"}}
		}
		// every rule of these VirtualServices is addressed to other workloads / gateways: they do
		// not apply here
		ci = cj
	}
	return []verdict{noVS()}
}

// canonicalHost: the service a mesh client addresses with an authority. A name that is a registry
// host is that service (a real name is never shadowed); otherwise the Kubernetes short forms
// <svc>.<ns>, <svc>.<ns>.svc and (same namespace) <svc> stand for <svc>.<ns>.svc.cluster.local when
// that is a registry host.
func canonicalHost(host, clientNamespace string, registry map[string][]int) string {
	if _, ok := registry[host]; ok {
		return host
	}
	for _, full := range []string{host + ".svc.cluster.local", host + ".cluster.local", host + "." + clientNamespace + ".svc.cluster.local"} {
		if _, ok := registry[full]; ok && strings.HasSuffix(full, ".svc.cluster.local") && strings.Count(host, ".") <= 2 {
			return full
		}
	}
	return host
}

// firstMatch evaluates one VirtualService: its first rule (in order) with a selected match entry
// that holds. selected reports whether any rule of it is addressed to this proxy at all.
func (c caseSpec) firstMatch(best vsSpec, p proxySpec, port int, req request, rd reading) (v *verdict, selected bool) {
	for i, r := range best.Rules {
		alt := matchAlphabet[r.Match]
		act := best.action(r)
		if len(alt.Entries) == 0 {
			if !best.topBound(p) {
				continue
			}
			return &verdict{Decision: c.actionDecision(act), Why: best.Name + "/" + ruleName(i), MatchName: alt.Name, ActionName: act.Name}, true
		}
		for j, m := range alt.Entries {
			if !best.selected(m, p, port, rd) {
				continue
			}
			selected = true
			if holds(m, req, port, rd) {
				return &verdict{Decision: c.actionDecision(act), Why: best.Name + "/" + ruleName(i) + "." + matchName(j), MatchName: alt.Name, ActionName: act.Name}, true
			}
		}
	}
	return nil, selected
}

// bound: is the VirtualService bound to the proxy at all (top-level gateways, or -- under the
// widening reading -- a match that names the proxy's gateway).
func (v vsSpec) bound(p proxySpec, rd reading) bool {
	if v.topBound(p) {
		return true
	}
	if rd.MatchGwWidens {
		for _, r := range v.Rules {
			for _, m := range matchAlphabet[r.Match].Entries {
				if contains(m.Gateways, p.gatewayName()) {
					return true
				}
			}
		}
	}
	return false
}

// expectedEntries lists, in rule order, the route labels ("r<i>" / "r<i>.m<j>") of the applicable
// VirtualService's match entries that are selected for the proxy under the reading.
func (v vsSpec) expectedEntries(p proxySpec, port int, rd reading) []string {
	var out []string
	for i, r := range v.Rules {
		alt := matchAlphabet[r.Match]
		if len(alt.Entries) == 0 {
			if v.topBound(p) {
				out = append(out, ruleName(i))
			}
			continue
		}
		for j, m := range alt.Entries {
			if v.selected(m, p, port, rd) {
				out = append(out, ruleName(i)+"."+matchName(j))
			}
		}
	}
	return out
}
