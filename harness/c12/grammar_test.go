// C12 grammar: the finite VirtualService rule grammar, the fixed universe (services, gateway,
// DestinationRule, proxies) and the conversion of a case into istio config objects.
//
// Nothing in this file decides anything: it only spells the alphabets out. The reference evaluator
// (vseval_test.go) works on these plain structs, never on istio's types.
package c12

import (
	"fmt"
	"sort"
	"strings"
	"time"

	networking "istio.io/api/networking/v1alpha3"
	"istio.io/istio/pkg/config"
	"istio.io/istio/pkg/config/schema/gvk"
)

// ---- string matches -------------------------------------------------------------------------

// strMatch is one StringMatch of the API. Kind "present" is the empty StringMatch `{}` which the
// API documents (for headers) as "presence of the header is checked".
type strMatch struct {
	Kind string `json:"kind"` // exact | prefix | regex | present
	Val  string `json:"val,omitempty"`
}

func exact(v string) *strMatch  { return &strMatch{"exact", v} }
func prefix(v string) *strMatch { return &strMatch{"prefix", v} }
func regex(v string) *strMatch  { return &strMatch{"regex", v} }
func present() *strMatch        { return &strMatch{"present", ""} }

func (s *strMatch) api() *networking.StringMatch {
	if s == nil {
		return nil
	}
	switch s.Kind {
	case "exact":
		return &networking.StringMatch{MatchType: &networking.StringMatch_Exact{Exact: s.Val}}
	case "prefix":
		return &networking.StringMatch{MatchType: &networking.StringMatch_Prefix{Prefix: s.Val}}
	case "regex":
		return &networking.StringMatch{MatchType: &networking.StringMatch_Regex{Regex: s.Val}}
	case "present":
		return &networking.StringMatch{}
	}
	panic("c12: unknown strMatch kind " + s.Kind)
}

// ---- one HTTPMatchRequest ------------------------------------------------------------------

type matchSpec struct {
	URI             *strMatch
	IgnoreURICase   bool
	Headers         map[string]*strMatch
	WithoutHeaders  map[string]*strMatch
	QueryParams     map[string]*strMatch
	Method          *strMatch
	Authority       *strMatch
	Port            uint32
	SourceLabels    map[string]string
	SourceNamespace string
	Gateways        []string
}

func smMapAPI(m map[string]*strMatch) map[string]*networking.StringMatch {
	if len(m) == 0 {
		return nil
	}
	out := map[string]*networking.StringMatch{}
	for k, v := range m {
		out[k] = v.api()
	}
	return out
}

func (m matchSpec) api(name string) *networking.HTTPMatchRequest {
	return &networking.HTTPMatchRequest{
		Name:            name,
		Uri:             m.URI.api(),
		IgnoreUriCase:   m.IgnoreURICase,
		Headers:         smMapAPI(m.Headers),
		WithoutHeaders:  smMapAPI(m.WithoutHeaders),
		QueryParams:     smMapAPI(m.QueryParams),
		Method:          m.Method.api(),
		Authority:       m.Authority.api(),
		Port:            m.Port,
		SourceLabels:    m.SourceLabels,
		SourceNamespace: m.SourceNamespace,
		Gateways:        m.Gateways,
	}
}

// matchAlt is one element of the match alphabet: the `match` block of a rule (nil = the rule has no
// match block; several entries are OR-ed).
type matchAlt struct {
	Name    string
	Entries []matchSpec
	// Core marks the alphabet used for the quick tier's length-3 lists.
	Core bool
	// G2 marks the alphabet of the two-Gateway shape; Extra alternatives (they name the second
	// Gateway) are enumerated in that shape only.
	G2    bool
	Extra bool
	// S2 marks the alphabet of the two-servers-of-one-Gateway shape.
	S2 bool
}

const (
	hdr  = "x-h"
	hdr2 = "x-g"
)

func h(name string, s *strMatch) map[string]*strMatch { return map[string]*strMatch{name: s} }

// matchAlphabet is the full match alphabet (indices are stable: replays refer to them).
var matchAlphabet = []matchAlt{
	{Name: "none", Core: true},
	{Name: "uri-exact", Core: true, Entries: []matchSpec{{URI: exact("/foo")}}},
	{Name: "uri-prefix", Core: true, Entries: []matchSpec{{URI: prefix("/foo")}}},
	{Name: "uri-prefix-root", Core: true, Entries: []matchSpec{{URI: prefix("/")}}},
	{Name: "uri-regex-any", Core: true, Entries: []matchSpec{{URI: regex(".*")}}},
	{Name: "uri-regex", Entries: []matchSpec{{URI: regex("/fo+")}}},
	{Name: "uri-exact-icase", Entries: []matchSpec{{URI: exact("/foo"), IgnoreURICase: true}}},
	{Name: "uri-prefix-icase", Entries: []matchSpec{{URI: prefix("/foo"), IgnoreURICase: true}}},
	{Name: "uri-regex-icase", Entries: []matchSpec{{URI: regex("/fo+"), IgnoreURICase: true}}},
	{Name: "hdr-exact", Core: true, Entries: []matchSpec{{Headers: h(hdr, exact("v1"))}}},
	{Name: "hdr-prefix", Entries: []matchSpec{{Headers: h(hdr, prefix("v"))}}},
	{Name: "hdr-regex", Entries: []matchSpec{{Headers: h(hdr, regex("v[12]"))}}},
	{Name: "hdr-present", Entries: []matchSpec{{Headers: h(hdr, present())}}},
	{Name: "hdr-regex-any", Entries: []matchSpec{{Headers: h(hdr, regex(".*"))}}},
	{Name: "nohdr-exact", Core: true, Entries: []matchSpec{{WithoutHeaders: h(hdr, exact("v1"))}}},
	{Name: "nohdr-present", Entries: []matchSpec{{WithoutHeaders: h(hdr, present())}}},
	{Name: "nohdr-regex-any", Entries: []matchSpec{{WithoutHeaders: h(hdr, regex(".*"))}}},
	{Name: "nohdr-prefix", Entries: []matchSpec{{WithoutHeaders: h(hdr, prefix("v"))}}},
	{Name: "qp-exact", Core: true, Entries: []matchSpec{{QueryParams: h("q", exact("1"))}}},
	{Name: "qp-regex", Entries: []matchSpec{{QueryParams: h("q", regex("[0-9]+"))}}},
	{Name: "qp-exact-empty", Entries: []matchSpec{{QueryParams: h("q", exact(""))}}},
	{Name: "method", Entries: []matchSpec{{Method: exact("GET")}}},
	{Name: "authority", Entries: []matchSpec{{Authority: exact("a.example.com")}}},
	{Name: "port-80", Entries: []matchSpec{{Port: 80}}},
	{Name: "port-8080", Core: true, Entries: []matchSpec{{Port: 8080}}},
	{Name: "srclabels-hit", Entries: []matchSpec{{SourceLabels: map[string]string{"app": "client"}}}},
	{Name: "srclabels-miss", Core: true, Entries: []matchSpec{{SourceLabels: map[string]string{"app": "other"}}}},
	{Name: "srcns-hit", Entries: []matchSpec{{SourceNamespace: "default"}}},
	{Name: "srcns-miss", Entries: []matchSpec{{SourceNamespace: "other"}}},
	{Name: "gw-mesh", Core: true, Entries: []matchSpec{{Gateways: []string{"mesh"}}}},
	{Name: "gw-gw", Entries: []matchSpec{{Gateways: []string{"gw"}}}},
	{Name: "gw-mesh+srclabels-miss", Entries: []matchSpec{{Gateways: []string{"mesh"}, SourceLabels: map[string]string{"app": "other"}}}},
	{Name: "gw-both+srcns-miss", Entries: []matchSpec{{Gateways: []string{"mesh", "gw"}, SourceNamespace: "other"}}},
	{Name: "or-uri-hdr", Entries: []matchSpec{{URI: exact("/foo")}, {Headers: h(hdr, exact("v1"))}}},
	{Name: "or-uri-catchall", Entries: []matchSpec{{URI: exact("/foo")}, {URI: prefix("/")}}},
	{Name: "and-uri-hdr", Entries: []matchSpec{{URI: prefix("/foo"), Headers: h(hdr, exact("v1"))}}},
	{Name: "and-hdr-nohdr", Entries: []matchSpec{{Headers: h(hdr, prefix("v")), WithoutHeaders: h(hdr, exact("v1"))}}},
	{Name: "and-qp2", Entries: []matchSpec{{QueryParams: map[string]*strMatch{"q": exact("1"), "r": exact("2")}}}},
	{Name: "and-hdr2", Entries: []matchSpec{{Headers: map[string]*strMatch{hdr: exact("v1"), hdr2: exact("v1")}}}},
	{Name: "uri-prefix-root+qp", Core: true, Entries: []matchSpec{{URI: prefix("/"), QueryParams: h("q", exact("1"))}}},
	{Name: "uri-regex-any+hdr", Entries: []matchSpec{{URI: regex(".*"), Headers: h(hdr, present())}}},
	{Name: "port-80+uri-prefix-root-icase", Entries: []matchSpec{{Port: 80, URI: prefix("/"), IgnoreURICase: true}}},
	// "Note: The keys uri, scheme, method, and authority will be ignored." (headers)
	{Name: "hdr-reserved-key-method", Entries: []matchSpec{{Headers: h("method", exact("GET"))}}},
	// two Gateways on one port (shape G2): rules restricted to one of them
	{Name: "gw-gw2", G2: true, Extra: true, Entries: []matchSpec{{Gateways: []string{"gw2"}}}},
	{Name: "gw-gw+uri-prefix", G2: true, Extra: true, Entries: []matchSpec{{Gateways: []string{"gw"}, URI: prefix("/foo")}}},
	{Name: "gw-gw2+uri-prefix", G2: true, Extra: true, Entries: []matchSpec{{Gateways: []string{"gw2"}, URI: prefix("/foo")}}},
	{Name: "gw-gw+gw2", G2: true, Extra: true, Entries: []matchSpec{{Gateways: []string{"gw", "gw2"}}}},
	{Name: "or-gw-uri/gw2", G2: true, Extra: true, Entries: []matchSpec{{Gateways: []string{"gw"}, URI: exact("/foo")}, {Gateways: []string{"gw2"}}}},
	// three match entries in one rule (shape S2: a route list of length 3)
	{Name: "or3-uri/uri/hdr", S2: true, Extra: true, Entries: []matchSpec{{URI: exact("/fo")}, {URI: prefix("/bar")}, {Headers: h(hdr, exact("v1"))}}},
}

func init() {
	for i := range matchAlphabet {
		switch matchAlphabet[i].Name {
		case "none", "uri-exact", "uri-prefix", "hdr-exact", "port-8080", "gw-gw", "gw-mesh":
			matchAlphabet[i].G2 = true
		}
		switch matchAlphabet[i].Name {
		case "none", "uri-exact", "uri-regex", "hdr-exact", "port-8080", "gw-mesh", "gw-gw", "or-uri-hdr":
			matchAlphabet[i].S2 = true
		}
	}
}

// ---- actions --------------------------------------------------------------------------------

type destSpec struct {
	Host   string `json:"host"`
	Port   uint32 `json:"port,omitempty"` // 0 = not given (only used for single-port services)
	Subset string `json:"subset,omitempty"`
	Weight int32  `json:"weight,omitempty"`
}

type redirectSpec struct {
	URI       string
	Authority string
	Code      uint32 // 0 = not given
}

type directSpec struct {
	Status uint32
	Body   string
}

type actionSpec struct {
	Name     string
	Route    []destSpec
	Redirect *redirectSpec
	Direct   *directSpec
}

const (
	hostA  = "a.example.com"
	hostW  = "*.example.com"
	hostD1 = "d1.dest.test" // single port 80
	hostD2 = "d2.dest.test" // ports 80 and 8080, subsets v1, v2 (DestinationRule)
	hostD3 = "d3.dest.test" // single port 80; target of the fixed rule of the "other" VirtualService
)

// actionAlphabet: indices are stable.
var actionAlphabet = []actionSpec{
	{Name: "route-d1", Route: []destSpec{{Host: hostD1}}},
	{Name: "split-d2v1:8080/d2v2:80", Route: []destSpec{{Host: hostD2, Port: 8080, Subset: "v1", Weight: 80}, {Host: hostD2, Port: 80, Subset: "v2", Weight: 20}}},
	{Name: "redirect", Redirect: &redirectSpec{URI: "/new", Authority: "r.example.com", Code: 302}},
	{Name: "direct-503", Direct: &directSpec{Status: 503, Body: "gone"}},
	// thorough only
	{Name: "route-d2:8080", Route: []destSpec{{Host: hostD2, Port: 8080}}},
	{Name: "split-d1-100/d2-0", Route: []destSpec{{Host: hostD1, Weight: 100}, {Host: hostD2, Port: 80, Weight: 0}}},
	{Name: "redirect-default-code", Redirect: &redirectSpec{URI: "/new"}},
}

const quickActions = 4

func (a actionSpec) apply(r *networking.HTTPRoute) {
	for _, d := range a.Route {
		dst := &networking.Destination{Host: d.Host, Subset: d.Subset}
		if d.Port != 0 {
			dst.Port = &networking.PortSelector{Number: d.Port}
		}
		r.Route = append(r.Route, &networking.HTTPRouteDestination{Destination: dst, Weight: d.Weight})
	}
	if a.Redirect != nil {
		r.Redirect = &networking.HTTPRedirect{Uri: a.Redirect.URI, Authority: a.Redirect.Authority, RedirectCode: a.Redirect.Code}
	}
	if a.Direct != nil {
		r.DirectResponse = &networking.HTTPDirectResponse{
			Status: a.Direct.Status,
			Body:   &networking.HTTPBody{Specifier: &networking.HTTPBody_String_{String_: a.Direct.Body}},
		}
	}
}

// ---- rules, VirtualServices, cases ------------------------------------------------------------

type ruleSpec struct {
	Match  int `json:"m"` // index into matchAlphabet
	Action int `json:"a"` // index into actionAlphabet
}

func (r ruleSpec) String() string {
	if r.Action == -2 {
		return matchAlphabet[r.Match].Name + "=>" + otherAction2.Name
	}
	if r.Action < 0 {
		return matchAlphabet[r.Match].Name + "=>" + otherAction.Name
	}
	return matchAlphabet[r.Match].Name + "=>" + actionAlphabet[r.Action].Name
}

type vsSpec struct {
	Name     string
	Hosts    []string
	Gateways []string // top-level binding; empty = mesh
	Rules    []ruleSpec
	Created  time.Time
}

// ruleName / matchName are how the harness labels rules so that generated routes can be attributed
// (the API documents that the names are concatenated into the route name).
func ruleName(i int) string  { return fmt.Sprintf("r%d", i) }
func matchName(j int) string { return fmt.Sprintf("m%d", j) }

func (v vsSpec) api() *networking.VirtualService {
	out := &networking.VirtualService{Hosts: v.Hosts, Gateways: v.Gateways}
	for i, r := range v.Rules {
		hr := &networking.HTTPRoute{Name: ruleName(i)}
		for j, m := range matchAlphabet[r.Match].Entries {
			hr.Match = append(hr.Match, m.api(matchName(j)))
		}
		v.action(r).apply(hr)
		out.Http = append(out.Http, hr)
	}
	return out
}

// host shapes
const (
	shapeA  = iota // one VS, hosts [a.example.com]
	shapeW         // one VS, hosts [*.example.com]
	shapeAW        // enumerated rules on the exact-host VS; an older VS on *.example.com has one fixed rule
	shapeWA        // enumerated rules on the wildcard VS; a younger VS on a.example.com has one fixed rule
	nShapes
	// shapeG2 (outside the product of the other dimensions): ONE VirtualService with hosts
	// [a.example.com, c.example.com] bound to TWO Gateways of the same workload on the same port:
	// gw serves a.example.com, gw2 serves c.example.com. Checked on the gateway proxy only.
	shapeG2 = nShapes
	// shapeS2: ONE Gateway gw with TWO servers on port 80 (a.example.com; c.example.com). The enumerated
	// VirtualService vs-main has hosts [a.example.com, c.example.com] and is the oldest for both; each
	// host has a further, younger VirtualService (vs-a -> d3, vs-c -> d4, both on uri prefix /foo).
	// Gateway proxy only.
	shapeS2 = nShapes + 1
	// shapeK: Kubernetes-style names: services api.internal.svc.cluster.local and api.internal (the
	// latter equals a short form of the former for a client in another namespace); the enumerated
	// VirtualService is on the long name (or, KShort, on the short one).
	shapeK = nShapes + 2
)

const (
	hostC      = "c.example.com"
	hostD4     = "d4.dest.test" // single port 80; target of vs-c in shape S2
	hostKLong  = "api.internal.svc.cluster.local"
	hostKShort = "api.internal"
)

var shapeNames = []string{"A", "W", "AW", "WA", "G2", "S2", "K"}

// top-level gateways binding of the enumerated VirtualService
const (
	bindBoth = iota // [mesh, gw]
	bindMesh        // omitted
	bindGw          // [gw]
	nBinds
)

var bindNames = []string{"mesh+gw", "mesh", "gw"}

func bindGateways(b int) []string {
	switch b {
	case bindMesh:
		return nil
	case bindGw:
		return []string{"gw"}
	}
	return []string{"mesh", "gw"}
}

// caseSpec is one configuration of the enumerated space (it is also the replay value).
type caseSpec struct {
	Shape int        `json:"shape"`
	Svc   bool       `json:"svc"` // ServiceEntry a.example.com present
	DR    bool       `json:"dr"`  // DestinationRule with the subsets present
	Bind  int        `json:"bind"`
	Rules []ruleSpec `json:"rules"`
	// Split > 0: the first Split rules are in vs-main, the rest in a younger VirtualService
	// "vs-split" with the same host (host defined by two VirtualServices; checked on the gateway only)
	Split int `json:"split,omitempty"`
	// Gw2First (shape G2): the Gateway gw2 is older than gw
	Gw2First bool `json:"gw2first,omitempty"`
	// KShort (shape K): the VirtualService is on api.internal instead of api.internal.svc.cluster.local
	KShort bool `json:"kshort,omitempty"`
}

// gatewayFor: the Gateway resource whose server admits the host ("" = none). This is how a gateway
// proxy's requests are attributed to a name of the `gateways` lists.
func (c caseSpec) gatewayFor(host string) string {
	switch {
	case c.Shape == shapeG2 && host == hostA, c.Shape == shapeS2 && (host == hostA || host == hostC):
		return "gw"
	case c.Shape == shapeG2 && host == hostC:
		return "gw2"
	case c.Shape == shapeG2 || c.Shape == shapeS2:
		return ""
	}
	return "gw" // its server has hosts ["*"]
}

func (c caseSpec) String() string {
	var rs []string
	for _, r := range c.Rules {
		rs = append(rs, r.String())
	}
	if c.Split > 0 {
		rs[c.Split-1] += " ||"
	}
	switch c.Shape {
	case shapeG2:
		return fmt.Sprintf("G2 gw2first=%v [%s]", c.Gw2First, strings.Join(rs, " ; "))
	case shapeS2:
		return fmt.Sprintf("S2 [%s]", strings.Join(rs, " ; "))
	case shapeK:
		return fmt.Sprintf("K vs-on-short-name=%v [%s]", c.KShort, strings.Join(rs, " ; "))
	}
	return fmt.Sprintf("%s svc=%v dr=%v bind=%s [%s]", shapeNames[c.Shape], c.Svc, c.DR, bindNames[c.Bind], strings.Join(rs, " ; "))
}

var (
	tBase = time.Date(2024, 1, 1, 0, 0, 0, 0, time.UTC)
	// the fixed rule of the VS that is not enumerated (shapes AW, WA)
	otherRule = ruleSpec{Match: 0, Action: -1} // action -1: route to d3 (see otherAction)
)

var otherAction = actionSpec{Name: "route-d3", Route: []destSpec{{Host: hostD3}}}

// virtualServices returns the VirtualServices of the case, oldest first. The enumerated one is
// always named "vs-main".
func (c caseSpec) virtualServices() []vsSpec {
	main := vsSpec{Name: "vs-main", Gateways: bindGateways(c.Bind), Rules: c.Rules, Created: tBase.Add(2 * time.Hour)}
	other := vsSpec{Name: "vs-other", Gateways: []string{"mesh", "gw"}, Rules: []ruleSpec{otherRule}}
	switch c.Shape {
	case shapeG2:
		main.Hosts = []string{hostA, hostC}
		main.Gateways = []string{"gw", "gw2"}
		return []vsSpec{main}
	case shapeS2:
		main.Hosts = []string{hostA, hostC}
		main.Gateways = []string{"gw"}
		main.Created = tBase.Add(1 * time.Hour)
		uriPrefix := matchIndex("uri-prefix")
		va := vsSpec{Name: "vs-a", Hosts: []string{hostA}, Gateways: []string{"gw"}, Rules: []ruleSpec{{uriPrefix, -1}}, Created: tBase.Add(2 * time.Hour)}
		vc := vsSpec{Name: "vs-c", Hosts: []string{hostC}, Gateways: []string{"gw"}, Rules: []ruleSpec{{uriPrefix, -2}}, Created: tBase.Add(3 * time.Hour)}
		return []vsSpec{main, va, vc}
	case shapeK:
		main.Hosts = []string{hostKLong}
		if c.KShort {
			main.Hosts = []string{hostKShort}
		}
		return []vsSpec{main}
	}
	if c.Split > 0 {
		main.Hosts = []string{hostA}
		second := main
		second.Name, second.Created = "vs-split", tBase.Add(4*time.Hour)
		main.Rules, second.Rules = c.Rules[:c.Split], c.Rules[c.Split:]
		return []vsSpec{main, second}
	}
	switch c.Shape {
	case shapeA:
		main.Hosts = []string{hostA}
		return []vsSpec{main}
	case shapeW:
		main.Hosts = []string{hostW}
		return []vsSpec{main}
	case shapeAW:
		main.Hosts = []string{hostA}
		other.Hosts = []string{hostW}
		other.Created = tBase.Add(1 * time.Hour) // the less specific one is older
		return []vsSpec{other, main}
	case shapeWA:
		main.Hosts = []string{hostW}
		other.Hosts = []string{hostA}
		other.Created = tBase.Add(3 * time.Hour) // the more specific one is younger
		return []vsSpec{main, other}
	}
	panic("c12: bad shape")
}

func matchIndex(name string) int {
	for i, m := range matchAlphabet {
		if m.Name == name {
			return i
		}
	}
	panic("c12: no match alternative " + name)
}

var otherAction2 = actionSpec{Name: "route-d4", Route: []destSpec{{Host: hostD4}}}

func (v vsSpec) action(r ruleSpec) actionSpec {
	if r.Action == -2 {
		return otherAction2
	}
	if r.Action < 0 {
		return otherAction
	}
	return actionAlphabet[r.Action]
}

// ---- the fixed universe ---------------------------------------------------------------------

// servicePorts is the service registry of the universe as the reference evaluator sees it.
func (c caseSpec) servicePorts() map[string][]int {
	m := map[string][]int{hostD1: {80}, hostD2: {80, 8080}, hostD3: {80}}
	if c.Svc {
		m[hostA] = []int{80, 8080}
	}
	if c.Shape == shapeS2 {
		m[hostD4] = []int{80}
	}
	if c.Shape == shapeK {
		delete(m, hostA)
		m[hostKLong] = []int{80, 8080}
		m[hostKShort] = []int{80, 8080}
	}
	return m
}

func se(name, hostname, addr string, ports ...uint32) config.Config {
	s := &networking.ServiceEntry{
		Hosts: []string{hostname}, Location: networking.ServiceEntry_MESH_INTERNAL, Resolution: networking.ServiceEntry_STATIC,
		Endpoints: []*networking.WorkloadEntry{{Address: addr}},
	}
	for _, p := range ports {
		s.Ports = append(s.Ports, &networking.ServicePort{Number: p, Name: fmt.Sprintf("http-%d", p), Protocol: "HTTP"})
	}
	return config.Config{Meta: config.Meta{GroupVersionKind: gvk.ServiceEntry, Name: name, Namespace: "default", CreationTimestamp: tBase}, Spec: s}
}

// configs builds fresh istio config objects for the case (nothing is shared between environments).
func (c caseSpec) configs() []config.Config {
	out := []config.Config{
		se("d1", hostD1, "10.0.0.2", 80),
		se("d2", hostD2, "10.0.0.3", 80, 8080),
		se("d3", hostD3, "10.0.0.4", 80),
	}
	gwCfg := func(name string, created time.Time, hosts ...string) config.Config {
		return config.Config{
			Meta: config.Meta{GroupVersionKind: gvk.Gateway, Name: name, Namespace: "default", CreationTimestamp: created},
			Spec: &networking.Gateway{
				Selector: map[string]string{"istio": "ingressgateway"},
				Servers: []*networking.Server{{
					Port:  &networking.Port{Number: 80, Name: "http", Protocol: "HTTP"},
					Hosts: hosts,
				}},
			},
		}
	}
	if c.Shape == shapeS2 {
		g := gwCfg("gw", tBase, hostA)
		g.Spec.(*networking.Gateway).Servers[0].Port.Name = "http-a"
		g.Spec.(*networking.Gateway).Servers = append(g.Spec.(*networking.Gateway).Servers, &networking.Server{
			Port:  &networking.Port{Number: 80, Name: "http-c", Protocol: "HTTP"},
			Hosts: []string{hostC},
		})
		out = append(out, g, se("d4", hostD4, "10.0.0.5", 80))
	} else if c.Shape == shapeG2 {
		t1, t2 := tBase, tBase.Add(time.Hour)
		if c.Gw2First {
			t1, t2 = t2, t1
		}
		out = append(out, gwCfg("gw", t1, hostA), gwCfg("gw2", t2, hostC))
	} else {
		out = append(out, gwCfg("gw", tBase, "*"))
	}
	if c.Svc && c.Shape != shapeK {
		out = append(out, se("a", hostA, "10.0.0.1", 80, 8080))
	}
	if c.Shape == shapeK {
		out = append(out, se("k-long", hostKLong, "10.0.1.1", 80, 8080), se("k-short", hostKShort, "10.0.1.2", 80, 8080))
	}
	if c.DR {
		out = append(out, config.Config{
			Meta: config.Meta{GroupVersionKind: gvk.DestinationRule, Name: "d2", Namespace: "default", CreationTimestamp: tBase},
			Spec: &networking.DestinationRule{
				Host: hostD2,
				Subsets: []*networking.Subset{
					{Name: "v1", Labels: map[string]string{"version": "v1"}},
					{Name: "v2", Labels: map[string]string{"version": "v2"}},
				},
			},
		})
	}
	for _, v := range c.virtualServices() {
		spec := v.api()
		out = append(out, config.Config{
			Meta: config.Meta{GroupVersionKind: gvk.VirtualService, Name: v.Name, Namespace: "default", CreationTimestamp: v.Created},
			Spec: spec,
		})
	}
	return out
}

// ---- proxies ----------------------------------------------------------------------------------

type proxySpec struct {
	Kind      string // sidecar | gateway
	Labels    map[string]string
	Namespace string
	Gateway   string // name of the Gateway resource this proxy serves (gateway only)
	Listeners []listenerSpec
}

type listenerSpec struct {
	Port      int
	RouteName string // RDS name of the route configuration of that listener
}

var proxies = []proxySpec{
	{Kind: "sidecar", Labels: map[string]string{"app": "client"}, Namespace: "default", Listeners: []listenerSpec{{80, "80"}, {8080, "8080"}}},
	{Kind: "gateway", Labels: map[string]string{"istio": "ingressgateway"}, Namespace: "default", Gateway: "gw", Listeners: []listenerSpec{{80, "http.80"}}},
}

// ---- requests ---------------------------------------------------------------------------------

type request struct {
	Authority string            `json:"authority"`
	Path      string            `json:"path"`            // without query
	Query     *string           `json:"query,omitempty"` // nil = no '?'
	Method    string            `json:"method"`
	Headers   map[string]string `json:"headers,omitempty"`
}

func (r request) String() string {
	p := r.Path
	if r.Query != nil {
		p += "?" + *r.Query
	}
	var hs []string
	for k, v := range r.Headers {
		hs = append(hs, fmt.Sprintf("%s:%q", k, v))
	}
	sort.Strings(hs)
	return fmt.Sprintf("%s %s%s {%s}", r.Method, r.Authority, p, strings.Join(hs, ","))
}

// Request alphabets: the literals of the match alphabet and their near misses (path +- one
// character, case flipped, sub-path, sibling; header missing / empty / other value / other case /
// longer; query parameter missing / other / valueless / reordered; other authority, other case,
// with port; other method).
var (
	authoritiesAll = []string{"a.example.com", "A.Example.COM", "a.example.com:80", "a.example.com:8080", "b.example.com", "d1.dest.test", "other.test"}
	pathsAll       = []string{"/foo", "/fo", "/fooo", "/FOO", "/foo/", "/foo/bar", "/", "/bar"}
	pathsBase      = []string{"/foo", "/"}
	hdrValsAll     = []*string{nil, sp(""), sp("v1"), sp("v2"), sp("v3"), sp("V1"), sp("v1x"), sp("xv1")}
	hdr2ValsAll    = []*string{nil, sp("v1"), sp("v2")}
	queriesAll     = []*string{nil, sp("q=1"), sp("q=2"), sp("q"), sp("q=12"), sp("q=1a"), sp("q=1&r=2"), sp("r=2&q=1"), sp("r=2")}
	methodsAll     = []string{"GET", "POST"}
)

func sp(s string) *string { return &s }

// reservedHeaderKey: "The keys uri, scheme, method, and authority will be ignored" in `headers`.
func reservedHeaderKey(k string) bool {
	return k == "uri" || k == "scheme" || k == "method" || k == "authority"
}

// uses reports which request dimensions the rules of a case mention.
type uses struct{ uri, hdr, hdr2, query, method bool }

func (c caseSpec) uses() uses {
	var u uses
	for _, v := range c.virtualServices() {
		for _, r := range v.Rules {
			for _, m := range matchAlphabet[r.Match].Entries {
				if m.URI != nil {
					u.uri = true
				}
				for k := range m.Headers {
					switch {
					case reservedHeaderKey(k):
						u.method = true
					case k == hdr:
						u.hdr = true
					default:
						u.hdr2 = true
					}
				}
				for k := range m.WithoutHeaders {
					if k == hdr {
						u.hdr = true
					} else {
						u.hdr2 = true
					}
				}
				if len(m.QueryParams) > 0 {
					u.query = true
				}
				if m.Method != nil {
					u.method = true
				}
			}
		}
	}
	return u
}

// requests is the full product of the request dimensions that the case's literals touch (a
// dimension no rule mentions is held at its base value).
func (c caseSpec) requests() []request {
	u := c.uses()
	paths, hv, hv2, qs, ms := pathsBase, []*string{nil}, []*string{nil}, []*string{nil}, []string{"GET"}
	if u.uri {
		paths = pathsAll
	}
	if u.hdr {
		hv = hdrValsAll
	}
	if u.hdr2 {
		hv2 = hdr2ValsAll
	}
	if u.query {
		qs = queriesAll
	}
	if u.method {
		ms = methodsAll
	}
	var out []request
	auths := authoritiesAll
	switch c.Shape {
	case shapeG2, shapeS2:
		auths = []string{"a.example.com", "c.example.com", "C.Example.COM:80", "b.example.com", "other.test"}
	case shapeK:
		auths = []string{hostKLong, "api.internal.svc", hostKShort, "API.Internal:80", hostKLong + ":8080", "api", "other.test"}
	}
	for _, a := range auths {
		for _, p := range paths {
			for _, q := range qs {
				for _, m := range ms {
					for _, x := range hv {
						for _, y := range hv2 {
							r := request{Authority: a, Path: p, Query: q, Method: m}
							if x != nil || y != nil {
								r.Headers = map[string]string{}
								if x != nil {
									r.Headers[hdr] = *x
								}
								if y != nil {
									r.Headers[hdr2] = *y
								}
							}
							out = append(out, r)
						}
					}
				}
			}
		}
	}
	return out
}
