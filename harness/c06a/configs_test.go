// C06 (a): the configuration set. Every configuration is chosen so that some proxy attribute decides
// what a proxy must be sent (locality load balancing, multi-network gateways of both IP families,
// DestinationRule workloadSelector / exportTo, PeerAuthentication, subsets, HBONE, Sidecar scoping,
// EnvoyFilter proxy matches, VirtualService source matches, gateway credentials ...). The service
// fixture (world_test.go) is the same everywhere except for the knobs in worldOpts.
package c06a

import (
	"fmt"
	"strings"

	meshconfig "istio.io/api/mesh/v1alpha1"
	"istio.io/istio/pilot/pkg/features"
)

const gwHTTP = `
apiVersion: networking.istio.io/v1
kind: Gateway
metadata:
  name: gw
  namespace: istio-system
spec:
  selector:
    istio: ingressgateway
  servers:
  - port:
      number: 80
      name: http
      protocol: HTTP
    hosts:
    - "*.example.com"
---
apiVersion: networking.istio.io/v1
kind: VirtualService
metadata:
  name: vs-gw-b
  namespace: default
spec:
  hosts:
  - b.example.com
  gateways:
  - istio-system/gw
  http:
  - route:
    - destination:
        host: b.default.svc.cluster.local
        port:
          number: 80
---
apiVersion: networking.istio.io/v1
kind: VirtualService
metadata:
  name: vs-gw-c
  namespace: other
spec:
  hosts:
  - c.example.com
  gateways:
  - istio-system/gw
  http:
  - route:
    - destination:
        host: c.other.svc.cluster.local
        port:
          number: 80
---
`

const drFailover = `
apiVersion: networking.istio.io/v1
kind: DestinationRule
metadata:
  name: b-lb
  namespace: default
spec:
  host: b.default.svc.cluster.local
  trafficPolicy:
    outlierDetection:
      consecutive5xxErrors: 3
      interval: 10s
      baseEjectionTime: 30s
    loadBalancer:
      localityLbSetting:
        enabled: true
        failover:
        - from: region1
          to: region2
        - from: region2
          to: region3
---
`

const drDistribute = `
apiVersion: networking.istio.io/v1
kind: DestinationRule
metadata:
  name: b-lb
  namespace: default
spec:
  host: b.default.svc.cluster.local
  trafficPolicy:
    loadBalancer:
      localityLbSetting:
        enabled: true
        distribute:
        - from: region1/zone1/*
          to:
            "region1/zone1/*": 70
            "region1/zone2/*": 20
            "region2/*": 10
        - from: region2/*
          to:
            "region2/*": 100
---
`

const drFailoverPriority = `
apiVersion: networking.istio.io/v1
kind: DestinationRule
metadata:
  name: b-lb
  namespace: default
spec:
  host: b.default.svc.cluster.local
  trafficPolicy:
    outlierDetection:
      consecutive5xxErrors: 3
      interval: 10s
      baseEjectionTime: 30s
    loadBalancer:
      localityLbSetting:
        enabled: true
        failoverPriority:
        - "topology.istio.io/network"
        - "version"
        - "topology.kubernetes.io/region"
        - "verif-key"
---
`

const drOutlierB = `
apiVersion: networking.istio.io/v1
kind: DestinationRule
metadata:
  name: b-od
  namespace: default
spec:
  host: b.default.svc.cluster.local
  trafficPolicy:
    outlierDetection:
      consecutive5xxErrors: 3
      interval: 10s
      baseEjectionTime: 30s
---
`

const drOutlierC = `
apiVersion: networking.istio.io/v1
kind: DestinationRule
metadata:
  name: c-od
  namespace: other
spec:
  host: c.other.svc.cluster.local
  trafficPolicy:
    outlierDetection:
      consecutive5xxErrors: 3
      interval: 10s
      baseEjectionTime: 30s
---
`

const drOutlierOnly = drOutlierB + drOutlierC

const drSubsets = `
apiVersion: networking.istio.io/v1
kind: DestinationRule
metadata:
  name: b-subsets
  namespace: default
spec:
  host: b.default.svc.cluster.local
  trafficPolicy:
    connectionPool:
      tcp:
        maxConnections: 50
  subsets:
  - name: v1
    labels:
      version: v1
  - name: v2
    labels:
      version: v2
    trafficPolicy:
      loadBalancer:
        simple: LEAST_REQUEST
      outlierDetection:
        consecutive5xxErrors: 5
        interval: 10s
        baseEjectionTime: 30s
---
apiVersion: networking.istio.io/v1
kind: VirtualService
metadata:
  name: b-split
  namespace: default
spec:
  hosts:
  - b.default.svc.cluster.local
  http:
  - route:
    - destination:
        host: b.default.svc.cluster.local
        subset: v1
      weight: 60
    - destination:
        host: b.default.svc.cluster.local
        subset: v2
      weight: 40
  tcp:
  - match:
    - port: 9000
    route:
    - destination:
        host: b.default.svc.cluster.local
        subset: v2
        port:
          number: 9000
---
`

const drWorkloadSelector = `
apiVersion: networking.istio.io/v1
kind: DestinationRule
metadata:
  name: b-for-app-a
  namespace: default
spec:
  host: b.default.svc.cluster.local
  workloadSelector:
    matchLabels:
      app: a
  trafficPolicy:
    connectionPool:
      tcp:
        maxConnections: 7
    loadBalancer:
      simple: LEAST_REQUEST
    tls:
      mode: DISABLE
---
apiVersion: networking.istio.io/v1
kind: DestinationRule
metadata:
  name: c-for-sel
  namespace: default
spec:
  host: c.other.svc.cluster.local
  workloadSelector:
    matchLabels:
      sel: "on"
  trafficPolicy:
    connectionPool:
      tcp:
        maxConnections: 11
    outlierDetection:
      consecutive5xxErrors: 3
      interval: 10s
      baseEjectionTime: 30s
---
apiVersion: networking.istio.io/v1
kind: DestinationRule
metadata:
  name: b-for-all
  namespace: default
spec:
  host: b.default.svc.cluster.local
  trafficPolicy:
    connectionPool:
      tcp:
        maxConnections: 99
---
apiVersion: networking.istio.io/v1
kind: DestinationRule
metadata:
  name: b-for-gateways
  namespace: istio-system
spec:
  host: b.default.svc.cluster.local
  workloadSelector:
    matchLabels:
      istio: ingressgateway
  trafficPolicy:
    connectionPool:
      tcp:
        maxConnections: 13
---
`

const drExportTo = `
apiVersion: networking.istio.io/v1
kind: DestinationRule
metadata:
  name: b-private-other
  namespace: other
spec:
  host: b.default.svc.cluster.local
  exportTo:
  - "."
  trafficPolicy:
    connectionPool:
      tcp:
        maxConnections: 21
    tls:
      mode: DISABLE
---
apiVersion: networking.istio.io/v1
kind: DestinationRule
metadata:
  name: b-private-default
  namespace: default
spec:
  host: b.default.svc.cluster.local
  exportTo:
  - "."
  trafficPolicy:
    connectionPool:
      tcp:
        maxConnections: 22
    loadBalancer:
      simple: RANDOM
---
apiVersion: networking.istio.io/v1
kind: DestinationRule
metadata:
  name: c-to-system
  namespace: other
spec:
  host: c.other.svc.cluster.local
  exportTo:
  - "istio-system"
  trafficPolicy:
    connectionPool:
      tcp:
        maxConnections: 23
---
`

const drRootNamespace = `
apiVersion: networking.istio.io/v1
kind: DestinationRule
metadata:
  name: b-mesh-wide
  namespace: istio-system
spec:
  host: b.default.svc.cluster.local
  trafficPolicy:
    connectionPool:
      tcp:
        maxConnections: 31
---
apiVersion: networking.istio.io/v1
kind: DestinationRule
metadata:
  name: b-in-other
  namespace: other
spec:
  host: "*.default.svc.cluster.local"
  trafficPolicy:
    connectionPool:
      tcp:
        maxConnections: 32
    loadBalancer:
      simple: RANDOM
---
`

const paStrict = `
apiVersion: security.istio.io/v1
kind: PeerAuthentication
metadata:
  name: default
  namespace: default
spec:
  mtls:
    mode: STRICT
---
apiVersion: security.istio.io/v1
kind: PeerAuthentication
metadata:
  name: b-v2-plain
  namespace: default
spec:
  selector:
    matchLabels:
      version: v2
  mtls:
    mode: STRICT
  portLevelMtls:
    8080:
      mode: DISABLE
---
apiVersion: security.istio.io/v1
kind: PeerAuthentication
metadata:
  name: default
  namespace: other
spec:
  mtls:
    mode: DISABLE
---
`

const paMeshAndDRTLS = `
apiVersion: security.istio.io/v1
kind: PeerAuthentication
metadata:
  name: default
  namespace: istio-system
spec:
  mtls:
    mode: STRICT
---
apiVersion: networking.istio.io/v1
kind: DestinationRule
metadata:
  name: b-mtls
  namespace: default
spec:
  host: b.default.svc.cluster.local
  trafficPolicy:
    tls:
      mode: ISTIO_MUTUAL
---
apiVersion: networking.istio.io/v1
kind: DestinationRule
metadata:
  name: c-plain
  namespace: other
spec:
  host: c.other.svc.cluster.local
  trafficPolicy:
    tls:
      mode: DISABLE
---
`

const sidecarScope = `
apiVersion: networking.istio.io/v1
kind: Sidecar
metadata:
  name: default
  namespace: default
spec:
  egress:
  - hosts:
    - "./*"
    - "istio-system/*"
---
apiVersion: networking.istio.io/v1
kind: Sidecar
metadata:
  name: for-app-a
  namespace: default
spec:
  workloadSelector:
    labels:
      app: a
  outboundTrafficPolicy:
    mode: REGISTRY_ONLY
  egress:
  - hosts:
    - "./b.default.svc.cluster.local"
    - "other/*"
---
apiVersion: networking.istio.io/v1
kind: Sidecar
metadata:
  name: for-sel
  namespace: default
spec:
  workloadSelector:
    labels:
      sel: "on"
  egress:
  - hosts:
    - "other/*"
---
apiVersion: networking.istio.io/v1
kind: Sidecar
metadata:
  name: default
  namespace: other
spec:
  egress:
  - hosts:
    - "default/a.default.svc.cluster.local"
    - "./*"
---
`

const sidecarSel = `
apiVersion: networking.istio.io/v1
kind: Sidecar
metadata:
  name: default
  namespace: default
spec:
  egress:
  - hosts:
    - "./*"
---
apiVersion: networking.istio.io/v1
kind: Sidecar
metadata:
  name: for-sel
  namespace: default
spec:
  workloadSelector:
    labels:
      sel: "on"
  outboundTrafficPolicy:
    mode: REGISTRY_ONLY
  egress:
  - hosts:
    - "other/*"
    - "./b.default.svc.cluster.local"
---
`

const sidecarPorts = `
apiVersion: networking.istio.io/v1
kind: Sidecar
metadata:
  name: default
  namespace: default
spec:
  egress:
  - port:
      number: 9080
      protocol: HTTP
      name: http-x
    bind: 127.0.0.1
    hosts:
    - "*/b.default.svc.cluster.local"
  - port:
      number: 80
      protocol: HTTP
      name: http-80
    hosts:
    - "other/*"
    - "./*"
  - hosts:
    - "*/*"
---
`

const efTemplate = `
apiVersion: networking.istio.io/v1alpha3
kind: EnvoyFilter
metadata:
  name: %s
  namespace: %s
spec:
%s
  configPatches:
  - applyTo: CLUSTER
    match:
      context: ANY
%s
      cluster:
        service: b.default.svc.cluster.local
    patch:
      operation: MERGE
      value:
        connect_timeout: %ds
  - applyTo: ROUTE_CONFIGURATION
    match:
      context: ANY
%s
    patch:
      operation: MERGE
      value:
        response_headers_to_remove:
        - x-verif-%d
  - applyTo: VIRTUAL_HOST
    match:
      context: ANY
%s
    patch:
      operation: MERGE
      value:
        include_attempt_count_in_response: true
  - applyTo: HTTP_ROUTE
    match:
      context: ANY
%s
    patch:
      operation: MERGE
      value:
        route:
          idle_timeout: 7%ds
---
`

const vsSource = `
apiVersion: networking.istio.io/v1
kind: VirtualService
metadata:
  name: b-by-source
  namespace: default
spec:
  hosts:
  - b.default.svc.cluster.local
  http:
  - match:
    - sourceLabels:
        version: v1
    route:
    - destination:
        host: c.other.svc.cluster.local
        port:
          number: 80
  - match:
    - sourceNamespace: other
    route:
    - destination:
        host: a.default.svc.cluster.local
        port:
          number: 80
  - route:
    - destination:
        host: b.default.svc.cluster.local
        port:
          number: 80
---
apiVersion: networking.istio.io/v1
kind: VirtualService
metadata:
  name: c-plain
  namespace: other
spec:
  hosts:
  - c.other.svc.cluster.local
  http:
  - route:
    - destination:
        host: c.other.svc.cluster.local
        port:
          number: 80
    timeout: 5s
---
`

const vsExportTo = `
apiVersion: networking.istio.io/v1
kind: VirtualService
metadata:
  name: b-private-other
  namespace: other
spec:
  hosts:
  - b.default.svc.cluster.local
  exportTo:
  - "."
  http:
  - route:
    - destination:
        host: c.other.svc.cluster.local
        port:
          number: 80
    timeout: 3s
---
apiVersion: networking.istio.io/v1
kind: VirtualService
metadata:
  name: b-private-default
  namespace: default
spec:
  hosts:
  - b.default.svc.cluster.local
  exportTo:
  - "."
  http:
  - route:
    - destination:
        host: b.default.svc.cluster.local
        port:
          number: 80
    retries:
      attempts: 5
---
`

const gwSDS = `
apiVersion: networking.istio.io/v1
kind: Gateway
metadata:
  name: gw-tls
  namespace: istio-system
spec:
  selector:
    istio: ingressgateway
  servers:
  - port:
      number: 443
      name: https
      protocol: HTTPS
    tls:
      mode: SIMPLE
      credentialName: gw-cred
    hosts:
    - "b.example.com"
  - port:
      number: 443
      name: https-mtls
      protocol: HTTPS
    tls:
      mode: MUTUAL
      credentialName: gw-mtls
    hosts:
    - "c.example.com"
---
apiVersion: networking.istio.io/v1
kind: Gateway
metadata:
  name: gw-tls-default
  namespace: default
spec:
  selector:
    app: a
  servers:
  - port:
      number: 8443
      name: https
      protocol: HTTPS
    tls:
      mode: SIMPLE
      credentialName: gw-cred
    hosts:
    - "a.example.com"
---
apiVersion: networking.istio.io/v1
kind: VirtualService
metadata:
  name: vs-tls-b
  namespace: default
spec:
  hosts:
  - b.example.com
  - a.example.com
  gateways:
  - istio-system/gw-tls
  - default/gw-tls-default
  http:
  - route:
    - destination:
        host: b.default.svc.cluster.local
        port:
          number: 80
---
apiVersion: networking.istio.io/v1
kind: DestinationRule
metadata:
  name: b-egress-cred
  namespace: istio-system
spec:
  host: b.default.svc.cluster.local
  trafficPolicy:
    tls:
      mode: MUTUAL
      credentialName: egress-cred
---
apiVersion: networking.istio.io/v1
kind: DestinationRule
metadata:
  name: c-egress-cred
  namespace: default
spec:
  host: c.other.svc.cluster.local
  workloadSelector:
    matchLabels:
      app: a
  trafficPolicy:
    tls:
      mode: SIMPLE
      credentialName: egress-cred
---
`

const seDNS = `
apiVersion: networking.istio.io/v1
kind: ServiceEntry
metadata:
  name: ext-dns
  namespace: default
spec:
  hosts:
  - ext-dns.example.com
  location: MESH_EXTERNAL
  resolution: DNS
  ports:
  - number: 80
    name: http
    protocol: HTTP
  - number: 443
    name: tls
    protocol: TLS
  endpoints:
  - address: e1.example.com
    locality: region1/zone1/sub1
    network: network-1
    labels:
      version: v1
  - address: e2.example.com
    locality: region2/zone3/sub3
    network: network-2
    labels:
      version: v2
  - address: e3.example.com
    locality: region1/zone2/sub2
    labels:
      version: v1
---
apiVersion: networking.istio.io/v1
kind: ServiceEntry
metadata:
  name: ext-static
  namespace: default
spec:
  hosts:
  - ext-static.example.com
  addresses:
  - 240.240.1.1
  - 2001:2::f0f0:1
  location: MESH_INTERNAL
  resolution: STATIC
  ports:
  - number: 80
    name: http
    protocol: HTTP
  endpoints:
  - address: 10.8.0.1
    locality: region1/zone1/sub1
    network: network-1
    labels:
      version: v1
      security.istio.io/tlsMode: istio
  - address: 10.8.1.1
    locality: region2/zone3/sub3
    network: network-2
    labels:
      version: v2
      security.istio.io/tlsMode: istio
---
apiVersion: networking.istio.io/v1
kind: ServiceEntry
metadata:
  name: ext-auto
  namespace: default
spec:
  hosts:
  - ext-auto.example.com
  location: MESH_EXTERNAL
  resolution: DNS
  ports:
  - number: 80
    name: http
    protocol: HTTP
  - number: 9001
    name: tcp
    protocol: TCP
status:
  addresses:
  - value: 240.240.0.5
    host: ext-auto.example.com
  - value: 2001:2::f0f0:5
    host: ext-auto.example.com
---
apiVersion: networking.istio.io/v1
kind: DestinationRule
metadata:
  name: ext-dns-lb
  namespace: default
spec:
  host: ext-dns.example.com
  trafficPolicy:
    outlierDetection:
      consecutive5xxErrors: 3
      interval: 10s
      baseEjectionTime: 30s
    loadBalancer:
      localityLbSetting:
        enabled: true
        failover:
        - from: region1
          to: region2
        - from: region2
          to: region1
---
apiVersion: networking.istio.io/v1
kind: DestinationRule
metadata:
  name: ext-static-lb
  namespace: default
spec:
  host: ext-static.example.com
  trafficPolicy:
    outlierDetection:
      consecutive5xxErrors: 3
      interval: 10s
      baseEjectionTime: 30s
---
`

const drFileMTLS = `
apiVersion: networking.istio.io/v1
kind: DestinationRule
metadata:
  name: b-istio-mutual
  namespace: default
spec:
  host: b.default.svc.cluster.local
  trafficPolicy:
    tls:
      mode: ISTIO_MUTUAL
---
apiVersion: networking.istio.io/v1
kind: DestinationRule
metadata:
  name: c-mutual-files
  namespace: other
spec:
  host: c.other.svc.cluster.local
  trafficPolicy:
    tls:
      mode: MUTUAL
      clientCertificate: /etc/certs/dr/cert-chain.pem
      privateKey: /etc/certs/dr/key.pem
      caCertificates: /etc/certs/dr/root-cert.pem
---
`

const gwAutoPassthrough = `
apiVersion: networking.istio.io/v1
kind: Gateway
metadata:
  name: cross-network
  namespace: istio-system
spec:
  selector:
    istio: ingressgateway
  servers:
  - port:
      number: 15443
      name: tls
      protocol: TLS
    tls:
      mode: AUTO_PASSTHROUGH
    hosts:
    - "*.local"
---
`

const outlierBlock = `    outlierDetection:
      consecutive5xxErrors: 3
      interval: 10s
      baseEjectionTime: 30s
`

const drZoneAware = `
apiVersion: networking.istio.io/v1
kind: DestinationRule
metadata:
  name: b-zone-aware
  namespace: default
spec:
  host: b.default.svc.cluster.local
  trafficPolicy:
    outlierDetection:
      consecutive5xxErrors: 3
      interval: 10s
      baseEjectionTime: 30s
    loadBalancer:
      simple: ROUND_ROBIN
      zoneAwareLbSetting:
        enabled: true
        failover:
        - from: region1
          to: region2
        failoverPriority:
        - version
---
`

const sidecarAllowAny = `
apiVersion: networking.istio.io/v1
kind: Sidecar
metadata:
  name: for-app-a
  namespace: default
spec:
  workloadSelector:
    labels:
      app: a
  outboundTrafficPolicy:
    mode: ALLOW_ANY
  egress:
  - hosts:
    - "*/*"
---
`

func efProxyMatch(kind string) string {
	switch kind {
	case "version":
		return "      proxy:\n        proxyVersion: '^1\\.29.*'"
	case "metadata":
		return "      proxy:\n        metadata:\n          VERIF_EF: \"on\""
	case "meta-field":
		return "      proxy:\n        metadata:\n          NODE_NAME: node-1"
	}
	return ""
}

var efSeq int

func ef(name, ns, selector, match string) string {
	efSeq++
	v := 10 + efSeq
	m := efProxyMatch(match)
	sel := ""
	if selector != "" {
		sel = "  workloadSelector:\n    labels:\n      " + selector
	}
	return fmt.Sprintf(efTemplate, name, ns, sel, m, v, m, v, m, m, v)
}

func meshLocality(m *meshconfig.MeshConfig) {
	// the default mesh config already enables locality load balancing; nothing to set. Kept as an
	// explicit hook so the configuration documents what it relies on.
}

func meshClusterLocal(m *meshconfig.MeshConfig) {
	m.ServiceSettings = append(m.ServiceSettings, &meshconfig.MeshConfig_ServiceSettings{
		Settings: &meshconfig.MeshConfig_ServiceSettings_Settings{ClusterLocal: true},
		Hosts:    []string{"b.default.svc.cluster.local"},
	})
}

func meshRegistryOnly(m *meshconfig.MeshConfig) {
	m.OutboundTrafficPolicy = &meshconfig.MeshConfig_OutboundTrafficPolicy{Mode: meshconfig.MeshConfig_OutboundTrafficPolicy_REGISTRY_ONLY}
}

func meshNoAutoMTLS(m *meshconfig.MeshConfig) {
	m.EnableAutoMtls.Value = false
}

var (
	fHBONE      = boolFlag("PILOT_ENABLE_SENDING_HBONE", &features.EnableHBONESend, true)
	fAmbientMN  = boolFlag("AMBIENT_ENABLE_MULTI_NETWORK", &features.EnableAmbientMultiNetwork, true)
	fAmbientMNI = boolFlag("AMBIENT_ENABLE_MULTI_NETWORK_INGRESS", &features.EnableAmbientIngressMultiNetwork, true)
	fDualStack  = boolFlag("ISTIO_DUAL_STACK", &features.EnableDualStack, true)
)

var mn = worldOpts{Gateways: true}

// configurations returns the set; the order is part of the case numbering.
func configurations() []*cfg {
	return []*cfg{
		{Name: "plain", Family: "plain", Base: "sidecar"},
		{Name: "plain-router", Family: "plain", Base: "router", YAML: gwHTTP},

		{Name: "locality-failover", Family: "locality", Base: "sidecar", YAML: drFailover},
		{Name: "locality-failover-router", Family: "locality", Base: "router", YAML: gwHTTP + drFailover},
		{Name: "locality-distribute", Family: "locality", Base: "sidecar", YAML: drDistribute},
		{Name: "locality-failover-priority", Family: "locality", Base: "sidecar", YAML: drFailoverPriority},
		{Name: "locality-failover-priority-router", Family: "locality", Base: "router", YAML: gwHTTP + drFailoverPriority},
		{Name: "locality-mesh-default", Family: "locality", Base: "sidecar", YAML: drOutlierOnly, Mesh: meshLocality},

		{Name: "multinetwork", Family: "multinetwork", Base: "sidecar", World: mn},
		{Name: "multinetwork-router", Family: "multinetwork", Base: "router", YAML: gwHTTP, World: mn},
		{Name: "multinetwork-subsets-failover", Family: "multinetwork", Base: "sidecar", YAML: drSubsets + drOutlierC, World: mn},
		{Name: "multinetwork-auto-passthrough", Family: "multinetwork", Base: "router", YAML: gwHTTP + gwAutoPassthrough, World: mn},
		{Name: "multinetwork-serviceentry", Family: "multinetwork", Base: "sidecar", YAML: seDNS, World: mn},

		{Name: "cluster-local", Family: "cluster", Base: "sidecar", Mesh: meshClusterLocal, World: worldOpts{SameCluster: true}},
		{Name: "cluster-local-router", Family: "cluster", Base: "router", YAML: gwHTTP, Mesh: meshClusterLocal, World: worldOpts{SameCluster: true, Gateways: true}},
		{Name: "self-discovery", Family: "cluster", Base: "sidecar", YAML: drOutlierOnly, BaseEdit: func(n *nodeSpec) {
			n.Meta.EnableSelfDiscovery = true
		}},
		{Name: "zone-aware", Family: "locality", Base: "sidecar", YAML: drZoneAware, BaseEdit: func(n *nodeSpec) { n.Meta.EnableSelfDiscovery = true }},
		{Name: "zone-aware-no-outlier-router", Family: "locality", Base: "router", YAML: gwHTTP + strings.Replace(drZoneAware, outlierBlock, "", 1)},
		{Name: "traffic-distribution", Family: "locality", Base: "sidecar", World: worldOpts{TrafficDist: true}},
		{Name: "node-local", Family: "cluster", Base: "sidecar", World: worldOpts{NodeLocalB: true}},

		{Name: "dr-workload-selector", Family: "destinationrule", Base: "sidecar", YAML: drWorkloadSelector},
		{Name: "dr-workload-selector-router", Family: "destinationrule", Base: "router", YAML: gwHTTP + drWorkloadSelector},
		{Name: "dr-export-to", Family: "destinationrule", Base: "sidecar", YAML: drExportTo},
		{Name: "dr-root-namespace", Family: "destinationrule", Base: "sidecar", YAML: drRootNamespace},
		{Name: "dr-subsets", Family: "destinationrule", Base: "sidecar", YAML: drSubsets},
		{Name: "dr-file-mtls", Family: "destinationrule", Base: "sidecar", YAML: drFileMTLS},

		{Name: "peerauth-strict", Family: "mtls", Base: "sidecar", YAML: paStrict},
		{Name: "peerauth-mesh-dr-tls", Family: "mtls", Base: "sidecar", YAML: paMeshAndDRTLS},
		{Name: "automtls-off", Family: "mtls", Base: "sidecar", YAML: paStrict, Mesh: meshNoAutoMTLS},

		{Name: "sidecar-scope", Family: "sidecar", Base: "sidecar", YAML: sidecarScope},
		{Name: "sidecar-scope-sel", Family: "sidecar", Base: "sidecar", YAML: sidecarSel},
		{Name: "sidecar-ports", Family: "sidecar", Base: "sidecar", YAML: sidecarPorts},
		{Name: "registry-only", Family: "sidecar", Base: "sidecar", YAML: sidecarAllowAny, Mesh: meshRegistryOnly},

		{Name: "envoyfilter-version", Family: "envoyfilter", Base: "sidecar", YAML: ef("ef-version", "istio-system", "", "version")},
		{Name: "envoyfilter-version-router", Family: "envoyfilter", Base: "router", YAML: gwHTTP + ef("ef-version", "istio-system", "", "version")},
		{Name: "envoyfilter-metadata", Family: "envoyfilter", Base: "sidecar", YAML: ef("ef-metadata", "istio-system", "", "metadata")},
		{Name: "envoyfilter-metadata-router", Family: "envoyfilter", Base: "router", YAML: gwHTTP + ef("ef-metadata", "istio-system", "", "metadata")},
		{Name: "envoyfilter-meta-field", Family: "envoyfilter", Base: "sidecar", YAML: ef("ef-node", "default", "", "meta-field")},
		{Name: "envoyfilter-selector", Family: "envoyfilter", Base: "sidecar", YAML: ef("ef-app-a", "default", "app: a", "") + ef("ef-sel", "default", "sel: \"on\"", "") + ef("ef-other", "other", "", "")},

		{Name: "vs-source-match", Family: "virtualservice", Base: "sidecar", YAML: vsSource},
		{Name: "vs-export-to", Family: "virtualservice", Base: "sidecar", YAML: vsExportTo},

		{Name: "gateway-credentials", Family: "sds", Base: "router", YAML: gwSDS, Secrets: true},
		{Name: "sidecar-credentials", Family: "sds", Base: "sidecar", YAML: gwSDS, Secrets: true},

		{Name: "serviceentry-dns", Family: "serviceentry", Base: "sidecar", YAML: seDNS},
		{Name: "serviceentry-dns-dualstack", Family: "serviceentry", Base: "sidecar", YAML: seDNS, Flags: []flag{fDualStack}},
		{Name: "dualstack-router", Family: "serviceentry", Base: "router", YAML: gwHTTP + seDNS, Flags: []flag{fDualStack}},

		{Name: "hbone", Family: "ambient", Base: "sidecar", Flags: []flag{fHBONE}, World: worldOpts{Gateways: true, HBONEGws: true}},
		{Name: "hbone-router", Family: "ambient", Base: "router", YAML: gwHTTP, Flags: []flag{fHBONE}, World: worldOpts{Gateways: true, HBONEGws: true}},
		{Name: "ambient-multinetwork-router", Family: "ambient", Base: "router", YAML: gwHTTP, Flags: []flag{fHBONE, fAmbientMN, fAmbientMNI}, World: worldOpts{Gateways: true, HBONEGws: true}},
	}
}
