package c06a

import (
	"fmt"
	"testing"
	"time"

	"google.golang.org/protobuf/proto"

	"istio.io/istio/pilot/pkg/model"
	"istio.io/istio/pilot/pkg/xds"
	"istio.io/istio/pilot/pkg/xds/endpoints"
	v3 "istio.io/istio/pilot/pkg/xds/v3"
	xdsfake "istio.io/istio/pilot/test/xds"
	"istio.io/istio/pkg/config/protocol"
	"istio.io/istio/pkg/util/sets"
	"istio.io/istio/zz_verif/engine"
)

// Part g: endpoint updates against the cached EDS responses, on the real endpoint index and the real
// EDS generator wired as istiod wires them (one cache for both). Every sequence of shard updates from
// a menu of endpoint sets (healthy / not ready with and without the send-unhealthy flag / other service
// account / empty / second registry), shard and service deletions, with a generation for two equal
// proxies after every subset of the steps: what the generator serves (possibly from the cache) must be
// what a cache-less build from the index yields at that moment - also when the update asked for no push.

type epGOp struct {
	Kind  string `json:"kind"` // set | delshard | delsvc
	Shard int    `json:"shard"`
	Set   int    `json:"set,omitempty"`
}

func (o epGOp) String() string {
	if o.Kind == "set" {
		return fmt.Sprintf("set(shard%d,%s)", o.Shard, epGSets[o.Set].Name)
	}
	return fmt.Sprintf("%s(shard%d)", o.Kind, o.Shard)
}

type epGSpec struct {
	IP       string
	Health   model.HealthStatus
	SendFlag bool
	SA       string
}

var epGSets = []struct {
	Name string
	Eps  []epGSpec
}{
	{"A", []epGSpec{{"10.0.0.1", model.Healthy, false, "sa1"}}},
	{"A+B", []epGSpec{{"10.0.0.1", model.Healthy, false, "sa1"}, {"10.0.0.2", model.Healthy, false, "sa1"}}},
	{"A+B(not-ready)", []epGSpec{{"10.0.0.1", model.Healthy, false, "sa1"}, {"10.0.0.2", model.UnHealthy, false, "sa1"}}},
	{"A+B(not-ready,sent)", []epGSpec{{"10.0.0.1", model.Healthy, true, "sa1"}, {"10.0.0.2", model.UnHealthy, true, "sa1"}}},
	{"A(sa2)", []epGSpec{{"10.0.0.1", model.Healthy, false, "sa2"}}},
	{"A(draining)", []epGSpec{{"10.0.0.1", model.Draining, false, "sa1"}}},
	{"none", nil},
}

var epGShards = []model.ShardKey{{Cluster: "reg-a", Provider: "External"}, {Cluster: "reg-b", Provider: "External"}}

type epGWorld struct {
	s     *xdsfake.FakeDiscoveryServer
	gen   *xds.EdsGenerator
	p     [2]*model.Proxy
	host  string
	cname string
}

func newEpGWorld(t *testing.T) *epGWorld {
	w := &epGWorld{host: "vm.example.com", cname: "outbound|80||vm.example.com"}
	w.s = xdsfake.NewFakeDiscoveryServer(t, xdsfake.FakeOptions{})
	w.s.MemRegistry.AddService(&model.Service{
		Hostname:       "vm.example.com",
		DefaultAddress: "10.10.0.1",
		Ports:          model.PortList{{Name: "http", Port: 80, Protocol: protocol.HTTP}},
	})
	w.s.Discovery.EDSUpdate(epGShards[0], w.host, "", w.build(0, 0))
	w.s.EnsureSynced(t)
	w.s.Discovery.Push(&model.PushRequest{Forced: true})
	env := w.s.Discovery.Env
	// production wiring (bootstrap.InitGenerators on the process's single Environment)
	w.gen = &xds.EdsGenerator{Cache: env.Cache, EndpointIndex: env.EndpointIndex}
	for i := range w.p {
		w.p[i] = w.s.SetupProxy(&model.Proxy{ID: fmt.Sprint(i + 1), IPAddresses: []string{fmt.Sprintf("10.1.1.%d", i+1)}})
	}
	return w
}

func (w *epGWorld) build(shard, set int) []*model.IstioEndpoint {
	var out []*model.IstioEndpoint
	for _, e := range epGSets[set].Eps {
		ip := e.IP
		if shard == 1 {
			ip = "10.9" + ip[4:]
		}
		out = append(out, &model.IstioEndpoint{
			Addresses: []string{ip}, EndpointPort: 8080, ServicePortName: "http",
			HealthStatus: e.Health, SendUnhealthyEndpoints: e.SendFlag, ServiceAccount: e.SA,
		})
	}
	return out
}

func (w *epGWorld) reset() {
	idx := w.s.Discovery.Env.EndpointIndex
	idx.DeleteShard(epGShards[1])
	idx.UpdateServiceEndpoints(epGShards[0], w.host, "", w.build(0, 0), true)
	w.s.Discovery.Env.Cache.ClearAll()
}

func (w *epGWorld) apply(o epGOp) {
	idx := w.s.Discovery.Env.EndpointIndex
	switch o.Kind {
	case "set":
		idx.UpdateServiceEndpoints(epGShards[o.Shard], w.host, "", w.build(o.Shard, o.Set), true)
	case "delshard":
		idx.DeleteShard(epGShards[o.Shard])
	case "delsvc":
		idx.DeleteServiceShard(epGShards[o.Shard], w.host, "", true)
	}
}

// check: served (cache allowed) == cache-less build, for both proxies
func (w *epGWorld) check() string {
	for i, p := range w.p {
		wr := &model.WatchedResource{TypeUrl: v3.EndpointType, ResourceNames: sets.New(w.cname)}
		req := &model.PushRequest{Push: w.s.PushContext(), Start: time.Now(), Forced: true}
		res, _, err := w.gen.Generate(p, wr, req)
		if err != nil || len(res) != 1 {
			return fmt.Sprintf("generation failed: %v (%d resources)", err, len(res))
		}
		eb := endpoints.NewEndpointBuilder(w.cname, p, w.s.PushContext())
		want := eb.BuildClusterLoadAssignment(w.s.Discovery.Env.EndpointIndex)
		got, err := res[0].Resource.UnmarshalNew()
		if err != nil {
			return "unreadable resource: " + err.Error()
		}
		if !proto.Equal(got, want) {
			return fmt.Sprintf("proxy %d is served %v, a cache-less build yields %v", i+1, summarizeG(got), summarizeG(want))
		}
	}
	return ""
}

func summarizeG(m proto.Message) string {
	b, _ := (proto.MarshalOptions{Deterministic: true}).Marshal(m)
	return fmt.Sprintf("%d bytes %s", len(b), engine.Hash(string(b)))
}

func TestC06g(t *testing.T) {
	env := engine.GetEnv()
	res := engine.NewResult("C06", "g-endpoint-updates-real-index")
	res.Rule = "every sequence of <= 3 (quick) / 4 (thorough) operations over {UpdateServiceEndpoints(shard in 2 registries, one of 7 endpoint sets), DeleteShard, DeleteServiceShard} on the real EndpointIndex sharing its cache with the real EdsGenerator x every subset of steps after which two equal proxies ask for the cluster; served == cache-less build from the index at that moment; non-trivial = sequence with a generation before and after a change"
	defer res.Write(t, env)
	var alphabet []epGOp
	for sh := 0; sh < 2; sh++ {
		for s := range epGSets {
			alphabet = append(alphabet, epGOp{Kind: "set", Shard: sh, Set: s})
		}
		alphabet = append(alphabet, epGOp{Kind: "delshard", Shard: sh}, epGOp{Kind: "delsvc", Shard: sh})
	}
	type rp struct {
		Ops  []epGOp `json:"ops"`
		Mask int    `json:"generate_after_mask"`
	}
	w := newEpGWorld(t)
	run := func(ops []epGOp, mask int) (string, string) {
		w.reset()
		if d := w.check(); d != "" { // fills the cache
			return "initial", d
		}
		for i, o := range ops {
			w.apply(o)
			if mask&(1<<i) != 0 || i == len(ops)-1 {
				if d := w.check(); d != "" {
					return "stale-after:" + o.String(), d
				}
			}
		}
		return "", ""
	}
	if env.Replay != "" {
		var r rp
		if err := engine.ReadReplay(env.Replay, &r); err != nil {
			t.Fatal(err)
		}
		if k, d := run(r.Ops, r.Mask); k != "" {
			res.Violate("endpoint-cache:"+k, d, r)
		}
		return
	}
	depth := 3
	if env.Thorough() {
		depth = 4
	}
	res.Bounds["depth"] = depth
	res.Bounds["alphabet"] = len(alphabet)
	var ord int64
	for n := 1; n <= depth; n++ {
		engine.Sequences(len(alphabet), n, func(_ int64, seq []int) bool {
			ord++
			if !env.Mine(ord) {
				return true
			}
			if env.Expired() {
				res.Cap(fmt.Sprintf("deadline at length %d", n))
				return false
			}
			ops := make([]epGOp, n)
			for i, x := range seq {
				ops[i] = alphabet[x]
			}
			for mask := 0; mask < 1<<(n-1); mask++ {
				k, d := run(ops, mask)
				res.Evaluations++
				res.Traces++
				res.Transitions += int64(n)
				if n >= 2 {
					res.NontrivialCase(fmt.Sprint(seq, mask))
				}
				if k != "" {
					res.Violate("endpoint-cache:"+k, fmt.Sprintf("%s after %v (generations after steps %b)", d, ops, mask), rp{ops, mask})
					res.Outcome("violation")
				} else {
					res.Outcome("ok")
				}
			}
			if ord%997 == 0 {
				res.Sample(fmt.Sprint(ops))
			}
			return true
		})
	}
	res.States = ord
}
